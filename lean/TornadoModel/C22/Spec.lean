/-
C22 — specification side (core Lean only, executable through the driver).

* `WellFormed t ms`: what the theorems assume about the regex matches on the escaped text `t`
  (checked by the harness on every input, on CPython's actual match list).
* `stripTags`: remove every `<…>`; `checkOutput`: tokenise linkify's output into text and
  `<a href="…"…>label</a>` and test every clause of the property statement against the escaped input.
-/
import TornadoModel.C21.Spec
import TornadoModel.C22.Model
namespace TornadoModel.C22.Spec
open TornadoModel.C21 (Str xhtmlEscape)
open TornadoModel.C21.Spec (escapeSafe startsWith)
open TornadoModel.C22

def wwwDot : Str := [119, 119, 119, 46]

def wfMatch (t : Str) (m : M) : Bool :=
  let url := slice t m.start m.stop
  m.start < m.stop && m.stop ≤ t.length && escapeSafe url &&
  (match m.proto, m.slashes with
   | some p, some sl =>
     !p.isEmpty && (sl = [47] || sl = [47, 47] || sl = [47, 47, 47]) && startsWith (p ++ [58] ++ sl) url
   | none, none => startsWith wwwDot url
   | _, _ => false)

def wfFrom (t : Str) : Nat → List M → Bool
  | _, [] => true
  | pos, m :: ms => pos ≤ m.start && wfMatch t m && wfFrom t m.stop ms

/-- matches are in order, non-overlapping, inside the text, non-empty, do not cut an entity, and either
start with `proto:` + 1–3 slashes (groups 2, 3) or with `www.` (no groups) -/
def WellFormed (t : Str) (ms : List M) : Prop := wfFrom t 0 ms = true

/-- remove every `<…>` (first flag: inside a tag) -/
def stripGo : Bool → Str → Str
  | _, [] => []
  | false, c :: cs => if c = 60 then stripGo true cs else c :: stripGo false cs
  | true, c :: cs => if c = 62 then stripGo false cs else stripGo true cs
def stripTags (s : Str) : Str := stripGo false s

inductive Seg where
  | text (s : Str)
  | link (href params label : Str)
  deriving Repr, DecidableEq

def cutAt (c : Nat) : Str → Option (Str × Str)
  | [] => none
  | x :: xs =>
    if x = c then some ([], xs)
    else match cutAt c xs with
      | some (a, b) => some (x :: a, b)
      | none => none

def dropPrefix (p : Str) (s : Str) : Option Str := if startsWith p s then some (s.drop p.length) else none

/-- tokenizer for linkify output: text, `<a href="H"P>L</a>`, text, … -/
def parseOut : Nat → Str → Option (List Seg)
  | 0, _ => none
  | fuel + 1, s =>
    let txt := s.takeWhile (· != 60)
    let rest := s.drop txt.length
    if rest.isEmpty then some (if txt.isEmpty then [] else [.text txt])
    else do
      let r1 ← dropPrefix aOpen rest
      let (href, r2) ← cutAt 34 r1
      let (params, r3) ← cutAt 62 r2
      let (label, r4) ← cutAt 60 r3
      let r5 ← dropPrefix [47, 97, 62] r4
      let more ← parseOut fuel r5
      pure ((if txt.isEmpty then [] else [.text txt]) ++ .link href params label :: more)

def isProperPrefix (p s : Str) : Bool := p.length < s.length && startsWith p s

def hasPermittedProto (permitted : List Str) (url : Str) : Bool :=
  permitted.any (fun p => startsWith (p ++ [58]) url)

/-- the clauses of the property for one link whose URL text is `url` -/
def checkLink (shorten : Bool) (permitted : List Str) (url href label : Str) : Except String Unit :=
  if href.any (fun c => c = 34 || c = 60 || c = 62) then .error "href-bad-char"
  else if !((href = url && hasPermittedProto permitted url)
            || (href = httpPrefix ++ url && startsWith wwwDot url)) then .error "href-protocol"
  else if label = url then .ok ()
  else if !shorten then .error "label-differs"
  else
    let p := label.take (label.length - 3)
    if !(label.length ≥ 3 && label.drop (label.length - 3) = dots && isProperPrefix p url) then .error "label-not-prefix"
    else if !escapeSafe p then .error "entity-split"
    else .ok ()

def checkSegs (shorten : Bool) (permitted : List Str) (t : Str) : Nat → List Seg → Except String Unit
  | pos, [] => if pos = t.length then .ok () else .error "text-lost"
  | pos, .text s :: r =>
    if startsWith s (t.drop pos) then checkSegs shorten permitted t (pos + s.length) r else .error "text-differs"
  | pos, .link href _ label :: r =>
    let here := t.drop pos
    let url? : Option Str :=
      if startsWith href here then some href
      else match dropPrefix httpPrefix href with
        | some u => if startsWith u here then some u else none
        | none => none
    match url? with
    | none => .error "href-not-in-text"
    | some url =>
      match checkLink shorten permitted url href label with
      | .error e => .error e
      | .ok () => checkSegs shorten permitted t (pos + url.length) r

/-- the whole property on one output: `t` is the escaped input text -/
def checkOutput (shorten : Bool) (permitted : List Str) (t out : Str) : Except String Unit :=
  match parseOut (out.length + 1) out with
  | none => .error "unparseable"
  | some segs => checkSegs shorten permitted t 0 segs

end TornadoModel.C22.Spec
