/- C22 driver -/
import TornadoModel.Base.Wire
import TornadoModel.C22.Spec
namespace TornadoModel.C22.Drv
open TornadoModel TornadoModel.Wire TornadoModel.C21 TornadoModel.C22

def decOptStr (v : V) : Option (Option Str) :=
  if v.isNone then some none else (v.cps?).map some

def decM (v : V) : Option M := do
  let l ← v.list?
  match l with
  | [a, b, p, s] => pure ⟨← a.nat?, ← b.nat?, ← decOptStr p, ← decOptStr s⟩
  | _ => none

def isPrefixB (p s : Str) : Bool := Spec.startsWith p s

/-- the callables the harness uses for `extra_params` -/
def decExtra (v : V) : Option Extra := do
  let l ← v.list?
  match l with
  | [.atom "str", s] => pure (.str (← s.cps?))
  | [.atom "const", s] => let c ← s.cps?; pure (.call (fun _ => c))
  | [.atom "prefix", p, a, b] =>
    let p ← p.cps?; let a ← a.cps?; let b ← b.cps?
    pure (.call (fun href => if isPrefixB p href then a else b))
  | [.atom "echo", a, b] =>
    let a ← a.cps?; let b ← b.cps?
    pure (.call (fun href => a ++ href ++ b))
  | _ => none

def encRes : Except String Unit → V
  | .ok () => .atom "ok"
  | .error e => .atom e

def handle (toks : List String) : String :=
  match toks.mapM V.parse with
  | none => err "bad-arg"
  | some args =>
    match args with
    | [.atom "linkify", t, ms, sh, ex, rq, pm] =>
      match t.cps?, ms.list? >>= (·.mapM decM), sh.bool?, decExtra ex, rq.bool?, pm.list? >>= (·.mapM V.cps?) with
      | some t, some ms, some sh, some ex, some rq, some pm => ok [V.ofCps (linkify ⟨sh, ex, rq, pm⟩ t ms)]
      | _, _, _, _, _, _ => err "bad-arg"
    | [.atom "wellFormed", t, ms] =>
      match t.cps?, ms.list? >>= (·.mapM decM) with
      | some t, some ms => ok [V.ofBool (Spec.wfFrom (xhtmlEscape t) 0 ms)]
      | _, _ => err "bad-arg"
    | [.atom "check", t, out, sh, pm] =>
      match t.cps?, out.cps?, sh.bool?, pm.list? >>= (·.mapM V.cps?) with
      | some t, some out, some sh, some pm => ok [encRes (Spec.checkOutput sh pm (xhtmlEscape t) out)]
      | _, _, _, _ => err "bad-arg"
    | [.atom "stripTags", out] =>
      match out.cps? with
      | some out => ok [V.ofCps (Spec.stripTags out)]
      | none => err "bad-arg"
    | _ => err "bad-cmd"

end TornadoModel.C22.Drv
