/-
C22 — model of `tornado.escape.linkify` (core Lean only), as of the `fix:` commit for defect D8.

The text is escaped first (`C21.xhtmlEscape`); `_URL_RE.sub(make_link, text)` is modelled as a left-to-right
replacement over the list of matches that CPython's regex engine found (span of the whole match = group 1,
group 2 = protocol, group 3 = slashes).  The match list is *data* supplied by the harness; the theorems hold
for every match list satisfying `WellFormed`.
-/
import TornadoModel.C21.Model
namespace TornadoModel.C22
open TornadoModel.C21 (Str xhtmlEscape splitOnC)

/-- one regex match: `m.span()`, `m.group(2)`, `m.group(3)` -/
structure M where
  start : Nat
  stop : Nat
  proto : Option Str
  slashes : Option Str
  deriving Repr, DecidableEq

/-- the `extra_params` argument: a string or a callable -/
inductive Extra where
  | str (s : Str)
  | call (f : Str → Str)

structure Opts where
  shorten : Bool
  extra : Extra
  requireProtocol : Bool
  permitted : List Str

/-- `str.isspace` (CPython 3.12 Unicode database) -/
def isPySpace (c : Nat) : Bool :=
  (9 ≤ c && c ≤ 13) || (28 ≤ c && c ≤ 32) || c = 133 || c = 160 || c = 5760 || (8192 ≤ c && c ≤ 8202)
    || c = 8232 || c = 8233 || c = 8239 || c = 8287 || c = 12288

/-- `s.strip()` -/
def strip (s : Str) : Str := ((s.dropWhile isPySpace).reverse.dropWhile isPySpace).reverse

/-- `text[a:b]` for `a ≤ b` -/
def slice (text : Str) (a b : Nat) : Str := (text.drop a).take (b - a)

/-- `s.split(chr c)[0]` -/
def firstPiece (c : Nat) (s : Str) : Str := s.takeWhile (· != c)

/-- `s.rfind(chr c)`: index of the last occurrence -/
def rfind (c : Nat) : Str → Option Nat
  | [] => none
  | x :: xs => match rfind c xs with
    | some i => some (i + 1)
    | none => if x = c then some 0 else none

def maxLen : Nat := 30
def dots : Str := [46, 46, 46]

/-- first clipping step of `make_link`: `url[:proto_len] + parts[0] + "/" + parts[1][:8].split("?")[0].split(".")[0]`
when the rest of the URL has a `/` -/
def clip1 (url : Str) (protoLen : Nat) : Str :=
  match splitOnC 47 (url.drop protoLen) with
  | p0 :: p1 :: _ => url.take protoLen ++ p0 ++ [47] ++ firstPiece 46 (firstPiece 63 (p1.take 8))
  | _ => url

/-- second step: `if len(url) > max_len * 1.5: url = url[:max_len]` -/
def clip2 (u : Str) : Str := if 2 * u.length > 3 * maxLen then u.take maxLen else u

def clip (url : Str) (protoLen : Nat) : Str := clip2 (clip1 url protoLen)

/-- `amp = url.rfind("&"); if amp != -1 and ";" not in url[amp:]: url = url[:amp]` (the D8 fix) -/
def dropCutEntity (url : Str) : Str :=
  match rfind 38 url with
  | some amp => if !(url.drop amp).contains 59 then url.take amp else url
  | none => url

/-- label and whether a `title` attribute is added, for `shorten and len(url) > max_len` -/
def shortenLabel (url : Str) (protoLen : Nat) : Str × Bool :=
  let c := clip url protoLen
  if c != url then
    let lab := dropCutEntity c ++ dots
    if lab.length ≥ url.length then (url, false) else (lab, true)
  else (url, false)

def httpPrefix : Str := [104, 116, 116, 112, 58, 47, 47]          -- http://
def titleOpen : Str := [32, 116, 105, 116, 108, 101, 61, 34]      -- ` title="`

/-- the initial `extra_params` normalisation and the per-link `params` value -/
def paramsFor (e : Extra) (href : Str) : Str :=
  match e with
  | .str s => if s.isEmpty then [] else 32 :: strip s
  | .call f => 32 :: strip (f href)

structure Link where
  href : Str
  params : Str
  label : Str
  deriving Repr, DecidableEq

/-- `proto` is truthy (group 2 took part in the match) -/
def hasProto (m : M) : Bool := match m.proto with | some p => !p.isEmpty | none => false

/-- `proto_len = len(proto) + 1 + len(m.group(3) or "")`, or 0 -/
def protoLen (m : M) : Nat :=
  if hasProto m then (m.proto.getD []).length + 1 + (m.slashes.getD []).length else 0

/-- `make_link`: `none` = the URL text is left alone -/
def linkParts (o : Opts) (m : M) (url : Str) : Option Link :=
  if o.requireProtocol && !hasProto m then none
  else if hasProto m && !(o.permitted.contains (m.proto.getD [])) then none
  else
    let href := if hasProto m then url else httpPrefix ++ url
    let params := paramsFor o.extra href
    if o.shorten && url.length > maxLen then
      let sl := shortenLabel url (protoLen m)
      some ⟨href, if sl.2 then params ++ titleOpen ++ href ++ [34] else params, sl.1⟩
    else some ⟨href, params, url⟩

def aOpen : Str := [60, 97, 32, 104, 114, 101, 102, 61, 34]   -- `<a href="`
def aClose : Str := [60, 47, 97, 62]                           -- `</a>`

def renderLink (l : Link) : Str := aOpen ++ l.href ++ [34] ++ l.params ++ [62] ++ l.label ++ aClose

def makeLink (o : Opts) (m : M) (url : Str) : Str :=
  match linkParts o m url with
  | none => url
  | some l => renderLink l

/-- `_URL_RE.sub(make_link, text)` over the given matches, from position `pos` -/
def subGo (f : M → Str → Str) (text : Str) : Nat → List M → Str
  | pos, [] => text.drop pos
  | pos, m :: ms => slice text pos m.start ++ f m (slice text m.start m.stop) ++ subGo f text m.stop ms

/-- `linkify(text, …)` given the matches of `_URL_RE` on the escaped text -/
def linkify (o : Opts) (text : Str) (ms : List M) : Str :=
  let t := xhtmlEscape text
  subGo (makeLink o) t 0 ms

end TornadoModel.C22
