import TornadoModel.C22.Lemmas
namespace TornadoModel.C22
end TornadoModel.C22
