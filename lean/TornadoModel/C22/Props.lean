/-
C22 — property theorems for `linkify`.  `t = xhtmlEscape text` is the escaped input; `ms` is ANY match list with
`Spec.WellFormed t ms` (the harness checks this predicate on CPython's real `_URL_RE` matches for every input).
-/
import TornadoModel.C22.Lemmas
import TornadoModel.C21.Props
set_option linter.unusedSimpArgs false
set_option linter.unusedVariables false
namespace TornadoModel.C22
open TornadoModel.C21 (Str xhtmlEscape splitOnC)
open TornadoModel.C21.Spec (escapeSafe startsWith)
open TornadoModel.C22.Spec

/-- everything `make_link` decides, in one place -/
theorem linkParts_some (o : Opts) (m : M) (url : Str) (l : Link) (h : linkParts o m url = some l) :
    l.href = (if hasProto m then url else httpPrefix ++ url)
    ∧ (hasProto m = true → o.permitted.contains (m.proto.getD []) = true)
    ∧ (o.requireProtocol = true → hasProto m = true)
    ∧ (l.label = url ∨ (o.shorten = true ∧ l.label = (shortenLabel url (protoLen m)).1))
    ∧ (l.params = paramsFor o.extra l.href ∨ l.params = paramsFor o.extra l.href ++ titleOpen ++ l.href ++ [34]) := by
  unfold linkParts at h
  by_cases c1 : (o.requireProtocol && !hasProto m) = true
  · rw [if_pos c1] at h; cases h
  by_cases c2 : (hasProto m && !(o.permitted.contains (m.proto.getD []))) = true
  · rw [if_neg c1, if_pos c2] at h; cases h
  rw [if_neg c1, if_neg c2] at h
  have k2 : hasProto m = true → o.permitted.contains (m.proto.getD []) = true := by
    intro hp; simp [hp] at c2; simpa using c2
  have k1 : o.requireProtocol = true → hasProto m = true := by
    intro hr; simp [hr] at c1; exact c1
  by_cases c3 : (o.shorten && decide (url.length > maxLen)) = true
  · simp only [c3, if_true] at h
    simp only [Option.some.injEq] at h
    subst h
    refine ⟨rfl, k2, k1, Or.inr ⟨?_, rfl⟩, ?_⟩
    · simp only [Bool.and_eq_true] at c3; exact c3.1
    · dsimp only
      split
      · right; rfl
      · left; rfl
  · dsimp only at h
    rw [if_neg c3] at h
    simp only [Option.some.injEq] at h
    subst h
    exact ⟨rfl, k2, k1, Or.inl rfl, Or.inl rfl⟩

/-- what `make_link` can return for a match: the label is the URL text, or (only when shortening) a proper
prefix of it followed by `...` -/
theorem shorten_label_prefix (o : Opts) (m : M) (url : Str) (l : Link) (h : linkParts o m url = some l) :
    l.label = url ∨ (o.shorten = true ∧ ∃ p, p <+: url ∧ p.length < url.length ∧ l.label = p ++ dots) := by
  obtain ⟨_, _, _, h4, _⟩ := linkParts_some o m url l h
  rcases h4 with h4 | ⟨hs, h4⟩
  · left; exact h4
  · rcases shortenLabel_prefix url (protoLen m) with h1 | ⟨p, hp1, hp2, hp3, _⟩
    · left; rw [h4, h1]
    · right; exact ⟨hs, p, hp1, hp2, by rw [h4, hp3]⟩

/-- without `shorten` the label is always the URL text itself -/
theorem label_eq_url (o : Opts) (m : M) (url : Str) (l : Link) (hs : o.shorten = false)
    (h : linkParts o m url = some l) : l.label = url := by
  rcases shorten_label_prefix o m url l h with h1 | ⟨h2, _⟩
  · exact h1
  · rw [hs] at h2; cases h2

/-- Every inserted href consists of escaped-text characters only (no `"`, `<`, `>`, `'`), and either is the
matched URL itself whose protocol (regex group 2) is in `permitted_protocols`, or is `http://` + a URL that
starts with `www.` and has no protocol. -/
theorem href_safe (o : Opts) (text : Str) (m : M) (l : Link)
    (hw : wfMatch (xhtmlEscape text) m = true)
    (h : linkParts o m (slice (xhtmlEscape text) m.start m.stop) = some l) :
    (∀ c ∈ l.href, c ≠ 34 ∧ c ≠ 60 ∧ c ≠ 62 ∧ c ≠ 39) ∧
    ((∃ p, m.proto = some p ∧ p ∈ o.permitted ∧ (p ++ [58]) <+: l.href
        ∧ l.href = slice (xhtmlEscape text) m.start m.stop) ∨
     (m.proto = none ∧ wwwDot <+: slice (xhtmlEscape text) m.start m.stop
        ∧ l.href = httpPrefix ++ slice (xhtmlEscape text) m.start m.stop)) := by
  obtain ⟨h1, h2, _, _, _⟩ := linkParts_some o m _ l h
  have hurl : ∀ c ∈ slice (xhtmlEscape text) m.start m.stop, c ≠ 34 ∧ c ≠ 60 ∧ c ≠ 62 ∧ c ≠ 39 := by
    intro c hc
    have := C21.escape_no_special text c (mem_slice hc)
    omega
  unfold wfMatch at hw
  simp only [Bool.and_eq_true] at hw
  obtain ⟨_, hw⟩ := hw
  cases hp : m.proto with
  | none =>
    cases hs : m.slashes with
    | none =>
      simp only [hp, hs] at hw
      have hpr : hasProto m = false := by simp [hasProto, hp]
      rw [hpr] at h1
      simp only [Bool.false_eq_true, if_false] at h1
      refine ⟨?_, Or.inr ⟨rfl, (startsWith_iff _ _).mp hw, h1⟩⟩
      intro c hc
      rw [h1] at hc
      simp only [List.mem_append] at hc
      rcases hc with hc | hc
      · simp [httpPrefix] at hc; omega
      · exact hurl c hc
    | some sl => simp [hp, hs] at hw
  | some p =>
    cases hs : m.slashes with
    | none => simp [hp, hs] at hw
    | some sl =>
      simp only [hp, hs, Bool.and_eq_true] at hw
      obtain ⟨⟨hne, _⟩, hst⟩ := hw
      have hpr : hasProto m = true := by simp [hasProto, hp]; simpa using hne
      rw [hpr] at h1
      simp only [if_true] at h1
      have hperm := h2 hpr
      simp only [hp, Option.getD_some] at hperm
      refine ⟨by rw [h1]; exact hurl, Or.inl ⟨p, rfl, by simpa using hperm, ?_, h1⟩⟩
      rw [h1]
      have := (startsWith_iff _ _).mp hst
      exact (List.prefix_append (p ++ [58]) sl).trans this

/-! ## removing the anchors -/

/-- the visible text linkify produces for one match -/
def labelOf (o : Opts) (m : M) (url : Str) : Str :=
  match linkParts o m url with
  | some l => l.label
  | none => url

/-- `extra_params` contributes no `>` (so that an anchor tag ends where linkify ends it) -/
def ParamsNoGt (o : Opts) : Prop := ∀ href, ∀ c ∈ paramsFor o.extra href, c ≠ 62

theorem strip_makeLink (o : Opts) (hP : ParamsNoGt o) (text : Str) (m : M) (r : Str)
    (hw : wfMatch (xhtmlEscape text) m = true) :
    stripGo false (makeLink o m (slice (xhtmlEscape text) m.start m.stop) ++ r)
      = labelOf o m (slice (xhtmlEscape text) m.start m.stop) ++ stripGo false r := by
  have hurl : ∀ c ∈ slice (xhtmlEscape text) m.start m.stop, c ≠ 60 ∧ c ≠ 62 := by
    intro c hc
    have := C21.escape_no_special text c (mem_slice hc)
    omega
  unfold makeLink labelOf
  cases hl : linkParts o m (slice (xhtmlEscape text) m.start m.stop) with
  | none => exact stripGo_false_append _ _ (fun c hc => (hurl c hc).1)
  | some l =>
    simp only
    have hh := (href_safe o text m l hw hl).1
    obtain ⟨_, _, _, _, hpar⟩ := linkParts_some o m _ l hl
    apply stripGo_renderLink
    · intro c hc; exact (hh c hc).2.2.1
    · intro c hc
      rcases hpar with hpar | hpar
      · rw [hpar] at hc; exact hP _ c hc
      · rw [hpar] at hc
        simp only [List.mem_append, List.mem_cons, List.mem_nil_iff, or_false] at hc
        rcases hc with ((hc | hc) | hc) | hc
        · exact hP _ c hc
        · simp [titleOpen] at hc; omega
        · exact (hh c hc).2.2.1
        · omega
    · intro c hc
      rcases shorten_label_prefix o m _ l hl with h1 | ⟨_, p, hp, _, h3⟩
      · rw [h1] at hc; exact (hurl c hc).1
      · rw [h3] at hc
        simp only [List.mem_append] at hc
        rcases hc with hc | hc
        · exact (hurl c (hp.subset hc)).1
        · simp [dots] at hc; omega

/-- Removing every tag from linkify's output leaves the escaped text with each linked URL replaced by its
label — for every match list that is well-formed on the escaped text. -/
theorem strip_anchors_labels (o : Opts) (hP : ParamsNoGt o) (text : Str) (ms : List M) (pos : Nat)
    (hw : wfFrom (xhtmlEscape text) pos ms = true) :
    stripGo false (subGo (makeLink o) (xhtmlEscape text) pos ms) = subGo (labelOf o) (xhtmlEscape text) pos ms := by
  have ht : ∀ c ∈ xhtmlEscape text, c ≠ 60 := fun c hc => (C21.escape_no_special text c hc).1
  induction ms generalizing pos with
  | nil => exact stripGo_false_noLt _ (fun c hc => ht c (List.mem_of_mem_drop hc))
  | cons m ms ih =>
    simp only [wfFrom, Bool.and_eq_true] at hw
    obtain ⟨⟨_, hm⟩, hrest⟩ := hw
    simp only [subGo, List.append_assoc]
    rw [stripGo_false_append _ _ (fun c hc => ht c (mem_slice hc)), strip_makeLink o hP text m _ hm, ih _ hrest]

theorem subGo_id (f : M → Str → Str) (hf : ∀ m url, f m url = url) (t : Str) (ms : List M) (pos : Nat)
    (hw : wfFrom t pos ms = true) : subGo f t pos ms = t.drop pos := by
  induction ms generalizing pos with
  | nil => rfl
  | cons m ms ih =>
    simp only [wfFrom, Bool.and_eq_true, decide_eq_true_eq] at hw
    obtain ⟨⟨hpos, hm⟩, hrest⟩ := hw
    have hlt : m.start < m.stop := by
      unfold wfMatch at hm; simp only [Bool.and_eq_true, decide_eq_true_eq] at hm; exact hm.1.1.1
    simp only [subGo, hf, ih _ hrest, List.append_assoc]
    rw [slice_append_drop _ _ _ (by omega), slice_append_drop _ _ _ hpos]

/-- **strip_anchors_identity**: without shortening, linkify's output with the inserted `<a …>` / `</a>`
removed is exactly the HTML-escaped input. -/
theorem strip_anchors_identity (o : Opts) (hs : o.shorten = false) (hP : ParamsNoGt o) (text : Str) (ms : List M)
    (hw : WellFormed (xhtmlEscape text) ms) :
    stripTags (linkify o text ms) = xhtmlEscape text := by
  unfold stripTags linkify
  simp only
  rw [strip_anchors_labels o hP text ms 0 hw]
  rw [subGo_id (labelOf o) ?_ _ ms 0 hw]
  · rfl
  · intro m url
    unfold labelOf
    cases hl : linkParts o m url with
    | none => rfl
    | some l => exact label_eq_url o m url l hs hl

/-! ## entities are never split -/

/-- **entity_not_split** (full statement; true of the code after the D8 fix): a link label is the URL text
itself or `p ++ "..."` where `p` is a proper prefix of the URL that ends on an entity boundary
(`escapeSafe p`: every `&` in `p` still starts a complete entity) — for every URL text that is itself a
piece of escaped text not cutting an entity (`WellFormed` guarantees it for each match). -/
theorem entity_not_split (o : Opts) (m : M) (url : Str) (l : Link) (hu : escapeSafe url = true)
    (h : linkParts o m url = some l) :
    l.label = url ∨ ∃ p, l.label = p ++ dots ∧ p <+: url ∧ p.length < url.length ∧ escapeSafe p = true := by
  obtain ⟨_, _, _, h4, _⟩ := linkParts_some o m url l h
  rcases h4 with h4 | ⟨_, h4⟩
  · left; exact h4
  · rcases shortenLabel_prefix url (protoLen m) with h1 | ⟨p, hp1, hp2, hp3, hp4⟩
    · left; rw [h4, h1]
    · right
      refine ⟨p, by rw [h4, hp3], hp1, hp2, ?_⟩
      rw [hp4]
      exact escapeSafe_dropCutEntity url _ hu (clip_prefix url _)

/-- the hypothesis of `entity_not_split` is what `WellFormed` provides for every match -/
theorem wfMatch_escapeSafe (t : Str) (m : M) (h : wfMatch t m = true) : escapeSafe (slice t m.start m.stop) = true := by
  unfold wfMatch at h
  simp only [Bool.and_eq_true] at h
  exact h.1.2

/-- the pre-fix guard (`amp > max_len - 5`) did split entities: the D8 witness, on the old repair step -/
def dropCutEntityOld (url : Str) : Str :=
  match rfind 38 url with
  | some amp => if amp > maxLen - 5 then url.take amp else url
  | none => url
/-- `http://a.com/abcde&amp;x=1234…`: `clip` gives `http://a.com/abcde&am`; the old guard kept it (amp = 18 ≤ 25) -/
theorem entity_split_before_fix :
    let url := [104, 116, 116, 112, 58, 47, 47, 97, 46, 99, 111, 109, 47, 97, 98, 99, 100, 101, 38, 97, 109, 112, 59, 120, 61]
      ++ List.replicate 25 49
    escapeSafe url = true ∧ escapeSafe (dropCutEntityOld (clip url 7)) = false
      ∧ escapeSafe (dropCutEntity (clip url 7)) = true := by decide


/-! ## non-vacuity: a concrete text, CPython's actual matches on it, and the real output -/

/-- `see http://a.com/x&y "www.b.org"` -/
def exText : Str := [115, 101, 101, 32, 104, 116, 116, 112, 58, 47, 47, 97, 46, 99, 111, 109, 47, 120, 38, 121, 32, 34,
  119, 119, 119, 46, 98, 46, 111, 114, 103, 34]
/-- `_URL_RE.finditer` on the escaped text: `(4, 24, 'http', '//')`, `(31, 40, None, None)` -/
def exMatches : List M := [⟨4, 24, some [104, 116, 116, 112], some [47, 47]⟩, ⟨31, 40, none, none⟩]
def exOpts : Opts := ⟨false, .str [114, 101, 108], false, [[104, 116, 116, 112], [104, 116, 116, 112, 115]]⟩

example : WellFormed (xhtmlEscape exText) exMatches := by unfold WellFormed; decide
example : ParamsNoGt exOpts := by
  intro href c hc
  have : paramsFor exOpts.extra href = [32, 114, 101, 108] := rfl
  rw [this] at hc; simp at hc; omega
set_option maxRecDepth 20000 in
example : stripTags (linkify exOpts exText exMatches) = xhtmlEscape exText := by rfl
set_option maxRecDepth 20000 in
example : checkOutput false exOpts.permitted (xhtmlEscape exText) (linkify exOpts exText exMatches) = .ok () := by rfl
/-- a match list that is NOT well-formed (overlapping spans) is rejected by the predicate -/
example : ¬ WellFormed (xhtmlEscape exText) [⟨4, 24, some [104, 116, 116, 112], some [47, 47]⟩, ⟨20, 40, none, none⟩] := by unfold WellFormed; decide
/-- shortening really shortens: `http://a.com/abcde&x=1234567890123456789012345` gets the label `http://a.com/abcde...`
(the D8 witness: before the fix the label was `http://a.com/abcde&am...`) -/
example : (shortenLabel ([104, 116, 116, 112, 58, 47, 47, 97, 46, 99, 111, 109, 47, 97, 98, 99, 100, 101, 38, 97, 109, 112, 59, 120, 61]
    ++ List.replicate 25 49) 7).1 = [104, 116, 116, 112, 58, 47, 47, 97, 46, 99, 111, 109, 47, 97, 98, 99, 100, 101, 46, 46, 46] := by decide

end TornadoModel.C22
