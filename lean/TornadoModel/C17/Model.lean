/-
C17 — model of the WebSocket opening handshake, server and client side (core Lean only).

Anchors (tornado/websocket.py): `WebSocketHandler.get / check_origin / get_websocket_protocol`,
`WebSocketProtocol13.accept_connection / _handle_websocket_headers / compute_accept_value / _accept_connection /
_parse_extensions_header / _create_compressors / _get_compressor_options / _process_server_headers`,
`_PerMessageDeflateCompressor/_Decompressor.__init__` (window-bits checks), `WebSocketClientConnection.headers_received`;
tornado/httputil.py `_parse_header / _encode_header`; CPython `urllib.parse.urlsplit` (netloc part), `base64.b64encode`.

Text is a list of code points (`Str`), bytes a list of naturals < 256.  `sha1` is a parameter of every function
that needs it (opaque); `select` is the application's `select_subprotocol`; `bracketOk` is the verdict of
CPython's `_check_bracketed_host` on a bracketed host (opaque, `ipaddress`).
-/
namespace TornadoModel.C17

abbrev Str := List Nat
abbrev Bytes := List Nat

def ofString (s : String) : Str := s.toList.map Char.toNat

/-! ### Python string primitives (ASCII domain) -/

def lowerC (c : Nat) : Nat := if 65 ≤ c ∧ c ≤ 90 then c + 32 else c
def lower (s : Str) : Str := s.map lowerC
/-- `str.isspace` on the ASCII range -/
def isSpace (c : Nat) : Bool := (9 ≤ c && c ≤ 13) || (28 ≤ c && c ≤ 32)
def strip (s : Str) : Str := ((s.dropWhile isSpace).reverse.dropWhile isSpace).reverse

/-- `s.split(sep)` for a one-character separator -/
def splitOn (sep : Nat) : Str → List Str
  | [] => [[]]
  | c :: cs =>
    if c = sep then [] :: splitOn sep cs
    else match splitOn sep cs with
      | [] => [[c]]
      | w :: ws => (c :: w) :: ws

/-- `s.partition("=")`: text before the first `sep`, and after it if there is one -/
def partitionOn (sep : Nat) : Str → Str × Option Str
  | [] => ([], none)
  | c :: cs =>
    if c = sep then ([], some cs)
    else let (a, b) := partitionOn sep cs; (c :: a, b)

/-- `tornado.escape.utf8` on text with code points below 256 -/
def utf8 (s : Str) : Bytes :=
  s.flatMap (fun c => if c < 128 then [c] else [192 + c / 64, 128 + c % 64])

/-! ### Base64 (`base64.b64encode`) -/

def b64char (n : Nat) : Nat :=
  if n < 26 then 65 + n else if n < 52 then 97 + (n - 26) else if n < 62 then 48 + (n - 52)
  else if n = 62 then 43 else 47

def b64enc : Bytes → Str
  | [] => []
  | [a] => [b64char (a / 4), b64char (a % 4 * 16), 61, 61]
  | [a, b] => [b64char (a / 4), b64char (a % 4 * 16 + b / 16), b64char (b % 16 * 4), 61]
  | a :: b :: c :: rest =>
    b64char (a / 4) :: b64char (a % 4 * 16 + b / 16) :: b64char (b % 16 * 4 + c / 64) :: b64char (c % 64)
      :: b64enc rest

def b64val (c : Nat) : Option Nat :=
  if 65 ≤ c ∧ c ≤ 90 then some (c - 65) else if 97 ≤ c ∧ c ≤ 122 then some (c - 71)
  else if 48 ≤ c ∧ c ≤ 57 then some (c + 4) else if c = 43 then some 62 else if c = 47 then some 63 else none

/-- strict decoder for canonical Base64 (the inverse used in the round-trip theorem) -/
def b64dec : Str → Option Bytes
  | [] => some []
  | [c0, c1, 61, 61] => do
    let v0 ← b64val c0; let v1 ← b64val c1
    if v1 % 16 = 0 then some [v0 * 4 + v1 / 16] else none
  | [c0, c1, c2, 61] => do
    let v0 ← b64val c0; let v1 ← b64val c1; let v2 ← b64val c2
    if v2 % 4 = 0 then some [v0 * 4 + v1 / 16, v1 % 16 * 16 + v2 / 4] else none
  | c0 :: c1 :: c2 :: c3 :: rest => do
    let v0 ← b64val c0; let v1 ← b64val c1; let v2 ← b64val c2; let v3 ← b64val c3
    let r ← b64dec rest
    some ((v0 * 4 + v1 / 16) :: (v1 % 16 * 16 + v2 / 4) :: (v2 % 4 * 64 + v3) :: r)
  | _ => none

def guid : Bytes := (ofString "258EAFA5-E914-47DA-95CA-C5AB0DC85B11")

/-- `WebSocketProtocol13.compute_accept_value` -/
def acceptValue (sha1 : Bytes → Bytes) (key : Str) : Str := b64enc (sha1 (utf8 key ++ guid))

/-! ### `urlparse(origin).netloc` -/

def isAlpha (c : Nat) : Bool := (65 ≤ c && c ≤ 90) || (97 ≤ c && c ≤ 122)
def isSchemeChar (c : Nat) : Bool := isAlpha c || (48 ≤ c && c ≤ 57) || c = 43 || c = 45 || c = 46
def isDelim (c : Nat) : Bool := c = 47 || c = 63 || c = 35       -- / ? #

/-- the url after `lstrip(C0 control or space)` and removal of tab, CR, LF -/
def cleanUrl (s : Str) : Str := (s.dropWhile (· ≤ 32)).filter (fun c => !(c = 9 || c = 10 || c = 13))

/-- drop a leading `scheme:` when it is a valid scheme -/
def dropScheme (u : Str) : Str :=
  match partitionOn 58 u with
  | (pre, some rest) =>
    match pre with
    | c :: _ => if isAlpha c && pre.all isSchemeChar then rest else u
    | [] => u
  | (_, none) => u

def bracketedHost (netloc : Str) : Str :=
  match (partitionOn 91 netloc).2 with
  | some after => (partitionOn 93 after).1
  | none => []

/-- `urlparse(origin).netloc`; `none` = urlsplit raises ValueError -/
def netloc (bracketOk : Str → Bool) (origin : Str) : Option Str :=
  match dropScheme (cleanUrl origin) with
  | 47 :: 47 :: rest =>
    let nl := rest.takeWhile (fun c => !isDelim c)
    let hasL := nl.contains 91
    let hasR := nl.contains 93
    if hasL != hasR then none
    else if hasL && hasR && !bracketOk (bracketedHost nl) then none
    else some nl
  | _ => some []

/-- `WebSocketHandler.check_origin` (default implementation); `none` = raises -/
def checkOriginDefault (bracketOk : Str → Bool) (origin : Str) (host : Option Str) : Option Bool :=
  (netloc bracketOk origin).map (fun nl => some (lower nl) == host)

/-! ### `_parse_header` / `_encode_header` on the extension grammar `name (; param[=value])*` -/

def unquote (v : Str) : Str :=
  match v with
  | 34 :: rest =>
    match rest.reverse with
    | 34 :: mid => mid.reverse
    | _ => v
  | _ => v

/-- insert or overwrite, keeping first-insertion order (a Python dict) -/
def dictSet (d : List (Str × Str)) (k v : Str) : List (Str × Str) :=
  match d with
  | [] => [(k, v)]
  | (k', v') :: rest => if k' = k then (k, v) :: rest else (k', v') :: dictSet rest k v

def parseParams (parts : List Str) : List (Str × Str) :=
  parts.foldl (fun d p =>
    match partitionOn 61 p with
    | (n, some v) => dictSet d (lower (strip n)) (unquote (strip v))
    | (_, none) => d) []          -- a parameter without "=" is dropped by `_parse_header`

/-- `_parse_header(e.strip())` -/
def parseHeader (e : Str) : Str × List (Str × Str) :=
  match (splitOn 59 (strip e)).map strip with
  | [] => ([], [])
  | k :: ps => (k, parseParams ps)

def strLt : Str → Str → Bool
  | [], [] => false
  | [], _ :: _ => true
  | _ :: _, [] => false
  | a :: as, b :: bs => a < b || (a = b && strLt as bs)

def insertSorted (kv : Str × Str) : List (Str × Str) → List (Str × Str)
  | [] => [kv]
  | x :: xs => if strLt kv.1 x.1 then kv :: x :: xs else x :: insertSorted kv xs

def sortParams (d : List (Str × Str)) : List (Str × Str) := d.foldr insertSorted []

/-- `_encode_header(key, pdict)` (all values are strings here) -/
def encodeHeader (key : Str) (d : List (Str × Str)) : Str :=
  (sortParams d).foldl (fun acc kv => acc ++ [59, 32] ++ kv.1 ++ [61] ++ kv.2) key

/-- `_parse_extensions_header` -/
def parseExtensions (h : Option Str) : List (Str × List (Str × Str)) :=
  match h with
  | none => []
  | some [] => []
  | some v => (splitOn 44 v).map parseHeader

/-! ### permessage-deflate parameters -/

def pmd : Str := ofString "permessage-deflate"
def allowedKeys : List Str :=
  [ofString "server_no_context_takeover", ofString "client_no_context_takeover",
   ofString "server_max_window_bits", ofString "client_max_window_bits"]

def isDigit (c : Nat) : Bool := 48 ≤ c && c ≤ 57
def decVal (s : Str) : Nat := s.foldl (fun n c => n * 10 + (c - 48)) 0

/-- `int(text)` on sign + ASCII digits; `none` = ValueError; negative values are reported as `some none` -/
def pyInt (s : Str) : Option (Option Nat) :=
  match s with
  | 45 :: ds => if !ds.isEmpty && ds.all isDigit then some (if decVal ds = 0 then some 0 else none) else none
  | 43 :: ds => if !ds.isEmpty && ds.all isDigit then some (some (decVal ds)) else none
  | ds => if !ds.isEmpty && ds.all isDigit then some (some (decVal ds)) else none

def lookup (d : List (Str × Str)) (k : Str) : Option Str := (d.find? (fun kv => kv.1 = k)).map (·.2)

/-- window bits for `side`: `none` = ValueError from `int()` -/
def wbitsOf (d : List (Str × Str)) (side : Str) : Option (Option Nat) :=
  match lookup d (side ++ ofString "_max_window_bits") with
  | none => some (some 15)
  | some v => pyInt v

/-- `_create_compressors(side, params)` succeeds (`false` = ValueError).  The compressor (our side) creates its
zlib object at once when the context is persistent, and zlib refuses a raw-deflate window of 8 bits. -/
def compressorsOk (side other : Str) (d : List (Str × Str)) : Bool :=
  d.all (fun kv => allowedKeys.contains kv.1) &&
  (match wbitsOf d side with
   | some (some w) =>
     8 ≤ w && w ≤ 15 && !((lookup d (side ++ ofString "_no_context_takeover")).isNone && w = 8)
   | _ => false) &&
  (match wbitsOf d other with
   | some (some w) => 8 ≤ w && w ≤ 15
   | _ => false)

/-! ### the server -/

structure Req where
  upgrade : Option Str
  connection : Option Str
  origin : Option Str
  secOrigin : Option Str
  host : Option Str
  key : Option Str
  version : Option Str
  protocols : Option Str
  extensions : Option Str
  deriving Repr

structure SCfg where
  allowAnyOrigin : Bool     -- the application overrides check_origin to return True
  compression : Bool        -- get_compression_options() is not None
  deriving Repr

inductive Resp
  | refused (status : Nat)                                                   -- 400 / 403 / 426 / 500
  | accepted (accept : Str) (protocol : Option Str) (extensions : Option Str)  -- 101
  deriving Repr, DecidableEq

def websocket : Str := ofString "websocket"
def upgradeTok : Str := ofString "upgrade"

def truthy (o : Option Str) : Bool := match o with | some (_ :: _) => true | _ => false

def effectiveOrigin (r : Req) : Option Str := match r.origin with | some o => some o | none => r.secOrigin

def offeredProtocols (r : Req) : List Str :=
  match r.protocols with
  | some (c :: cs) => (splitOn 44 (c :: cs)).map strip
  | _ => []

/-- `_create_compressors("server", params)` accepts the offer -/
def offerValid (e : Str × List (Str × Str)) : Bool :=
  e.1 = pmd && compressorsOk (ofString "server") (ofString "client") e.2

/-- the permessage-deflate offer that is answered, when compression is enabled: the first one whose parameters
`_create_compressors` accepts.  An offer with an unknown parameter or an invalid/unsupported value is declined
(the `except ValueError: continue` of the fixed `_accept_connection`, RFC 7692 section 5) and the next one is tried. -/
def deflateOffer (cfg : SCfg) (r : Req) : Option (List (Str × Str)) :=
  if cfg.compression then ((parseExtensions r.extensions).find? offerValid).map (·.2) else none

/-- the origin check in `WebSocketHandler.get`: `none` = check_origin raised (500), `some false` = 403 -/
def originVerdict (bracketOk : Str → Bool) (cfg : SCfg) (r : Req) : Option Bool :=
  match effectiveOrigin r with
  | none => some true
  | some o => if cfg.allowAnyOrigin then some true else checkOriginDefault bracketOk o r.host

def versionOk (r : Req) : Bool :=
  r.version == some (ofString "7") || r.version == some (ofString "8") || r.version == some (ofString "13")

/-- `WebSocketProtocol13.accept_connection` (`_handle_websocket_headers` + `_accept_connection`) -/
def acceptConnection (sha1 : Bytes → Bytes) (select : List Str → Option Str) (cfg : SCfg) (r : Req) : Resp :=
  if !(truthy r.host && truthy r.key && truthy r.version) then .refused 400
  else if truthy (select (offeredProtocols r)) && !(offeredProtocols r).contains ((select (offeredProtocols r)).getD [])
  then .refused 500      -- the `assert`
  else .accepted (acceptValue sha1 (r.key.getD []))
         (if truthy (select (offeredProtocols r)) then select (offeredProtocols r) else none)
         ((deflateOffer cfg r).map (encodeHeader pmd))

/-- `WebSocketHandler.get` -/
def serverHandshake (sha1 : Bytes → Bytes) (bracketOk : Str → Bool) (select : List Str → Option Str)
    (cfg : SCfg) (r : Req) : Resp :=
  if lower (r.upgrade.getD []) != websocket then .refused 400
  else if !((splitOn 44 (r.connection.getD [])).map (fun t => lower (strip t))).contains upgradeTok then .refused 400
  else
    match originVerdict bracketOk cfg r with
    | none => .refused 500
    | some false => .refused 403
    | some true => if !versionOk r then .refused 426 else acceptConnection sha1 select cfg r

/-! ### the client -/

structure SResp where
  status : Nat
  upgrade : Option Str
  connection : Option Str
  accept : Option Str
  extensions : Option Str
  protocol : Option Str
  deriving Repr

structure CCfg where
  key : Str
  offered : List Str       -- `subprotocols=` (empty when None)
  compression : Bool       -- compression_options is not None
  deriving Repr

inductive COut
  | notWebsocket                       -- status other than 101: an ordinary HTTP response
  | failed                             -- the handshake is rejected, the connection closed
  | ok (protocol : Option Str) (deflate : Bool)
  deriving Repr, DecidableEq

/-- `headers_received` + `_process_server_headers` -/
def clientHandshake (sha1 : Bytes → Bytes) (cfg : CCfg) (r : SResp) : COut :=
  if r.status != 101 then .notWebsocket
  else if (r.upgrade.map lower) != some websocket then .failed
  else if (r.connection.map lower) != some upgradeTok then .failed
  else if r.accept != some (acceptValue sha1 cfg.key) then .failed
  else
    let exts := parseExtensions r.extensions
    if !exts.all (fun e => e.1 = pmd && cfg.compression && compressorsOk (ofString "client") (ofString "server") e.2)
    then .failed
    else
      match r.protocol with
      | some p => if cfg.offered.contains p then .ok (some p) (!exts.isEmpty) else .failed
      | none => .ok none (!exts.isEmpty)

end TornadoModel.C17
