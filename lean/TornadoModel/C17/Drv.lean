/- C17 driver: `server`, `sspec`, `client`, `origin`, `b64`, `b64dec`, `parsehdr` -/
import TornadoModel.Base.Wire
import TornadoModel.C17.Spec
namespace TornadoModel.C17.Drv
open TornadoModel TornadoModel.Wire TornadoModel.C17

def optStr (v : V) : Option (Option Str) := if v.isNone then some none else (v.cps?).map some
def encOptStr (o : Option Str) : V := V.ofOpt V.ofCps o

def decReq (v : V) : Option Req := do
  let l ← v.list?
  match l with
  | [a, b, c, d, e, f, g, h, i] =>
    pure { upgrade := ← optStr a, connection := ← optStr b, origin := ← optStr c, secOrigin := ← optStr d,
           host := ← optStr e, key := ← optStr f, version := ← optStr g, protocols := ← optStr h,
           extensions := ← optStr i }
  | _ => none

def decSCfg (v : V) : Option SCfg := do
  let l ← v.list?
  match l with
  | [a, b] => pure { allowAnyOrigin := ← a.bool?, compression := ← b.bool? }
  | _ => none

/-- the application's select_subprotocol: first offered protocol it supports / a fixed answer / None -/
def decSelect (v : V) : Option (List Str → Option Str) := do
  let l ← v.list?
  match l with
  | [.atom "first", sup] =>
    let sup ← sup.list? >>= (·.mapM V.cps?)
    pure (fun offered => offered.find? (fun p => sup.contains p))
  | [.atom "fixed", s] => let s ← s.cps?; pure (fun _ => some s)
  | [.atom "none"] => pure (fun _ => none)
  | _ => none

def encResp : Resp → V
  | .refused n => .list [.atom "refused", .int n]
  | .accepted a p e => .list [.atom "accepted", V.ofCps a, encOptStr p, encOptStr e]

def decSResp (v : V) : Option SResp := do
  let l ← v.list?
  match l with
  | [s, a, b, c, d, e] =>
    pure { status := ← s.nat?, upgrade := ← optStr a, connection := ← optStr b, accept := ← optStr c,
           extensions := ← optStr d, protocol := ← optStr e }
  | _ => none

def decCCfg (v : V) : Option CCfg := do
  let l ← v.list?
  match l with
  | [k, off, c] => pure { key := ← k.cps?, offered := ← off.list? >>= (·.mapM V.cps?), compression := ← c.bool? }
  | _ => none

def encCOut : COut → V
  | .notWebsocket => .atom "notWebsocket"
  | .failed => .atom "failed"
  | .ok p d => .list [.atom "ok", encOptStr p, V.ofBool d]

def handle (toks : List String) : String :=
  match toks with
  | [cmd, dg, br, c, sel, r] =>
    match V.parse dg >>= V.byteNats?, V.parse br >>= V.bool?, V.parse c >>= decSCfg, V.parse sel >>= decSelect,
          V.parse r >>= decReq with
    | some dg, some br, some cfg, some select, some req =>
      match cmd with
      | "server" => ok [encResp (serverHandshake (fun _ => dg) (fun _ => br) select cfg req)]
      | "sspec" => ok [V.ofBool (Spec.shouldAccept (fun _ => br) select cfg req)]
      | _ => err "bad-cmd"
    | _, _, _, _, _ => err "bad-arg"
  | ["client", dg, c, r] =>
    match V.parse dg >>= V.byteNats?, V.parse c >>= decCCfg, V.parse r >>= decSResp with
    | some dg, some cfg, some resp => ok [encCOut (clientHandshake (fun _ => dg) cfg resp)]
    | _, _, _ => err "bad-arg"
  | ["origin", br, o, h] =>
    match V.parse br >>= V.bool?, V.parse o >>= V.cps?, V.parse h >>= optStr with
    | some br, some o, some h =>
      match checkOriginDefault (fun _ => br) o h with
      | some b => ok [V.ofBool b, V.ofOpt V.ofCps (netloc (fun _ => br) o)]
      | none => ok [.atom "raise", .none]
    | _, _, _ => err "bad-arg"
  | ["b64", b] =>
    match V.parse b >>= V.byteNats? with
    | some b => ok [V.ofCps (b64enc b)]
    | none => err "bad-arg"
  | ["b64dec", s] =>
    match V.parse s >>= V.cps? with
    | some s => ok [V.ofOpt V.ofByteNats (b64dec s)]
    | none => err "bad-arg"
  | ["parsehdr", s] =>
    match V.parse s >>= V.cps? with
    | some s =>
      let (k, d) := parseHeader s
      ok [V.ofCps k, .list (d.map (fun kv => V.list [V.ofCps kv.1, V.ofCps kv.2])), V.ofCps (encodeHeader k d)]
    | none => err "bad-arg"
  | _ => err "bad-line"

end TornadoModel.C17.Drv
