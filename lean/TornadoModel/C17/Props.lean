/-
C17 — property theorems about the handshake model.  `sha1`, `bracketOk` (CPython's validation of a bracketed
host) and the application's `select` are arbitrary functions: every statement holds for all of them.
-/
import TornadoModel.C17.Spec
import TornadoModel.C17.B64
namespace TornadoModel.C17
open Spec

theorem deflateOffer_valid (cfg : SCfg) (r : Req) (params : List (Str × Str)) (h : deflateOffer cfg r = some params) :
    cfg.compression = true ∧ (pmd, params) ∈ parseExtensions r.extensions ∧
    compressorsOk (ofString "server") (ofString "client") params = true := by
  unfold deflateOffer at h
  split at h
  · rename_i hcomp
    cases hf : (parseExtensions r.extensions).find? offerValid with
    | none => simp [hf] at h
    | some ext =>
      simp only [hf, Option.map_some, Option.some.injEq] at h
      have hmem := List.mem_of_find?_eq_some hf
      have hv := List.find?_some hf
      unfold offerValid at hv
      simp only [Bool.and_eq_true, decide_eq_true_eq] at hv
      refine ⟨hcomp, ?_, by rw [← h]; exact hv.2⟩
      rw [← h, ← hv.1]; exact hmem
  · cases h

theorem acceptConnection_inv (sha1 : Bytes → Bytes) (select : List Str → Option Str) (cfg : SCfg) (r : Req)
    (a : Str) (p e : Option Str) (h : acceptConnection sha1 select cfg r = .accepted a p e) :
    truthy r.host = true ∧ truthy r.key = true ∧ truthy r.version = true ∧
    a = acceptValue sha1 (r.key.getD []) ∧
    (p = if truthy (select (offeredProtocols r)) then select (offeredProtocols r) else none) ∧
    (truthy (select (offeredProtocols r)) = true →
      (offeredProtocols r).contains ((select (offeredProtocols r)).getD []) = true) ∧
    (e = (deflateOffer cfg r).map (encodeHeader pmd)) ∧
    (∀ params, deflateOffer cfg r = some params → compressorsOk (ofString "server") (ofString "client") params = true) := by
  unfold acceptConnection at h
  split at h
  · exact Resp.noConfusion h
  rename_i h4
  split at h
  · exact Resp.noConfusion h
  rename_i h5
  simp only [Bool.not_eq_true, Bool.not_eq_false', Bool.and_eq_true] at h4
  have hsel : truthy (select (offeredProtocols r)) = true →
      (offeredProtocols r).contains ((select (offeredProtocols r)).getD []) = true := by
    intro ht
    cases hh : (offeredProtocols r).contains ((select (offeredProtocols r)).getD []) with
    | true => rfl
    | false =>
      simp only [ht, Bool.true_and, Bool.not_eq_true', Bool.not_eq_false] at h5
      rw [hh] at h5; exact Bool.noConfusion h5
  injection h with ha hpp he
  exact ⟨h4.1.1, h4.1.2, h4.2, ha.symm, hpp.symm, hsel, he.symm,
    fun params h' => (deflateOffer_valid cfg r params h').2.2⟩

theorem serverHandshake_inv (sha1 : Bytes → Bytes) (br : Str → Bool) (select : List Str → Option Str) (cfg : SCfg)
    (r : Req) (a : Str) (p e : Option Str) (h : serverHandshake sha1 br select cfg r = .accepted a p e) :
    lower (r.upgrade.getD []) = websocket ∧
    ((splitOn 44 (r.connection.getD [])).map (fun t => lower (strip t))).contains upgradeTok = true ∧
    originVerdict br cfg r = some true ∧ versionOk r = true ∧
    acceptConnection sha1 select cfg r = .accepted a p e := by
  unfold serverHandshake at h
  split at h
  · exact Resp.noConfusion h
  split at h
  · exact Resp.noConfusion h
  rename_i h1 h2
  simp only [bne_iff_ne, ne_eq, Decidable.not_not] at h1
  simp only [Bool.not_eq_true, Bool.not_eq_false'] at h2
  cases hov : originVerdict br cfg r with
  | none => simp only [hov] at h; exact Resp.noConfusion h
  | some b =>
    cases b with
    | false => simp only [hov] at h; exact Resp.noConfusion h
    | true =>
      simp only [hov] at h
      split at h
      · exact Resp.noConfusion h
      · rename_i h3
        simp only [Bool.not_eq_true, Bool.not_eq_false'] at h3
        exact ⟨h1, h2, rfl, h3, h⟩

/-- the Sec-WebSocket-Accept value of every completed handshake is `base64 (sha1 (key ‖ GUID))` of the key sent -/
theorem accept_value_spec (sha1 : Bytes → Bytes) (br : Str → Bool) (select : List Str → Option Str) (cfg : SCfg)
    (r : Req) (a : Str) (p e : Option Str) (h : serverHandshake sha1 br select cfg r = .accepted a p e) :
    ∃ key, r.key = some key ∧ key ≠ [] ∧ a = b64enc (sha1 (utf8 key ++ guid)) := by
  have h1 := acceptConnection_inv sha1 select cfg r a p e (serverHandshake_inv sha1 br select cfg r a p e h).2.2.2.2
  obtain ⟨_, hk, _, ha, _⟩ := h1
  cases hkey : r.key with
  | none => simp [hkey, truthy] at hk
  | some key =>
    cases key with
    | nil => simp [hkey, truthy] at hk
    | cons c cs => exact ⟨c :: cs, rfl, by simp, by simp [ha, hkey, acceptValue]⟩

/-- the subprotocol in a 101 response is the application's choice, and the client offered it -/
theorem selected_subprotocol_offered (sha1 : Bytes → Bytes) (br : Str → Bool) (select : List Str → Option Str)
    (cfg : SCfg) (r : Req) (a : Str) (q : Str) (e : Option Str)
    (h : serverHandshake sha1 br select cfg r = .accepted a (some q) e) :
    select (offeredProtocols r) = some q ∧ q ∈ offeredProtocols r := by
  have h1 := acceptConnection_inv sha1 select cfg r a (some q) e (serverHandshake_inv sha1 br select cfg r a _ e h).2.2.2.2
  obtain ⟨_, _, _, _, hp, hsel, _⟩ := h1
  cases ht : truthy (select (offeredProtocols r)) with
  | false => simp [ht] at hp
  | true =>
    simp only [ht, if_true] at hp
    have := hsel ht
    rw [← hp] at this
    exact ⟨hp.symm, by simpa using this⟩

/-- a permessage-deflate response is sent only if compression is enabled and the client offered the extension;
it answers an offer the client made, whose parameters passed validation -/
theorem deflate_only_if_offered_and_enabled (sha1 : Bytes → Bytes) (br : Str → Bool) (select : List Str → Option Str)
    (cfg : SCfg) (r : Req) (a : Str) (p : Option Str) (x : Str)
    (h : serverHandshake sha1 br select cfg r = .accepted a p (some x)) :
    cfg.compression = true ∧
    ∃ params, (pmd, params) ∈ parseExtensions r.extensions ∧ x = encodeHeader pmd params ∧
      compressorsOk (ofString "server") (ofString "client") params = true := by
  have h1 := acceptConnection_inv sha1 select cfg r a p (some x) (serverHandshake_inv sha1 br select cfg r a p _ h).2.2.2.2
  obtain ⟨_, _, _, _, _, _, he, _⟩ := h1
  cases hd : deflateOffer cfg r with
  | none => simp [hd] at he
  | some params =>
    simp only [hd, Option.map_some, Option.some.injEq] at he
    obtain ⟨hcomp, hmem, hok⟩ := deflateOffer_valid cfg r params hd
    exact ⟨hcomp, params, hmem, he, hok⟩

/-- which offer is answered: the FIRST permessage-deflate offer with valid parameters; every permessage-deflate
offer before it was declined because its parameters are invalid; no valid offer (or compression disabled) ⇒ the 101
carries no extension header -/
theorem deflate_answers_first_valid_offer (sha1 : Bytes → Bytes) (br : Str → Bool) (select : List Str → Option Str)
    (cfg : SCfg) (r : Req) (a : Str) (p e : Option Str)
    (h : serverHandshake sha1 br select cfg r = .accepted a p e) :
    e = if cfg.compression then ((parseExtensions r.extensions).find? offerValid).map (fun o => encodeHeader pmd o.2)
        else none := by
  have h1 := acceptConnection_inv sha1 select cfg r a p e (serverHandshake_inv sha1 br select cfg r a p _ h).2.2.2.2
  obtain ⟨_, _, _, _, _, _, he, _⟩ := h1
  rw [he]
  unfold deflateOffer
  split <;> simp [Option.map_map, Function.comp_def]

/-- with the default origin check, a completed handshake that carried an Origin (or Sec-WebSocket-Origin) header
means: the origin's authority, lower-cased, is exactly the Host header (same host, same port, no userinfo) -/
theorem default_origin_only_same_host_port (sha1 : Bytes → Bytes) (br : Str → Bool) (select : List Str → Option Str)
    (cfg : SCfg) (r : Req) (a : Str) (p e : Option Str) (o : Str)
    (hcfg : cfg.allowAnyOrigin = false) (ho : effectiveOrigin r = some o)
    (h : serverHandshake sha1 br select cfg r = .accepted a p e) :
    ∃ nl, netloc br o = some nl ∧ r.host = some (lower nl) := by
  have hv := (serverHandshake_inv sha1 br select cfg r a p e h).2.2.1
  unfold originVerdict at hv
  simp only [ho, hcfg, Bool.false_eq_true, if_false] at hv
  unfold checkOriginDefault at hv
  cases hn : netloc br o with
  | none => simp [hn] at hv
  | some nl =>
    simp only [hn, Option.map_some, Option.some.injEq, beq_iff_eq] at hv
    exact ⟨nl, rfl, hv.symm⟩

theorem versionOk_truthy (r : Req) (h : versionOk r = true) : truthy r.version = true := by
  unfold versionOk at h
  simp only [Bool.or_eq_true, beq_iff_eq] at h
  rcases h with (h | h) | h <;> rw [h] <;> decide

theorem originOk_iff (br : Str → Bool) (cfg : SCfg) (r : Req) :
    originOk br cfg r = (originVerdict br cfg r == some true) := by
  unfold originOk originVerdict sameHostPort checkOriginDefault
  cases effectiveOrigin r with
  | none => rfl
  | some o =>
    cases cfg.allowAnyOrigin with
    | true => rfl
    | false =>
      simp only [Bool.false_or, Bool.false_eq_true, if_false]
      cases hn : netloc br o with
      | none => rfl
      | some nl =>
        simp only [Option.map_some]
        cases (some (lower nl) == r.host) <;> rfl

theorem acceptConnection_iff (sha1 : Bytes → Bytes) (select : List Str → Option Str) (cfg : SCfg) (r : Req) :
    isAccepted (acceptConnection sha1 select cfg r) =
      (truthy r.host && truthy r.key && truthy r.version && selectionOk select r) := by
  unfold acceptConnection selectionOk
  cases truthy r.host <;> cases truthy r.key <;> cases truthy r.version <;>
    simp only [Bool.and_self, Bool.and_false, Bool.false_and, Bool.not_true, Bool.not_false, if_true, if_false,
      Bool.false_eq_true, isAccepted, Bool.true_and]
  cases truthy (select (offeredProtocols r)) <;>
    cases (offeredProtocols r).contains ((select (offeredProtocols r)).getD []) <;>
    simp only [Bool.and_self, Bool.and_false, Bool.false_and, Bool.not_true, Bool.not_false, if_true, if_false,
      Bool.false_eq_true, isAccepted, Bool.true_and, Bool.or_false, Bool.or_true, Bool.and_true]

/-- the decision logic outright: the handshake completes exactly when the specification says the upgrade is
valid and permitted -/
theorem accept_iff (sha1 : Bytes → Bytes) (br : Str → Bool) (select : List Str → Option Str) (cfg : SCfg) (r : Req) :
    isAccepted (serverHandshake sha1 br select cfg r) = shouldAccept br select cfg r := by
  unfold shouldAccept upgradeOk connectionOk requiredOk
  rw [originOk_iff]
  unfold serverHandshake
  by_cases h1 : lower (r.upgrade.getD []) = websocket
  · simp only [h1, bne_self_eq_false, Bool.false_eq_true, if_false, beq_self_eq_true, Bool.true_and]
    cases h2 : ((splitOn 44 (r.connection.getD [])).map (fun t => lower (strip t))).contains upgradeTok with
    | false => simp [isAccepted]
    | true =>
      simp only [Bool.not_true, Bool.false_eq_true, if_false, Bool.true_and]
      cases hov : originVerdict br cfg r with
      | none => simp [isAccepted]
      | some b =>
        cases b with
        | false => simp [isAccepted]
        | true =>
          simp only [beq_self_eq_true, Bool.true_and]
          cases h3 : versionOk r with
          | false =>
            unfold versionOk at h3
            simp [isAccepted, h3]
          | true =>
            have h3' := h3
            unfold versionOk at h3'
            simp only [Bool.not_true, Bool.false_eq_true, if_false, acceptConnection_iff, h3', Bool.and_true,
              versionOk_truthy r h3]
  · have : (lower (r.upgrade.getD []) != websocket) = true := by simpa using h1
    have h1' : (lower (r.upgrade.getD []) == websocket) = false := by simpa using h1
    simp [this, h1', isAccepted]

/-- non-vacuity: a concrete valid upgrade is accepted, and an invalid one is not -/
example : shouldAccept (fun _ => true) (fun _ => none) ⟨false, false⟩
    ⟨some websocket, some (ofString "keep-alive, Upgrade"), some (ofString "http://Example.com:8080/x"), none,
     some (ofString "example.com:8080"), some (ofString "abc"), some (ofString "13"), none, none⟩ = true := by decide
example : shouldAccept (fun _ => true) (fun _ => none) ⟨false, false⟩
    ⟨some websocket, some (ofString "keep-alive, Upgrade"), some (ofString "http://user@example.com:8080"), none,
     some (ofString "example.com:8080"), some (ofString "abc"), some (ofString "13"), none, none⟩ = false := by decide

/-- the S1 point of the review: `Sec-WebSocket-Extensions` never decides whether the handshake completes — replacing
the header by anything (or removing it) leaves the accept/refuse decision unchanged.  A malformed or unsupported
permessage-deflate offer is declined, not answered with an error. -/
theorem extensions_never_refuse (sha1 : Bytes → Bytes) (br : Str → Bool) (select : List Str → Option Str) (cfg : SCfg)
    (r : Req) (x : Option Str) :
    isAccepted (serverHandshake sha1 br select cfg { r with extensions := x }) =
      isAccepted (serverHandshake sha1 br select cfg r) := by
  rw [accept_iff, accept_iff]; rfl

/-- a valid, permitted upgrade with a bad offer completes without the extension (the formerly refused input) -/
example : serverHandshake (fun _ => [1, 2, 3]) (fun _ => true) (fun _ => none) ⟨false, true⟩
    ⟨some websocket, some (ofString "Upgrade"), none, none, some (ofString "example.com"), some (ofString "abc"),
     some (ofString "13"), none, some (ofString "permessage-deflate; server_max_window_bits=7")⟩
    = .accepted (b64enc [1, 2, 3]) none none := by decide
/-- … and a fallback offer after a declined one is answered -/
example : serverHandshake (fun _ => [1, 2, 3]) (fun _ => true) (fun _ => none) ⟨false, true⟩
    ⟨some websocket, some (ofString "Upgrade"), none, none, some (ofString "example.com"), some (ofString "abc"),
     some (ofString "13"), none,
     some (ofString "permessage-deflate; foo=1, permessage-deflate; client_max_window_bits=9")⟩
    = .accepted (b64enc [1, 2, 3]) none (some (ofString "permessage-deflate; client_max_window_bits=9")) := by decide

/-! ### the client -/

theorem clientHandshake_inv (sha1 : Bytes → Bytes) (cfg : CCfg) (r : SResp) (p : Option Str) (d : Bool)
    (h : clientHandshake sha1 cfg r = .ok p d) :
    r.status = 101 ∧ r.accept = some (acceptValue sha1 cfg.key) ∧
    (parseExtensions r.extensions).all (fun e => e.1 = pmd && cfg.compression &&
        compressorsOk (ofString "client") (ofString "server") e.2) = true ∧
    p = r.protocol ∧ (∀ q, r.protocol = some q → cfg.offered.contains q = true) ∧
    d = !(parseExtensions r.extensions).isEmpty := by
  simp only [clientHandshake] at h
  repeat' (split at h <;> try exact COut.noConfusion h)
  all_goals (injection h with h5 h6; simp_all <;> grind)

/-- the client completes a handshake only if the response's accept value is the one derived from its own key -/
theorem client_accepts_only_matching_key (sha1 : Bytes → Bytes) (cfg : CCfg) (r : SResp) (p : Option Str) (d : Bool)
    (h : clientHandshake sha1 cfg r = .ok p d) :
    r.status = 101 ∧ r.accept = some (b64enc (sha1 (utf8 cfg.key ++ guid))) :=
  ⟨(clientHandshake_inv sha1 cfg r p d h).1, (clientHandshake_inv sha1 cfg r p d h).2.1⟩

/-- the client negotiates nothing it did not offer: the subprotocol is one of its list, every extension in the
response is permessage-deflate and it had offered compression -/
theorem client_negotiates_only_offered (sha1 : Bytes → Bytes) (cfg : CCfg) (r : SResp) (p : Option Str) (d : Bool)
    (h : clientHandshake sha1 cfg r = .ok p d) :
    (∀ q, p = some q → q ∈ cfg.offered) ∧
    (∀ e ∈ parseExtensions r.extensions, e.1 = pmd ∧ cfg.compression = true) ∧
    (d = true → cfg.compression = true) := by
  obtain ⟨_, _, hall, hp, hoff, hd⟩ := clientHandshake_inv sha1 cfg r p d h
  have hext : ∀ e ∈ parseExtensions r.extensions, e.1 = pmd ∧ cfg.compression = true := by
    intro e he
    have := List.all_eq_true.mp hall e he
    simp only [Bool.and_eq_true, decide_eq_true_eq] at this
    exact ⟨this.1.1, this.1.2⟩
  refine ⟨?_, hext, ?_⟩
  · intro q hq
    rw [hp] at hq
    simpa using hoff q hq
  · intro hdt
    rw [hd] at hdt
    cases hl : parseExtensions r.extensions with
    | nil => simp [hl] at hdt
    | cons e es => exact (hext e (by simp [hl])).2

/-- non-vacuity: a correct response is accepted with the offered subprotocol -/
example : clientHandshake (fun _ => [1, 2, 3]) ⟨ofString "k", [ofString "chat"], false⟩
    ⟨101, some websocket, some (ofString "Upgrade"), some (b64enc [1, 2, 3]), none, some (ofString "chat")⟩
    = .ok (some (ofString "chat")) false := by decide

/-! ### Base64 -/

theorem b64enc_length : ∀ (bs : Bytes), (b64enc bs).length = 4 * ((bs.length + 2) / 3)
  | [] => by simp [b64enc]
  | [_] => by simp [b64enc]
  | [_, _] => by simp [b64enc]
  | a :: b :: c :: rest => by
    simp only [b64enc, List.length_cons, b64enc_length rest]
    omega

/-- every 6-bit value maps to an alphabet character that decodes back to it -/
theorem b64val_char : ∀ n, n < 64 → b64val (b64char n) = some n := by decide

/-- the accept value of a 20-byte digest is 28 characters long -/
theorem accept_value_length (sha1 : Bytes → Bytes) (key : Str) (h : (sha1 (utf8 key ++ guid)).length = 20) :
    (acceptValue sha1 key).length = 28 := by
  simp [acceptValue, b64enc_length, h]

/- `b64_roundtrip` (decode ∘ encode = id) and `b64enc_injective` are proved in B64.lean. -/

example : b64dec (b64enc [0, 255, 16, 77]) = some [0, 255, 16, 77] := by decide

end TornadoModel.C17
