import TornadoModel.C17.Spec
namespace TornadoModel.C17
theorem stub : (1 : Nat) = 1 := rfl
end TornadoModel.C17
