/-
C17 — the specification side: when must the server complete the handshake, what may the client accept.
Readable in a minute; executable (the harness applies it to the real responses).
-/
import TornadoModel.C17.Model
namespace TornadoModel.C17.Spec
open TornadoModel.C17

/-- `Upgrade: websocket` (case-insensitive; a missing header counts as empty) -/
def upgradeOk (r : Req) : Bool := lower (r.upgrade.getD []) == websocket

/-- `Connection` lists the token `upgrade` (case-insensitive, comma separated, surrounding blanks ignored) -/
def connectionOk (r : Req) : Bool :=
  ((splitOn 44 (r.connection.getD [])).map (fun t => lower (strip t))).contains upgradeTok

/-- Host, key and version are present and non-empty; the version is one Tornado speaks -/
def requiredOk (r : Req) : Bool :=
  truthy r.host && truthy r.key &&
  (r.version == some (ofString "7") || r.version == some (ofString "8") || r.version == some (ofString "13"))

/-- the authority of `origin` is well-formed and, lower-cased, equals the Host header exactly (host and port) -/
def sameHostPort (bracketOk : Str → Bool) (origin : Str) (host : Option Str) : Bool :=
  match netloc bracketOk origin with
  | some nl => some (lower nl) == host
  | none => false

/-- no Origin at all (not a browser), or the application allows any origin, or same host and port -/
def originOk (bracketOk : Str → Bool) (cfg : SCfg) (r : Req) : Bool :=
  match effectiveOrigin r with
  | none => true
  | some o => cfg.allowAnyOrigin || sameHostPort bracketOk o r.host

/-- the application's choice of subprotocol is one the client offered (or nothing) -/
def selectionOk (select : List Str → Option Str) (r : Req) : Bool :=
  !truthy (select (offeredProtocols r)) || (offeredProtocols r).contains ((select (offeredProtocols r)).getD [])

/-- the upgrade is valid and permitted.  Nothing about `Sec-WebSocket-Extensions` appears here: an extension offer,
however malformed, is never a reason to refuse the upgrade (RFC 7692 section 5: the server declines the offer).
`selectionOk` is a condition on the APPLICATION (its `select_subprotocol` answered something the client did not
offer), not on the request. -/
def shouldAccept (bracketOk : Str → Bool) (select : List Str → Option Str) (cfg : SCfg) (r : Req) : Bool :=
  upgradeOk r && connectionOk r && originOk bracketOk cfg r && requiredOk r && selectionOk select r

def isAccepted : Resp → Bool
  | .accepted _ _ _ => true
  | .refused _ => false

end TornadoModel.C17.Spec
