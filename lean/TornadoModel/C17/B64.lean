/- C17 — Base64: decode ∘ encode = id (helper lemmas + the theorem). -/
import TornadoModel.C17.Model
namespace TornadoModel.C17

theorem b64val_char' : ∀ n, n < 64 → b64val (b64char n) = some n := by decide
theorem b64char_ne_pad : ∀ n, n < 64 → b64char n ≠ 61 := by decide

theorem b64dec_cons4 (x0 x1 x2 x3 : Nat) (tail : Str) (h3 : x3 ≠ 61) :
    b64dec (x0 :: x1 :: x2 :: x3 :: tail) =
      (b64val x0).bind fun v0 => (b64val x1).bind fun v1 => (b64val x2).bind fun v2 => (b64val x3).bind fun v3 =>
        (b64dec tail).bind fun r =>
          some ((v0 * 4 + v1 / 16) :: (v1 % 16 * 16 + v2 / 4) :: (v2 % 4 * 64 + v3) :: r) := by
  rw [b64dec]
  · rfl
  all_goals (intros; simp_all)

theorem b64_roundtrip : ∀ (bs : Bytes), (∀ b ∈ bs, b < 256) → b64dec (b64enc bs) = some bs
  | [], _ => rfl
  | [a], h => by
    have ha : a < 256 := h a (by simp)
    have e1 : a % 4 * 16 % 16 = 0 := by omega
    simp [b64enc, b64dec, b64val_char' (a / 4) (by omega), b64val_char' (a % 4 * 16) (by omega), e1]
    omega
  | [a, b], h => by
    have ha : a < 256 := h a (by simp)
    have hb : b < 256 := h b (by simp)
    have e1 : b % 16 * 4 % 4 = 0 := by omega
    have e2 : a / 4 * 4 + (a % 4 * 16 + b / 16) / 16 = a := by omega
    have e3 : (a % 4 * 16 + b / 16) % 16 * 16 + b % 16 * 4 / 4 = b := by omega
    have n1 := b64char_ne_pad (b % 16 * 4) (by omega)
    simp [b64enc, b64dec, b64val_char' (a / 4) (by omega), b64val_char' (a % 4 * 16 + b / 16) (by omega),
      b64val_char' (b % 16 * 4) (by omega), e1, e2, e3, n1]
    omega
  | a :: b :: c :: rest, h => by
    have ha : a < 256 := h a (by simp)
    have hb : b < 256 := h b (by simp)
    have hc : c < 256 := h c (by simp)
    have ih := b64_roundtrip rest (fun x hx => h x (by simp [hx]))
    have e2 : a / 4 * 4 + (a % 4 * 16 + b / 16) / 16 = a := by omega
    rw [b64enc, b64dec_cons4 _ _ _ _ _ (b64char_ne_pad (c % 64) (by omega))]
    simp [b64val_char' (a / 4) (by omega), b64val_char' (a % 4 * 16 + b / 16) (by omega),
      b64val_char' (b % 16 * 4 + c / 64) (by omega), b64val_char' (c % 64) (by omega), ih, e2]
    constructor <;> omega

/-- hence the encoding is injective on byte strings: different digests give different accept values -/
theorem b64enc_injective (x y : Bytes) (hx : ∀ b ∈ x, b < 256) (hy : ∀ b ∈ y, b < 256) (h : b64enc x = b64enc y) :
    x = y := by
  have := b64_roundtrip x hx
  rw [h, b64_roundtrip y hy] at this
  exact (Option.some.inj this).symm

end TornadoModel.C17
