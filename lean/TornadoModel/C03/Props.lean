/-
C03 — property theorems.  `serve` is the model of the code (with the three `fix:` commits of this property applied);
`Spec.shouldKeep` is what the property statement demands.  All statements quantify over every request
(any `Connection` value, any method/framing/version), every server setting and every response shape.
-/
import TornadoModel.C03.Spec
import TornadoModel.C03.Lemmas
namespace TornadoModel.C03
open Spec

/-- the keep-alive decision of `_can_keep_alive` is exactly "request allows ∧ ¬no_keep_alive" -/
theorem canKeepAlive_eq_allows (nka : Bool) (r : Req) : canKeepAlive nka r = (!nka && allows r) := by
  unfold canKeepAlive allows
  cases nka <;> cases r.ver11 <;> cases delimited10 r.method r.framing <;> simp

/-! ### keepalive_iff -/

/-- full statement: the connection persists exactly when the statement's four conditions hold -/
def keepalive_iff_full : Prop :=
  ∀ (nka : Bool) (r : Req) (resp : Resp) (early bodyEmpty : Bool),
    (serve nka r resp early).closes = !shouldKeep nka r resp (chunking r resp) early bodyEmpty

/-- it holds whenever the handler did not finish early on a request that had no body to read -/
theorem keepalive_iff_partial (nka : Bool) (r : Req) (resp : Resp) (early bodyEmpty : Bool)
    (h : ¬(early = true ∧ bodyEmpty = true)) :
    (serve nka r resp early).closes = !shouldKeep nka r resp (chunking r resp) early bodyEmpty := by
  obtain ⟨v, conn, m, f⟩ := r
  simp only [serve, writeHeaders, canKeepAlive, shouldKeep, allows, selfDelimiting, readWholeBody, undelimited,
    chunking, discAfterFinish]
  generalize hasOption sClose conn = a
  generalize hasOption sKeepAlive conn = b
  generalize delimited10 m f = d
  cases nka <;> cases v <;> cases a <;> cases b <;> cases d <;> cases early <;> cases bodyEmpty <;>
    cases resp <;> cases m <;> first | rfl | (exfalso; exact h ⟨rfl, rfl⟩)

example : ¬((false : Bool) = true ∧ (true : Bool) = true) := by decide

/-- the same, read on the outputs only: `closes` against `shouldKeep` evaluated on the `chunked` flag the run itself put on the
wire (the flag the harness compares with the real response on every case and the oracle takes from the wire) -/
theorem keepalive_iff_output (nka : Bool) (r : Req) (resp : Resp) (early bodyEmpty : Bool)
    (h : ¬(early = true ∧ bodyEmpty = true)) :
    (serve nka r resp early).closes = !shouldKeep nka r resp (serve nka r resp early).chunked early bodyEmpty :=
  keepalive_iff_partial nka r resp early bodyEmpty h

/-- "self-delimiting" (Spec: Content-Length | chunked on the wire | 204/304 | HEAD) is exactly the negation of the code's
"can only be delimited by closing" on what the run wrote -/
theorem selfDelimiting_iff_not_undelimited (nka : Bool) (r : Req) (resp : Resp) (early : Bool) :
    selfDelimiting r resp (serve nka r resp early).chunked = !undelimited r resp := by
  obtain ⟨v, conn, m, f⟩ := r
  simp only [serve, selfDelimiting, undelimited, chunking]
  cases v <;> cases resp <;> cases m <;> rfl

/-- … and fails for an early finish on a body-less request: the server closes although nothing was unread -/
theorem keepalive_iff_refuted : ¬ keepalive_iff_full := by
  intro h
  have := h false ⟨true, none, .get, .none⟩ .cl true true
  revert this
  decide

/-! ### close_announced -/

def close_announced_full : Prop :=
  ∀ (nka : Bool) (r : Req) (resp : Resp) (early : Bool),
    r.ver11 = true → (serve nka r resp early).closes = true → (serve nka r resp early).conn = .close

/-- when the handler finishes after the request body was read, an HTTP/1.1 client is always told -/
theorem close_announced_partial (nka : Bool) (r : Req) (resp : Resp)
    (hv : r.ver11 = true) (hc : (serve nka r resp false).closes = true) :
    (serve nka r resp false).conn = .close := by
  obtain ⟨v, conn, m, f⟩ := r
  simp only at hv
  subst hv
  revert hc
  simp only [serve, writeHeaders, canKeepAlive, undelimited, chunking, discAfterFinish]
  generalize hasOption sClose conn = a
  generalize hasOption sKeepAlive conn = b
  cases nka <;> cases a <;> cases b <;> cases resp <;> cases m <;> simp [respHasCL, respNoBodyStatus]

example : (serve true ⟨true, none, .get, .none⟩ .cl false).closes = true := by decide

/-- early finish: `finish()` decides to close after the headers went out (D13) -/
theorem close_announced_refuted : ¬ close_announced_full := by
  intro h
  have := h false ⟨true, none, .post, .cl⟩ .cl true rfl (by decide)
  revert this
  decide

/-! ### no_false_ack -/

def no_false_ack_full : Prop :=
  ∀ (nka : Bool) (r : Req) (resp : Resp) (early : Bool),
    (serve nka r resp early).conn = .keepAlive → (serve nka r resp early).closes = false

theorem no_false_ack_partial (nka : Bool) (r : Req) (resp : Resp)
    (hk : (serve nka r resp false).conn = .keepAlive) : (serve nka r resp false).closes = false := by
  obtain ⟨v, conn, m, f⟩ := r
  revert hk
  simp only [serve, writeHeaders, canKeepAlive, undelimited, chunking, discAfterFinish]
  generalize hasOption sClose conn = a
  generalize hasOption sKeepAlive conn = b
  generalize delimited10 m f = d
  cases nka <;> cases v <;> cases a <;> cases b <;> cases d <;> cases resp <;> cases m <;> simp [respHasCL, respNoBodyStatus]

example : (serve false ⟨false, some sKeepAlive, .get, .none⟩ .cl false).conn = .keepAlive := by decide

theorem no_false_ack_refuted : ¬ no_false_ack_full := by
  intro h
  have := h false ⟨false, some sKeepAlive, .post, .cl⟩ .cl true (by decide)
  revert this
  decide

/-! ### an undelimited response always closes (shared with C02 `undelimited_closes`) -/

theorem undelimited_closes (nka : Bool) (r : Req) (resp : Resp) (early : Bool)
    (h : undelimited r resp = true) : (serve nka r resp early).closes = true := by
  simp [serve, writeHeaders, discAfterFinish, h]

example : undelimited ⟨false, some sKeepAlive, .get, .none⟩ .stream = true := by decide

/-! ### the option list -/

/-- every connection option is non-empty, lower-cased (idempotent under `lower`) -/
theorem options_nonempty (v o : Str) (h : o ∈ options v) : o ≠ [] := by
  unfold options at h
  simp only [List.mem_map, List.mem_filter] at h
  obtain ⟨a, ⟨_, ha⟩, rfl⟩ := h
  intro hl
  cases a with
  | nil => simp at ha
  | cons x xs => simp [lower] at hl

example : options [99, 108, 111, 115, 101, 44, 32, 88] = [sClose, [120]] := by decide   -- "close, X"

/-- `tok in _connection_options(v)` says: some comma-separated piece of `v` (the pieces are characterised by
`joinComma_splitComma` / `splitComma_no_comma` / `splitComma_joinComma`), with surrounding SP/HTAB removed (`strip_spec`)
and lower-cased (`lowerC_ascii`), equals `tok` -/
theorem hasOption_iff (tok v : Str) (ht : tok ≠ []) :
    hasOption tok (some v) = true ↔ ∃ p ∈ splitComma v, lower (strip p) = tok := by
  simp only [hasOption, List.contains_iff_mem]
  rw [mem_options_iff]
  constructor
  · rintro ⟨p, hp, _, rfl⟩; exact ⟨p, hp, rfl⟩
  · rintro ⟨p, hp, rfl⟩
    refine ⟨p, hp, ?_, rfl⟩
    intro e; apply ht; simp [e, lower]

example : hasOption sClose (some [120, 44, 67, 108, 111, 115, 101, 32]) = true := by decide   -- "x,Close "

end TornadoModel.C03
