import TornadoModel.C03.Spec
namespace TornadoModel.C03
theorem stub : lower [] = [] := rfl
end TornadoModel.C03
