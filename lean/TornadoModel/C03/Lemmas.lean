/-
C03 — the `Connection` option-list parser characterised independently of its own definition:
`splitComma` is the inverse of "join with commas" on comma-free pieces, `strip` removes exactly the surrounding
SP/HTAB, `lowerC` is ASCII lower-casing on ASCII.
-/
import TornadoModel.C03.Model
namespace TornadoModel.C03

/-- the pieces joined with `,` -/
def joinComma : List Str → Str
  | [] => []
  | [p] => p
  | p :: q :: r => p ++ 44 :: joinComma (q :: r)

theorem splitComma_ne_nil (v : Str) : splitComma v ≠ [] := by
  cases v with
  | nil => simp [splitComma]
  | cons c cs =>
    simp only [splitComma]
    split
    · simp
    · split <;> simp

theorem joinComma_cons_cons (c : Nat) (w : Str) (ws : List Str) :
    joinComma ((c :: w) :: ws) = c :: joinComma (w :: ws) := by
  cases ws <;> simp [joinComma]

/-- splitting loses nothing: joining the pieces with commas gives the value back -/
theorem joinComma_splitComma (v : Str) : joinComma (splitComma v) = v := by
  induction v with
  | nil => simp [splitComma, joinComma]
  | cons c cs ih =>
    simp only [splitComma]
    split
    · next h =>
      subst h
      cases hs : splitComma cs with
      | nil => exact absurd hs (splitComma_ne_nil cs)
      | cons q r => rw [hs] at ih; simp [joinComma, ih]
    · cases hs : splitComma cs with
      | nil => exact absurd hs (splitComma_ne_nil cs)
      | cons q r => rw [hs] at ih; simp [joinComma_cons_cons, ih]

/-- no piece contains a comma -/
theorem splitComma_no_comma (v p : Str) (h : p ∈ splitComma v) : 44 ∉ p := by
  induction v generalizing p with
  | nil => simp [splitComma] at h; subst h; simp
  | cons c cs ih =>
    simp only [splitComma] at h
    split at h
    · rcases List.mem_cons.mp h with rfl | h
      · simp
      · exact ih p h
    · next hc =>
      cases hs : splitComma cs with
      | nil => exact absurd hs (splitComma_ne_nil cs)
      | cons q r =>
        rw [hs] at h ih
        rcases List.mem_cons.mp h with rfl | h
        · have := ih q (List.mem_cons_self)
          intro hm
          rcases List.mem_cons.mp hm with e | e
          · exact hc e.symm
          · exact this e
        · exact ih p (List.mem_cons_of_mem _ h)

theorem splitComma_single (p : Str) (h : 44 ∉ p) : splitComma p = [p] := by
  induction p with
  | nil => rfl
  | cons c cs ih =>
    have hc : c ≠ 44 := fun e => h (e ▸ List.mem_cons_self)
    have hcs : 44 ∉ cs := fun e => h (List.mem_cons_of_mem _ e)
    simp [splitComma, hc, ih hcs]

theorem splitComma_append_comma (p rest : Str) (h : 44 ∉ p) :
    splitComma (p ++ 44 :: rest) = p :: splitComma rest := by
  induction p with
  | nil => simp [splitComma]
  | cons c cs ih =>
    have hc : c ≠ 44 := fun e => h (e ▸ List.mem_cons_self)
    have hcs : 44 ∉ cs := fun e => h (List.mem_cons_of_mem _ e)
    simp [splitComma, hc, ih hcs]

/-- … and it is the only such decomposition: any non-empty list of comma-free pieces is recovered from its join.
Together with `joinComma_splitComma` and `splitComma_no_comma` this determines `splitComma` (= Python `str.split(",")`). -/
theorem splitComma_joinComma (ps : List Str) (hne : ps ≠ []) (h : ∀ p ∈ ps, 44 ∉ p) :
    splitComma (joinComma ps) = ps := by
  induction ps with
  | nil => exact absurd rfl hne
  | cons p qs ih =>
    cases qs with
    | nil => simpa [joinComma] using splitComma_single p (h p List.mem_cons_self)
    | cons q r =>
      have := ih (by simp) (fun x hx => h x (List.mem_cons_of_mem _ hx))
      simp [joinComma, splitComma_append_comma p _ (h p List.mem_cons_self), this]

theorem mem_takeWhile_sat (p : Nat → Bool) (l : Str) (c : Nat) (h : c ∈ l.takeWhile p) : p c = true := by
  induction l with
  | nil => simp at h
  | cons a l ih =>
    rw [List.takeWhile_cons] at h
    split at h
    · next ha =>
      rcases List.mem_cons.mp h with rfl | h
      · exact ha
      · exact ih h
    · simp at h

theorem head_dropWhile_not (p : Nat → Bool) (l : Str) (c : Nat) (h : (l.dropWhile p).head? = some c) : p c = false := by
  induction l with
  | nil => simp at h
  | cons a l ih =>
    rw [List.dropWhile_cons] at h
    split at h
    · exact ih h
    · next ha => simp at h; subst h; simpa using ha

theorem getLast_dropWhile (p : Nat → Bool) (l : Str) (h : l.dropWhile p ≠ []) :
    (l.dropWhile p).getLast? = l.getLast? := by
  induction l with
  | nil => simp at h
  | cons a l ih =>
    rw [List.dropWhile_cons] at h ⊢
    split
    · next ha =>
      simp only [ha, if_true] at h
      rw [ih h]
      cases l with
      | nil => simp at h
      | cons b l => simp [List.getLast?_cons_cons]
    · rfl

/-- `strip` removes a run of SP/HTAB on either side and nothing else; what is left neither starts nor ends with SP/HTAB -/
theorem strip_spec (s : Str) :
    ∃ a b, s = a ++ strip s ++ b ∧ (∀ c ∈ a, isOws c = true) ∧ (∀ c ∈ b, isOws c = true) ∧
      (∀ c, (strip s).head? = some c → isOws c = false) ∧ (∀ c, (strip s).getLast? = some c → isOws c = false) := by
  let t := s.dropWhile isOws
  refine ⟨s.takeWhile isOws, (t.reverse.takeWhile isOws).reverse, ?_, ?_, ?_, ?_, ?_⟩
  · have h1 : s = s.takeWhile isOws ++ t := (List.takeWhile_append_dropWhile).symm
    have h2 : t.reverse = t.reverse.takeWhile isOws ++ t.reverse.dropWhile isOws := (List.takeWhile_append_dropWhile).symm
    have h3 : t = (t.reverse.dropWhile isOws).reverse ++ (t.reverse.takeWhile isOws).reverse := by
      rw [← List.reverse_append, ← h2, List.reverse_reverse]
    show s = s.takeWhile isOws ++ (t.reverse.dropWhile isOws).reverse ++ (t.reverse.takeWhile isOws).reverse
    rw [List.append_assoc, ← h3]; exact h1
  · intro c hc; exact mem_takeWhile_sat _ _ _ hc
  · intro c hc; exact mem_takeWhile_sat _ _ _ (List.mem_reverse.mp hc)
  · intro c hc
    have hs : strip s = (t.reverse.dropWhile isOws).reverse := rfl
    rw [hs, List.head?_reverse] at hc
    have hne : t.reverse.dropWhile isOws ≠ [] := by intro e; rw [e] at hc; simp at hc
    rw [getLast_dropWhile _ _ hne, List.getLast?_reverse] at hc
    exact head_dropWhile_not _ _ _ hc
  · intro c hc
    have hs : strip s = (t.reverse.dropWhile isOws).reverse := rfl
    rw [hs, List.getLast?_reverse] at hc
    exact head_dropWhile_not _ _ _ hc

/-- `lowerC` on ASCII: upper-case letters move down by 32, everything else is unchanged -/
theorem lowerC_ascii (c : Nat) (h : c < 128) : lowerC c = if 65 ≤ c ∧ c ≤ 90 then c + 32 else c := by
  unfold lowerC
  split <;> simp_all <;> omega

/-- the option list is: every comma-separated piece, stripped, if non-empty, lower-cased — in order -/
theorem mem_options_iff (v o : Str) :
    o ∈ options v ↔ ∃ p ∈ splitComma v, strip p ≠ [] ∧ o = lower (strip p) := by
  unfold options
  simp only [List.mem_map, List.mem_filter]
  constructor
  · rintro ⟨a, ⟨⟨p, hp, rfl⟩, hne⟩, rfl⟩
    exact ⟨p, hp, by simpa using hne, rfl⟩
  · rintro ⟨p, hp, hne, rfl⟩
    exact ⟨strip p, ⟨⟨p, hp, rfl⟩, by simpa using hne⟩, rfl⟩

end TornadoModel.C03
