/-
C03 — the keep-alive decision of `tornado.http1connection.HTTP1Connection` (core Lean only).

Anchors: `_can_keep_alive`, the `_disconnect_on_finish` updates in `_read_message` / `finish` /
`_finish_request`, and the two `Connection` rules + `_chunking_output` of `write_headers`.

The request is described by the *factors* the code looks at (version, raw `Connection` header value as
Python `str` = list of code points, method, body framing, `no_keep_alive`); the response by what the
handler did (status class, explicit Content-Length or not, finished before the body was read or not).
`serve` is the straight-line composition the server executes for one complete request.  The same
primitives are used by the connection machine of C05 (`TornadoModel.C05.Model`).
-/
namespace TornadoModel.C03

abbrev Str := List Nat

/-- `str.lower()` on the characters that can occur in a latin-1 decoded header value. -/
def lowerC (c : Nat) : Nat :=
  if 65 ≤ c ∧ c ≤ 90 then c + 32
  else if 192 ≤ c ∧ c ≤ 222 ∧ c ≠ 215 then c + 32
  else c

def lower (s : Str) : Str := s.map lowerC

def sClose : Str := [99, 108, 111, 115, 101]                          -- "close"
def sKeepAlive : Str := [107, 101, 101, 112, 45, 97, 108, 105, 118, 101]   -- "keep-alive"

inductive Method | get | head | post | put
  deriving DecidableEq, Repr, Inhabited

/-- request body framing as announced by the request headers (well-formed cases) -/
inductive Framing | none | cl | chunked
  deriving DecidableEq, Repr, Inhabited

/-- what the application sends -/
inductive Resp
  | cl        -- 200 with an explicit Content-Length (buffered `finish()`)
  | stream    -- 200 without Content-Length (`flush()` before `finish()`)
  | s204 | s304
  deriving DecidableEq, Repr, Inhabited

/-- `Connection` response header written by `write_headers` -/
inductive ConnOut | absent | close | keepAlive
  deriving DecidableEq, Repr, Inhabited

structure Req where
  ver11 : Bool
  conn : Option Str
  method : Method
  framing : Framing
  deriving DecidableEq, Repr, Inhabited

/-! ### `tornado/http1connection.py` -/

/-- `"Content-Length" in headers or is_transfer_encoding_chunked(headers) or method in ("HEAD","GET")` -/
def delimited10 (m : Method) (f : Framing) : Bool :=
  f != .none || m == .get || m == .head

/-! #### `_connection_options(headers)`: the comma-separated, case-insensitive option list -/

def isOws (c : Nat) : Bool := c == 32 || c == 9

/-- `s.split(",")` -/
def splitComma : Str → List Str
  | [] => [[]]
  | c :: cs =>
    if c = 44 then [] :: splitComma cs
    else match splitComma cs with
      | [] => [[c]]
      | w :: ws => (c :: w) :: ws

/-- `s.strip(" \t")` -/
def strip (s : Str) : Str := ((s.dropWhile isOws).reverse.dropWhile isOws).reverse

/-- `[o.strip(" \t").lower() for o in value.split(",") if o.strip(" \t")]` -/
def options (v : Str) : List Str := ((splitComma v).map strip).filter (fun o => !o.isEmpty) |>.map lower

def hasOption (tok : Str) (conn : Option Str) : Bool :=
  match conn with
  | none => false
  | some v => (options v).contains tok

/-- `HTTP1Connection._can_keep_alive` (server side) -/
def canKeepAlive (nka : Bool) (r : Req) : Bool :=
  if nka then false
  else if r.ver11 then !hasOption sClose r.conn
  else if delimited10 r.method r.framing then hasOption sKeepAlive r.conn
  else false

def respHasCL : Resp → Bool | .cl => true | _ => false
def respNoBodyStatus : Resp → Bool | .s204 | .s304 => true | _ => false

/-- `_chunking_output` as computed by `write_headers` for a response -/
def chunking (r : Req) (resp : Resp) : Bool :=
  r.ver11 && r.method != .head && !respNoBodyStatus resp && !respHasCL resp

/-- the response body can only be delimited by closing the connection -/
def undelimited (r : Req) (resp : Resp) : Bool :=
  !chunking r resp && !respHasCL resp && r.method != .head && !respNoBodyStatus resp

/-- `write_headers`: the `_disconnect_on_finish` update for undelimited bodies and the two `Connection`
rules; `disc` = `_disconnect_on_finish` before the call.  Returns the new flag and the header written. -/
def writeHeaders (r : Req) (resp : Resp) (disc : Bool) : Bool × ConnOut :=
  let disc1 := disc || undelimited r resp
  (disc1,
   if r.ver11 && disc1 then .close
   else if !r.ver11 && hasOption sKeepAlive r.conn && !disc1 then .keepAlive
   else .absent)

/-- `finish()`: "if not self._read_finished: self._disconnect_on_finish = True" -/
def discAfterFinish (disc readFinished : Bool) : Bool := disc || !readFinished

structure Outcome where
  conn : ConnOut       -- Connection header on the wire
  closes : Bool        -- `_finish_request` closes the stream
  chunked : Bool       -- response uses chunked transfer encoding
  deriving DecidableEq, Repr, Inhabited

/-- One complete request: headers parsed → (`early`: the handler calls `finish()` while `_read_finished` is still
false, i.e. inside `headers_received` / `prepare()` or in the middle of the request body after some
`data_received` calls | otherwise body read, then the handler responds) → `_finish_request`. -/
def serve (nka : Bool) (r : Req) (resp : Resp) (early : Bool) : Outcome :=
  let disc0 := !canKeepAlive nka r
  let (disc1, out) := writeHeaders r resp disc0        -- write_headers runs before finish()
  let disc2 := discAfterFinish disc1 (!early)
  { conn := out, closes := disc2, chunked := chunking r resp }

end TornadoModel.C03
