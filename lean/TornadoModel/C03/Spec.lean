/-
C03 — specification side: when must the connection persist, what must be announced.

A request *allows* persistence when it is HTTP/1.1 without the `close` connection option, or HTTP/1.0 with the
`keep-alive` option and a delimited request body.  A response is *self-delimiting* when its end can be found
without closing: Content-Length, chunked encoding, a status without body, or a response to HEAD.
-/
import TornadoModel.C03.Model
namespace TornadoModel.C03.Spec
open TornadoModel.C03

def allows (r : Req) : Bool :=
  if r.ver11 then !hasOption sClose r.conn
  else hasOption sKeepAlive r.conn && delimited10 r.method r.framing

/-- `chunkedOnWire` = the response actually uses chunked transfer encoding -/
def selfDelimiting (r : Req) (resp : Resp) (chunkedOnWire : Bool) : Bool :=
  respHasCL resp || chunkedOnWire || respNoBodyStatus resp || r.method == .head

/-- the application consumed the whole request body: it did not finish early, or there was nothing to read -/
def readWholeBody (early bodyEmpty : Bool) : Bool := !early || bodyEmpty

def shouldKeep (nka : Bool) (r : Req) (resp : Resp) (chunkedOnWire early bodyEmpty : Bool) : Bool :=
  allows r && !nka && selfDelimiting r resp chunkedOnWire && readWholeBody early bodyEmpty

/-- the three clauses applied to an observed exchange: `kept` = the connection stayed open for the next request,
`conn` = Connection header of the response.  Returns the violated clauses. -/
def check (nka : Bool) (r : Req) (resp : Resp) (early bodyEmpty : Bool) (conn : ConnOut) (chunkedOnWire kept : Bool) : List String :=
  (if kept == shouldKeep nka r resp chunkedOnWire early bodyEmpty then [] else [if kept then "kept-but-must-close" else "closed-but-must-keep"]) ++
  (if r.ver11 && !kept && conn != .close then ["close-not-announced"] else []) ++
  (if conn == .keepAlive && !kept then ["false-keep-alive-ack"] else [])

end TornadoModel.C03.Spec
