/- C03 driver: `C03 serve nka [ver11,conn|~,method,framing] resp early` → `ok conn closes chunked`
               `C03 spec nka req resp early bodyEmpty conn chunkedOnWire kept` → `ok [violated clauses]`
               `C03 options <value>` → `ok [option,…]` -/
import TornadoModel.Base.Wire
import TornadoModel.C03.Spec
namespace TornadoModel.C03.Drv
open TornadoModel TornadoModel.Wire TornadoModel.C03

def decMethod : V → Option Method
  | .atom "GET" => some .get | .atom "HEAD" => some .head | .atom "POST" => some .post | .atom "PUT" => some .put
  | _ => none
def decFraming : V → Option Framing
  | .atom "none" => some .none | .atom "cl" => some .cl | .atom "chunked" => some .chunked | _ => none
def decResp : V → Option Resp
  | .atom "cl" => some .cl | .atom "stream" => some .stream | .atom "s204" => some .s204 | .atom "s304" => some .s304
  | _ => none
def decConn (v : V) : Option (Option Str) := if v.isNone then some none else v.cps?.map some
def decReq (v : V) : Option Req :=
  match v with
  | .list [v11, conn, m, fr] => do
    pure { ver11 := (← v11.bool?), conn := (← decConn conn), method := (← decMethod m), framing := (← decFraming fr) }
  | _ => none
def encConnOut : ConnOut → V | .absent => .none | .close => .atom "close" | .keepAlive => .atom "Keep-Alive"
def decConnOut : V → Option ConnOut
  | .none => some .absent | .atom "close" => some .close | .atom "Keep-Alive" => some .keepAlive | _ => none

def handle (toks : List String) : String :=
  match toks.mapM V.parse with
  | none => err "bad-arg"
  | some (.atom "serve" :: [nka, r, resp, early]) =>
    match nka.bool?, decReq r, decResp resp, early.bool? with
    | some nka, some r, some resp, some early =>
      let o := serve nka r resp early
      ok [encConnOut o.conn, V.ofBool o.closes, V.ofBool o.chunked]
    | _, _, _, _ => err "bad-arg"
  | some (.atom "spec" :: [nka, r, resp, early, be, conn, ch, kept]) =>
    match nka.bool?, decReq r, decResp resp, early.bool?, be.bool?, decConnOut conn, ch.bool?, kept.bool? with
    | some nka, some r, some resp, some early, some be, some conn, some ch, some kept =>
      ok [.list ((Spec.check nka r resp early be conn ch kept).map V.str)]
    | _, _, _, _, _, _, _, _ => err "bad-arg"
  | some (.atom "options" :: [v]) =>
    match v.cps? with
    | some s => ok [.list ((options s).map V.ofCps)]
    | none => err "bad-arg"
  | _ => err "bad-line"

end TornadoModel.C03.Drv
