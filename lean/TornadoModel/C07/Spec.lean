/-
C07 — specification side: a strict reader of a header block.

The property speaks about "the serialized response parsed by a strict client parser".  `readBlock`
is that parser reduced to what matters here: lines are terminated by CR LF exactly, the block ends at
the first empty line, and `clean` says that no CR, LF or NUL byte occurs inside any line.  `parseField` is the
field-level step: the name of a header line is what precedes its first colon and must be a token.
-/
import TornadoModel.C07.Model
namespace TornadoModel.C07.Spec
open TornadoModel.C25 (Str)

/-- the bytes up to the first CR LF, and what follows it; `none` when there is no CR LF -/
def takeLine : Str → Option (Str × Str)
  | [] => none
  | c :: rest =>
    if c = 13 ∧ rest.head? = some 10 then some ([], rest.drop 1)
    else (takeLine rest).map (fun p => (c :: p.1, p.2))

/-- lines up to (not including) the first empty line, and the bytes after it -/
def readLines : Nat → Str → Option (List Str × Str)
  | 0, _ => none
  | fuel + 1, s =>
    match takeLine s with
    | none => none
    | some (l, rest) =>
      if l.isEmpty then some ([], rest)
      else (readLines fuel rest).map (fun p => (l :: p.1, p.2))

def readBlock (s : Str) : Option (List Str × Str) := readLines (s.length + 1) s

/-- no CR, LF or NUL inside a line -/
def cleanLine (l : Str) : Bool := l.all (fun b => b != 13 && b != 10 && b != 0)
def clean (ls : List Str) : Bool := ls.all cleanLine

/-! ### field level: what a strict client makes of one header line

RFC 9110 §5.1 / RFC 9112 §5: `field-line = field-name ":" OWS field-value OWS`, `field-name = token`.  The name
is everything before the FIRST colon and must be a non-empty token (no whitespace, no separators); what follows
the colon is returned untouched (the oracle and the theorems compare it with `" " ++ value`). -/

/-- split at the first colon -/
def splitColon : Str → Option (Str × Str)
  | [] => none
  | c :: rest => if c = 58 then some ([], rest) else (splitColon rest).map (fun p => (c :: p.1, p.2))

/-- `(field-name, text after the colon)` of a header line, or `none` when a strict client rejects the line -/
def parseField (l : Str) : Option (Str × Str) :=
  match splitColon l with
  | some (n, v) => if isToken n then some (n, v) else none
  | none => none

end TornadoModel.C07.Spec
