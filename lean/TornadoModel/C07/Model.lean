/-
C07 — model of every header-producing `RequestHandler` API down to the bytes of the header block
(core Lean only).

Anchors
  tornado/web.py             RequestHandler.clear (default headers), set_status, set_header, add_header,
                             clear_header, _convert_header_value/_VALID_HEADER_CHARS, set_cookie (C25 model),
                             redirect, finish (Content-Length / _clear_representation_headers), flush
  tornado/httputil.py        _normalize_header, HTTPHeaders.add/__setitem__/__delitem__/__contains__/get_all,
                             _ABNF.field_name/field_value/reason_phrase
  tornado/http1connection.py HTTP1Connection.write_headers: start line `utf8("HTTP/1.1 %d %s")`, header
                             lines `name + ": " + value` encoded latin-1, the forbidden-byte guard over
                             every line (CR, LF and — after the `fix:` commit for D9 — NUL), the token check
                             on every header name (second `fix:` commit), `\r\n` join.

`str` = list of code points, `bytes` = list of naturals < 256.  The request is `POST / HTTP/1.1`
(keep-alive, so write_headers adds no Connection header; no ETag logic).
-/
import TornadoModel.C25.Model
namespace TornadoModel.C07
open TornadoModel.C25 (Str Err CookieArgs Jar setCookie flushCookies validHeaderChars isFieldValue isFieldVchar)

/-! ### `_normalize_header` (`"-".join(w.capitalize() for w in name.split("-"))`) -/

/-- first character of `str.capitalize()` (title-case mapping), exact for code points ≤ 0xFF; identity
above (the generators only use code points > 0xFF whose images stay > 0xFF). -/
def capFirst (c : Nat) : Str :=
  if 97 ≤ c ∧ c ≤ 122 then [c - 32]
  else if c = 181 then [924]
  else if c = 223 then [83, 115]
  else if c = 255 then [376]
  else if 224 ≤ c ∧ c ≤ 254 ∧ c ≠ 247 then [c - 32]
  else [c]

/-- remaining characters of `str.capitalize()` (lower-case mapping), exact for code points ≤ 0xFF -/
def lowRest (c : Nat) : Nat :=
  if 65 ≤ c ∧ c ≤ 90 then c + 32
  else if 192 ≤ c ∧ c ≤ 222 ∧ c ≠ 215 then c + 32
  else c

def capitalize : Str → Str
  | [] => []
  | c :: cs => capFirst c ++ cs.map lowRest

def normalize (name : Str) : Str :=
  C25.joinWith [45] ((C25.splitOn 45 name).map capitalize)

/-! ### HTTPHeaders (the part the response path uses): insertion-ordered dict name → list of values -/

abbrev Headers := List (Str × List Str)

def hContains (h : Headers) (name : Str) : Bool := h.any (·.1 == normalize name)

/-- `_ABNF.tchar` -/
def isTchar (c : Nat) : Bool :=
  C25.isAlnum c || c == 33 || c == 35 || c == 36 || c == 37 || c == 38 || c == 39 || c == 42 || c == 43
    || c == 45 || c == 46 || c == 94 || c == 95 || c == 96 || c == 124 || c == 126
def isToken (s : Str) : Bool := !s.isEmpty && s.all isTchar

/-- `__setitem__` : no validation at all (names are checked at `write_headers`, see `writeHeadersG`) -/
def hSet (h : Headers) (name value : Str) : Headers :=
  let n := normalize name
  if h.any (·.1 == n) then h.map (fun p => if p.1 == n then (n, [value]) else p) else h ++ [(n, [value])]

def hDel (h : Headers) (name : Str) : Headers := h.filter (·.1 != normalize name)

/-- `HTTPHeaders.add(name, value)` -/
def hAdd (h : Headers) (name value : Str) : Except Err Headers :=
  if !isToken name then .error .httpInput
  else if !isFieldValue value then .error .httpInput
  else
    let n := normalize name
    if h.any (·.1 == n) then .ok (h.map (fun p => if p.1 == n then (n, p.2 ++ [value]) else p))
    else .ok (h ++ [(n, [value])])

/-- `get_all()` -/
def hAll (h : Headers) : List (Str × Str) := h.flatMap (fun p => p.2.map (fun v => (p.1, v)))

/-! ### `_convert_header_value` -/

inductive HVal where
  | str (s : Str)
  | bytes (b : Str)
  | int (i : Int)
  deriving Repr, DecidableEq, BEq, Inhabited

def convert : HVal → Except Err Str
  | .str s => if validHeaderChars s then .ok s else .error .valueError
  | .bytes b => if validHeaderChars b then .ok b else .error .valueError   -- latin-1 decode is the identity
  | .int i => .ok (C25.decOfInt i)

/-! ### `utf8()` -/

def isSurrogate (c : Nat) : Bool := 0xD800 ≤ c && c ≤ 0xDFFF

def utf8Enc1 (c : Nat) : Str :=
  if c < 0x80 then [c]
  else if c < 0x800 then [0xC0 + c / 64, 0x80 + c % 64]
  else if c < 0x10000 then [0xE0 + c / 4096, 0x80 + c / 64 % 64, 0x80 + c % 64]
  else [0xF0 + c / 262144 % 8, 0x80 + c / 4096 % 64, 0x80 + c / 64 % 64, 0x80 + c % 64]

/-- `str.encode("utf-8")`: lone surrogates cannot be encoded -/
def utf8Enc (s : Str) : Except Err Str :=
  if s.any isSurrogate then .error .unicodeEncode else .ok (s.flatMap utf8Enc1)

/-! ### `set_status` -/

/-- `_ABNF.reason_phrase` character: HTAB, SP, VCHAR, obs-text -/
def isReasonChar (c : Nat) : Bool := c == 9 || c == 32 || (0x21 ≤ c && c ≤ 0x7E) || (0x80 ≤ c && c ≤ 0xFF)

def sUnknown : Str := [85, 110, 107, 110, 111, 119, 110]

/-- the reason stored by `set_status(code, reason)` for a given `str` reason -/
def checkReason (r : Str) : Str :=
  if r.contains 60 || r.isEmpty || !r.all isReasonChar then sUnknown else r

def ofAscii (s : String) : Str := s.toList.map Char.toNat

/-- `httputil.responses.get(code, "Unknown")` on the status codes the generators use -/
def stdReason (code : Int) : Str :=
  if code = 200 then ofAscii "OK" else if code = 100 then ofAscii "Continue"
  else if code = 201 then ofAscii "Created" else if code = 204 then ofAscii "No Content"
  else if code = 301 then ofAscii "Moved Permanently" else if code = 302 then ofAscii "Found"
  else if code = 304 then ofAscii "Not Modified" else if code = 400 then ofAscii "Bad Request"
  else if code = 404 then ofAscii "Not Found" else if code = 500 then ofAscii "Internal Server Error"
  else sUnknown

/-! ### the handler -/

structure St where
  headers : Headers
  code : Int := 200
  reason : Str := ofAscii "OK"
  jar : Jar := []
  deriving Repr, Inhabited

/-- `clear()` + the test handler's `set_default_headers` (fixed `Server`/`Date` so that output is
deterministic); the model takes the three default header values as given. -/
def initSt (server ctype date : Str) : St :=
  { headers := hSet (hSet (hSet [] (ofAscii "Server") server) (ofAscii "Content-Type") ctype) (ofAscii "Date") date }

inductive UVal where
  | str (s : Str)
  | bytes (b : Str)
  deriving Repr, DecidableEq, BEq, Inhabited

inductive Op where
  | setHeader (name : Str) (v : HVal)
  | addHeader (name : Str) (v : HVal)
  | clearHeader (name : Str)
  | setStatus (code : Int) (reason : Option Str)
  | setCookie (a : CookieArgs)
  | redirect (url : UVal) (permanent : Bool)
  deriving Repr, Inhabited

def setHeader (st : St) (name : Str) (v : HVal) : St × Option Err :=
  match convert v with
  | .ok s => ({ st with headers := hSet st.headers name s }, none)
  | .error e => (st, some e)

def addHeader (st : St) (name : Str) (v : HVal) : St × Option Err :=
  match convert v with
  | .error e => (st, some e)
  | .ok s => match hAdd st.headers name s with
    | .ok h => ({ st with headers := h }, none)
    | .error e => (st, some e)

def setStatus (st : St) (code : Int) (reason : Option Str) : St :=
  { st with code := code, reason := match reason with | some r => checkReason r | none => stdReason code }

def sContentLength : Str := ofAscii "Content-Length"

/-- the header part of `finish()` before `flush` (no body was written) -/
def finishPrep (st : St) : St :=
  if st.code = 204 ∨ st.code = 304 ∨ (100 ≤ st.code ∧ st.code < 200) then
    { st with headers := hDel (hDel (hDel st.headers (ofAscii "Content-Encoding")) (ofAscii "Content-Language"))
                           (ofAscii "Content-Type") }
  else if hContains st.headers sContentLength then st
  else { st with headers := hSet st.headers sContentLength [48] }

/-- `flush` part 1: move the cookie jar into `Set-Cookie` headers -/
def addCookieLines (h : Headers) : List Str → Headers
  | [] => h
  | s :: rest =>
    let n := ofAscii "Set-Cookie"
    addCookieLines (if h.any (·.1 == n) then h.map (fun p => if p.1 == n then (n, p.2 ++ [s]) else p)
                    else h ++ [(n, [s])]) rest

/-- `utf8("HTTP/1.1 %d %s" % (code, reason))` — the stored reason is str over code points ≤ 0xFF -/
def statusLine (code : Int) (reason : Str) : Str :=
  ofAscii "HTTP/1.1 " ++ C25.decOfInt code ++ 32 :: reason.flatMap utf8Enc1

def headerLine (p : Str × Str) : Str := p.1 ++ 58 :: 32 :: p.2

/-- `line.encode("latin1")` -/
def latin1Ok (s : Str) : Bool := s.all (· < 256)

/-- the guard of `write_headers` over every encoded line, after the `fix:` commit for D9
(``[\x00\r\n]``) -/
def forbiddenByte (c : Nat) : Bool := c == 13 || c == 10 || c == 0
/-- the guard in the tree as found (`CR_OR_LF_RE = re.compile(b"\r|\n")`) — kept for the D9 refutation -/
def forbiddenByteOld (c : Nat) : Bool := c == 13 || c == 10
def lineOkG (forb : Nat → Bool) (l : Str) : Bool := !l.any forb

def crlf : Str := [13, 10]

/-- `b"\r\n".join(lines) + b"\r\n\r\n"` -/
def joinLines : List Str → Str
  | [] => crlf
  | l :: rest => l ++ crlf ++ joinLines rest

/-- `HTTP1Connection.write_headers` (server side, no chunking, empty body).  After the forbidden-byte guard
comes — since the `fix:` commit for the header-name injection — the check that every header NAME is an RFC 9110
token (`_ABNF.field_name`), `ValueError` otherwise.  (In the tree as found there was no such check and
`HTTPHeaders.__setitem__` validates nothing: `set_header("Set-Cookie: a=b; x", "v")` put the line
`Set-Cookie: a=b; x: v` on the wire.) -/
def writeHeadersG (forb : Nat → Bool) (code : Int) (reason : Str) (h : Headers) : Except Err (List Str) :=
  let hl := (hAll h).map headerLine
  if !hl.all latin1Ok then .error .unicodeEncode
  else
    let lines := statusLine code reason :: hl
    if !lines.all (lineOkG forb) then .error .valueError
    else if !(hAll h).all (fun p => isToken p.1) then .error .valueError
    else .ok lines

/-- `finish()` → `flush()` → `write_headers`: the lines of the header block, or the exception -/
def finishG (forb : Nat → Bool) (st : St) : Except Err (List Str) :=
  let st := finishPrep st
  match flushCookies st.jar with
  | .error e => .error e
  | .ok cs => writeHeadersG forb st.code st.reason (addCookieLines st.headers cs)

def finish (st : St) : Except Err (List Str) := finishG forbiddenByte st

/-- the bytes handed to the stream -/
def wire (lines : List Str) : Str := joinLines lines

/-- outcome of one API call: `none` = returned, `some e` = raised -/
def step (st : St) : Op → St × Option Err
  | .setHeader n v => setHeader st n v
  | .addHeader n v => addHeader st n v
  | .clearHeader n => ({ st with headers := hDel st.headers n }, none)
  | .setStatus c r => (setStatus st c r, none)
  | .setCookie a => let r := setCookie st.jar a; ({ st with jar := r.1 }, r.2)
  | .redirect url permanent =>
    let st1 := setStatus st (if permanent then 301 else 302) none
    let b : Except Err Str := match url with | .str s => utf8Enc s | .bytes b => .ok b
    match b with
    | .error e => (st1, some e)
    | .ok bs => setHeader st1 (ofAscii "Location") (.bytes bs)

/-- Result of a whole handler: per-call outcomes and what `finish` produced.  (`redirect` calls
`finish()` itself when its `set_header` succeeded; the harness makes it the last call and reports an
exception raised after `_headers_written` as the outcome of `finish`.) -/
def run (st : St) : List Op → St × List (Option Err)
  | [] => (st, [])
  | op :: rest =>
    let r := step st op
    let rr := run r.1 rest
    (rr.1, r.2 :: rr.2)

def responseG (forb : Nat → Bool) (init : St) (ops : List Op) : List (Option Err) × Except Err (List Str) :=
  let r := run init ops
  (r.2, finishG forb r.1)

def response (init : St) (ops : List Op) : List (Option Err) × Except Err (List Str) :=
  responseG forbiddenByte init ops

/-! ### connection-level API: `write_headers` reached without a `RequestHandler`

A raw `HTTPServer` request callback builds an `HTTPHeaders` object itself (`h[name] = value`, no validation;
`h.add(name, value)`, token / field-value check) and calls
`request.connection.write_headers(ResponseStartLine("HTTP/1.1", code, reason), h)` directly;
`tornado.wsgi.WSGIContainer` does the same with the status string and header list returned by a WSGI
application.  Here the reason is ANY str: nothing but the guard of `write_headers` looks at it. -/

inductive HOp where
  | set (name value : Str)
  | add (name value : Str)
  deriving Repr, Inhabited

def hStep (h : Headers) : HOp → Headers × Option Err
  | .set n v => (hSet h n v, none)
  | .add n v => match hAdd h n v with
    | .ok h' => (h', none)
    | .error e => (h, some e)

def hRun (h : Headers) : List HOp → Headers × List (Option Err)
  | [] => (h, [])
  | op :: rest =>
    let r := hStep h op
    let rr := hRun r.1 rest
    (rr.1, r.2 :: rr.2)

/-- `write_headers` with an unvalidated reason: `utf8("HTTP/1.1 %d %s" % (code, reason))` raises
`UnicodeEncodeError` for a lone surrogate; otherwise as `writeHeadersG` (the start line is one of the
guarded lines). -/
def writeHeadersRawG (forb : Nat → Bool) (code : Int) (reason : Str) (h : Headers) : Except Err (List Str) :=
  if reason.any isSurrogate then .error .unicodeEncode else writeHeadersG forb code reason h

/-- a request callback: build the headers, then `connection.write_headers(...)` -/
def rawResponseG (forb : Nat → Bool) (code : Int) (reason : Str) (hops : List HOp) :
    List (Option Err) × Except Err (List Str) :=
  let r := hRun [] hops
  (r.2, writeHeadersRawG forb code reason r.1)

def rawResponse (code : Int) (reason : Str) (hops : List HOp) : List (Option Err) × Except Err (List Str) :=
  rawResponseG forbiddenByte code reason hops

/-- ASCII part of `str.lower()`; `k.lower() == t` for an ASCII `t` without `k`/`i` followed by U+0307
(`content-length`, `content-type`, `server`) holds iff `asciiLower k == t`: no non-ASCII code point lowers
to an ASCII letter other than U+212A (`k`) and U+0130 (`i` + U+0307). -/
def asciiLower (s : Str) : Str := s.map (fun c => if 65 ≤ c ∧ c ≤ 90 then c + 32 else c)

/-- the header list `WSGIContainer.handle_request` passes to `HTTPHeaders.add` (empty body): the
application's pairs, then `Content-Length: 0` and the default `Content-Type` (unless 304 / already given),
then `Server`. -/
def wsgiHeaders (server ctype : Str) (code : Int) (hs : List (Str × Str)) : List (Str × Str) :=
  let has (t : String) : Bool := hs.any (fun p => asciiLower p.1 == ofAscii t)
  hs ++ (if code = 304 then [] else
          (if has "content-length" then [] else [(sContentLength, [48])]) ++
          (if has "content-type" then [] else [(ofAscii "Content-Type", ctype)])) ++
        (if has "server" then [] else [(ofAscii "Server", server)])

/-- `for key, value in headers: header_obj.add(key, value)` — the first invalid pair raises -/
def hAddAll (h : Headers) : List (Str × Str) → Except Err Headers
  | [] => .ok h
  | (n, v) :: rest => match hAdd h n v with
    | .ok h' => hAddAll h' rest
    | .error e => .error e

def wsgiResponseG (forb : Nat → Bool) (server ctype : Str) (code : Int) (reason : Str) (hs : List (Str × Str)) :
    Except Err (List Str) :=
  match hAddAll [] (wsgiHeaders server ctype code hs) with
  | .error e => .error e
  | .ok h => writeHeadersRawG forb code reason h

def wsgiResponse (server ctype : Str) (code : Int) (reason : Str) (hs : List (Str × Str)) : Except Err (List Str) :=
  wsgiResponseG forbiddenByte server ctype code reason hs

end TornadoModel.C07
