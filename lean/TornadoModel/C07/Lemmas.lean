/- C07 — helper lemmas (core Lean only) -/
import TornadoModel.C07.Spec
namespace TornadoModel.C07
open TornadoModel.C25 (Str Err)

/-! ### the guard of `write_headers` -/

theorem lineOkG_forbidden {l : Str} (h : lineOkG forbiddenByte l = true) :
    ∀ b ∈ l, b ≠ 13 ∧ b ≠ 10 ∧ b ≠ 0 := by
  intro b hb
  simp only [lineOkG, Bool.not_eq_true', List.any_eq_false] at h
  have := h b hb
  simp only [forbiddenByte, Bool.or_eq_true, beq_iff_eq, not_or] at this
  omega

theorem writeHeadersG_ok {forb code reason h lines}
    (hw : writeHeadersG forb code reason h = .ok lines) :
    lines = statusLine code reason :: (hAll h).map headerLine ∧ lines.all (lineOkG forb) = true := by
  unfold writeHeadersG at hw
  simp only at hw
  split at hw
  · cases hw
  · split at hw
    · cases hw
    · rename_i h2
      split at hw
      · cases hw
      · injection hw with hw
        subst hw
        refine ⟨rfl, ?_⟩
        simpa using h2

/-- an accepted `write_headers` call: every header name is a token (the name check) -/
theorem writeHeadersG_names {forb code reason h lines}
    (hw : writeHeadersG forb code reason h = .ok lines) : ∀ p ∈ hAll h, isToken p.1 = true := by
  unfold writeHeadersG at hw
  simp only at hw
  split at hw
  · cases hw
  · split at hw
    · cases hw
    · split at hw
      · cases hw
      · rename_i h3
        simpa using h3

/-! ### the strict reader on a CRLF-joined block -/

theorem takeLine_append (l rest : Str) (h : ∀ b ∈ l, b ≠ 13) :
    Spec.takeLine (l ++ 13 :: 10 :: rest) = some (l, rest) := by
  induction l with
  | nil => simp [Spec.takeLine]
  | cons c cs ih =>
    have hc : c ≠ 13 := h c (by simp)
    have := ih (fun b hb => h b (by simp [hb]))
    simp [Spec.takeLine, hc, this]

theorem readLines_join (lines : List Str) (hne : ∀ l ∈ lines, l ≠ []) (hcr : ∀ l ∈ lines, ∀ b ∈ l, b ≠ 13)
    (fuel : Nat) (hf : lines.length < fuel) :
    Spec.readLines fuel (joinLines lines) = some (lines, []) := by
  induction lines generalizing fuel with
  | nil =>
    cases fuel with
    | zero => omega
    | succ f => simp [Spec.readLines, joinLines, crlf, Spec.takeLine]
  | cons l ls ih =>
    cases fuel with
    | zero => omega
    | succ f =>
      have h1 : Spec.takeLine (l ++ 13 :: 10 :: joinLines ls) = some (l, joinLines ls) :=
        takeLine_append l _ (hcr l (by simp))
      have hl : l ≠ [] := hne l (by simp)
      have h2 := ih (fun x hx => hne x (by simp [hx])) (fun x hx => hcr x (by simp [hx])) f
        (by simp at hf; omega)
      simp only [Spec.readLines, joinLines, crlf, List.append_assoc, List.cons_append, List.nil_append, h1]
      cases l with
      | nil => exact absurd rfl hl
      | cons a as => simp [h2]

theorem joinLines_length (lines : List Str) : lines.length < (joinLines lines).length + 1 := by
  induction lines with
  | nil => simp [joinLines, crlf]
  | cons l ls ih => simp [joinLines, crlf]; omega

/-! ### `HTTPHeaders.__setitem__` -/

theorem hSet_mem (h : Headers) (n v : Str) : (normalize n, v) ∈ hAll (hSet h n v) := by
  simp only [hSet]
  split
  · rename_i hany
    obtain ⟨p, hp, hpe⟩ := List.any_eq_true.mp hany
    simp only [hAll, List.mem_flatMap, List.mem_map]
    refine ⟨(normalize n, [v]), ⟨p, hp, by simp [hpe]⟩, v, by simp, rfl⟩
  · simp [hAll]

theorem hSet_only (h : Headers) (n v w : Str) (hm : (normalize n, w) ∈ hAll (hSet h n v)) : w = v := by
  simp only [hSet] at hm
  split at hm
  · simp only [hAll, List.mem_flatMap, List.mem_map] at hm
    obtain ⟨q, ⟨p, hp, hq⟩, x, hx, hxe⟩ := hm
    split at hq
    · subst hq; simp at hx hxe; rw [← hxe, hx]
    · rename_i hne
      subst hq
      simp at hxe
      simp [hxe.1] at hne
  · rename_i hany
    simp only [hAll, List.flatMap_append, List.mem_append, List.mem_flatMap, List.mem_map] at hm
    rcases hm with ⟨p, hp, x, hx, hxe⟩ | hm
    · exfalso
      apply hany
      apply List.any_eq_true.mpr
      refine ⟨p, hp, ?_⟩
      simp at hxe
      simp [hxe.1]
    · simp at hm
      exact hm

/-! ### `HTTPHeaders.add` keeps what is there and appends the new value -/

theorem hAdd_mem {h h' : Headers} {n v : Str} (hs : hAdd h n v = .ok h') :
    (normalize n, v) ∈ hAll h' ∧ ∀ q ∈ hAll h, q ∈ hAll h' := by
  simp only [hAdd] at hs
  split at hs
  · cases hs
  · split at hs
    · cases hs
    · split at hs
      · rename_i hany
        injection hs with hs
        subst hs
        obtain ⟨p, hp, hpe⟩ := List.any_eq_true.mp hany
        constructor
        · simp only [hAll, List.mem_flatMap, List.mem_map]
          exact ⟨(normalize n, p.2 ++ [v]), ⟨p, hp, by simp [hpe]⟩, v, by simp, rfl⟩
        · intro q hq
          simp only [hAll, List.mem_flatMap, List.mem_map] at hq ⊢
          obtain ⟨r, hr, x, hx, rfl⟩ := hq
          by_cases hre : (r.1 == normalize n) = true
          · refine ⟨(normalize n, r.2 ++ [v]), ⟨r, hr, by simp [hre]⟩, x, by simp [hx], ?_⟩
            simp only [beq_iff_eq] at hre
            simp [hre]
          · exact ⟨r, ⟨r, hr, by simp [hre]⟩, x, hx, rfl⟩
      · injection hs with hs
        subst hs
        constructor
        · simp [hAll]
        · intro q hq
          simp only [hAll, List.flatMap_append, List.mem_append]
          exact Or.inl hq

/-! ### header names: tokens stay tokens under `_normalize_header`; a token-named line parses back -/

theorem isTchar_lt {c : Nat} (h : isTchar c = true) : c < 128 := by
  simp only [isTchar, C25.isAlnum, Bool.or_eq_true, Bool.and_eq_true, decide_eq_true_eq, beq_iff_eq] at h
  omega

theorem tchar_cap_all : ∀ c < 128, isTchar c = true →
    (capFirst c).all isTchar = true ∧ isTchar (lowRest c) = true ∧ capFirst c ≠ [] := by decide

theorem capFirst_tchar {c : Nat} (h : isTchar c = true) : ∀ d ∈ capFirst c, isTchar d = true :=
  fun d hd => List.all_eq_true.mp (tchar_cap_all c (isTchar_lt h) h).1 d hd

theorem lowRest_tchar {c : Nat} (h : isTchar c = true) : isTchar (lowRest c) = true :=
  (tchar_cap_all c (isTchar_lt h) h).2.1

theorem capitalize_tchar {w : Str} (h : ∀ c ∈ w, isTchar c = true) : ∀ d ∈ capitalize w, isTchar d = true := by
  cases w with
  | nil => simp [capitalize]
  | cons c cs =>
    intro d hd
    simp only [capitalize, List.mem_append, List.mem_map] at hd
    rcases hd with hd | ⟨x, hx, rfl⟩
    · exact capFirst_tchar (h c (by simp)) d hd
    · exact lowRest_tchar (h x (by simp [hx]))

theorem splitOn_ne_nil (sep : Nat) (s : Str) : C25.splitOn sep s ≠ [] := by
  induction s with
  | nil => simp [C25.splitOn]
  | cons c cs ih =>
    simp only [C25.splitOn]
    split
    · simp
    · split <;> simp

theorem splitOn_mem (sep : Nat) (s : Str) : ∀ w ∈ C25.splitOn sep s, ∀ c ∈ w, c ∈ s := by
  induction s with
  | nil => simp [C25.splitOn]
  | cons a as ih =>
    intro w hw c hc
    simp only [C25.splitOn] at hw
    split at hw
    · simp only [List.mem_cons] at hw
      rcases hw with rfl | hw
      · simp at hc
      · exact List.mem_cons_of_mem _ (ih w hw c hc)
    · split at hw
      · simp only [List.mem_cons, List.not_mem_nil, or_false] at hw
        subst hw
        simp only [List.mem_cons, List.not_mem_nil, or_false] at hc
        simp [hc]
      · rename_i w0 ws heq
        simp only [List.mem_cons] at hw
        rcases hw with rfl | hw
        · simp only [List.mem_cons] at hc
          rcases hc with rfl | hc
          · simp
          · exact List.mem_cons_of_mem _ (ih w0 (by simp [heq]) c hc)
        · exact List.mem_cons_of_mem _ (ih w (by simp [heq, hw]) c hc)

theorem joinWith_mem (sep : Str) (ws : List Str) : ∀ c ∈ C25.joinWith sep ws, c ∈ sep ∨ ∃ w ∈ ws, c ∈ w := by
  induction ws with
  | nil => simp [C25.joinWith]
  | cons w rest ih =>
    intro c hc
    cases rest with
    | nil =>
      simp only [C25.joinWith] at hc
      exact Or.inr ⟨w, by simp, hc⟩
    | cons w2 rest2 =>
      simp only [C25.joinWith, List.mem_append] at hc
      rcases hc with (hc | hc) | hc
      · exact Or.inr ⟨w, by simp, hc⟩
      · exact Or.inl hc
      · rcases ih c hc with h | ⟨x, hx, hcx⟩
        · exact Or.inl h
        · exact Or.inr ⟨x, List.mem_cons_of_mem _ hx, hcx⟩

theorem joinWith_ne_nil (sep : Str) (w : Str) (ws : List Str) (h : w ≠ [] ∨ (ws ≠ [] ∧ sep ≠ [])) :
    C25.joinWith sep (w :: ws) ≠ [] := by
  cases ws with
  | nil =>
    simp only [C25.joinWith]
    rcases h with h | h
    · exact h
    · exact absurd rfl h.1
  | cons w2 rest =>
    simp only [C25.joinWith]
    rcases h with h | h
    · simp [h]
    · simp [h.2]

/-- `_normalize_header` maps a token to a token (so `add()`'s `self[norm_name] = value` passes the check of
`__setitem__`, and every name stored in an `HTTPHeaders` is a token) -/
theorem isToken_normalize {n : Str} (h : isToken n = true) : isToken (normalize n) = true := by
  simp only [isToken, Bool.and_eq_true, Bool.not_eq_true', List.isEmpty_eq_false_iff, List.all_eq_true] at h ⊢
  obtain ⟨hne, hall⟩ := h
  constructor
  · cases n with
    | nil => exact absurd rfl hne
    | cons c cs =>
      simp only [normalize, C25.splitOn]
      split
      · -- leading `-`: first word empty, at least one more word
        have : (C25.splitOn 45 cs).map capitalize ≠ [] := by simpa using splitOn_ne_nil 45 cs
        simp only [List.map_cons]
        exact joinWith_ne_nil _ _ _ (Or.inr ⟨this, by simp⟩)
      · split
        · exact absurd ‹_› (splitOn_ne_nil 45 cs)
        · simp only [List.map_cons]
          refine joinWith_ne_nil _ _ _ (Or.inl ?_)
          simp only [capitalize, ne_eq, List.append_eq_nil_iff, not_and]
          intro h0
          exact absurd h0 (tchar_cap_all c (isTchar_lt (hall c (by simp))) (hall c (by simp))).2.2
  · intro d hd
    rcases joinWith_mem _ _ d hd with hs | ⟨w, hw, hdw⟩
    · simp only [List.mem_cons, List.not_mem_nil, or_false] at hs
      subst hs
      decide
    · obtain ⟨w0, hw0, rfl⟩ := List.mem_map.mp hw
      exact capitalize_tchar (fun c hc => hall c (splitOn_mem 45 n w0 hw0 c hc)) d hdw

theorem splitColon_append (n rest : Str) (h : ∀ c ∈ n, c ≠ 58) :
    Spec.splitColon (n ++ 58 :: rest) = some (n, rest) := by
  induction n with
  | nil => simp [Spec.splitColon]
  | cons c cs ih =>
    have hc : c ≠ 58 := h c (by simp)
    simp [Spec.splitColon, hc, ih (fun x hx => h x (by simp [hx]))]

/-- a line `name: value` whose name is a token is read back by a strict client as exactly that field -/
theorem parseField_headerLine (p : Str × Str) (h : isToken p.1 = true) :
    Spec.parseField (headerLine p) = some (p.1, 32 :: p.2) := by
  have hall : ∀ c ∈ p.1, c ≠ 58 := by
    intro c hc he
    subst he
    simp only [isToken, Bool.and_eq_true, List.all_eq_true] at h
    exact absurd (h.2 58 hc) (by decide)
  simp [Spec.parseField, headerLine, splitColon_append p.1 (32 :: p.2) hall, h]

/-! ### names stored through checked entrances (`add`, literal names) are tokens — kept as facts about
`HTTPHeaders`; the wire theorems rest on the name check of `write_headers` (`writeHeadersG_names`) -/

def NamesOk (h : Headers) : Prop := ∀ p ∈ h, isToken p.1 = true

theorem namesOk_hSet {h : Headers} {n : Str} (v : Str) (hh : NamesOk h) (hn : isToken n = true) :
    NamesOk (hSet h n v) := by
  intro p hp
  simp only [hSet] at hp
  split at hp
  · obtain ⟨q, hq, rfl⟩ := List.mem_map.mp hp
    split
    · exact isToken_normalize hn
    · exact hh q hq
  · simp only [List.mem_append, List.mem_cons, List.not_mem_nil, or_false] at hp
    rcases hp with hp | rfl
    · exact hh p hp
    · exact isToken_normalize hn

theorem namesOk_hAdd {h h' : Headers} {n v : Str} (hh : NamesOk h) (hs : hAdd h n v = .ok h') :
    NamesOk h' := by
  simp only [hAdd] at hs
  split at hs
  · cases hs
  · rename_i hn
    have hn : isToken n = true := by simpa using hn
    split at hs
    · cases hs
    · split at hs
      · injection hs with hs
        subst hs
        intro p hp
        obtain ⟨q, hq, rfl⟩ := List.mem_map.mp hp
        split
        · exact isToken_normalize hn
        · exact hh q hq
      · injection hs with hs
        subst hs
        intro p hp
        simp only [List.mem_append, List.mem_cons, List.not_mem_nil, or_false] at hp
        rcases hp with hp | rfl
        · exact hh p hp
        · exact isToken_normalize hn

theorem namesOk_hDel {h : Headers} (n : Str) (hh : NamesOk h) : NamesOk (hDel h n) :=
  fun p hp => hh p (List.mem_filter.mp hp).1

theorem namesOk_addCookieLines (cs : List Str) {h : Headers} (hh : NamesOk h) : NamesOk (addCookieLines h cs) := by
  induction cs generalizing h with
  | nil => exact hh
  | cons s rest ih =>
    simp only [addCookieLines]
    apply ih
    split
    · intro p hp
      obtain ⟨q, hq, rfl⟩ := List.mem_map.mp hp
      split
      · show isToken (ofAscii "Set-Cookie") = true
        decide
      · exact hh q hq
    · intro p hp
      simp only [List.mem_append, List.mem_cons, List.not_mem_nil, or_false] at hp
      rcases hp with hp | rfl
      · exact hh p hp
      · show isToken (ofAscii "Set-Cookie") = true
        decide

theorem namesOk_finishPrep {st : St} (hh : NamesOk st.headers) : NamesOk (finishPrep st).headers := by
  simp only [finishPrep]
  split
  · exact namesOk_hDel _ (namesOk_hDel _ (namesOk_hDel _ hh))
  · split
    · exact hh
    · exact namesOk_hSet _ hh (by decide)


theorem namesOk_initSt (server ctype date : Str) : NamesOk (initSt server ctype date).headers := by
  simp only [initSt]
  refine namesOk_hSet _ (namesOk_hSet _ (namesOk_hSet _ ?_ (by decide)) (by decide)) (by decide)
  intro p hp
  cases hp

theorem namesOk_hAddAll {h h' : Headers} (hs : List (Str × Str)) (hh : NamesOk h) (hk : hAddAll h hs = .ok h') :
    NamesOk h' := by
  induction hs generalizing h with
  | nil =>
    simp only [hAddAll] at hk
    injection hk with hk
    subst hk
    exact hh
  | cons p rest ih =>
    obtain ⟨n, v⟩ := p
    simp only [hAddAll] at hk
    split at hk
    · rename_i h1 h1k
      exact ih (namesOk_hAdd hh h1k) hk
    · cases hk

/-- header lines whose names are tokens are read back field by field -/
theorem parseFields_lines (l : List (Str × Str)) (hall : ∀ p ∈ l, isToken p.1 = true) :
    (l.map headerLine).mapM Spec.parseField = some (l.map (fun p => (p.1, 32 :: p.2))) := by
  induction l with
  | nil => rfl
  | cons p ps ih =>
    have h1 := parseField_headerLine p (hall p (by simp))
    have h2 := ih (fun q hq => hall q (by simp [hq]))
    simp only [List.map_cons, List.mapM_cons, h1, h2]
    rfl

/-! ### first line of defence: every header VALUE a `RequestHandler` stores passed `_VALID_HEADER_CHARS` -/

open TornadoModel.C25 (validHeaderChars isValidHeaderChar) in
def ValsOk (h : Headers) : Prop := ∀ p ∈ h, ∀ v ∈ p.2, validHeaderChars v = true

open TornadoModel.C25 (validHeaderChars isValidHeaderChar)

theorem decOfNat_valid (n : Nat) : validHeaderChars (C25.decOfNat n) = true := by
  simp only [validHeaderChars, C25.decOfNat, List.all_eq_true, List.mem_map]
  rintro c ⟨ch, hch, rfl⟩
  have hd : ch.isDigit = true := by
    have : ch ∈ Nat.toDigits 10 n := by
      have h := @Nat.toList_repr n
      change ch ∈ (Nat.repr n).toList at hch
      rwa [h] at hch
    exact Nat.isDigit_of_mem_toDigits (by decide) (by decide) this
  simp only [Char.isDigit, Bool.and_eq_true, decide_eq_true_eq] at hd
  have h1 : 48 ≤ ch.toNat := by have := hd.1; exact UInt32.le_iff_toNat_le.mp this
  have h2 : ch.toNat ≤ 57 := by have := hd.2; exact UInt32.le_iff_toNat_le.mp this
  simp only [isValidHeaderChar, Bool.or_eq_true, beq_iff_eq, Bool.and_eq_true, decide_eq_true_eq]
  omega

theorem decOfInt_valid (i : Int) : validHeaderChars (C25.decOfInt i) = true := by
  unfold C25.decOfInt
  split
  · have := decOfNat_valid i.natAbs
    simp only [validHeaderChars, List.all_cons, Bool.and_eq_true] at this ⊢
    exact ⟨by decide, this⟩
  · exact decOfNat_valid _

theorem convert_valid {v : HVal} {s : Str} (h : convert v = .ok s) : validHeaderChars s = true := by
  cases v with
  | str t =>
    simp only [convert] at h
    split at h
    · injection h with h; subst h; assumption
    · cases h
  | bytes t =>
    simp only [convert] at h
    split at h
    · injection h with h; subst h; assumption
    · cases h
  | int i =>
    simp only [convert] at h
    injection h with h
    subst h
    exact decOfInt_valid i

theorem valsOk_hSet {h : Headers} (n : Str) {v : Str} (hh : ValsOk h) (hv : validHeaderChars v = true) :
    ValsOk (hSet h n v) := by
  intro p hp w hw
  simp only [hSet] at hp
  split at hp
  · obtain ⟨q, hq, rfl⟩ := List.mem_map.mp hp
    split at hw
    · simp only [List.mem_cons, List.not_mem_nil, or_false] at hw
      subst hw
      exact hv
    · exact hh q hq w hw
  · simp only [List.mem_append, List.mem_cons, List.not_mem_nil, or_false] at hp
    rcases hp with hp | rfl
    · exact hh p hp w hw
    · simp only [List.mem_cons, List.not_mem_nil, or_false] at hw
      subst hw
      exact hv

/-- appending one value under a name (the dict update shared by `add()` and the cookie loop of `flush`) -/
theorem valsOk_append {h : Headers} (n : Str) {v : Str} (hh : ValsOk h) (hv : validHeaderChars v = true) :
    ValsOk (if h.any (·.1 == n) then h.map (fun p => if p.1 == n then (n, p.2 ++ [v]) else p) else h ++ [(n, [v])]) := by
  intro p hp w hw
  split at hp
  · obtain ⟨q, hq, rfl⟩ := List.mem_map.mp hp
    split at hw
    · simp only [List.mem_append, List.mem_cons, List.not_mem_nil, or_false] at hw
      rcases hw with hw | rfl
      · exact hh q hq w hw
      · exact hv
    · exact hh q hq w hw
  · simp only [List.mem_append, List.mem_cons, List.not_mem_nil, or_false] at hp
    rcases hp with hp | rfl
    · exact hh p hp w hw
    · simp only [List.mem_cons, List.not_mem_nil, or_false] at hw
      subst hw
      exact hv

theorem valsOk_hAdd {h h' : Headers} {n v : Str} (hh : ValsOk h) (hv : validHeaderChars v = true)
    (hs : hAdd h n v = .ok h') : ValsOk h' := by
  simp only [hAdd] at hs
  split at hs
  · cases hs
  · split at hs
    · cases hs
    · have := valsOk_append (normalize n) hh hv
      split at hs
      · rename_i hany
        injection hs with hs
        subst hs
        simpa [hany] using this
      · rename_i hany
        injection hs with hs
        subst hs
        simpa [hany] using this

theorem valsOk_hDel {h : Headers} (n : Str) (hh : ValsOk h) : ValsOk (hDel h n) :=
  fun p hp => hh p (List.mem_filter.mp hp).1

theorem flushCookies_valid {j : C25.Jar} {cs : List Str} (h : C25.flushCookies j = .ok cs) :
    ∀ s ∈ cs, validHeaderChars s = true := by
  induction j generalizing cs with
  | nil =>
    simp only [C25.flushCookies] at h
    injection h with h
    subst h
    simp
  | cons m rest ih =>
    simp only [C25.flushCookies] at h
    split at h
    · cases h
    · rename_i hv
      split at h
      · cases h
      · split at h
        · rename_i l hl
          injection h with h
          subst h
          intro s hs
          simp only [List.mem_cons] at hs
          rcases hs with rfl | hs
          · simpa using hv
          · exact ih hl s hs
        · cases h

theorem valsOk_addCookieLines {cs : List Str} {h : Headers} (hh : ValsOk h)
    (hc : ∀ s ∈ cs, validHeaderChars s = true) : ValsOk (addCookieLines h cs) := by
  induction cs generalizing h with
  | nil => exact hh
  | cons s rest ih =>
    simp only [addCookieLines]
    exact ih (valsOk_append _ hh (hc s (by simp))) (fun x hx => hc x (by simp [hx]))

theorem valsOk_finishPrep {st : St} (hh : ValsOk st.headers) : ValsOk (finishPrep st).headers := by
  simp only [finishPrep]
  split
  · exact valsOk_hDel _ (valsOk_hDel _ (valsOk_hDel _ hh))
  · split
    · exact hh
    · exact valsOk_hSet _ hh (by decide)

theorem valsOk_setHeader {st : St} (n : Str) (v : HVal) (hh : ValsOk st.headers) :
    ValsOk (setHeader st n v).1.headers := by
  simp only [setHeader]
  split
  · rename_i s hs
    exact valsOk_hSet n hh (convert_valid hs)
  · exact hh

theorem valsOk_step {st : St} (op : Op) (hh : ValsOk st.headers) : ValsOk (step st op).1.headers := by
  cases op with
  | setHeader n v => exact valsOk_setHeader n v hh
  | addHeader n v =>
    simp only [step, addHeader]
    split
    · exact hh
    · rename_i s hs
      split
      · rename_i h' hk
        exact valsOk_hAdd hh (convert_valid hs) hk
      · exact hh
  | clearHeader n => exact valsOk_hDel n hh
  | setStatus c r => exact hh
  | setCookie a => exact hh
  | redirect url perm =>
    simp only [step]
    split
    · exact hh
    · exact valsOk_setHeader (st := setStatus st (if perm then 301 else 302) none) _ _ hh

theorem valsOk_run {st : St} (ops : List Op) (hh : ValsOk st.headers) : ValsOk (run st ops).1.headers := by
  induction ops generalizing st with
  | nil => exact hh
  | cons op rest ih => exact ih (valsOk_step op hh)

theorem valid_no_ctl {s : Str} (h : validHeaderChars s = true) : ∀ c ∈ s, c ≠ 13 ∧ c ≠ 10 ∧ c ≠ 0 := by
  intro c hc
  have := List.all_eq_true.mp h c hc
  simp only [isValidHeaderChar, Bool.or_eq_true, beq_iff_eq, Bool.and_eq_true, decide_eq_true_eq] at this
  omega

end TornadoModel.C07
