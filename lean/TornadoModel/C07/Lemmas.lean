/- C07 — helper lemmas (core Lean only) -/
import TornadoModel.C07.Spec
namespace TornadoModel.C07
open TornadoModel.C25 (Str Err)

/-! ### the guard of `write_headers` -/

theorem lineOkG_forbidden {l : Str} (h : lineOkG forbiddenByte l = true) :
    ∀ b ∈ l, b ≠ 13 ∧ b ≠ 10 ∧ b ≠ 0 := by
  intro b hb
  simp only [lineOkG, Bool.not_eq_true', List.any_eq_false] at h
  have := h b hb
  simp only [forbiddenByte, Bool.or_eq_true, beq_iff_eq, not_or] at this
  omega

theorem writeHeadersG_ok {forb code reason h lines}
    (hw : writeHeadersG forb code reason h = .ok lines) :
    lines = statusLine code reason :: (hAll h).map headerLine ∧ lines.all (lineOkG forb) = true := by
  unfold writeHeadersG at hw
  simp only at hw
  split at hw
  · cases hw
  · split at hw
    · cases hw
    · rename_i h2
      injection hw with hw
      subst hw
      refine ⟨rfl, ?_⟩
      simpa using h2

/-! ### the strict reader on a CRLF-joined block -/

theorem takeLine_append (l rest : Str) (h : ∀ b ∈ l, b ≠ 13) :
    Spec.takeLine (l ++ 13 :: 10 :: rest) = some (l, rest) := by
  induction l with
  | nil => simp [Spec.takeLine]
  | cons c cs ih =>
    have hc : c ≠ 13 := h c (by simp)
    have := ih (fun b hb => h b (by simp [hb]))
    simp [Spec.takeLine, hc, this]

theorem readLines_join (lines : List Str) (hne : ∀ l ∈ lines, l ≠ []) (hcr : ∀ l ∈ lines, ∀ b ∈ l, b ≠ 13)
    (fuel : Nat) (hf : lines.length < fuel) :
    Spec.readLines fuel (joinLines lines) = some (lines, []) := by
  induction lines generalizing fuel with
  | nil =>
    cases fuel with
    | zero => omega
    | succ f => simp [Spec.readLines, joinLines, crlf, Spec.takeLine]
  | cons l ls ih =>
    cases fuel with
    | zero => omega
    | succ f =>
      have h1 : Spec.takeLine (l ++ 13 :: 10 :: joinLines ls) = some (l, joinLines ls) :=
        takeLine_append l _ (hcr l (by simp))
      have hl : l ≠ [] := hne l (by simp)
      have h2 := ih (fun x hx => hne x (by simp [hx])) (fun x hx => hcr x (by simp [hx])) f
        (by simp at hf; omega)
      simp only [Spec.readLines, joinLines, crlf, List.append_assoc, List.cons_append, List.nil_append, h1]
      cases l with
      | nil => exact absurd rfl hl
      | cons a as => simp [h2]

theorem joinLines_length (lines : List Str) : lines.length < (joinLines lines).length + 1 := by
  induction lines with
  | nil => simp [joinLines, crlf]
  | cons l ls ih => simp [joinLines, crlf]; omega

/-! ### `HTTPHeaders.__setitem__` -/

theorem hSet_mem (h : Headers) (n v : Str) : (normalize n, v) ∈ hAll (hSet h n v) := by
  simp only [hSet]
  split
  · rename_i hany
    obtain ⟨p, hp, hpe⟩ := List.any_eq_true.mp hany
    simp only [hAll, List.mem_flatMap, List.mem_map]
    refine ⟨(normalize n, [v]), ⟨p, hp, by simp [hpe]⟩, v, by simp, rfl⟩
  · simp [hAll]

theorem hSet_only (h : Headers) (n v w : Str) (hm : (normalize n, w) ∈ hAll (hSet h n v)) : w = v := by
  simp only [hSet] at hm
  split at hm
  · simp only [hAll, List.mem_flatMap, List.mem_map] at hm
    obtain ⟨q, ⟨p, hp, hq⟩, x, hx, hxe⟩ := hm
    split at hq
    · subst hq; simp at hx hxe; rw [← hxe, hx]
    · rename_i hne
      subst hq
      simp at hxe
      simp [hxe.1] at hne
  · rename_i hany
    simp only [hAll, List.flatMap_append, List.mem_append, List.mem_flatMap, List.mem_map] at hm
    rcases hm with ⟨p, hp, x, hx, hxe⟩ | hm
    · exfalso
      apply hany
      apply List.any_eq_true.mpr
      refine ⟨p, hp, ?_⟩
      simp at hxe
      simp [hxe.1]
    · simp at hm
      exact hm

end TornadoModel.C07
