import TornadoModel.C07.Spec
namespace TornadoModel.C07
theorem stub : (1 : Nat) = 1 := rfl
end TornadoModel.C07
