/-
C07 — application data cannot inject header lines or split a response: the property theorems.

`response init ops` is the model of a whole handler: every call of `ops` (set_header / add_header with
str, bytes and int values, clear_header, set_status with a reason, set_cookie with all its fields and
deprecated keywords, redirect) followed by `finish()`; its second component is either the exception
`finish()` raised (nothing is written) or the lines of the header block handed to the stream as
`wire lines`.  All theorems quantify over every initial header state and every call sequence.
-/
import TornadoModel.C07.Lemmas
namespace TornadoModel.C07
open TornadoModel.C25 (Str Err validHeaderChars isValidHeaderChar)

/-- what `finish` returns when it does not raise -/
theorem lines_intended (init : St) (ops : List Op) (lines : List Str)
    (h : (response init ops).2 = .ok lines) :
    ∃ cs, C25.flushCookies (finishPrep (run init ops).1).jar = .ok cs ∧
      lines = statusLine (finishPrep (run init ops).1).code (finishPrep (run init ops).1).reason ::
        (hAll (addCookieLines (finishPrep (run init ops).1).headers cs)).map headerLine := by
  simp only [response, responseG, finishG] at h
  split at h
  · cases h
  · rename_i cs hcs
    exact ⟨cs, hcs, (writeHeadersG_ok h).1⟩

/-- **No CR, LF or NUL supplied by the application reaches the wire inside the header block**: whatever
the calls were, either `finish` raises or no line of the block contains one of the three bytes (the
only CR LF on the wire are the terminators `joinLines` adds). -/
theorem no_ctl_on_wire (init : St) (ops : List Op) (lines : List Str)
    (h : (response init ops).2 = .ok lines) :
    ∀ l ∈ lines, ∀ b ∈ l, b ≠ 13 ∧ b ≠ 10 ∧ b ≠ 0 := by
  simp only [response, responseG, finishG] at h
  split at h
  · cases h
  · have := (writeHeadersG_ok h).2
    intro l hl
    exact lineOkG_forbidden (List.all_eq_true.mp this l hl)

example : (response (initSt [83] [84] [68]) [.setHeader [88, 45, 65] (.str [118]),
    .setCookie { name := .str [97], value := .str [98, 59, 99] }]).2
    = .ok [ofAscii "HTTP/1.1 200 OK", ofAscii "Server: S", ofAscii "Content-Type: T", ofAscii "Date: D",
           ofAscii "X-A: v", ofAscii "Content-Length: 0", ofAscii "Set-Cookie: a=\"b\\073c\"; Path=/"] := by rfl

/-- a rejected response: CR LF in a header *name* (never validated at call time) is stopped by the guard -/
example : (response (initSt [83] [84] [68]) [.setHeader [88, 13, 10, 89] (.str [118])])
    = ([none], .error .valueError) := by rfl

/-- every emitted line is non-empty (so the block cannot end early) -/
theorem lines_nonempty (init : St) (ops : List Op) (lines : List Str)
    (h : (response init ops).2 = .ok lines) : ∀ l ∈ lines, l ≠ [] := by
  obtain ⟨cs, _, hl⟩ := lines_intended init ops lines h
  subst hl
  intro l hl
  simp only [List.mem_cons, List.mem_map] at hl
  rcases hl with rfl | ⟨p, _, rfl⟩
  · simp [statusLine, ofAscii]
  · simp [headerLine]

/-- **Exactly the intended lines, no extra line, no body**: a strict reader (lines end in CR LF, block
ends at the first empty line) applied to the bytes on the wire returns exactly the lines the handler
state asked for (`lines_intended`), finds nothing after the block, and no CR/LF/NUL inside a line. -/
theorem exact_lines (init : St) (ops : List Op) (lines : List Str)
    (h : (response init ops).2 = .ok lines) :
    Spec.readBlock (wire lines) = some (lines, []) ∧ Spec.clean lines = true := by
  have hc := no_ctl_on_wire init ops lines h
  have hn := lines_nonempty init ops lines h
  constructor
  · exact readLines_join lines hn (fun l hl b hb => (hc l hl b hb).1) _ (joinLines_length lines)
  · simp only [Spec.clean, Spec.cleanLine, List.all_eq_true, Bool.and_eq_true, bne_iff_ne, ne_eq]
    intro l hl b hb
    have := hc l hl b hb
    exact ⟨⟨this.1, this.2.1⟩, this.2.2⟩

/-- **Field level — a header NAME cannot smuggle another field**: when `finish` does not raise, the block is the
status line followed by one line per (name, value) of the final header map; every name is an RFC 9110 token, and a
strict client that takes the text before the FIRST colon of a line as the field name (and demands a token) reads
back exactly those (name, `" " ++ value`) pairs, in order — so `set_header("Set-Cookie: a=b; x", "v")` or
`set_header("X Y", "v")` can only end in an exception, never in a line that is attributed to another field. -/
theorem fields_exact (init : St) (ops : List Op) (lines : List Str)
    (h : (response init ops).2 = .ok lines) :
    ∃ hdrs : List (Str × Str), lines = statusLine (finishPrep (run init ops).1).code (finishPrep (run init ops).1).reason
        :: hdrs.map headerLine ∧
      (∀ p ∈ hdrs, isToken p.1 = true) ∧
      lines.tail.mapM Spec.parseField = some (hdrs.map (fun p => (p.1, 32 :: p.2))) := by
  simp only [response, responseG, finishG] at h
  split at h
  · cases h
  · rename_i cs hcs
    have hl := (writeHeadersG_ok h).1
    have hn := writeHeadersG_names h
    refine ⟨_, hl, hn, ?_⟩
    rw [hl]
    exact parseFields_lines _ hn

/-- a colon (or a space) in a header name: accepted by `set_header` (nothing validates the name at call time),
rejected by the name check of `write_headers` — nothing is written -/
example : (response (initSt [83] [84] [68]) [.setHeader (ofAscii "X: y") (.str [118])])
    = ([none], .error .valueError) := by rfl
example : (response (initSt [83] [84] [68]) [.setHeader (ofAscii "X Y") (.str [118])])
    = ([none], .error .valueError) := by rfl

/-- NUL occurs nowhere in the bytes handed to the stream -/
theorem nul_not_in_wire (init : St) (ops : List Op) (lines : List Str)
    (h : (response init ops).2 = .ok lines) : 0 ∉ wire lines := by
  have hc := no_ctl_on_wire init ops lines h
  clear h
  induction lines with
  | nil => simp [wire, joinLines, crlf]
  | cons l ls ih =>
    simp only [wire, joinLines, crlf, List.append_assoc, List.mem_append, List.mem_cons, not_or] at ih ⊢
    refine ⟨fun hm => (hc l (by simp) 0 hm).2.2 rfl, ?_, ?_⟩
    · simp
    · exact ih (fun x hx => hc x (by simp [hx]))

/-! ### first line of defence: what the individual calls accept -/

/-- `_convert_header_value` on str: accepted text is stored unchanged and has no CR, LF, NUL (nor any
other control except HTAB, nor DEL, nor anything above U+00FF) -/
theorem convert_str_clean (s t : Str) (h : convert (.str s) = .ok t) :
    t = s ∧ ∀ c ∈ t, c ≠ 13 ∧ c ≠ 10 ∧ c ≠ 0 ∧ c ≠ 127 ∧ c < 256 := by
  simp only [convert] at h
  split at h
  · rename_i hv
    injection h with h
    subst h
    refine ⟨rfl, fun c hc => ?_⟩
    have := List.all_eq_true.mp hv c hc
    simp only [isValidHeaderChar, Bool.or_eq_true, beq_iff_eq, Bool.and_eq_true, decide_eq_true_eq] at this
    omega
  · cases h

/-- the same for bytes values (latin-1 decoding keeps every byte) -/
theorem convert_bytes_clean (s t : Str) (h : convert (.bytes s) = .ok t) :
    t = s ∧ ∀ c ∈ t, c ≠ 13 ∧ c ≠ 10 ∧ c ≠ 0 ∧ c ≠ 127 ∧ c < 256 := by
  simp only [convert] at h
  split at h
  · rename_i hv
    injection h with h
    subst h
    refine ⟨rfl, fun c hc => ?_⟩
    have := List.all_eq_true.mp hv c hc
    simp only [isValidHeaderChar, Bool.or_eq_true, beq_iff_eq, Bool.and_eq_true, decide_eq_true_eq] at this
    omega
  · cases h

example : convert (.str [97, 9, 233]) = .ok [97, 9, 233] := by rfl
example : convert (.bytes [97, 10]) = .error .valueError := by rfl

/-- `set_header(name, value)` with an accepted str value: afterwards the header map holds exactly that
text under the normalised name, and nothing else under it (so the line `Name: value` of
`lines_intended` carries the application's value unchanged) -/
theorem set_header_stores (st st' : St) (n s : Str) (h : setHeader st n (.str s) = (st', none)) :
    (normalize n, s) ∈ hAll st'.headers ∧ ∀ w, (normalize n, w) ∈ hAll st'.headers → w = s := by
  simp only [setHeader] at h
  split at h
  · rename_i t ht
    have := (convert_str_clean s t ht).1
    subst this
    injection h with h1 _
    subst h1
    exact ⟨hSet_mem _ _ _, fun w hw => hSet_only _ _ _ _ hw⟩
  · cases h

example : (setHeader (initSt [83] [84] [68]) [120, 45, 97] (.str [118])).2 = none := by rfl

/-- the same for every kind of value (str, bytes, int): what `set_header` stores is the text
`_convert_header_value` produced (for str and bytes that is the argument itself: `convert_str_clean`,
`convert_bytes_clean`), and it is the only value under the normalised name -/
theorem set_header_stores_any (st st' : St) (n : Str) (v : HVal) (h : setHeader st n v = (st', none)) :
    ∃ s, convert v = .ok s ∧ (normalize n, s) ∈ hAll st'.headers ∧
      ∀ w, (normalize n, w) ∈ hAll st'.headers → w = s := by
  simp only [setHeader] at h
  split at h
  · rename_i t ht
    injection h with h1 _
    subst h1
    exact ⟨t, ht, hSet_mem _ _ _, fun w hw => hSet_only _ _ _ _ hw⟩
  · cases h

/-- `add_header(name, value)` that returns: the name is a token, the converted value is a valid field value,
the pair (normalised name, value) is in the header map afterwards, and every pair that was there before still
is (nothing is replaced or dropped) -/
theorem add_header_stores (st st' : St) (n : Str) (v : HVal) (h : addHeader st n v = (st', none)) :
    ∃ s, convert v = .ok s ∧ (normalize n, s) ∈ hAll st'.headers ∧
      (∀ q ∈ hAll st.headers, q ∈ hAll st'.headers) := by
  simp only [addHeader] at h
  split at h
  · cases h
  · rename_i s hs
    split at h
    · rename_i h' hk
      injection h with h1 _
      subst h1
      exact ⟨s, hs, (hAdd_mem hk).1, (hAdd_mem hk).2⟩
    · cases h

example : (addHeader (initSt [83] [84] [68]) [120, 45, 97] (.bytes [118])).2 = none := by rfl

/-- `set_status(code, reason)`: the stored reason never contains CR, LF, NUL or `<`; it is either the
given phrase or "Unknown" -/
theorem checkReason_clean (r : Str) :
    (checkReason r = r ∨ checkReason r = sUnknown) ∧ ∀ c ∈ checkReason r, c ≠ 13 ∧ c ≠ 10 ∧ c ≠ 0 ∧ c ≠ 60 := by
  unfold checkReason
  split
  · refine ⟨Or.inr rfl, ?_⟩
    intro c hc
    simp only [sUnknown, List.mem_cons, List.not_mem_nil, or_false] at hc
    omega
  · rename_i hcond
    refine ⟨Or.inl rfl, ?_⟩
    intro c hc
    simp only [Bool.or_eq_true, Bool.not_eq_true', not_or, Bool.not_eq_true] at hcond
    have hall := List.all_eq_true.mp (by simpa using hcond.2) c hc
    have h60 : c ≠ 60 := by
      intro he
      subst he
      have := hcond.1.1
      simp at this
      exact this hc
    simp only [isReasonChar, Bool.or_eq_true, beq_iff_eq, Bool.and_eq_true, decide_eq_true_eq] at hall
    omega

example : checkReason (ofAscii "Not Found") = ofAscii "Not Found" := by rfl
example : checkReason [79, 13, 10, 88] = sUnknown := by rfl

/-- `redirect(url)` with a str url: when the call returns, the stored `Location` value is the UTF-8
encoding of the url and contains no CR, LF or NUL -/
theorem redirect_location_clean (st st' : St) (url : Str) (perm : Bool)
    (h : step st (.redirect (.str url) perm) = (st', none)) :
    ∃ bs, utf8Enc url = .ok bs ∧ (∀ c ∈ bs, c ≠ 13 ∧ c ≠ 10 ∧ c ≠ 0) ∧
      st'.headers = hSet (setStatus st (if perm then 301 else 302) none).headers (ofAscii "Location") bs := by
  simp only [step] at h
  split at h
  · cases h
  · rename_i bs hb
    simp only [setHeader] at h
    split at h
    · rename_i s hs
      have hc := convert_bytes_clean bs s hs
      injection h with h1 _
      subst h1
      refine ⟨bs, hb, ?_, ?_⟩
      · intro c hc'
        have := hc.2 c (hc.1 ▸ hc')
        omega
      · simp [hc.1]
    · cases h

example : (step (initSt [83] [84] [68]) (.redirect (.str [47, 233]) false)).2 = none := by rfl
example : (step (initSt [83] [84] [68]) (.redirect (.str [47, 10, 88]) false)).2 = some .valueError := by rfl

/-! ### the first line of defence at run level: what reaches `write_headers` from a `RequestHandler` -/

/-- **Every header VALUE a `RequestHandler` hands to `write_headers` is already free of CR, LF and NUL** — for
every call sequence (str / bytes / int values through `set_header` / `add_header`, `redirect`, the `Content-Length`
of `finish`, the `Set-Cookie` lines of `flush`), provided the initial values are (they are literals / settings).
This is what the call-time checks (`_convert_header_value`, `HTTPHeaders.add`) achieve on their own, without the
guard of `write_headers`; it links `convert_*_clean` to the block that is serialised. -/
theorem handler_values_clean (init : St) (ops : List Op) (hv : ValsOk init.headers) (cs : List Str)
    (hcs : C25.flushCookies (finishPrep (run init ops).1).jar = .ok cs) :
    ∀ p ∈ hAll (addCookieLines (finishPrep (run init ops).1).headers cs), ∀ c ∈ p.2, c ≠ 13 ∧ c ≠ 10 ∧ c ≠ 0 := by
  have h1 := valsOk_addCookieLines (valsOk_finishPrep (valsOk_run ops hv)) (flushCookies_valid hcs)
  intro p hp
  simp only [hAll, List.mem_flatMap, List.mem_map] at hp
  obtain ⟨q, hq, v, hvq, rfl⟩ := hp
  exact valid_no_ctl (h1 q hq v hvq)

example : ValsOk (initSt (ofAscii "S/1") (ofAscii "text/html") (ofAscii "Thu")).headers := by
  simp only [initSt]
  exact valsOk_hSet _ (valsOk_hSet _ (valsOk_hSet _ (fun _ hp => by cases hp) (by decide)) (by decide)) (by decide)

def ReasonOk (r : Str) : Prop := ∀ c ∈ r, c ≠ 13 ∧ c ≠ 10 ∧ c ≠ 0

theorem stdReason_ok (code : Int) : ReasonOk (stdReason code) := by
  unfold stdReason
  repeat' split
  all_goals (intro c hc; simp [ofAscii, sUnknown] at hc; omega)

theorem setHeader_reason (st : St) (n : Str) (v : HVal) : (setHeader st n v).1.reason = st.reason := by
  simp only [setHeader]
  split <;> rfl

theorem step_reasonOk {st : St} (op : Op) (hr : ReasonOk st.reason) : ReasonOk (step st op).1.reason := by
  cases op with
  | setHeader n v => rw [show (step st (.setHeader n v)) = setHeader st n v from rfl, setHeader_reason]; exact hr
  | addHeader n v =>
    simp only [step, addHeader]
    split
    · exact hr
    · split <;> exact hr
  | clearHeader n => exact hr
  | setStatus c r =>
    simp only [step, setStatus]
    cases r with
    | none => exact stdReason_ok c
    | some r => intro c hc; have := (checkReason_clean r).2 c hc; omega
  | setCookie a => exact hr
  | redirect url perm =>
    simp only [step]
    split
    · exact stdReason_ok _
    · rw [setHeader_reason]; exact stdReason_ok _

/-- **The reason phrase a `RequestHandler` hands to `write_headers` is free of CR, LF and NUL**, whatever the
calls (`set_status(code, reason)` with any str, `redirect`) -/
theorem handler_reason_clean (init : St) (ops : List Op) (hr : ReasonOk init.reason) :
    ReasonOk (finishPrep (run init ops).1).reason := by
  have : ReasonOk (run init ops).1.reason := by
    induction ops generalizing init with
    | nil => exact hr
    | cons op rest ih => exact ih _ (step_reasonOk op hr)
  simp only [finishPrep]
  split
  · exact this
  · split <;> exact this

theorem handler_values_valid (init : St) (ops : List Op) (hv : ValsOk init.headers) (cs : List Str)
    (hcs : C25.flushCookies (finishPrep (run init ops).1).jar = .ok cs) :
    ∀ p ∈ hAll (addCookieLines (finishPrep (run init ops).1).headers cs), validHeaderChars p.2 = true := by
  have h1 := valsOk_addCookieLines (valsOk_finishPrep (valsOk_run ops hv)) (flushCookies_valid hcs)
  intro p hp
  simp only [hAll, List.mem_flatMap, List.mem_map] at hp
  obtain ⟨q, hq, v, hvq, rfl⟩ := hp
  exact h1 q hq v hvq

theorem utf8Enc1_no_ctl {c : Nat} (hc : c ≠ 13 ∧ c ≠ 10 ∧ c ≠ 0) : ∀ b ∈ utf8Enc1 c, b ≠ 13 ∧ b ≠ 10 ∧ b ≠ 0 := by
  intro b hb
  unfold utf8Enc1 at hb
  split at hb
  · simp at hb; omega
  · split at hb
    · simp at hb; omega
    · split at hb
      · simp at hb; omega
      · simp at hb; omega

theorem statusLine_no_ctl (code : Int) {reason : Str} (hr : ReasonOk reason) :
    ∀ b ∈ statusLine code reason, b ≠ 13 ∧ b ≠ 10 ∧ b ≠ 0 := by
  have hpre : ∀ x ∈ ofAscii "HTTP/1.1 ", x ≠ 13 ∧ x ≠ 10 ∧ x ≠ 0 := by decide
  intro b hb
  simp only [statusLine, List.mem_append, List.mem_cons, List.mem_flatMap] at hb
  rcases hb with (hb | hb) | rfl | ⟨c, hc, hb⟩
  · exact hpre b hb
  · exact valid_no_ctl (decOfInt_valid code) b hb
  · omega
  · exact utf8Enc1_no_ctl (hr c hc) b hb

theorem isTchar_no_ctl {c : Nat} (h : isTchar c = true) : c ≠ 13 ∧ c ≠ 10 ∧ c ≠ 0 ∧ c < 128 := by
  simp only [isTchar, C25.isAlnum, Bool.or_eq_true, Bool.and_eq_true, decide_eq_true_eq, beq_iff_eq] at h
  omega

/-- **On the `RequestHandler` path the guards of `write_headers` can fire only because of a header NAME**: if the
cookie loop of `flush` succeeded and every name in the final header map is a token, `finish()` does not raise —
values and reason were already made safe by the call-time checks (`handler_values_valid`,
`handler_reason_clean`).  Together with `fields_exact`: `finish()` raises in `write_headers` exactly when some
name passed to `set_header` is not a token. -/
theorem handler_guard_only_names (init : St) (ops : List Op) (hv : ValsOk init.headers) (hr : ReasonOk init.reason)
    (cs : List Str) (hcs : C25.flushCookies (finishPrep (run init ops).1).jar = .ok cs)
    (hn : ∀ p ∈ hAll (addCookieLines (finishPrep (run init ops).1).headers cs), isToken p.1 = true) :
    ∃ lines, (response init ops).2 = .ok lines := by
  have hvals := handler_values_valid init ops hv cs hcs
  have hreason := handler_reason_clean init ops hr
  obtain ⟨H, hH⟩ : ∃ H, H = addCookieLines (finishPrep (run init ops).1).headers cs := ⟨_, rfl⟩
  rw [← hH] at hvals hn
  have hline : ∀ p ∈ hAll H, ∀ b ∈ headerLine p, (b ≠ 13 ∧ b ≠ 10 ∧ b ≠ 0) ∧ b < 256 := by
    intro p hp b hb
    simp only [headerLine, List.mem_append, List.mem_cons] at hb
    have htok := hn p hp
    simp only [isToken, Bool.and_eq_true, List.all_eq_true] at htok
    rcases hb with hb | rfl | rfl | hb
    · have := isTchar_no_ctl (htok.2 b hb); omega
    · omega
    · omega
    · have h1 := valid_no_ctl (hvals p hp) b hb
      have h2 := List.all_eq_true.mp (hvals p hp) b hb
      simp only [isValidHeaderChar, Bool.or_eq_true, beq_iff_eq, Bool.and_eq_true, decide_eq_true_eq] at h2
      omega
  have hlat : ((hAll H).map headerLine).all latin1Ok = true := by
    simp only [List.all_eq_true, List.mem_map, latin1Ok, decide_eq_true_eq]
    rintro l ⟨p, hp, rfl⟩ b hb
    exact (hline p hp b hb).2
  have hok : ∀ l : Str, (∀ b ∈ l, b ≠ 13 ∧ b ≠ 10 ∧ b ≠ 0) → lineOkG forbiddenByte l = true := by
    intro l hl
    simp only [lineOkG, Bool.not_eq_true', List.any_eq_false, forbiddenByte, Bool.or_eq_true, beq_iff_eq, not_or]
    intro b hb
    have := hl b hb
    exact ⟨⟨this.1, this.2.1⟩, this.2.2⟩
  have hguard : (statusLine (finishPrep (run init ops).1).code (finishPrep (run init ops).1).reason ::
      (hAll H).map headerLine).all (lineOkG forbiddenByte) = true := by
    simp only [List.all_cons, Bool.and_eq_true, List.all_eq_true, List.mem_map]
    refine ⟨hok _ (statusLine_no_ctl _ hreason), ?_⟩
    rintro l ⟨p, hp, rfl⟩
    exact hok _ (fun b hb => (hline p hp b hb).1)
  have hnames : (hAll H).all (fun p => isToken p.1) = true := List.all_eq_true.mpr hn
  refine ⟨statusLine (finishPrep (run init ops).1).code (finishPrep (run init ops).1).reason ::
    (hAll H).map headerLine, ?_⟩
  simp only [response, responseG, finishG, hcs, ← hH, writeHeadersG, hlat, hguard, hnames]
  rfl

example : ReasonOk (initSt [83] [84] [68]).reason := by unfold ReasonOk; decide
example : ∀ p ∈ hAll (initSt [83] [84] [68]).headers, isToken p.1 = true := by decide

/-! ### D9: the guard as found (`CR_OR_LF_RE`) lets NUL in a header name through -/

/-- the statement "no CR, LF, NUL on the wire" for the guard of the tree as found (`CR_OR_LF_RE`), over the
connection-level API.  (Stated over `responseG` until the header-name `fix:` commit: the witness then was
`set_header("A\x00B", "v")`; a NUL in a NAME is now also stopped by the token check of `write_headers`, but a NUL
in a VALUE stored with `h[name] = value` is stopped by nothing except the byte guard.) -/
def no_ctl_on_wire_old_guard_full : Prop :=
  ∀ (code : Int) (reason : Str) (hops : List HOp) (lines : List Str),
    (rawResponseG forbiddenByteOld code reason hops).2 = .ok lines →
    ∀ l ∈ lines, ∀ b ∈ l, b ≠ 13 ∧ b ≠ 10 ∧ b ≠ 0

/-- `h["X-A"] = "a\x00b"` reaches the wire with the old guard: the full statement is false for it
(this is defect D9; the `fix:` commit extends the guard, and `no_ctl_on_wire` above is about the fixed guard) -/
theorem old_guard_lets_nul_through : ¬ no_ctl_on_wire_old_guard_full := by
  intro h
  have := h 200 (ofAscii "OK") [.set [88, 45, 65] [97, 0, 98]]
    [ofAscii "HTTP/1.1 200 OK", [88, 45, 65, 58, 32, 97, 0, 98]] rfl [88, 45, 65, 58, 32, 97, 0, 98] (by simp) 0 (by simp)
  exact this.2.2 rfl

/-- CR and LF are stopped by the old guard as well (what it was written for) -/
theorem old_guard_no_crlf (init : St) (ops : List Op) (lines : List Str)
    (h : (responseG forbiddenByteOld init ops).2 = .ok lines) :
    ∀ l ∈ lines, ∀ b ∈ l, b ≠ 13 ∧ b ≠ 10 := by
  simp only [responseG, finishG] at h
  split at h
  · cases h
  · have := (writeHeadersG_ok h).2
    intro l hl b hb
    have hl' := List.all_eq_true.mp this l hl
    simp only [lineOkG, Bool.not_eq_true', List.any_eq_false] at hl'
    have := hl' b hb
    simp only [forbiddenByteOld, Bool.or_eq_true, beq_iff_eq, not_or] at this
    exact this

/-! ### the connection-level API (`write_headers` called directly, `WSGIContainer`): the reason is unvalidated,
the guard of `write_headers` over the START LINE and every header line is the only defence -/

theorem wh_no_ctl {code : Int} {reason : Str} {h : Headers} {lines : List Str}
    (hw : writeHeadersG forbiddenByte code reason h = .ok lines) :
    ∀ l ∈ lines, ∀ b ∈ l, b ≠ 13 ∧ b ≠ 10 ∧ b ≠ 0 :=
  fun l hl => lineOkG_forbidden (List.all_eq_true.mp (writeHeadersG_ok hw).2 l hl)

theorem wh_exact {code : Int} {reason : Str} {h : Headers} {lines : List Str}
    (hw : writeHeadersG forbiddenByte code reason h = .ok lines) :
    Spec.readBlock (wire lines) = some (lines, []) ∧ Spec.clean lines = true := by
  have hc := wh_no_ctl hw
  have hn : ∀ l ∈ lines, l ≠ [] := by
    have hl := (writeHeadersG_ok hw).1
    subst hl
    intro l hl
    simp only [List.mem_cons, List.mem_map] at hl
    rcases hl with rfl | ⟨p, _, rfl⟩
    · simp [statusLine, ofAscii]
    · simp [headerLine]
  constructor
  · exact readLines_join lines hn (fun l hl b hb => (hc l hl b hb).1) _ (joinLines_length lines)
  · simp only [Spec.clean, Spec.cleanLine, List.all_eq_true, Bool.and_eq_true, bne_iff_ne, ne_eq]
    intro l hl b hb
    have := hc l hl b hb
    exact ⟨⟨this.1, this.2.1⟩, this.2.2⟩

theorem writeHeadersRawG_ok {forb : Nat → Bool} {code : Int} {reason : Str} {h : Headers} {lines : List Str}
    (hw : writeHeadersRawG forb code reason h = .ok lines) : writeHeadersG forb code reason h = .ok lines := by
  unfold writeHeadersRawG at hw
  split at hw
  · cases hw
  · exact hw

/-- **request callback → `connection.write_headers(ResponseStartLine(_, code, reason), headers)`**, any
reason, any sequence of `h[name] = value` / `h.add(name, value)`: either it raises or the block is exactly
the start line followed by the headers' lines, a strict reader finds exactly those lines and no remainder,
and no CR, LF or NUL is inside any line — the start line (the reason) included. -/
theorem raw_exact_lines (code : Int) (reason : Str) (hops : List HOp) (lines : List Str)
    (h : (rawResponse code reason hops).2 = .ok lines) :
    lines = statusLine code reason :: (hAll (hRun [] hops).1).map headerLine ∧
    Spec.readBlock (wire lines) = some (lines, []) ∧ Spec.clean lines = true ∧
    ∀ l ∈ lines, ∀ b ∈ l, b ≠ 13 ∧ b ≠ 10 ∧ b ≠ 0 := by
  have hw := writeHeadersRawG_ok (show writeHeadersRawG forbiddenByte code reason (hRun [] hops).1 = .ok lines from h)
  exact ⟨(writeHeadersG_ok hw).1, (wh_exact hw).1, (wh_exact hw).2, wh_no_ctl hw⟩

/-- field level for the connection-level API: `h["X: y"] = "v"` is accepted by `HTTPHeaders` but the response
is rejected by `write_headers`; an accepted block reads back as exactly the (name, value) pairs of the map -/
theorem raw_fields_exact (code : Int) (reason : Str) (hops : List HOp) (lines : List Str)
    (h : (rawResponse code reason hops).2 = .ok lines) :
    (∀ p ∈ hAll (hRun [] hops).1, isToken p.1 = true) ∧
    lines.tail.mapM Spec.parseField = some ((hAll (hRun [] hops).1).map (fun p => (p.1, 32 :: p.2))) := by
  have hw := writeHeadersRawG_ok (show writeHeadersRawG forbiddenByte code reason (hRun [] hops).1 = .ok lines from h)
  have hn := writeHeadersG_names hw
  refine ⟨hn, ?_⟩
  rw [(writeHeadersG_ok hw).1]
  exact parseFields_lines _ hn

example : rawResponse 200 (ofAscii "OK") [.set (ofAscii "Set-Cookie: a=b; x") [118]] = ([none], .error .valueError) := by rfl

/-- the same for a WSGI application behind `WSGIContainer` (status string `"<code> <reason>"`, header pairs) -/
theorem wsgi_exact_lines (server ctype : Str) (code : Int) (reason : Str) (hs : List (Str × Str)) (lines : List Str)
    (h : wsgiResponse server ctype code reason hs = .ok lines) :
    Spec.readBlock (wire lines) = some (lines, []) ∧ Spec.clean lines = true ∧
    ∀ l ∈ lines, ∀ b ∈ l, b ≠ 13 ∧ b ≠ 10 ∧ b ≠ 0 := by
  simp only [wsgiResponse, wsgiResponseG] at h
  split at h
  · cases h
  · have hw := writeHeadersRawG_ok h
    exact ⟨(wh_exact hw).1, (wh_exact hw).2, wh_no_ctl hw⟩

/-- field level for WSGI: every line after the start line of an accepted response is `token ":" SP value` -/
theorem wsgi_fields_exact (server ctype : Str) (code : Int) (reason : Str) (hs : List (Str × Str)) (lines : List Str)
    (h : wsgiResponse server ctype code reason hs = .ok lines) :
    ∃ hdrs : List (Str × Str), lines = statusLine code reason :: hdrs.map headerLine ∧
      (∀ p ∈ hdrs, isToken p.1 = true) ∧
      lines.tail.mapM Spec.parseField = some (hdrs.map (fun p => (p.1, 32 :: p.2))) := by
  simp only [wsgiResponse, wsgiResponseG] at h
  split at h
  · cases h
  · have hw := writeHeadersRawG_ok h
    have hn := writeHeadersG_names hw
    refine ⟨_, (writeHeadersG_ok hw).1, hn, ?_⟩
    rw [(writeHeadersG_ok hw).1]
    exact parseFields_lines _ hn

/-- an accepted start line carries the reason's UTF-8 bytes, so an accepted reason has no CR, LF, NUL -/
theorem raw_reason_clean (code : Int) (reason : Str) (hops : List HOp) (lines : List Str)
    (h : (rawResponse code reason hops).2 = .ok lines) : ∀ c ∈ reason, c ≠ 13 ∧ c ≠ 10 ∧ c ≠ 0 := by
  obtain ⟨hl, _, _, hc⟩ := raw_exact_lines code reason hops lines h
  intro c hcr
  have hb : c < 128 → c ∈ statusLine code reason := by
    intro hlt
    simp only [statusLine, List.mem_append, List.mem_cons, List.mem_flatMap]
    exact Or.inr (Or.inr ⟨c, hcr, by simp [utf8Enc1, hlt]⟩)
  by_cases hlt : c < 128
  · exact hc _ (by rw [hl]; simp) c (hb hlt)
  · omega

example : rawResponse 200 (ofAscii "OK") [.set sContentLength [48], .add [88, 45, 97] [118]]
    = ([none, none], .ok [ofAscii "HTTP/1.1 200 OK", ofAscii "Content-Length: 0", ofAscii "X-A: v"]) := by rfl
/-- CR LF in the reason handed to `write_headers` directly: rejected by the guard over the start line -/
example : rawResponse 200 [79, 75, 13, 10, 88, 58, 32, 49] [.set sContentLength [48]]
    = ([none], .error .valueError) := by rfl
example : rawResponse 200 [79, 0, 75] [] = ([], .error .valueError) := by rfl
example : wsgiResponse [83] [84] 200 [79, 75, 10, 88] [([88, 45, 97], [118])] = .error .valueError := by rfl
example : wsgiResponse [83] [84] 200 (ofAscii "OK") [([88, 45, 97], [118])]
    = .ok [ofAscii "HTTP/1.1 200 OK", ofAscii "X-A: v", ofAscii "Content-Length: 0", ofAscii "Content-Type: T",
           ofAscii "Server: S"] := by rfl

end TornadoModel.C07
