/- C07 driver: `C07 run <server> <ctype> <date> [op,…]`, `C07 raw <code> <reason> [[set|add,n,v],…]`,
   `C07 wsgi <server> <ctype> <code> <reason> [[n,v],…]` (model), `C07 read x<wire>` (spec: lines, remainder, clean?, per header line the strict field parse) -/
import TornadoModel.Base.Wire
import TornadoModel.C07.Spec
import TornadoModel.C25.Drv
namespace TornadoModel.C07.Drv
open TornadoModel TornadoModel.Wire TornadoModel.C07
open TornadoModel.C25 (Str Err)

def decHVal (v : V) : Option HVal :=
  match v with
  | .list [.atom "s", x] => x.cps?.map HVal.str
  | .list [.atom "b", x] => x.byteNats?.map HVal.bytes
  | .list [.atom "i", x] => x.int?.map HVal.int
  | _ => none

def decOp (v : V) : Option Op := do
  let l ← v.list?
  match l with
  | [.atom "setHeader", n, x] => pure (.setHeader (← n.cps?) (← decHVal x))
  | [.atom "addHeader", n, x] => pure (.addHeader (← n.cps?) (← decHVal x))
  | [.atom "clearHeader", n] => pure (.clearHeader (← n.cps?))
  | [.atom "setStatus", c, r] => pure (.setStatus (← c.int?) (← C25.Drv.decOptStr r))
  | [.atom "setCookie", a] => pure (.setCookie (← C25.Drv.decArgs a))
  | [.atom "redirect", .list [.atom "s", u], p] => pure (.redirect (.str (← u.cps?)) (← p.bool?))
  | [.atom "redirect", .list [.atom "b", u], p] => pure (.redirect (.bytes (← u.byteNats?)) (← p.bool?))
  | _ => none

def encLines (ls : List Str) : V := .list (ls.map V.ofByteNats)

def decHOp (v : V) : Option HOp :=
  match v with
  | .list [.atom "set", n, x] => do pure (.set (← n.cps?) (← x.cps?))
  | .list [.atom "add", n, x] => do pure (.add (← n.cps?) (← x.cps?))
  | _ => none

def decPair (v : V) : Option (Str × Str) :=
  match v with
  | .list [n, x] => do pure (← n.cps?, ← x.cps?)
  | _ => none

def encFin (r : Except Err (List Str)) : V :=
  match r with
  | .ok lines => .list [.atom "ok", encLines lines, V.ofByteNats (wire lines)]
  | .error e => .list [C25.Drv.encErr e]

def handle (toks : List String) : String :=
  match toks with
  | ["run", s, c, d, ops] =>
    match (V.parse s >>= V.cps?), (V.parse c >>= V.cps?), (V.parse d >>= V.cps?),
          (V.parse ops >>= V.list? >>= (·.mapM decOp)) with
    | some s, some c, some d, some ops =>
      let r := response (initSt s c d) ops
      ok [.list (r.1.map C25.Drv.encOut),
          match r.2 with
          | .ok lines => .list [.atom "ok", encLines lines, V.ofByteNats (wire lines)]
          | .error e => .list [C25.Drv.encErr e]]
    | _, _, _, _ => err "bad-arg"
  | ["raw", c, r, hops] =>
    match (V.parse c >>= V.int?), (V.parse r >>= V.cps?), (V.parse hops >>= V.list? >>= (·.mapM decHOp)) with
    | some c, some r, some hops =>
      let x := rawResponse c r hops
      ok [.list (x.1.map C25.Drv.encOut), encFin x.2]
    | _, _, _ => err "bad-arg"
  | ["wsgi", s, ct, c, r, hs] =>
    match (V.parse s >>= V.cps?), (V.parse ct >>= V.cps?), (V.parse c >>= V.int?), (V.parse r >>= V.cps?),
          (V.parse hs >>= V.list? >>= (·.mapM decPair)) with
    | some s, some ct, some c, some r, some hs => ok [.list [], encFin (wsgiResponse s ct c r hs)]
    | _, _, _, _, _ => err "bad-arg"
  | ["read", w] =>
    match V.parse w >>= V.byteNats? with
    | some bs =>
      match Spec.readBlock bs with
      | some (ls, rest) =>
        ok [encLines ls, V.ofByteNats rest, V.ofBool (Spec.clean ls),
            .list (ls.tail.map (fun l => match Spec.parseField l with
              | some (n, v) => .list [V.ofByteNats n, V.ofByteNats v]
              | none => .atom "NoField"))]
      | none => ok [.atom "Malformed"]
    | none => err "bad-arg"
  | _ => err "bad-line"

end TornadoModel.C07.Drv
