import TornadoModel.C39.Model
namespace TornadoModel.C39
end TornadoModel.C39
