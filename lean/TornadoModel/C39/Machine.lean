/-
C39 part 3 — invariants of the `_run / _schedule_next / start / stop` machine (core Lean only).

`okOp`: the programs covered are those that call `start()` only on an idle PeriodicCallback (not running, no
invocation in flight).  Calling `start()` twice, or re-starting while a coroutine invocation is still pending,
arms a second timer chain in the real code as well; that is outside the property's quantifier ("all orderings
of coroutine completion and stop") and is reported in docs/C39.md.
-/
import TornadoModel.C39.Model
namespace TornadoModel.C39

def okOp (m : M) : Op → Bool
  | .start => !m.running && m.inflight.isEmpty
  | _ => true

/-- every op of the program is admissible in the state it is applied to -/
def WF : M → List Op → Prop
  | _, [] => True
  | m, op :: ops => okOp m op = true ∧ WF (step m op).1 ops

/-- at most one thing can start an invocation: either one armed timer (and nothing in flight) or nothing armed -/
def Inv (m : M) : Prop :=
  m.inflight.length ≤ 1 ∧
  (m.timers = [] ∨ (∃ h d, m.timers = [(h, d)] ∧ m.handle = some h ∧ m.inflight = [] ∧ m.running = true))

theorem inv_init (ct now : Rat) (ks : List Kind) : Inv (init ct now ks) := by
  simp [Inv, init]

theorem scheduleNext_running (m : M) : (scheduleNext m).1.running = m.running := by
  unfold scheduleNext; split <;> simp

theorem scheduleNext_no_started (m : M) : ∀ inv t, Ev.started inv t ∉ (scheduleNext m).2 := by
  intro inv t; unfold scheduleNext; split <;> simp

theorem scheduleNext_inflight (m : M) : (scheduleNext m).1.inflight = m.inflight := by
  unfold scheduleNext; split <;> simp

/-- `_schedule_next` on a state with nothing armed and nothing in flight keeps the invariant -/
theorem scheduleNext_inv (m : M) (ht : m.timers = []) (hi : m.inflight = []) : Inv (scheduleNext m).1 := by
  unfold scheduleNext
  split
  · next hr => simp [Inv, ht, hi, hr]
  · simp [Inv, ht, hi]

theorem runCb_not_running (m : M) (h : m.running = false) : runCb m = (m, []) := by
  simp [runCb, h]

theorem runCb_running (m : M) : (runCb m).1.running = m.running := by
  unfold runCb
  split
  · rfl
  · split <;> split <;> simp [scheduleNext_running]

theorem runCb_inv (m : M) (ht : m.timers = []) (hi : m.inflight = []) : Inv (runCb m).1 := by
  unfold runCb
  split
  · simp [Inv, ht, hi]
  · split <;> split
    all_goals first
      | (apply scheduleNext_inv <;> simp [ht, hi])
      | simp [Inv, ht, hi]

theorem earliest_single (t : Nat × Rat) : earliest [t] = some t := by simp [earliest]

/-- one step keeps the invariant, and an invocation starts only when none is in flight -/
theorem step_inv (m : M) (op : Op) (hI : Inv m) (hok : okOp m op = true) :
    Inv (step m op).1 ∧ (∀ inv t, Ev.started inv t ∈ (step m op).2 → m.inflight = []) := by
  obtain ⟨hlen, htm⟩ := hI
  cases op with
  | start =>
    simp only [okOp, Bool.and_eq_true, Bool.not_eq_eq_eq_not, Bool.not_true, List.isEmpty_iff] at hok
    have ht : m.timers = [] := by
      rcases htm with h | ⟨_, _, _, _, _, hr⟩
      · exact h
      · rw [hok.1] at hr; cases hr
    refine ⟨?_, ?_⟩
    · simp only [step]; apply scheduleNext_inv <;> simp [ht, hok.2]
    · intro inv t h; exact hok.2
  | stop =>
    refine ⟨?_, ?_⟩
    · simp only [step]
      rcases htm with h | ⟨h, d, h1, h2, h3, h4⟩
      · split <;> simp [Inv, h, hlen]
      · simp [Inv, h1, h2, h3]
    · intro inv t h
      simp only [step] at h
      split at h <;> simp at h
  | sleep d =>
    refine ⟨⟨hlen, ?_⟩, ?_⟩
    · simpa [step] using htm
    · intro inv t h; simp [step] at h
  | fire =>
    rcases htm with h | ⟨h, d, h1, h2, h3, h4⟩
    · refine ⟨?_, ?_⟩
      · simp [step, h, earliest, Inv, hlen]
      · intro inv t hh; simp [step, h, earliest] at hh
    · refine ⟨?_, fun _ _ _ => h3⟩
      simp only [step, h1, earliest_single]
      apply runCb_inv <;> simp [h3]
  | complete idx ok =>
    simp only [step]
    cases hq : m.inflight[idx]? with
    | none => exact ⟨⟨hlen, htm⟩, by intro inv t h; simp at h⟩
    | some inv0 =>
      have hne : m.inflight ≠ [] := by
        intro h; rw [h] at hq; simp at hq
      have ht : m.timers = [] := by
        rcases htm with h | ⟨_, _, _, _, h3, _⟩
        · exact h
        · exact absurd h3 hne
      have hidx : idx < m.inflight.length := by
        rcases List.getElem?_eq_some_iff.mp hq with ⟨h, _⟩; exact h
      have herase : m.inflight.eraseIdx idx = [] := by
        apply List.eq_nil_of_length_eq_zero
        rw [List.length_eraseIdx]; simp [hidx]; omega
      refine ⟨?_, ?_⟩
      · simp only []
        apply scheduleNext_inv <;> simp [ht, herase]
      · intro inv t h
        simp only [] at h
        have := scheduleNext_no_started { m with inflight := m.inflight.eraseIdx idx } inv t
        rcases List.mem_append.mp h with h | h
        · rcases List.mem_append.mp h with h | h
          · simp at h
          · split at h <;> simp at h
        · exact absurd h this

/-- invocation starts happen only from idle states, along a whole program -/
def StartsOnlyWhenIdle : M → List Op → Prop
  | _, [] => True
  | m, op :: ops => (∀ inv t, Ev.started inv t ∈ (step m op).2 → m.inflight = []) ∧ StartsOnlyWhenIdle (step m op).1 ops

/-- **no_overlap**: for every admissible program (any interleaving of timer firings, clock jumps, coroutine
completions/failures, stop and idle re-start) at most one invocation is in flight at any time and a new invocation
starts only when the previous one has finished. -/
theorem no_overlap (ops : List Op) : ∀ m, Inv m → WF m ops →
    StartsOnlyWhenIdle m ops ∧ (run m ops).1.inflight.length ≤ 1 := by
  induction ops with
  | nil => intro m hI _; exact ⟨trivial, by simpa [run] using hI.1⟩
  | cons op ops ih =>
    intro m hI hwf
    obtain ⟨h1, h2⟩ := step_inv m op hI hwf.1
    obtain ⟨h3, h4⟩ := ih (step m op).1 h1 hwf.2
    exact ⟨⟨h2, h3⟩, by simpa [run] using h4⟩

/-- the invariant holds in every reachable state of an admissible program -/
theorem inv_run (ops : List Op) : ∀ m, Inv m → WF m ops → Inv (run m ops).1 := by
  induction ops with
  | nil => intro m hI _; simpa [run] using hI
  | cons op ops ih =>
    intro m hI hwf
    have := ih (step m op).1 (step_inv m op hI hwf.1).1 hwf.2
    simpa [run] using this

theorem step_not_running (m : M) (op : Op) (hr : m.running = false) (hop : op ≠ .start) :
    (step m op).1.running = false ∧ ∀ inv t, Ev.started inv t ∉ (step m op).2 := by
  cases op with
  | start => exact absurd rfl hop
  | stop =>
    simp only [step]
    split <;> simp
  | sleep d => simp [step, hr]
  | fire =>
    simp only [step]
    split
    · simp [hr]
    · rw [runCb_not_running _ (by simpa using hr)]
      simp [hr]
  | complete idx ok =>
    simp only [step]
    split
    · simp [hr]
    · next inv0 _ =>
      refine ⟨?_, ?_⟩
      · simp only []; rw [scheduleNext_running]; simpa using hr
      · intro inv t h
        simp only [] at h
        have := scheduleNext_no_started { m with inflight := m.inflight.eraseIdx idx } inv t
        rcases List.mem_append.mp h with h | h
        · rcases List.mem_append.mp h with h | h
          · simp at h
          · split at h <;> simp at h
        · exact absurd h this

/-- **stop_prevents_runs**: once not running (e.g. right after `stop`), no invocation starts until the next `start`,
whatever timers fire, coroutines complete or time passes. -/
theorem stop_prevents_runs (ops : List Op) : ∀ m, m.running = false → Op.start ∉ ops →
    ∀ evs ∈ (run m ops).2, ∀ inv t, Ev.started inv t ∉ evs := by
  induction ops with
  | nil => intro m _ _ evs h; simp [run] at h
  | cons op ops ih =>
    intro m hr hns evs hevs
    have hop : op ≠ .start := fun h => hns (by simp [h])
    have hns' : Op.start ∉ ops := fun h => hns (by simp [h])
    obtain ⟨h1, h2⟩ := step_not_running m op hr hop
    simp only [run, List.mem_cons] at hevs
    rcases hevs with rfl | hevs
    · exact h2
    · exact ih (step m op).1 h1 hns' evs hevs

theorem stop_clears (m : M) : (step m .stop).1.running = false := by
  simp only [step]; split <;> simp

/-- … and after `stop` in an admissible program nothing is armed at all (the pending timer is removed) -/
theorem stop_disarms (m : M) (hI : Inv m) : (step m .stop).1.timers = [] := by
  obtain ⟨_, htm⟩ := hI
  simp only [step]
  rcases htm with h | ⟨h, d, h1, h2, _, _⟩
  · split <;> simp [h]
  · simp [h1, h2]

end TornadoModel.C39
