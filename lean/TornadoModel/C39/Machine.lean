/-
C39 part 3 — invariants of the `_run / _schedule_next / start / stop` machine (core Lean only).

`okOp`: the programs covered are those that call `start()` only on an idle PeriodicCallback (not running, no
invocation in flight).  Calling `start()` twice, or re-starting while a coroutine invocation is still pending,
arms a second timer chain in the real code as well; that is outside the property's quantifier ("all orderings
of coroutine completion and stop") and is reported in docs/C39.md.
-/
import TornadoModel.C39.Model
namespace TornadoModel.C39

def okAct (m : M) : Act → Bool
  | .start => !m.running && m.inflight.isEmpty
  | _ => true

/-- the calls of a foreign callback that runs *before* the timer handle: `start()` only on an idle PeriodicCallback -/
def okActs : M → List Act → Bool
  | _, [] => true
  | m, a :: as => okAct m a && okActs (actStep m a).1 as

def noStartAct : Act → Bool
  | .start => false
  | _ => true

/-- `start()` only on an idle PeriodicCallback — for a foreign callback in the window between the timer handle and
the body of `_run` that means: no `start()` at all (an invocation is about to begin). -/
def okOp (m : M) : Op → Bool
  | .start => !m.running && m.inflight.isEmpty
  | .iter late true acts =>
    match earliest m.timers with
    | none => okActs m acts
    | some t => okActs { m with now := if m.now < t.2 + late then t.2 + late else m.now } acts
  | .iter _ false acts => acts.all noStartAct
  | _ => true

/-- every op of the program is admissible in the state it is applied to -/
def WF : M → List Op → Prop
  | _, [] => True
  | m, op :: ops => okOp m op = true ∧ WF (step m op).1 ops

/-- at most one thing can start an invocation: either one armed timer (and nothing in flight) or nothing armed -/
def Inv (m : M) : Prop :=
  m.inflight.length ≤ 1 ∧
  (m.timers = [] ∨ (∃ h d, m.timers = [(h, d)] ∧ m.handle = some h ∧ m.inflight = [] ∧ m.running = true))

theorem inv_init (ct now : Rat) (ks : List Kind) : Inv (init ct now ks) := by
  simp [Inv, init]

theorem scheduleNext_running (m : M) : (scheduleNext m).1.running = m.running := by
  unfold scheduleNext; split <;> simp

theorem scheduleNext_no_started (m : M) : ∀ inv t, Ev.started inv t ∉ (scheduleNext m).2 := by
  intro inv t; unfold scheduleNext; split <;> simp

theorem scheduleNext_inflight (m : M) : (scheduleNext m).1.inflight = m.inflight := by
  unfold scheduleNext; split <;> simp

/-- `_schedule_next` on a state with nothing armed and nothing in flight keeps the invariant -/
theorem scheduleNext_inv (m : M) (ht : m.timers = []) (hi : m.inflight = []) : Inv (scheduleNext m).1 := by
  unfold scheduleNext
  split
  · next hr => simp [Inv, ht, hi, hr]
  · simp [Inv, ht, hi]

theorem runCb_not_running (m : M) (h : m.running = false) : runCb m = (m, []) := by
  simp [runCb, h]

theorem runCb_running (m : M) : (runCb m).1.running = m.running := by
  unfold runCb
  split
  · rfl
  · split <;> split <;> simp [scheduleNext_running]

theorem runCb_inv (m : M) (ht : m.timers = []) (hi : m.inflight = []) : Inv (runCb m).1 := by
  unfold runCb
  split
  · simp [Inv, ht, hi]
  · split <;> split
    all_goals first
      | (apply scheduleNext_inv <;> simp [ht, hi])
      | simp [Inv, ht, hi]

theorem earliest_single (t : Nat × Rat) : earliest [t] = some t := by simp [earliest]

/-! ### foreign callbacks (`Act`s) -/

def Act.toOp : Act → Op
  | .stop => .stop
  | .start => .start
  | .block d => .sleep d

/-- a call made by a foreign callback is the same transition as the corresponding op -/
theorem actStep_eq (m : M) (a : Act) : actStep m a = step m a.toOp := by cases a <;> rfl

theorem actStep_props (m : M) (a : Act) :
    (∀ inv t, Ev.started inv t ∉ (actStep m a).2) ∧ (actStep m a).1.inflight = m.inflight := by
  cases a with
  | start => exact ⟨scheduleNext_no_started _, by simp [actStep, scheduleNext_inflight]⟩
  | stop => simp only [actStep]; split <;> simp
  | block d => simp [actStep]

theorem actsRun_props (acts : List Act) : ∀ m,
    (∀ inv t, Ev.started inv t ∉ (actsRun m acts).2) ∧ (actsRun m acts).1.inflight = m.inflight := by
  induction acts with
  | nil => intro m; simp [actsRun]
  | cons a as ih =>
    intro m
    obtain ⟨h1, h2⟩ := actStep_props m a
    obtain ⟨h3, h4⟩ := ih (actStep m a).1
    refine ⟨?_, ?_⟩
    · intro inv t h
      simp only [actsRun, List.mem_append] at h
      rcases h with h | h
      · exact h1 inv t h
      · exact h3 inv t h
    · simp only [actsRun]; rw [h4, h2]

/-- whether the PeriodicCallback is running after a foreign callback is decided by its last `stop()`/`start()` -/
theorem actsRun_running (acts : List Act) : ∀ m,
    (actsRun m acts).1.running = !(actsStopped (!m.running) acts) := by
  induction acts with
  | nil => intro m; simp [actsRun, actsStopped]
  | cons a as ih =>
    intro m
    simp only [actsRun]
    rw [ih]
    cases a with
    | start => simp [actStep, scheduleNext_running, actsStopped]
    | stop => simp only [actStep, actsStopped]; split <;> simp
    | block d => simp [actStep, actsStopped]

theorem actsStopped_mono (acts : List Act) : ∀ s, actsStopped false acts = true → actsStopped s acts = true := by
  induction acts with
  | nil => intro s h; simp [actsStopped] at h
  | cons a as ih =>
    intro s h
    cases a with
    | start => simpa [actsStopped] using h
    | stop => simpa [actsStopped] using h
    | block d => simp only [actsStopped] at h ⊢; exact ih s h

/-- without `start()`: a stopped PeriodicCallback stays stopped and nothing is scheduled -/
theorem actsRun_nostart_stopped (acts : List Act) : ∀ m, acts.all noStartAct = true → m.running = false →
    (actsRun m acts).1.running = false ∧ (actsRun m acts).2 = [] := by
  induction acts with
  | nil => intro m _ hr; simp [actsRun, hr]
  | cons a as ih =>
    intro m hall hr
    simp only [List.all_cons, Bool.and_eq_true] at hall
    cases a with
    | start => simp [noStartAct] at hall
    | stop =>
      have : (actStep m .stop).1.running = false ∧ (actStep m .stop).2 = [] := by
        simp only [actStep]; split <;> simp
      obtain ⟨h1, h2⟩ := ih (actStep m .stop).1 hall.2 this.1
      simp only [actsRun, h1, h2, this.2]; simp
    | block d =>
      obtain ⟨h1, h2⟩ := ih (actStep m (.block d)).1 hall.2 (by simpa [actStep] using hr)
      simp only [actsRun, h1, h2]; simp [actStep]

/-- without `start()` and with no timer armed: nothing gets armed, nothing is scheduled -/
theorem actsRun_nostart_idle (acts : List Act) : ∀ m, acts.all noStartAct = true → m.timers = [] →
    (actsRun m acts).1.timers = [] ∧ (actsRun m acts).2 = [] := by
  induction acts with
  | nil => intro m _ ht; simp [actsRun, ht]
  | cons a as ih =>
    intro m hall ht
    simp only [List.all_cons, Bool.and_eq_true] at hall
    cases a with
    | start => simp [noStartAct] at hall
    | stop =>
      have : (actStep m .stop).1.timers = [] ∧ (actStep m .stop).2 = [] := by
        simp only [actStep]; split <;> simp [ht]
      obtain ⟨h1, h2⟩ := ih (actStep m .stop).1 hall.2 this.1
      simp only [actsRun, h1, h2, this.2]; simp
    | block d =>
      obtain ⟨h1, h2⟩ := ih (actStep m (.block d)).1 hall.2 (by simpa [actStep] using ht)
      simp only [actsRun, h1, h2]; simp [actStep]

theorem actStep_inv (m : M) (a : Act) (hI : Inv m) (hok : okAct m a = true) : Inv (actStep m a).1 := by
  obtain ⟨hlen, htm⟩ := hI
  cases a with
  | start =>
    simp only [okAct, Bool.and_eq_true, Bool.not_eq_eq_eq_not, Bool.not_true, List.isEmpty_iff] at hok
    have ht : m.timers = [] := by
      rcases htm with h | ⟨_, _, _, _, _, hr⟩
      · exact h
      · rw [hok.1] at hr; cases hr
    simp only [actStep]; apply scheduleNext_inv <;> simp [ht, hok.2]
  | stop =>
    simp only [actStep]
    rcases htm with h | ⟨h, d, h1, h2, h3, h4⟩
    · split <;> simp [Inv, h, hlen]
    · simp [Inv, h1, h2, h3]
  | block d => exact ⟨hlen, by simpa [actStep] using htm⟩

theorem actsRun_inv (acts : List Act) : ∀ m, Inv m → okActs m acts = true → Inv (actsRun m acts).1 := by
  induction acts with
  | nil => intro m hI _; simpa [actsRun] using hI
  | cons a as ih =>
    intro m hI hok
    simp only [okActs, Bool.and_eq_true] at hok
    have := ih (actStep m a).1 (actStep_inv m a hI hok.1) hok.2
    simpa [actsRun] using this

/-- the shared iteration keeps the invariant: the timer `(h, d)` is armed, nothing is in flight -/
theorem iterBody_inv (m : M) (h : Nat) (d : Rat) (before : Bool) (acts : List Act) (hI : Inv m)
    (h1 : m.timers = [(h, d)]) (h3 : m.inflight = [])
    (hokT : before = true → okActs m acts = true) (hokF : before = false → acts.all noStartAct = true) :
    Inv (iterBody m h before acts).1 := by
  cases before with
  | true =>
    have hI1 := actsRun_inv acts m hI (hokT rfl)
    have hfl := (actsRun_props acts m).2
    simp only [iterBody, if_true]
    split
    · next hany =>
      apply runCb_inv
      · rcases hI1.2 with ht | ⟨h', d', ht, _, _, _⟩
        · simp [ht] at hany
        · simp only [ht, List.any_cons, List.any_nil, Bool.or_false, beq_iff_eq] at hany
          simp [ht, hany]
      · simpa [h3] using hfl
    · exact hI1
  | false =>
    have ht0 : ({ m with timers := m.timers.filter (fun u => u.1 != h) } : M).timers = [] := by simp [h1]
    have hidle := actsRun_nostart_idle acts _ (hokF rfl) ht0
    have hfl := (actsRun_props acts { m with timers := m.timers.filter (fun u => u.1 != h) }).2
    simp only [iterBody, Bool.false_eq_true, if_false]
    apply runCb_inv
    · exact hidle.1
    · simpa [h3] using hfl

/-- one step keeps the invariant, and an invocation starts only when none is in flight -/
theorem step_inv (m : M) (op : Op) (hI : Inv m) (hok : okOp m op = true) :
    Inv (step m op).1 ∧ (∀ inv t, Ev.started inv t ∈ (step m op).2 → m.inflight = []) := by
  obtain ⟨hlen, htm⟩ := hI
  cases op with
  | start =>
    simp only [okOp, Bool.and_eq_true, Bool.not_eq_eq_eq_not, Bool.not_true, List.isEmpty_iff] at hok
    have ht : m.timers = [] := by
      rcases htm with h | ⟨_, _, _, _, _, hr⟩
      · exact h
      · rw [hok.1] at hr; cases hr
    refine ⟨?_, ?_⟩
    · simp only [step]; apply scheduleNext_inv <;> simp [ht, hok.2]
    · intro inv t h; exact hok.2
  | stop =>
    refine ⟨?_, ?_⟩
    · simp only [step]
      rcases htm with h | ⟨h, d, h1, h2, h3, h4⟩
      · split <;> simp [Inv, h, hlen]
      · simp [Inv, h1, h2, h3]
    · intro inv t h
      simp only [step] at h
      split at h <;> simp at h
  | sleep d =>
    refine ⟨⟨hlen, ?_⟩, ?_⟩
    · simpa [step] using htm
    · intro inv t h; simp [step] at h
  | fire =>
    rcases htm with h | ⟨h, d, h1, h2, h3, h4⟩
    · refine ⟨?_, ?_⟩
      · simp [step, h, earliest, Inv, hlen]
      · intro inv t hh; simp [step, h, earliest] at hh
    · refine ⟨?_, fun _ _ _ => h3⟩
      simp only [step, h1, earliest_single]
      apply runCb_inv <;> simp [h3]
  | complete idx ok =>
    simp only [step]
    cases hq : m.inflight[idx]? with
    | none => exact ⟨⟨hlen, htm⟩, by intro inv t h; simp at h⟩
    | some inv0 =>
      have hne : m.inflight ≠ [] := by
        intro h; rw [h] at hq; simp at hq
      have ht : m.timers = [] := by
        rcases htm with h | ⟨_, _, _, _, h3, _⟩
        · exact h
        · exact absurd h3 hne
      have hidx : idx < m.inflight.length := by
        rcases List.getElem?_eq_some_iff.mp hq with ⟨h, _⟩; exact h
      have herase : m.inflight.eraseIdx idx = [] := by
        apply List.eq_nil_of_length_eq_zero
        rw [List.length_eraseIdx]; simp [hidx]; omega
      refine ⟨?_, ?_⟩
      · simp only []
        apply scheduleNext_inv <;> simp [ht, herase]
      · intro inv t h
        simp only [] at h
        have := scheduleNext_no_started { m with inflight := m.inflight.eraseIdx idx } inv t
        rcases List.mem_append.mp h with h | h
        · rcases List.mem_append.mp h with h | h
          · simp at h
          · split at h <;> simp at h
        · exact absurd h this
  | iter late before acts =>
    rcases htm with h | ⟨h, d, h1, h2, h3, h4⟩
    · have hst : step m (.iter late before acts) = actsRun m acts := by simp [step, h, earliest]
      rw [hst]
      refine ⟨?_, fun inv t hh => absurd hh ((actsRun_props acts m).1 inv t)⟩
      cases before with
      | true => exact actsRun_inv acts m ⟨hlen, Or.inl h⟩ (by simpa [okOp, h, earliest] using hok)
      | false =>
        have := actsRun_nostart_idle acts m (by simpa [okOp] using hok) h
        exact ⟨by rw [(actsRun_props acts m).2]; exact hlen, Or.inl this.1⟩
    · refine ⟨?_, fun _ _ _ => h3⟩
      have hI0 : Inv { m with now := if m.now < d + late then d + late else m.now } :=
        ⟨hlen, Or.inr ⟨h, d, h1, h2, h3, h4⟩⟩
      have hok' : before = true → okActs { m with now := if m.now < d + late then d + late else m.now } acts = true := by
        intro hb; subst hb; simpa only [okOp, h1, earliest_single] using hok
      have hok'' : before = false → acts.all noStartAct = true := by
        intro hb; subst hb; simpa only [okOp] using hok
      simp only [step, h1, earliest_single]
      rw [← h1]
      exact iterBody_inv _ h d before acts hI0 h1 h3 hok' hok''

/-- invocation starts happen only from idle states, along a whole program -/
def StartsOnlyWhenIdle : M → List Op → Prop
  | _, [] => True
  | m, op :: ops => (∀ inv t, Ev.started inv t ∈ (step m op).2 → m.inflight = []) ∧ StartsOnlyWhenIdle (step m op).1 ops

/-- **no_overlap**: for every admissible program (any interleaving of timer firings, clock jumps, coroutine
completions/failures, stop and idle re-start) at most one invocation is in flight at any time and a new invocation
starts only when the previous one has finished. -/
theorem no_overlap (ops : List Op) : ∀ m, Inv m → WF m ops →
    StartsOnlyWhenIdle m ops ∧ (run m ops).1.inflight.length ≤ 1 := by
  induction ops with
  | nil => intro m hI _; exact ⟨trivial, by simpa [run] using hI.1⟩
  | cons op ops ih =>
    intro m hI hwf
    obtain ⟨h1, h2⟩ := step_inv m op hI hwf.1
    obtain ⟨h3, h4⟩ := ih (step m op).1 h1 hwf.2
    exact ⟨⟨h2, h3⟩, by simpa [run] using h4⟩

/-- the invariant holds in every reachable state of an admissible program -/
theorem inv_run (ops : List Op) : ∀ m, Inv m → WF m ops → Inv (run m ops).1 := by
  induction ops with
  | nil => intro m hI _; simpa [run] using hI
  | cons op ops ih =>
    intro m hI hwf
    have := ih (step m op).1 (step_inv m op hI hwf.1).1 hwf.2
    simpa [run] using this

/-- the op does not call `start()` (directly or from a foreign callback) -/
def noStart : Op → Bool
  | .start => false
  | .iter _ _ acts => acts.all noStartAct
  | _ => true

theorem iterBody_not_running (m : M) (tid : Nat) (before : Bool) (acts : List Act) (hr : m.running = false)
    (hns : acts.all noStartAct = true) :
    (iterBody m tid before acts).1.running = false ∧ (iterBody m tid before acts).2 = [] := by
  cases before with
  | true =>
    obtain ⟨h1, h2⟩ := actsRun_nostart_stopped acts m hns hr
    simp only [iterBody, if_true]
    split
    · rw [runCb_not_running _ (by simpa using h1)]; simp [h1, h2]
    · exact ⟨h1, h2⟩
  | false =>
    obtain ⟨h1, h2⟩ := actsRun_nostart_stopped acts { m with timers := m.timers.filter (fun u => u.1 != tid) } hns hr
    simp only [iterBody, Bool.false_eq_true, if_false]
    rw [runCb_not_running _ h1]; simp [h1, h2]

theorem step_not_running (m : M) (op : Op) (hr : m.running = false) (hop : noStart op = true) :
    (step m op).1.running = false ∧ ∀ inv t, Ev.started inv t ∉ (step m op).2 := by
  cases op with
  | start => simp [noStart] at hop
  | iter late before acts =>
    simp only [step]
    split
    · obtain ⟨h1, h2⟩ := actsRun_nostart_stopped acts m (by simpa [noStart] using hop) hr
      exact ⟨h1, by simp [h2]⟩
    · next t _ =>
      obtain ⟨h1, h2⟩ := iterBody_not_running { m with now := if m.now < t.2 + late then t.2 + late else m.now }
        t.1 before acts hr (by simpa [noStart] using hop)
      exact ⟨h1, by simp [h2]⟩
  | stop =>
    simp only [step]
    split <;> simp
  | sleep d => simp [step, hr]
  | fire =>
    simp only [step]
    split
    · simp [hr]
    · rw [runCb_not_running _ (by simpa using hr)]
      simp [hr]
  | complete idx ok =>
    simp only [step]
    split
    · simp [hr]
    · next inv0 _ =>
      refine ⟨?_, ?_⟩
      · simp only []; rw [scheduleNext_running]; simpa using hr
      · intro inv t h
        simp only [] at h
        have := scheduleNext_no_started { m with inflight := m.inflight.eraseIdx idx } inv t
        rcases List.mem_append.mp h with h | h
        · rcases List.mem_append.mp h with h | h
          · simp at h
          · split at h <;> simp at h
        · exact absurd h this

/-- **stop_prevents_runs**: once not running (e.g. right after `stop`), no invocation starts until the next `start`,
whatever timers fire — alone or in an iteration shared with foreign callbacks —, coroutines complete or time passes. -/
theorem stop_prevents_runs (ops : List Op) : ∀ m, m.running = false → (∀ op ∈ ops, noStart op = true) →
    ∀ evs ∈ (run m ops).2, ∀ inv t, Ev.started inv t ∉ evs := by
  induction ops with
  | nil => intro m _ _ evs h; simp [run] at h
  | cons op ops ih =>
    intro m hr hns evs hevs
    have hop : noStart op = true := hns op (by simp)
    have hns' : ∀ op ∈ ops, noStart op = true := fun o h => hns o (by simp [h])
    obtain ⟨h1, h2⟩ := step_not_running m op hr hop
    simp only [run, List.mem_cons] at hevs
    rcases hevs with rfl | hevs
    · exact h2
    · exact ih (step m op).1 h1 hns' evs hevs

/-- **stop_in_iteration_prevents_run**: in *any* state, when a foreign callback sharing the loop iteration of the
periodic timer leaves the PeriodicCallback stopped (its last `stop()`/`start()` call is a `stop()`) — whether it ran
before the timer handle or in the window after the handle fired and before the body of `_run` started — that
iteration starts no invocation and the object is stopped afterwards.  (This is what `_run`'s re-check of `_running`
is for: the spent handle can no longer be cancelled.) -/
theorem stop_in_iteration_prevents_run (m : M) (late : Rat) (before : Bool) (acts : List Act)
    (h : actsStopped false acts = true) :
    (∀ inv t, Ev.started inv t ∉ (step m (.iter late before acts)).2) ∧
    (step m (.iter late before acts)).1.running = false := by
  simp only [step]
  cases he : earliest m.timers with
  | none =>
    have hr := actsRun_running acts m
    rw [actsStopped_mono acts _ h] at hr
    exact ⟨(actsRun_props acts m).1, by simpa using hr⟩
  | some t =>
    simp only []
    have key : ∀ m0 : M, (∀ inv t', Ev.started inv t' ∉ (iterBody m0 t.1 before acts).2) ∧
        (iterBody m0 t.1 before acts).1.running = false := by
      intro m0
      cases before with
      | true =>
        have hr := actsRun_running acts m0
        rw [actsStopped_mono acts _ h] at hr
        have hns := (actsRun_props acts m0).1
        simp only [iterBody, if_true]
        split
        · rw [runCb_not_running _ (by simpa using hr)]
          exact ⟨by simpa using hns, by simpa using hr⟩
        · exact ⟨hns, by simpa using hr⟩
      | false =>
        have hr := actsRun_running acts { m0 with timers := m0.timers.filter (fun u => u.1 != t.1) }
        rw [actsStopped_mono acts _ h] at hr
        have hns := (actsRun_props acts { m0 with timers := m0.timers.filter (fun u => u.1 != t.1) }).1
        simp only [iterBody, Bool.false_eq_true, if_false]
        rw [runCb_not_running _ (by simpa using hr)]
        exact ⟨by simpa using hns, by simpa using hr⟩
    exact ⟨(key _).1, (key _).2⟩

/-! non-vacuity: a 100 ms callback started at t = 1000; the iteration at t = 1000.1 starts invocation 0 — unless a
foreign callback stops it, before the handle or in the window after it -/
example : actsStopped false [.block 1, .stop] = true := rfl
example : ((step (step (init 100 1000 []) .start).1 (.iter 0 false [])).2.any
    (fun e => match e with | .started _ _ => true | _ => false)) = true := by decide
example : (step (step (init 100 1000 []) .start).1 (.iter 0 false [.stop])).2 = [] := by decide
example : (step (step (init 100 1000 []) .start).1 (.iter 0 true [.stop])).2 = [] := by decide

/-- with nothing between the handle and the body, the shared iteration is the plain `fire` -/
theorem iter_nil_eq_fire (m : M) : step m (.iter 0 false []) = step m .fire := by
  simp only [step]
  split
  · simp [actsRun]
  · simp [iterBody, actsRun, Rat.add_zero]

theorem stop_clears (m : M) : (step m .stop).1.running = false := by
  simp only [step]; split <;> simp

/-- … and after `stop` in an admissible program nothing is armed at all (the pending timer is removed) -/
theorem stop_disarms (m : M) (hI : Inv m) : (step m .stop).1.timers = [] := by
  obtain ⟨_, htm⟩ := hI
  simp only [step]
  rcases htm with h | ⟨h, d, h1, h2, _, _⟩
  · split <;> simp [h]
  · simp [h1, h2]

end TornadoModel.C39
