/-
C39 part 3 — invariants of the `_run / _schedule_next / start / stop` machine (core Lean only).

`okOp`: the programs covered are those that call `start()` only on an idle PeriodicCallback (not running, no
invocation in flight).  Calling `start()` twice, or re-starting while a coroutine invocation is still pending,
arms a second timer chain in the real code as well; that is outside the property's quantifier ("all orderings
of coroutine completion and stop") and is reported in docs/C39.md.
-/
import TornadoModel.C39.Model
namespace TornadoModel.C39

def noStartAct : Act → Bool
  | .start => false
  | _ => true

/-- the only restriction left: no `start()` from a foreign callback in the window between the timer handle and the
body of `_run` (needed for the *timer* invariant `TInv` only; the overlap invariant `Inv1` holds for every program) -/
def okOp : Op → Bool
  | .iter _ false acts => acts.all noStartAct
  | _ => true

def WF (ops : List Op) : Prop := ∀ op ∈ ops, okOp op = true

/-- overlap invariant (every program): at most one invocation in flight, and then `_in_flight` is set -/
def Inv1 (m : M) : Prop := m.inflight.length ≤ 1 ∧ (m.inflight ≠ [] → m.busy = true)

/-- timer invariant: at most one armed timer, it is `self._timeout`, and nothing is in flight while it is armed -/
def TInv (m : M) : Prop :=
  m.timers = [] ∨ (∃ h d, m.timers = [(h, d)] ∧ m.handle = some h ∧ m.inflight = [] ∧ m.running = true)

def Inv (m : M) : Prop := Inv1 m ∧ TInv m

theorem inv_init (ct now : Rat) (ks : List Kind) : Inv (init ct now ks) := by
  simp [Inv, Inv1, TInv, init]

theorem scheduleNext_running (m : M) : (scheduleNext m).1.running = m.running := by
  unfold scheduleNext; split <;> simp

theorem scheduleNext_no_started (m : M) : ∀ inv t, Ev.started inv t ∉ (scheduleNext m).2 := by
  intro inv t; unfold scheduleNext; split <;> simp

theorem scheduleNext_inflight (m : M) : (scheduleNext m).1.inflight = m.inflight := by
  unfold scheduleNext; split <;> simp

theorem scheduleNext_busy (m : M) : (scheduleNext m).1.busy = m.busy := by
  unfold scheduleNext; split <;> simp

theorem scheduleNext_inv1 (m : M) (h : Inv1 m) : Inv1 (scheduleNext m).1 := by
  unfold Inv1; rw [scheduleNext_inflight, scheduleNext_busy]; exact h

/-- `_schedule_next` on a state with nothing armed and nothing in flight keeps the timer invariant -/
theorem scheduleNext_tinv (m : M) (ht : m.timers = []) (hi : m.inflight = []) : TInv (scheduleNext m).1 := by
  unfold scheduleNext
  split
  · next hr => simp [TInv, ht, hi, hr]
  · simp [TInv, ht]

theorem runCb_not_running (m : M) (h : m.running = false) : runCb m = (m, []) := by
  simp [runCb, h]

theorem runCb_busy (m : M) (h : m.busy = true) : runCb m = (m, []) := by
  simp [runCb, h]

theorem runCb_running (m : M) : (runCb m).1.running = m.running := by
  unfold runCb
  split
  · rfl
  · split <;> split <;> simp [scheduleNext_running]

/-- the guard of `_run`: an invocation starts only when none is in flight — in any state satisfying `Inv1` -/
theorem runCb_inv1 (m : M) (h : Inv1 m) :
    Inv1 (runCb m).1 ∧ (∀ inv t, Ev.started inv t ∈ (runCb m).2 → m.inflight = []) := by
  by_cases hb : m.busy = true
  · rw [runCb_busy m hb]; exact ⟨h, by simp⟩
  · have hb' : m.busy = false := by simpa using hb
    have hi : m.inflight = [] := by
      cases hfl : m.inflight with
      | nil => rfl
      | cons a as => exact absurd (h.2 (by simp [hfl])) hb
    refine ⟨?_, fun _ _ _ => hi⟩
    unfold runCb
    split
    · exact h
    · split <;> split <;> simp [Inv1, scheduleNext_inflight, scheduleNext_busy, hi, hb']

theorem runCb_tinv (m : M) (ht : m.timers = []) (hi : m.inflight = []) : TInv (runCb m).1 := by
  unfold runCb
  split
  · simp [TInv, ht]
  · split <;> split
    all_goals first
      | (apply scheduleNext_tinv <;> simp [ht, hi])
      | simp [TInv, ht]

theorem earliest_single (t : Nat × Rat) : earliest [t] = some t := by simp [earliest]

/-! ### `start()` / `stop()` -/

theorem startM_props (m : M) :
    (∀ inv t, Ev.started inv t ∉ (startM m).2) ∧ (startM m).1.inflight = m.inflight ∧
    (startM m).1.busy = m.busy ∧ (startM m).1.running = true := by
  unfold startM
  cases hh : m.handle <;> simp only [] <;> split <;>
    simp_all [scheduleNext_no_started, scheduleNext_inflight, scheduleNext_busy, scheduleNext_running]

theorem stopM_props (m : M) :
    (stopM m).2 = [] ∧ (stopM m).1.inflight = m.inflight ∧ (stopM m).1.busy = m.busy ∧
    (stopM m).1.running = false := by
  unfold stopM
  cases hh : m.handle <;> simp

/-- `start()` in any state of the invariant: the pending timeout (if any) is replaced, never duplicated; nothing is
armed while an invocation is in flight -/
theorem startM_tinv (m : M) (h1 : Inv1 m) (hT : TInv m) : TInv (startM m).1 := by
  cases hb : m.busy with
  | true =>
    unfold startM
    rcases hT with ht | ⟨h, d, ht, hh, _, _⟩
    · cases hh : m.handle <;> simp [TInv, ht, hb]
    · simp [TInv, ht, hh, hb]
  | false =>
    have hi : m.inflight = [] := by
      cases hfl : m.inflight with
      | nil => rfl
      | cons a as => have := h1.2 (by simp [hfl]); simp [hb] at this
    unfold startM
    rcases hT with ht | ⟨h, d, ht, hh, _, _⟩
    · cases hh : m.handle <;> simp only [hb, Bool.false_eq_true, ↓reduceIte] <;> apply scheduleNext_tinv <;> simp [ht, hi]
    · simp only [hh, hb, Bool.false_eq_true, ↓reduceIte]; apply scheduleNext_tinv <;> simp [ht, hi]

theorem stopM_tinv (m : M) (hT : TInv m) : TInv (stopM m).1 := by
  unfold stopM
  rcases hT with ht | ⟨h, d, ht, hh, _, _⟩
  · cases hh : m.handle <;> simp [TInv, ht]
  · simp [TInv, ht, hh]

/-! ### foreign callbacks (`Act`s) -/

def Act.toOp : Act → Op
  | .stop => .stop
  | .start => .start
  | .block d => .sleep d

/-- a call made by a foreign callback is the same transition as the corresponding op -/
theorem actStep_eq (m : M) (a : Act) : actStep m a = step m a.toOp := by cases a <;> rfl

theorem actStep_props (m : M) (a : Act) :
    (∀ inv t, Ev.started inv t ∉ (actStep m a).2) ∧ (actStep m a).1.inflight = m.inflight ∧
    (actStep m a).1.busy = m.busy := by
  cases a with
  | start => exact ⟨(startM_props m).1, (startM_props m).2.1, (startM_props m).2.2.1⟩
  | stop => exact ⟨by simp [actStep, (stopM_props m).1], (stopM_props m).2.1, (stopM_props m).2.2.1⟩
  | block d => simp [actStep]

theorem actsRun_props (acts : List Act) : ∀ m,
    (∀ inv t, Ev.started inv t ∉ (actsRun m acts).2) ∧ (actsRun m acts).1.inflight = m.inflight ∧
    (actsRun m acts).1.busy = m.busy := by
  induction acts with
  | nil => intro m; simp [actsRun]
  | cons a as ih =>
    intro m
    obtain ⟨h1, h2, hb2⟩ := actStep_props m a
    obtain ⟨h3, h4, hb4⟩ := ih (actStep m a).1
    refine ⟨?_, ?_, ?_⟩
    · intro inv t h
      simp only [actsRun, List.mem_append] at h
      rcases h with h | h
      · exact h1 inv t h
      · exact h3 inv t h
    · simp only [actsRun]; rw [h4, h2]
    · simp only [actsRun]; rw [hb4, hb2]

theorem actsRun_inv1 (acts : List Act) (m : M) (h : Inv1 m) : Inv1 (actsRun m acts).1 := by
  obtain ⟨_, h2, h3⟩ := actsRun_props acts m
  unfold Inv1; rw [h2, h3]; exact h

/-- whether the PeriodicCallback is running after a foreign callback is decided by its last `stop()`/`start()` -/
theorem actsRun_running (acts : List Act) : ∀ m,
    (actsRun m acts).1.running = !(actsStopped (!m.running) acts) := by
  induction acts with
  | nil => intro m; simp [actsRun, actsStopped]
  | cons a as ih =>
    intro m
    simp only [actsRun]
    rw [ih]
    cases a with
    | start => simp [actStep, (startM_props m).2.2.2, actsStopped]
    | stop => simp [actStep, (stopM_props m).2.2.2, actsStopped]
    | block d => simp [actStep, actsStopped]

theorem actsStopped_mono (acts : List Act) : ∀ s, actsStopped false acts = true → actsStopped s acts = true := by
  induction acts with
  | nil => intro s h; simp [actsStopped] at h
  | cons a as ih =>
    intro s h
    cases a with
    | start => simpa [actsStopped] using h
    | stop => simpa [actsStopped] using h
    | block d => simp only [actsStopped] at h ⊢; exact ih s h

/-- without `start()`: a stopped PeriodicCallback stays stopped and nothing is scheduled -/
theorem actsRun_nostart_stopped (acts : List Act) : ∀ m, acts.all noStartAct = true → m.running = false →
    (actsRun m acts).1.running = false ∧ (actsRun m acts).2 = [] := by
  induction acts with
  | nil => intro m _ hr; simp [actsRun, hr]
  | cons a as ih =>
    intro m hall hr
    simp only [List.all_cons, Bool.and_eq_true] at hall
    cases a with
    | start => simp [noStartAct] at hall
    | stop =>
      have : (actStep m .stop).1.running = false ∧ (actStep m .stop).2 = [] :=
        ⟨(stopM_props m).2.2.2, (stopM_props m).1⟩
      obtain ⟨h1, h2⟩ := ih (actStep m .stop).1 hall.2 this.1
      simp only [actsRun, h1, h2, this.2]; simp
    | block d =>
      obtain ⟨h1, h2⟩ := ih (actStep m (.block d)).1 hall.2 (by simpa [actStep] using hr)
      simp only [actsRun, h1, h2]; simp [actStep]

/-- without `start()` and with no timer armed: nothing gets armed, nothing is scheduled -/
theorem actsRun_nostart_idle (acts : List Act) : ∀ m, acts.all noStartAct = true → m.timers = [] →
    (actsRun m acts).1.timers = [] ∧ (actsRun m acts).2 = [] := by
  induction acts with
  | nil => intro m _ ht; simp [actsRun, ht]
  | cons a as ih =>
    intro m hall ht
    simp only [List.all_cons, Bool.and_eq_true] at hall
    cases a with
    | start => simp [noStartAct] at hall
    | stop =>
      have : (actStep m .stop).1.timers = [] ∧ (actStep m .stop).2 = [] := by
        simp only [actStep, stopM]; split <;> simp [ht]
      obtain ⟨h1, h2⟩ := ih (actStep m .stop).1 hall.2 this.1
      simp only [actsRun, h1, h2, this.2]; simp
    | block d =>
      obtain ⟨h1, h2⟩ := ih (actStep m (.block d)).1 hall.2 (by simpa [actStep] using ht)
      simp only [actsRun, h1, h2]; simp [actStep]

theorem actStep_inv (m : M) (a : Act) (hI : Inv m) : Inv (actStep m a).1 := by
  obtain ⟨h1, hT⟩ := hI
  obtain ⟨_, hfl, hb⟩ := actStep_props m a
  refine ⟨by unfold Inv1; rw [hfl, hb]; exact h1, ?_⟩
  cases a with
  | start => exact startM_tinv m h1 hT
  | stop => exact stopM_tinv m hT
  | block d => simpa [actStep, TInv] using hT

theorem actsRun_inv (acts : List Act) : ∀ m, Inv m → Inv (actsRun m acts).1 := by
  induction acts with
  | nil => intro m hI; simpa [actsRun] using hI
  | cons a as ih =>
    intro m hI
    have := ih (actStep m a).1 (actStep_inv m a hI)
    simpa [actsRun] using this

/-- the shared iteration keeps the overlap invariant and starts an invocation only when none is in flight — for
every foreign callback, `start()` in the window included -/
theorem iterBody_inv1 (m : M) (tid : Nat) (before : Bool) (acts : List Act) (h : Inv1 m) :
    Inv1 (iterBody m tid before acts).1 ∧
    (∀ inv t, Ev.started inv t ∈ (iterBody m tid before acts).2 → m.inflight = []) := by
  cases before with
  | true =>
    obtain ⟨hns, hfl, _⟩ := actsRun_props acts m
    have hI1 := actsRun_inv1 acts m h
    simp only [iterBody, if_true]
    split
    · have hI2 : Inv1 { (actsRun m acts).1 with
          timers := (actsRun m acts).1.timers.filter (fun u => u.1 != tid) } := hI1
      obtain ⟨k1, k2⟩ := runCb_inv1 _ hI2
      refine ⟨k1, ?_⟩
      intro inv t hh
      rcases List.mem_append.mp hh with hh | hh
      · exact absurd hh (hns inv t)
      · have := k2 inv t hh
        simpa [hfl] using this
    · exact ⟨hI1, fun inv t hh => absurd hh (hns inv t)⟩
  | false =>
    obtain ⟨hns, hfl, _⟩ := actsRun_props acts { m with timers := m.timers.filter (fun u => u.1 != tid) }
    have hI1 := actsRun_inv1 acts { m with timers := m.timers.filter (fun u => u.1 != tid) } h
    simp only [iterBody, Bool.false_eq_true, if_false]
    obtain ⟨k1, k2⟩ := runCb_inv1 _ hI1
    refine ⟨k1, ?_⟩
    intro inv t hh
    rcases List.mem_append.mp hh with hh | hh
    · exact absurd hh (hns inv t)
    · have := k2 inv t hh
      simpa [hfl] using this

/-- the shared iteration keeps the timer invariant: the timer `(h, d)` is armed, nothing is in flight -/
theorem iterBody_tinv (m : M) (h : Nat) (d : Rat) (before : Bool) (acts : List Act) (hI : Inv m)
    (h1 : m.timers = [(h, d)]) (h3 : m.inflight = [])
    (hokF : before = false → acts.all noStartAct = true) :
    TInv (iterBody m h before acts).1 := by
  cases before with
  | true =>
    have hI1 := actsRun_inv acts m hI
    have hfl := (actsRun_props acts m).2.1
    simp only [iterBody, if_true]
    split
    · next hany =>
      apply runCb_tinv
      · rcases hI1.2 with ht | ⟨h', d', ht, _, _, _⟩
        · simp [ht] at hany
        · simp only [ht, List.any_cons, List.any_nil, Bool.or_false, beq_iff_eq] at hany
          simp [ht, hany]
      · simpa [h3] using hfl
    · exact hI1.2
  | false =>
    have ht0 : ({ m with timers := m.timers.filter (fun u => u.1 != h) } : M).timers = [] := by simp [h1]
    have hidle := actsRun_nostart_idle acts _ (hokF rfl) ht0
    have hfl := (actsRun_props acts { m with timers := m.timers.filter (fun u => u.1 != h) }).2.1
    simp only [iterBody, Bool.false_eq_true, if_false]
    apply runCb_tinv
    · exact hidle.1
    · simpa [h3] using hfl

/-- one step keeps the overlap invariant, and an invocation starts only when none is in flight — **every** op -/
theorem step_inv1 (m : M) (op : Op) (h : Inv1 m) :
    Inv1 (step m op).1 ∧ (∀ inv t, Ev.started inv t ∈ (step m op).2 → m.inflight = []) := by
  cases op with
  | start =>
    obtain ⟨p1, p2, p3, _⟩ := startM_props m
    exact ⟨by simp only [step]; unfold Inv1; rw [p2, p3]; exact h, fun inv t hh => absurd hh (p1 inv t)⟩
  | stop =>
    obtain ⟨p1, p2, p3, _⟩ := stopM_props m
    exact ⟨by simp only [step]; unfold Inv1; rw [p2, p3]; exact h, fun inv t hh => by simp [step, p1] at hh⟩
  | sleep d => exact ⟨h, by intro inv t hh; simp [step] at hh⟩
  | fire =>
    simp only [step]
    split
    · exact ⟨h, by intro inv t hh; simp at hh⟩
    · next t _ =>
      exact runCb_inv1 { m with now := if m.now < t.2 then t.2 else m.now,
                                timers := m.timers.filter (fun u => u.1 != t.1) } h
  | complete idx ok =>
    simp only [step]
    cases hq : m.inflight[idx]? with
    | none => exact ⟨h, by intro inv t hh; simp at hh⟩
    | some inv0 =>
      have hidx : idx < m.inflight.length := by
        rcases List.getElem?_eq_some_iff.mp hq with ⟨hh, _⟩; exact hh
      have herase : m.inflight.eraseIdx idx = [] := by
        apply List.eq_nil_of_length_eq_zero
        rw [List.length_eraseIdx]; simp [hidx]; have := h.1; omega
      refine ⟨?_, ?_⟩
      · simp only []
        apply scheduleNext_inv1
        simp [Inv1, herase]
      · intro inv t hh
        simp only [] at hh
        have := scheduleNext_no_started { m with inflight := m.inflight.eraseIdx idx, busy := false } inv t
        rcases List.mem_append.mp hh with hh | hh
        · rcases List.mem_append.mp hh with hh | hh
          · simp at hh
          · split at hh <;> simp at hh
        · exact absurd hh this
  | iter late before acts =>
    simp only [step]
    split
    · exact ⟨actsRun_inv1 acts m h, fun inv t hh => absurd hh ((actsRun_props acts m).1 inv t)⟩
    · next t _ =>
      exact iterBody_inv1 { m with now := if m.now < t.2 + late then t.2 + late else m.now } t.1 before acts h

/-- one admissible step keeps the full invariant (overlap + timers) -/
theorem step_inv (m : M) (op : Op) (hI : Inv m) (hok : okOp op = true) :
    Inv (step m op).1 ∧ (∀ inv t, Ev.started inv t ∈ (step m op).2 → m.inflight = []) := by
  obtain ⟨k1, k2⟩ := step_inv1 m op hI.1
  refine ⟨⟨k1, ?_⟩, k2⟩
  obtain ⟨h1, htm⟩ := hI
  cases op with
  | start => exact startM_tinv m h1 htm
  | stop => exact stopM_tinv m htm
  | sleep d => simpa [step, TInv] using htm
  | fire =>
    rcases htm with h | ⟨h, d, ht, h2, h3, h4⟩
    · simp [step, h, earliest, TInv]
    · simp only [step, ht, earliest_single]
      apply runCb_tinv <;> simp [h3]
  | complete idx ok =>
    simp only [step]
    cases hq : m.inflight[idx]? with
    | none => exact htm
    | some inv0 =>
      have hne : m.inflight ≠ [] := by
        intro h; rw [h] at hq; simp at hq
      have ht : m.timers = [] := by
        rcases htm with h | ⟨_, _, _, _, h3, _⟩
        · exact h
        · exact absurd h3 hne
      have hidx : idx < m.inflight.length := by
        rcases List.getElem?_eq_some_iff.mp hq with ⟨h, _⟩; exact h
      have herase : m.inflight.eraseIdx idx = [] := by
        apply List.eq_nil_of_length_eq_zero
        rw [List.length_eraseIdx]; simp [hidx]; have := h1.1; omega
      simp only []
      apply scheduleNext_tinv <;> simp [ht, herase]
  | iter late before acts =>
    rcases htm with h | ⟨h, d, ht, h2, h3, h4⟩
    · have hst : step m (.iter late before acts) = actsRun m acts := by simp [step, h, earliest]
      rw [hst]
      cases before with
      | true => exact (actsRun_inv acts m ⟨h1, Or.inl h⟩).2
      | false =>
        have := actsRun_nostart_idle acts m (by simpa [okOp] using hok) h
        exact Or.inl this.1
    · have hI0 : Inv { m with now := if m.now < d + late then d + late else m.now } :=
        ⟨h1, Or.inr ⟨h, d, ht, h2, h3, h4⟩⟩
      have hok'' : before = false → acts.all noStartAct = true := by
        intro hb; subst hb; simpa only [okOp] using hok
      simp only [step, ht, earliest_single]
      rw [← ht]
      exact iterBody_tinv _ h d before acts hI0 ht h3 hok''

/-- invocation starts happen only from idle states, along a whole program -/
def StartsOnlyWhenIdle : M → List Op → Prop
  | _, [] => True
  | m, op :: ops => (∀ inv t, Ev.started inv t ∈ (step m op).2 → m.inflight = []) ∧ StartsOnlyWhenIdle (step m op).1 ops

/-- **no_overlap**: for **every** program — any interleaving of timer firings, clock jumps, coroutine
completions/failures, `stop()`, and `start()` in any state (idle, already running, while a coroutine invocation is still
pending, from a foreign callback in the tick's own loop iteration) — at most one invocation is in flight at any time
and a new invocation starts only when the previous one has finished.  No admissibility hypothesis. -/
theorem no_overlap (ops : List Op) : ∀ m, Inv1 m →
    StartsOnlyWhenIdle m ops ∧ (run m ops).1.inflight.length ≤ 1 := by
  induction ops with
  | nil => intro m hI; exact ⟨trivial, by simpa [run] using hI.1⟩
  | cons op ops ih =>
    intro m hI
    obtain ⟨h1, h2⟩ := step_inv1 m op hI
    obtain ⟨h3, h4⟩ := ih (step m op).1 h1
    exact ⟨⟨h2, h3⟩, by simpa [run] using h4⟩

/-- … in particular from the freshly constructed object -/
theorem no_overlap_from_init (ct now : Rat) (ks : List Kind) (ops : List Op) :
    StartsOnlyWhenIdle (init ct now ks) ops ∧ (run (init ct now ks) ops).1.inflight.length ≤ 1 :=
  no_overlap ops _ (inv_init ct now ks).1

/-- the full invariant (at most one armed timer, none while an invocation is in flight) holds in every reachable
state of a program without `start()` in the handle/body window -/
theorem inv_run (ops : List Op) : ∀ m, Inv m → WF ops → Inv (run m ops).1 := by
  induction ops with
  | nil => intro m hI _; simpa [run] using hI
  | cons op ops ih =>
    intro m hI hwf
    have := ih (step m op).1 (step_inv m op hI (hwf op (by simp))).1 (fun o ho => hwf o (by simp [ho]))
    simpa [run] using this

/-- the op does not call `start()` (directly or from a foreign callback) -/
def noStart : Op → Bool
  | .start => false
  | .iter _ _ acts => acts.all noStartAct
  | _ => true

theorem iterBody_not_running (m : M) (tid : Nat) (before : Bool) (acts : List Act) (hr : m.running = false)
    (hns : acts.all noStartAct = true) :
    (iterBody m tid before acts).1.running = false ∧ (iterBody m tid before acts).2 = [] := by
  cases before with
  | true =>
    obtain ⟨h1, h2⟩ := actsRun_nostart_stopped acts m hns hr
    simp only [iterBody, if_true]
    split
    · rw [runCb_not_running _ (by simpa using h1)]; simp [h1, h2]
    · exact ⟨h1, h2⟩
  | false =>
    obtain ⟨h1, h2⟩ := actsRun_nostart_stopped acts { m with timers := m.timers.filter (fun u => u.1 != tid) } hns hr
    simp only [iterBody, Bool.false_eq_true, if_false]
    rw [runCb_not_running _ h1]; simp [h1, h2]

theorem step_not_running (m : M) (op : Op) (hr : m.running = false) (hop : noStart op = true) :
    (step m op).1.running = false ∧ ∀ inv t, Ev.started inv t ∉ (step m op).2 := by
  cases op with
  | start => simp [noStart] at hop
  | iter late before acts =>
    simp only [step]
    split
    · obtain ⟨h1, h2⟩ := actsRun_nostart_stopped acts m (by simpa [noStart] using hop) hr
      exact ⟨h1, by simp [h2]⟩
    · next t _ =>
      obtain ⟨h1, h2⟩ := iterBody_not_running { m with now := if m.now < t.2 + late then t.2 + late else m.now }
        t.1 before acts hr (by simpa [noStart] using hop)
      exact ⟨h1, by simp [h2]⟩
  | stop =>
    obtain ⟨p1, _, _, p4⟩ := stopM_props m
    exact ⟨p4, by simp [step, p1]⟩
  | sleep d => simp [step, hr]
  | fire =>
    simp only [step]
    split
    · simp [hr]
    · rw [runCb_not_running _ (by simpa using hr)]
      simp [hr]
  | complete idx ok =>
    simp only [step]
    split
    · simp [hr]
    · next inv0 _ =>
      refine ⟨?_, ?_⟩
      · simp only []; rw [scheduleNext_running]; simpa using hr
      · intro inv t h
        simp only [] at h
        have := scheduleNext_no_started { m with inflight := m.inflight.eraseIdx idx, busy := false } inv t
        rcases List.mem_append.mp h with h | h
        · rcases List.mem_append.mp h with h | h
          · simp at h
          · split at h <;> simp at h
        · exact absurd h this

/-- **stop_prevents_runs**: once not running (e.g. right after `stop`), no invocation starts until the next `start`,
whatever timers fire — alone or in an iteration shared with foreign callbacks —, coroutines complete or time passes. -/
theorem stop_prevents_runs (ops : List Op) : ∀ m, m.running = false → (∀ op ∈ ops, noStart op = true) →
    ∀ evs ∈ (run m ops).2, ∀ inv t, Ev.started inv t ∉ evs := by
  induction ops with
  | nil => intro m _ _ evs h; simp [run] at h
  | cons op ops ih =>
    intro m hr hns evs hevs
    have hop : noStart op = true := hns op (by simp)
    have hns' : ∀ op ∈ ops, noStart op = true := fun o h => hns o (by simp [h])
    obtain ⟨h1, h2⟩ := step_not_running m op hr hop
    simp only [run, List.mem_cons] at hevs
    rcases hevs with rfl | hevs
    · exact h2
    · exact ih (step m op).1 h1 hns' evs hevs

/-- **stop_in_iteration_prevents_run**: in *any* state, when a foreign callback sharing the loop iteration of the
periodic timer leaves the PeriodicCallback stopped (its last `stop()`/`start()` call is a `stop()`) — whether it ran
before the timer handle or in the window after the handle fired and before the body of `_run` started — that
iteration starts no invocation and the object is stopped afterwards.  (This is what `_run`'s re-check of `_running`
is for: the spent handle can no longer be cancelled.) -/
theorem stop_in_iteration_prevents_run (m : M) (late : Rat) (before : Bool) (acts : List Act)
    (h : actsStopped false acts = true) :
    (∀ inv t, Ev.started inv t ∉ (step m (.iter late before acts)).2) ∧
    (step m (.iter late before acts)).1.running = false := by
  simp only [step]
  cases he : earliest m.timers with
  | none =>
    have hr := actsRun_running acts m
    rw [actsStopped_mono acts _ h] at hr
    exact ⟨(actsRun_props acts m).1, by simpa using hr⟩
  | some t =>
    simp only []
    have key : ∀ m0 : M, (∀ inv t', Ev.started inv t' ∉ (iterBody m0 t.1 before acts).2) ∧
        (iterBody m0 t.1 before acts).1.running = false := by
      intro m0
      cases before with
      | true =>
        have hr := actsRun_running acts m0
        rw [actsStopped_mono acts _ h] at hr
        have hns := (actsRun_props acts m0).1
        simp only [iterBody, if_true]
        split
        · rw [runCb_not_running _ (by simpa using hr)]
          exact ⟨by simpa using hns, by simpa using hr⟩
        · exact ⟨hns, by simpa using hr⟩
      | false =>
        have hr := actsRun_running acts { m0 with timers := m0.timers.filter (fun u => u.1 != t.1) }
        rw [actsStopped_mono acts _ h] at hr
        have hns := (actsRun_props acts { m0 with timers := m0.timers.filter (fun u => u.1 != t.1) }).1
        simp only [iterBody, Bool.false_eq_true, if_false]
        rw [runCb_not_running _ (by simpa using hr)]
        exact ⟨by simpa using hns, by simpa using hr⟩
    exact ⟨(key _).1, (key _).2⟩

/-! non-vacuity: a 100 ms callback started at t = 1000; the iteration at t = 1000.1 starts invocation 0 — unless a
foreign callback stops it, before the handle or in the window after it -/
example : actsStopped false [.block 1, .stop] = true := rfl
example : ((step (step (init 100 1000 []) .start).1 (.iter 0 false [])).2.any
    (fun e => match e with | .started _ _ => true | _ => false)) = true := by decide
example : (step (step (init 100 1000 []) .start).1 (.iter 0 false [.stop])).2 = [] := by decide
example : (step (step (init 100 1000 []) .start).1 (.iter 0 true [.stop])).2 = [] := by decide

/-- with nothing between the handle and the body, the shared iteration is the plain `fire` -/
theorem iter_nil_eq_fire (m : M) : step m (.iter 0 false []) = step m .fire := by
  simp only [step]
  split
  · simp [actsRun]
  · simp [iterBody, actsRun, Rat.add_zero]

theorem stop_clears (m : M) : (step m .stop).1.running = false := (stopM_props m).2.2.2

/-- … and after `stop` in an admissible program nothing is armed at all (the pending timer is removed) -/
theorem stop_disarms (m : M) (hI : Inv m) : (step m .stop).1.timers = [] := by
  obtain ⟨_, htm⟩ := hI
  simp only [step, stopM]
  rcases htm with h | ⟨h, d, h1, h2, _, _⟩
  · split <;> simp [h]
  · simp [h1, h2]

end TornadoModel.C39
