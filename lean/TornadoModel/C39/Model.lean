/-
C39 — hand model of `tornado.ioloop.PeriodicCallback` (core Lean only; `Rat` is core's exact rationals,
the same type Mathlib calls `ℚ`, so the driver can run it and the proofs can use Mathlib on it).

* `updateNext`  = `PeriodicCallback._update_next` (exact arithmetic; `rnd` is the value `random.random()` returned)
* `M`, `step`   = the `_run / _schedule_next / start / stop` machine on a one-thread event loop:
                  pending loop timers, the handle `self._timeout`, callback invocations in flight.
-/
namespace TornadoModel.C39

structure PC where
  callbackTime : Rat      -- milliseconds
  jitter : Rat
  next : Rat              -- `_next_timeout` (seconds)
  deriving Repr, DecidableEq

/-- `callback_time_sec` after the optional jitter scaling -/
def periodSec (s : PC) (rnd : Rat) : Rat :=
  if s.jitter = 0 then s.callbackTime / 1000
  else s.callbackTime / 1000 * (1 + s.jitter * (rnd - 1 / 2))

/-- number of whole periods skipped (`math.floor((current_time - next) / period)`) -/
def skipped (s : PC) (now rnd : Rat) : Int := Rat.floor ((now - s.next) / periodSec s rnd)

/-- `_update_next(current_time)` -/
def updateNext (s : PC) (now rnd : Rat) : PC :=
  if s.next ≤ now then
    { s with next := s.next + ((skipped s now rnd + 1 : Int) : Rat) * periodSec s rnd }
  else
    { s with next := s.next + periodSec s rnd }

/-! ### the constructor: how the `callback_time` argument becomes `self.callback_time` (milliseconds) -/

/-- the `callback_time` argument -/
inductive Period
  | ms (q : Rat)     -- a number: milliseconds
  | td (us : Int)    -- a `datetime.timedelta`: a whole number of microseconds (its resolution)
  deriving Repr, DecidableEq

/-- the period the caller asked for, in milliseconds (exact) -/
def Period.requestedMs : Period → Rat
  | .ms q => q
  | .td us => (us : Rat) / 1000

/-- `PeriodicCallback.__init__`: the value stored in `self.callback_time`; `none` = `ValueError`.
A timedelta is converted by **true** division `callback_time / timedelta(milliseconds=1)` (the exact ratio of the two
microsecond counts) and is not validated; a number must be positive. -/
def ctor : Period → Option Rat
  | .ms q => if q ≤ 0 then none else some q
  | .td us => some ((us : Rat) / 1000)

/-- the freshly constructed and started object: `_next_timeout = now` -/
def newPC (p : Period) (jitter now : Rat) : Option PC := (ctor p).map fun ct => ⟨ct, jitter, now⟩

/-! ### the run/schedule machine -/

/-- what the user callback does when invoked -/
inductive Kind
  | sync      -- plain function returning None
  | raise     -- plain function raising
  | coro      -- returns an awaitable that stays pending until a `complete` op
  deriving Repr, DecidableEq

inductive Op
  | start
  | stop
  | sleep (d : Rat)                 -- the clock moves by `d ≥ 0`; nothing else happens (loop busy / idle)
  | fire                            -- the loop fires its earliest pending timer (clock jumps forward if needed)
  | complete (idx : Nat) (ok : Bool) -- the awaitable of the `idx`-th invocation in flight resolves / fails
  deriving Repr, DecidableEq

inductive Ev
  | started (inv : Nat) (t : Rat)
  | finished (inv : Nat) (t : Rat)
  | logged (inv : Nat)              -- "Exception in callback" record
  | sched (deadline : Rat)          -- `_schedule_next` armed a timer
  deriving Repr, DecidableEq

structure M where
  now : Rat
  running : Bool
  pc : PC
  timers : List (Nat × Rat)         -- live loop timers that will call `_run`: (handle id, deadline)
  handle : Option Nat               -- `self._timeout`
  inflight : List Nat               -- invocation numbers whose awaitable is pending
  nextH : Nat
  nextInv : Nat
  kinds : List Kind                 -- behaviour of the next invocations (exhausted ⇒ `sync`)
  deriving Repr

def init (callbackTime : Rat) (now : Rat) (kinds : List Kind) : M :=
  { now, running := false, pc := ⟨callbackTime, 0, now⟩, timers := [], handle := none, inflight := [],
    nextH := 0, nextInv := 0, kinds }

/-- `_schedule_next` -/
def scheduleNext (m : M) : M × List Ev :=
  if m.running then
    let pc := updateNext m.pc m.now 0
    ({ m with pc, timers := m.timers ++ [(m.nextH, pc.next)], handle := some m.nextH, nextH := m.nextH + 1 },
     [.sched pc.next])
  else (m, [])

/-- index of the earliest timer (first one among equals) -/
def earliest : List (Nat × Rat) → Option (Nat × Rat)
  | [] => none
  | t :: ts => match earliest ts with
    | none => some t
    | some u => if u.2 < t.2 then some u else some t

/-- `_run` up to the first suspension point -/
def runCb (m : M) : M × List Ev :=
  if !m.running then (m, [])
  else
    let inv := m.nextInv
    let (k, ks) := match m.kinds with
      | [] => (Kind.sync, [])
      | k :: ks => (k, ks)
    let m := { m with nextInv := inv + 1, kinds := ks }
    match k with
    | .sync =>
      let (m', evs) := scheduleNext m
      (m', [.started inv m.now, .finished inv m.now] ++ evs)
    | .raise =>
      let (m', evs) := scheduleNext m
      (m', [.started inv m.now, .finished inv m.now, .logged inv] ++ evs)
    | .coro => ({ m with inflight := m.inflight ++ [inv] }, [.started inv m.now])

def step (m : M) : Op → M × List Ev
  | .start =>
    let m := { m with running := true, pc := { m.pc with next := m.now } }
    scheduleNext m
  | .stop =>
    let m := { m with running := false }
    match m.handle with
    | some h => ({ m with timers := m.timers.filter (fun t => t.1 != h), handle := none }, [])
    | none => (m, [])
  | .sleep d => ({ m with now := m.now + d }, [])
  | .fire =>
    match earliest m.timers with
    | none => (m, [])
    | some t =>
      let m := { m with now := if m.now < t.2 then t.2 else m.now, timers := m.timers.filter (fun u => u.1 != t.1) }
      runCb m
  | .complete idx ok =>
    match m.inflight[idx]? with
    | none => (m, [])
    | some inv =>
      let m := { m with inflight := m.inflight.eraseIdx idx }
      let (m', evs) := scheduleNext m
      (m', [.finished inv m.now] ++ (if ok then [] else [.logged inv]) ++ evs)

def run (m : M) : List Op → M × List (List Ev)
  | [] => (m, [])
  | op :: ops =>
    let (m', evs) := step m op
    let (m'', rest) := run m' ops
    (m'', evs :: rest)

end TornadoModel.C39
