/-
C39 — hand model of `tornado.ioloop.PeriodicCallback` (core Lean only; `Rat` is core's exact rationals,
the same type Mathlib calls `ℚ`, so the driver can run it and the proofs can use Mathlib on it).

* `updateNext`  = `PeriodicCallback._update_next` (exact arithmetic; `rnd` is the value `random.random()` returned)
* `M`, `step`   = the `_run / _schedule_next / start / stop` machine on a one-thread event loop:
                  pending loop timers, the handle `self._timeout`, callback invocations in flight.
                  `fire` = the timer handle fires and the body of `_run` starts with nothing in between;
                  `iter` = the same loop iteration shared with a foreign callback (`Act`s: `stop()`, `start()`, a
                  blocking pause) that runs before the handle, or in the window between the handle firing and the
                  body of the `async def _run` starting (where only `_run`'s re-check of `_running` makes `stop()` effective).
-/
namespace TornadoModel.C39

structure PC where
  callbackTime : Rat      -- milliseconds
  jitter : Rat
  next : Rat              -- `_next_timeout` (seconds)
  deriving Repr, DecidableEq

/-- `callback_time_sec` after the optional jitter scaling -/
def periodSec (s : PC) (rnd : Rat) : Rat :=
  if s.jitter = 0 then s.callbackTime / 1000
  else s.callbackTime / 1000 * (1 + s.jitter * (rnd - 1 / 2))

/-- number of whole periods skipped (`math.floor((current_time - next) / period)`) -/
def skipped (s : PC) (now rnd : Rat) : Int := Rat.floor ((now - s.next) / periodSec s rnd)

/-- `_update_next(current_time)` -/
def updateNext (s : PC) (now rnd : Rat) : PC :=
  if s.next ≤ now then
    { s with next := s.next + ((skipped s now rnd + 1 : Int) : Rat) * periodSec s rnd }
  else
    { s with next := s.next + periodSec s rnd }

/-! ### the constructor: how the `callback_time` argument becomes `self.callback_time` (milliseconds) -/

/-- the `callback_time` argument -/
inductive Period
  | ms (q : Rat)     -- a number: milliseconds
  | td (us : Int)    -- a `datetime.timedelta`: a whole number of microseconds (its resolution)
  deriving Repr, DecidableEq

/-- the period the caller asked for, in milliseconds (exact) -/
def Period.requestedMs : Period → Rat
  | .ms q => q
  | .td us => (us : Rat) / 1000

/-- `PeriodicCallback.__init__`: the value stored in `self.callback_time`; `none` = `ValueError`.
A timedelta is converted by **true** division `callback_time / timedelta(milliseconds=1)` (the exact ratio of the two
microsecond counts) and is not validated; a number must be positive. -/
def ctor : Period → Option Rat
  | .ms q => if q ≤ 0 then none else some q
  | .td us => some ((us : Rat) / 1000)

/-- the freshly constructed and started object: `_next_timeout = now` -/
def newPC (p : Period) (jitter now : Rat) : Option PC := (ctor p).map fun ct => ⟨ct, jitter, now⟩

/-! ### the run/schedule machine -/

/-- what the user callback does when invoked -/
inductive Kind
  | sync      -- plain function returning None
  | raise     -- plain function raising
  | coro      -- returns an awaitable that stays pending until a `complete` op
  deriving Repr, DecidableEq

/-- what a *foreign* loop callback that shares a loop iteration with the periodic timer does to the PeriodicCallback
(a `call_later(T, pc.stop)` landing on the grid, a second overdue timer after the loop was blocked, …) -/
inductive Act
  | stop
  | start
  | block (d : Rat)                 -- the foreign callback takes `d` seconds (the clock moves)
  deriving Repr, DecidableEq

inductive Op
  | start
  | stop
  | sleep (d : Rat)                 -- the clock moves by `d ≥ 0`; nothing else happens (loop busy / idle)
  | fire                            -- the loop fires its earliest pending timer (clock jumps forward if needed)
  | complete (idx : Nat) (ok : Bool) -- the awaitable of the `idx`-th invocation in flight resolves / fails
  /-- one loop iteration, `late` seconds after the deadline of the earliest pending timer (or now, if that is later),
  that the periodic timer shares with a foreign callback doing `acts`: `before = true` — the foreign callback is ordered
  before the periodic timer's handle (earlier deadline, or the same deadline and popped first), so a `stop` in it still
  cancels the handle; `before = false` — it runs after the handle has fired (the `_run` coroutine exists, its task has
  not started: `_run` is `async`, its body starts on the next iteration) and before the body of `_run` starts. -/
  | iter (late : Rat) (before : Bool) (acts : List Act)
  deriving Repr, DecidableEq

inductive Ev
  | started (inv : Nat) (t : Rat)
  | finished (inv : Nat) (t : Rat)
  | logged (inv : Nat)              -- "Exception in callback" record
  | sched (deadline : Rat)          -- `_schedule_next` armed a timer
  deriving Repr, DecidableEq

structure M where
  now : Rat
  running : Bool
  pc : PC
  timers : List (Nat × Rat)         -- live loop timers that will call `_run`: (handle id, deadline)
  handle : Option Nat               -- `self._timeout`
  inflight : List Nat               -- invocation numbers whose awaitable is pending
  busy : Bool                       -- `self._in_flight`: an invocation has started and not finished
  nextH : Nat
  nextInv : Nat
  kinds : List Kind                 -- behaviour of the next invocations (exhausted ⇒ `sync`)
  deriving Repr

def init (callbackTime : Rat) (now : Rat) (kinds : List Kind) : M :=
  { now, running := false, pc := ⟨callbackTime, 0, now⟩, timers := [], handle := none, inflight := [],
    busy := false, nextH := 0, nextInv := 0, kinds }

/-- `_schedule_next` -/
def scheduleNext (m : M) : M × List Ev :=
  if m.running then
    let pc := updateNext m.pc m.now 0
    ({ m with pc, timers := m.timers ++ [(m.nextH, pc.next)], handle := some m.nextH, nextH := m.nextH + 1 },
     [.sched pc.next])
  else (m, [])

/-- index of the earliest timer (first one among equals) -/
def earliest : List (Nat × Rat) → Option (Nat × Rat)
  | [] => none
  | t :: ts => match earliest ts with
    | none => some t
    | some u => if u.2 < t.2 then some u else some t

/-- `_run` up to the first suspension point.  A synchronous callback sets and clears `_in_flight` within the step; for
a coroutine callback it stays set until the `complete` op. -/
def runCb (m : M) : M × List Ev :=
  if !m.running || m.busy then (m, [])
  else
    let inv := m.nextInv
    let (k, ks) := match m.kinds with
      | [] => (Kind.sync, [])
      | k :: ks => (k, ks)
    let m := { m with nextInv := inv + 1, kinds := ks }
    match k with
    | .sync =>
      let (m', evs) := scheduleNext m
      (m', [.started inv m.now, .finished inv m.now] ++ evs)
    | .raise =>
      let (m', evs) := scheduleNext m
      (m', [.started inv m.now, .finished inv m.now, .logged inv] ++ evs)
    | .coro => ({ m with inflight := m.inflight ++ [inv], busy := true }, [.started inv m.now])

/-- `start()`: (re)start the schedule at the current time; a timeout that is still pending is replaced, and while an
invocation is in flight nothing is armed (that invocation schedules the next run when it finishes) -/
def startM (m : M) : M × List Ev :=
  let m := { m with running := true, pc := { m.pc with next := m.now } }
  let m := match m.handle with
    | some h => { m with timers := m.timers.filter (fun t => t.1 != h), handle := none }
    | none => m
  if m.busy then (m, []) else scheduleNext m

/-- `stop()` -/
def stopM (m : M) : M × List Ev :=
  let m := { m with running := false }
  match m.handle with
  | some h => ({ m with timers := m.timers.filter (fun t => t.1 != h), handle := none }, [])
  | none => (m, [])

/-- `start()` / `stop()` / a blocking pause, called from a foreign callback: the same code as the ops `start`, `stop`,
`sleep` of `step` below (`actStep_eq`) -/
def actStep (m : M) : Act → M × List Ev
  | .start => startM m
  | .stop => stopM m
  | .block d => ({ m with now := m.now + d }, [])

def actsRun (m : M) : List Act → M × List Ev
  | [] => (m, [])
  | a :: as =>
    let (m1, e1) := actStep m a
    let (m2, e2) := actsRun m1 as
    (m2, e1 ++ e2)

/-- "stopped" after the calls a foreign callback made (the last `stop()` / `start()` decides) -/
def actsStopped : Bool → List Act → Bool
  | s, [] => s
  | _, .stop :: as => actsStopped true as
  | _, .start :: as => actsStopped false as
  | s, .block _ :: as => actsStopped s as

/-- the shared loop iteration of `Op.iter` once the clock is set; `tid` = the periodic timer's handle -/
def iterBody (m : M) (tid : Nat) (before : Bool) (acts : List Act) : M × List Ev :=
  if before then
    -- the foreign callback first; the timer handle runs only if it has not been cancelled meanwhile
    let r := actsRun m acts
    if r.1.timers.any (fun u => u.1 == tid) then
      let r2 := runCb { r.1 with timers := r.1.timers.filter (fun u => u.1 != tid) }
      (r2.1, r.2 ++ r2.2)
    else r
  else
    -- the handle fires (it is spent: `remove_timeout` on it is a no-op), then the foreign callback, then the body
    -- of `_run` starts — with its re-check of `_running`
    let r := actsRun { m with timers := m.timers.filter (fun u => u.1 != tid) } acts
    let r2 := runCb r.1
    (r2.1, r.2 ++ r2.2)

def step (m : M) : Op → M × List Ev
  | .start => startM m
  | .stop => stopM m
  | .sleep d => ({ m with now := m.now + d }, [])
  | .fire =>
    match earliest m.timers with
    | none => (m, [])
    | some t =>
      let m := { m with now := if m.now < t.2 then t.2 else m.now, timers := m.timers.filter (fun u => u.1 != t.1) }
      runCb m
  | .complete idx ok =>
    match m.inflight[idx]? with
    | none => (m, [])
    | some inv =>
      let m := { m with inflight := m.inflight.eraseIdx idx, busy := false }
      let (m', evs) := scheduleNext m
      (m', [.finished inv m.now] ++ (if ok then [] else [.logged inv]) ++ evs)
  | .iter late before acts =>
    match earliest m.timers with
    | none => actsRun m acts          -- no periodic timer pending: the foreign callback runs on its own
    | some t =>
      iterBody { m with now := if m.now < t.2 + late then t.2 + late else m.now } t.1 before acts

def run (m : M) : List Op → M × List (List Ev)
  | [] => (m, [])
  | op :: ops =>
    let (m', evs) := step m op
    let (m'', rest) := run m' ops
    (m'', evs :: rest)

end TornadoModel.C39
