/- C39 helper lemmas over ℚ (Mathlib: floor, linarith, ring). -/
import Mathlib.Data.Rat.Floor
import Mathlib.Tactic.Linarith
import Mathlib.Tactic.Ring
import TornadoModel.C39.Model
namespace TornadoModel.C39

/-- core's `Rat.floor` is Mathlib's `⌊·⌋` on ℚ -/
theorem floor_eq (q : ℚ) : Rat.floor q = ⌊q⌋ := rfl

/-- the catch-up formula lands strictly after `t` … -/
theorem catchup_gt (n t p : ℚ) (hp : 0 < p) :
    t < n + ((⌊(t - n) / p⌋ + 1 : ℤ) : ℚ) * p := by
  have h := Int.lt_floor_add_one ((t - n) / p)
  have h2 : (t - n) < ((⌊(t - n) / p⌋ : ℚ) + 1) * p := (div_lt_iff₀ hp).mp h
  push_cast
  linarith

/-- … and at most one period after it -/
theorem catchup_le (n t p : ℚ) (hp : 0 < p) :
    n + ((⌊(t - n) / p⌋ + 1 : ℤ) : ℚ) * p ≤ t + p := by
  have h := Int.floor_le ((t - n) / p)
  have h2 : (⌊(t - n) / p⌋ : ℚ) * p ≤ t - n := (le_div_iff₀ hp).mp h
  push_cast
  linarith

theorem catchup_floor_nonneg (n t p : ℚ) (hp : 0 < p) (h : n ≤ t) : 0 ≤ ⌊(t - n) / p⌋ := by
  apply Int.floor_nonneg.mpr
  apply div_nonneg <;> linarith

/-- the jitter factor `1 + j (r - 1/2)` for `r ∈ [0,1)` lies in `[1 - |j|/2, 1 + |j|/2]` -/
theorem jitter_factor_bounds (j r : ℚ) (h0 : 0 ≤ r) (h1 : r < 1) :
    1 - |j| / 2 ≤ 1 + j * (r - 1 / 2) ∧ 1 + j * (r - 1 / 2) ≤ 1 + |j| / 2 := by
  have hr : |r - 1 / 2| ≤ 1 / 2 := by
    rw [abs_le]; constructor <;> linarith
  have hm : |j * (r - 1 / 2)| ≤ |j| / 2 := by
    rw [abs_mul]
    have := mul_le_mul_of_nonneg_left hr (abs_nonneg j)
    linarith
  rw [abs_le] at hm
  constructor <;> linarith [hm.1, hm.2]

end TornadoModel.C39
