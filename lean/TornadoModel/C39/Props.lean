/-
C39 — PeriodicCallback stays on its grid, skips missed periods, never overlaps.
Part 1: the function regenerated from the source (`Gen.updateNext`) equals the hand model.
Part 2: arithmetic theorems about the model over exact rationals.
Part 3: the `_run/_schedule_next/start/stop` machine (see `Machine.lean`).
-/
import TornadoModel.C39.Lemmas
import TornadoModel.C39.Gen.Periodic
import TornadoModel.C39.Machine
import TornadoModel.C39.Spec
namespace TornadoModel.C39

/-! ## 1. translator tie -/

def toModel (s : Gen.Self) : PC := ⟨s.callback_time, s.jitter, s.next_timeout⟩

/-- the Lean function regenerated from `PeriodicCallback._update_next` on every run is the hand model -/
theorem gen_eq_model (s : Gen.Self) (now rnd : ℚ) :
    toModel (Gen.updateNext s now rnd) = updateNext (toModel s) now rnd := by
  unfold Gen.updateNext updateNext skipped periodSec toModel
  by_cases hj : s.jitter = 0 <;> by_cases hn : s.next_timeout ≤ now <;>
    simp [hj, hn, floor_eq] <;> (try push_cast) <;> (try ring)

/-! ## 2. arithmetic (no jitter): `p = callbackTime / 1000 > 0` -/

theorem periodSec_nojitter (s : PC) (r : ℚ) (hj : s.jitter = 0) : periodSec s r = s.callbackTime / 1000 := by
  simp [periodSec, hj]

theorem periodSec_pos (s : PC) (r : ℚ) (hp : 0 < s.callbackTime) (hj : s.jitter = 0) : 0 < periodSec s r := by
  rw [periodSec_nojitter s r hj]; positivity

/-- each newly scheduled run time is later than the previously scheduled one -/
theorem next_strictly_later (s : PC) (now r : ℚ) (hp : 0 < s.callbackTime) (hj : s.jitter = 0) :
    s.next < (updateNext s now r).next := by
  have hP := periodSec_pos s r hp hj
  unfold updateNext
  split
  · next h =>
    have := catchup_gt s.next now (periodSec s r) hP
    simp only [skipped, floor_eq]
    linarith
  · simp only; linarith

/-- the new run time is after the current time -/
theorem not_before_now (s : PC) (now r : ℚ) (hp : 0 < s.callbackTime) (hj : s.jitter = 0) :
    now < (updateNext s now r).next := by
  have hP := periodSec_pos s r hp hj
  unfold updateNext
  split
  · simp only [skipped, floor_eq]; exact catchup_gt s.next now (periodSec s r) hP
  · next h => simp only; have h := not_le.mp h; linarith

/-- while the clock has not gone backwards past the schedule, the new run time is at most one period ahead:
missed periods are skipped, not bunched -/
theorem at_most_one_period_ahead (s : PC) (now r : ℚ) (hp : 0 < s.callbackTime) (hj : s.jitter = 0)
    (h : s.next ≤ now) : (updateNext s now r).next ≤ now + s.callbackTime / 1000 := by
  have hP := periodSec_pos s r hp hj
  have := catchup_le s.next now (periodSec s r) hP
  rw [periodSec_nojitter s r hj] at this hP
  unfold updateNext
  simp only [h, if_true, skipped, floor_eq, periodSec_nojitter s r hj]
  exact this

/-- grid: if the old run time is `start + k·p` the new one is `start + k'·p` with `k' > k` -/
theorem on_grid (s : PC) (now r start : ℚ) (k : ℤ) (hp : 0 < s.callbackTime) (hj : s.jitter = 0)
    (hg : s.next = start + k * (s.callbackTime / 1000)) :
    ∃ k' : ℤ, k < k' ∧ (updateNext s now r).next = start + k' * (s.callbackTime / 1000) := by
  have hP := periodSec_pos s r hp hj
  rw [periodSec_nojitter s r hj] at hP
  unfold updateNext
  split
  · next h =>
    have hf := catchup_floor_nonneg s.next now (s.callbackTime / 1000) hP h
    refine ⟨k + (⌊(now - s.next) / (s.callbackTime / 1000)⌋ + 1), by omega, ?_⟩
    simp only [skipped, floor_eq, periodSec_nojitter s r hj, hg]
    push_cast
    ring
  · refine ⟨k + 1, by omega, ?_⟩
    simp only [periodSec_nojitter s r hj, hg]
    push_cast
    ring

/-- exactly which grid point: the first one strictly after `now` (when the clock is not behind the schedule) -/
theorem first_grid_point_after_now (s : PC) (now r : ℚ) (hp : 0 < s.callbackTime) (hj : s.jitter = 0)
    (h : s.next ≤ now) :
    now < (updateNext s now r).next ∧ (updateNext s now r).next - s.callbackTime / 1000 ≤ now :=
  ⟨not_before_now s now r hp hj, by linarith [at_most_one_period_ahead s now r hp hj h]⟩

/-- `_update_next` touches nothing but `_next_timeout` -/
theorem updateNext_frame (s : PC) (now r : ℚ) :
    (updateNext s now r).callbackTime = s.callbackTime ∧ (updateNext s now r).jitter = s.jitter := by
  unfold updateNext; split <;> simp

/-- a whole trajectory: feeding any sequence of clock readings keeps the schedule strictly increasing and on the grid -/
def iter (s : PC) : List ℚ → List ℚ
  | [] => []
  | t :: ts => (updateNext s t 0).next :: iter (updateNext s t 0) ts

theorem iter_on_grid (nows : List ℚ) : ∀ (s : PC) (start : ℚ) (k : ℤ), 0 < s.callbackTime → s.jitter = 0 →
    s.next = start + k * (s.callbackTime / 1000) →
    ∀ x ∈ iter s nows, ∃ k' : ℤ, k < k' ∧ x = start + k' * (s.callbackTime / 1000) := by
  induction nows with
  | nil => intro s start k _ _ _ x hx; simp [iter] at hx
  | cons t ts ih =>
    intro s start k hp hj hg x hx
    obtain ⟨k1, hk1, h1⟩ := on_grid s t 0 start k hp hj hg
    have hf := updateNext_frame s t 0
    simp only [iter, List.mem_cons] at hx
    rcases hx with rfl | hx
    · exact ⟨k1, hk1, h1⟩
    · have := ih (updateNext s t 0) start k1 (by rw [hf.1]; exact hp) (by rw [hf.2]; exact hj)
        (by rw [hf.1]; exact h1) x hx
      rw [hf.1] at this
      obtain ⟨k2, hk2, h2⟩ := this
      exact ⟨k2, by omega, h2⟩

theorem iter_strictly_increasing (nows : List ℚ) : ∀ (s : PC), 0 < s.callbackTime → s.jitter = 0 →
    (s.next :: iter s nows).Pairwise (· < ·) := by
  induction nows with
  | nil => intro s _ _; simp [iter]
  | cons t ts ih =>
    intro s hp hj
    have hf := updateNext_frame s t 0
    have h1 := next_strictly_later s t 0 hp hj
    have := ih (updateNext s t 0) (by rw [hf.1]; exact hp) (by rw [hf.2]; exact hj)
    simp only [iter]
    refine List.pairwise_cons.mpr ⟨?_, this⟩
    intro x hx
    rcases List.mem_cons.mp hx with rfl | hx
    · exact h1
    · exact lt_trans h1 ((List.pairwise_cons.mp this).1 x hx)

/-! ## 2a. the constructor: numbers (milliseconds) and `datetime.timedelta` (microsecond resolution) -/

/-- **any period of at least a microsecond is accepted and used exactly**: the constructor does not raise and stores
the requested period (a timedelta of `us` microseconds becomes `us/1000` ms — not truncated to whole milliseconds) -/
theorem ctor_accepts_any_period (p : Period) (h : 1 / 1000 ≤ p.requestedMs) : ctor p = some p.requestedMs := by
  cases p with
  | ms q =>
    have hq : ¬ q ≤ 0 := by
      simp only [Period.requestedMs] at h
      intro hq
      linarith
    simp [ctor, Period.requestedMs, hq]
  | td us => simp [ctor, Period.requestedMs]

/-- the oracle's constructor clause holds of the model for every argument -/
theorem ctor_spec (p : Period) : Spec.ctorViolations p (ctor p) = [] := by
  unfold Spec.ctorViolations
  split
  · next h => rw [ctor_accepts_any_period p h]
  · rfl

/-- the whole trajectory of an object built by the constructor (number or timedelta, period ≥ 1 µs, no jitter) and
started at `start`: strictly increasing and on the grid `start + k · period` of the **requested** period -/
theorem ctor_on_grid (p : Period) (start : ℚ) (nows : List ℚ) (h : 1 / 1000 ≤ p.requestedMs) :
    ∃ s, newPC p 0 start = some s ∧ (s.next :: iter s nows).Pairwise (· < ·) ∧
      ∀ x ∈ iter s nows, ∃ k : ℤ, 0 < k ∧ x = start + k * (p.requestedMs / 1000) := by
  have hpos : (0 : ℚ) < p.requestedMs := by linarith
  refine ⟨⟨p.requestedMs, 0, start⟩, by simp [newPC, ctor_accepts_any_period p h], ?_, ?_⟩
  · exact iter_strictly_increasing nows _ hpos rfl
  · exact iter_on_grid nows ⟨p.requestedMs, 0, start⟩ start 0 hpos rfl (by simp)

/-! non-vacuity: 2.5 ms and 1 µs given as timedeltas; zero milliseconds is rejected -/
example : ctor (.td 2500) = some (5 / 2) := by simp [ctor]; norm_num
example : (1 : ℚ) / 1000 ≤ (Period.td 1).requestedMs := by simp [Period.requestedMs]
example : ctor (.ms 0) = none := by simp [ctor]

/-! ## 2c. restart: `start()` moves the grid origin to the current time, whatever `_next_timeout` held before -/

/-- `start()` in ANY state (never started, stopped with a stale `_next_timeout` in the past or in the future, already
running): when no invocation is in flight it arms exactly one deadline, one period after the current time — the point
`k = 1` of the grid `now + k·p` of this start; when an invocation is in flight it arms nothing and leaves
`_next_timeout = now`, so the deadline armed when that invocation finishes is, by `on_grid` / `iter_on_grid` with
`start := now`, `k := 0`, on the same new grid and (`first_grid_point_after_now`) at most one period ahead. -/
theorem restart_on_new_grid (m : M) (hj : m.pc.jitter = 0) (hp : 0 < m.pc.callbackTime) :
    (m.busy = false → (startM m).2 = [.sched (m.now + m.pc.callbackTime / 1000)] ∧
        (startM m).1.pc.next = m.now + m.pc.callbackTime / 1000) ∧
    (m.busy = true → (startM m).2 = [] ∧ (startM m).1.pc.next = m.now ∧
        (startM m).1.pc.callbackTime = m.pc.callbackTime ∧ (startM m).1.timers.length ≤ m.timers.length) := by
  have hne : m.pc.callbackTime ≠ 0 := ne_of_gt hp
  constructor
  · intro hb
    unfold startM
    cases hh : m.handle <;>
      simp [hb, scheduleNext, updateNext, skipped, periodSec, hj, floor_eq]
  · intro hb
    unfold startM
    cases hh : m.handle <;> simp [hb, List.length_filter_le]

/-! non-vacuity: stopped with a stale deadline 1000.1 in the future, restarted at 1000.03 → 1000.13, not 1000.2 -/
example : (startM { init 100 (100003 / 100) [] with pc := ⟨100, 0, 10001 / 10⟩ }).2 =
    [.sched (100003 / 100 + 100 / 1000)] :=
  ((restart_on_new_grid { init 100 (100003 / 100) [] with pc := ⟨100, 0, 10001 / 10⟩ } rfl
    (by show (0 : ℚ) < 100; norm_num)).1 rfl).1

/-! ## 2b. with jitter `|j| < 2`, `random.random() ∈ [0,1)` -/

theorem periodSec_jitter_bounds (s : PC) (r : ℚ) (hp : 0 < s.callbackTime) (h0 : 0 ≤ r) (h1 : r < 1) :
    s.callbackTime / 1000 * (1 - |s.jitter| / 2) ≤ periodSec s r ∧
    periodSec s r ≤ s.callbackTime / 1000 * (1 + |s.jitter| / 2) := by
  have hP : 0 < s.callbackTime / 1000 := by positivity
  unfold periodSec
  split
  · next hj => simp [hj]
  · have hb := jitter_factor_bounds s.jitter r h0 h1
    exact ⟨mul_le_mul_of_nonneg_left hb.1 hP.le, mul_le_mul_of_nonneg_left hb.2 hP.le⟩

theorem periodSec_jitter_pos (s : PC) (r : ℚ) (hp : 0 < s.callbackTime) (hj : |s.jitter| < 2)
    (h0 : 0 ≤ r) (h1 : r < 1) : 0 < periodSec s r := by
  have hP : 0 < s.callbackTime / 1000 := by positivity
  have hb := (periodSec_jitter_bounds s r hp h0 h1).1
  have : 0 < s.callbackTime / 1000 * (1 - |s.jitter| / 2) := mul_pos hP (by linarith)
  linarith

theorem next_strictly_later_jitter (s : PC) (now r : ℚ) (hp : 0 < s.callbackTime) (hj : |s.jitter| < 2)
    (h0 : 0 ≤ r) (h1 : r < 1) : s.next < (updateNext s now r).next := by
  have hP := periodSec_jitter_pos s r hp hj h0 h1
  unfold updateNext
  split
  · next h =>
    have := catchup_gt s.next now (periodSec s r) hP
    simp only [skipped, floor_eq]
    linarith
  · simp only; linarith

theorem not_before_now_jitter (s : PC) (now r : ℚ) (hp : 0 < s.callbackTime) (hj : |s.jitter| < 2)
    (h0 : 0 ≤ r) (h1 : r < 1) : now < (updateNext s now r).next := by
  have hP := periodSec_jitter_pos s r hp hj h0 h1
  unfold updateNext
  split
  · simp only [skipped, floor_eq]; exact catchup_gt s.next now (periodSec s r) hP
  · next h => simp only; have h := not_le.mp h; linarith

theorem at_most_ahead_jitter (s : PC) (now r : ℚ) (hp : 0 < s.callbackTime) (hj : |s.jitter| < 2)
    (h0 : 0 ≤ r) (h1 : r < 1) (h : s.next ≤ now) :
    (updateNext s now r).next ≤ now + (1 + |s.jitter| / 2) * (s.callbackTime / 1000) := by
  have hP := periodSec_jitter_pos s r hp hj h0 h1
  have hb := (periodSec_jitter_bounds s r hp h0 h1).2
  have := catchup_le s.next now (periodSec s r) hP
  unfold updateNext
  simp only [h, if_true, skipped, floor_eq]
  linarith

/-! non-vacuity: a 100 ms callback scheduled for t = 1000 s, examined at t = 1000.35 s -/
example : (updateNext ⟨100, 0, 1000⟩ (100035 / 100) 0).next = 10004 / 10 := by
  simp [updateNext, skipped, periodSec, floor_eq]; norm_num
example : (0 : ℚ) < (⟨100, 0, 1000⟩ : PC).callbackTime ∧ (⟨100, 0, 1000⟩ : PC).jitter = 0 ∧
    (⟨100, 0, 1000⟩ : PC).next = 1000 + (0 : ℤ) * ((⟨100, 0, 1000⟩ : PC).callbackTime / 1000) := by norm_num
example : |(1 / 10 : ℚ)| < 2 ∧ (0 : ℚ) ≤ 3 / 4 ∧ (3 / 4 : ℚ) < 1 := by norm_num [abs_of_pos]

end TornadoModel.C39
