/- C39 driver.  Rationals travel as `[num,den]`.
   `C39 update  ct j next now rnd`              → `ok [n,d] k|~`            (Model.updateNext, floor taken)
   `C39 agrees  ct j next now rnd obs ulp`      → `ok exact|boundary|bad`   (Spec.agrees)
   `C39 spec    ct j next now obs ulp`          → `ok [clause,…]`           (Spec.stepViolations)
   `C39 machine ct now [kind,…] [op,…]`         → `ok [[[ev,…],running,[deadline,…],[inflight,…]],…]`
                op = [start] | [stop] | [fire] | [sleep,d] | [complete,i,T|F] | [iter,late,T|F,[[stop]|[start]|[block,d],…]]
   `C39 trace   [op,…] [[ev,…],…]`              → `ok [clause,…]`           (Spec.traceViolations)
   `C39 sched   ct start now d prev|~`          → `ok [clause,…]`           (Spec.schedViolations: a machine deadline vs the latest start)
   `C39 ctor    period obs|~ halfulp`           → `ok [n,d]|~ T|F`          (Model.ctor, Spec.ctorAgrees); period = [ms,[n,d]] | [td,us]
   `C39 ctorspec period obs|~`                  → `ok [clause,…]`           (Spec.ctorViolations)
-/
import TornadoModel.Base.Wire
import TornadoModel.C39.Spec
namespace TornadoModel.C39.Drv
open TornadoModel TornadoModel.Wire TornadoModel.C39

def decRat (v : V) : Option Rat := do
  match ← v.list? with
  | [n, d] =>
    let n ← n.int?
    let d ← d.nat?
    if d = 0 then none else pure (mkRat n d)
  | _ => none

def decPeriod (v : V) : Option Period := do
  match ← v.list? with
  | [.atom "ms", q] => pure (.ms (← decRat q))
  | [.atom "td", us] => pure (.td (← us.int?))
  | _ => none

def decObs (v : V) : Option (Option Rat) := if v.isNone then some none else (decRat v).map some

def encRat (q : Rat) : V := .list [.int q.num, .int q.den]

def decKind : V → Option Kind
  | .atom "sync" => some .sync
  | .atom "raise" => some .raise
  | .atom "coro" => some .coro
  | _ => none

def decAct (v : V) : Option Act := do
  match ← v.list? with
  | [.atom "stop"] => pure .stop
  | [.atom "start"] => pure .start
  | [.atom "block", d] => pure (.block (← decRat d))
  | _ => none

def decOp (v : V) : Option Op := do
  match ← v.list? with
  | [.atom "iter", late, before, acts] =>
    pure (.iter (← decRat late) (← before.bool?) (← (← acts.list?).mapM decAct))
  | [.atom "start"] => pure .start
  | [.atom "stop"] => pure .stop
  | [.atom "fire"] => pure .fire
  | [.atom "sleep", d] => pure (.sleep (← decRat d))
  | [.atom "complete", i, ok] => pure (.complete (← i.nat?) (← ok.bool?))
  | _ => none

def encEv : Ev → V
  | .started i t => .list [.atom "started", .int i, encRat t]
  | .finished i t => .list [.atom "finished", .int i, encRat t]
  | .logged i => .list [.atom "logged", .int i]
  | .sched d => .list [.atom "sched", encRat d]

def decEv (v : V) : Option Ev := do
  match ← v.list? with
  | [.atom "started", i, t] => pure (.started (← i.nat?) (← decRat t))
  | [.atom "finished", i, t] => pure (.finished (← i.nat?) (← decRat t))
  | [.atom "logged", i] => pure (.logged (← i.nat?))
  | [.atom "sched", d] => pure (.sched (← decRat d))
  | _ => none

/-- run the machine, reporting after every op the events and a snapshot of the observable state -/
def runSnap (m : M) : List Op → List V
  | [] => []
  | op :: ops =>
    let (m', evs) := step m op
    .list [.list (evs.map encEv), V.ofBool m'.running, .list (m'.timers.map (fun t => encRat t.2)),
           .list (m'.inflight.map (fun i => V.int (Int.ofNat i)))] :: runSnap m' ops

def handle (toks : List String) : String :=
  match parseArgs (toks.drop 1) with
  | none => err "bad-arg"
  | some args =>
    match toks.head?, args with
    | some "update", [ct, j, nx, now, rnd] =>
      match decRat ct, decRat j, decRat nx, decRat now, decRat rnd with
      | some ct, some j, some nx, some now, some rnd =>
        let s : PC := ⟨ct, j, nx⟩
        if periodSec s rnd = 0 then err "ZeroDivisionError" else
        ok [encRat (updateNext s now rnd).next, if nx ≤ now then .int (skipped s now rnd) else .none]
      | _, _, _, _, _ => err "bad-rat"
    | some "agrees", [ct, j, nx, now, rnd, obs, ulp] =>
      match decRat ct, decRat j, decRat nx, decRat now, decRat rnd, decRat obs, decRat ulp with
      | some ct, some j, some nx, some now, some rnd, some obs, some ulp =>
        let s : PC := ⟨ct, j, nx⟩
        if periodSec s rnd = 0 then err "ZeroDivisionError" else
        ok [.atom (match Spec.agrees s now rnd obs ulp with | .exact => "exact" | .boundary => "boundary" | .bad => "bad")]
      | _, _, _, _, _, _, _ => err "bad-rat"
    | some "spec", [ct, j, nx, now, obs, ulp] =>
      match decRat ct, decRat j, decRat nx, decRat now, decRat obs, decRat ulp with
      | some ct, some j, some nx, some now, some obs, some ulp =>
        if ct = 0 then err "ZeroDivisionError" else
        ok [.list ((Spec.stepViolations ⟨ct, j, nx, now, obs, ulp⟩).map V.atom)]
      | _, _, _, _, _, _ => err "bad-rat"
    | some "machine", [ct, now, ks, ops] =>
      match decRat ct, decRat now, ks.list? >>= (·.mapM decKind), ops.list? >>= (·.mapM decOp) with
      | some ct, some now, some ks, some ops => ok [.list (runSnap (init ct now ks) ops)]
      | _, _, _, _ => err "bad-arg"
    | some "trace", [ops, evs] =>
      match ops.list? >>= (·.mapM decOp), evs.list? >>= (·.mapM (fun l => l.list? >>= (·.mapM decEv))) with
      | some ops, some evs => ok [.list ((Spec.traceViolations ops evs).map V.atom)]
      | _, _ => err "bad-arg"
    | some "sched", [ct, st, now, d, prev] =>
      match decRat ct, decRat st, decRat now, decRat d, decObs prev with
      | some ct, some st, some now, some d, some prev =>
        if ct = 0 then err "ZeroDivisionError" else
        ok [.list ((Spec.schedViolations ct st now d prev).map V.atom)]
      | _, _, _, _, _ => err "bad-rat"
    | some "ctor", [p, obs, hu] =>
      match decPeriod p, decObs obs, decRat hu with
      | some p, some obs, some hu =>
        ok [(match ctor p with | some c => encRat c | none => .none), V.ofBool (Spec.ctorAgrees p obs hu)]
      | _, _, _ => err "bad-arg"
    | some "ctorspec", [p, obs] =>
      match decPeriod p, decObs obs with
      | some p, some obs => ok [.list ((Spec.ctorViolations p obs).map V.atom)]
      | _, _ => err "bad-arg"
    | _, _ => err "bad-cmd"

end TornadoModel.C39.Drv
