/-
C39 — specification side (core Lean only): what the property demands of *observed* behaviour.

* `stepViolations`  : the arithmetic clauses applied to one observed `_update_next` step (old/new `_next_timeout`,
                      clock reading, period), with the rounding allowance `tol` the property grants for floats
                      (`tol = 0` gives the exact statements proved in Props.lean).
* `schedViolations` : the same clauses applied to a deadline armed by the running machine, relative to the LATEST
                      `start()` (grid origin = the clock at that call), so a restarted PeriodicCallback is judged
                      against its new grid.
* `agrees`          : "the observed float result is the exact result up to rounding" (second tie).
* `traceViolations` : the two behavioural clauses on an observed start/finish trace:
                      no invocation starts while another is in flight; none starts between `stop` and `start`
                      (also when the `stop` comes from a foreign callback in the very loop iteration of the timer).
-/
import TornadoModel.C39.Model
namespace TornadoModel.C39.Spec
open TornadoModel.C39

def absR (x : Rat) : Rat := if 0 ≤ x then x else -x

/-- nearest integer (ties up) -/
def roundR (x : Rat) : Int := Rat.floor (x + 1 / 2)

/-- rounding allowance: a couple of ulps of the result plus a 2⁻⁴⁸ relative error on the `m·p` increment -/
def tolFor (ulp p : Rat) (m : Int) : Rat := 2 * ulp + absR ((m : Rat) * p) / 281474976710656

structure Obs where
  callbackTime : Rat
  jitter : Rat
  next : Rat      -- `_next_timeout` before
  now : Rat
  next' : Rat     -- `_next_timeout` after
  ulp : Rat       -- 0 for exact arithmetic, `math.ulp(next')` for floats

/-- names of the clauses of the property violated by one observed step -/
def stepViolations (o : Obs) : List String :=
  let p := o.callbackTime / 1000
  let m := roundR ((o.next' - o.next) / p)
  let tol := tolFor o.ulp p m
  let tolJ := tolFor o.ulp (p * 2) m
  (if o.next < o.next' then [] else ["later"]) ++
  (if o.jitter = 0 then
     (if 1 ≤ m ∧ absR (o.next' - o.next - (m : Rat) * p) ≤ tol then [] else ["grid"])
   else []) ++
  (if o.now < o.next' + tolJ then [] else ["not_before_now"]) ++
  (if o.next ≤ o.now then
     (if o.next' ≤ o.now + p * (1 + absR o.jitter / 2) + tolJ then [] else ["one_period_ahead"])
   else [])

/-- The scheduling clauses applied to one deadline `d` armed by a live PeriodicCallback, relative to the **latest**
`start()`: `start` = the clock at that `start()` call, `now` = the clock when the deadline was armed (the machine's
clock never goes backwards, so "at most one period ahead" applies unconditionally), `prev` = the deadline armed before
it since that `start()`.  Exact arithmetic (dyadic machine runs). -/
def schedViolations (callbackTime start now d : Rat) (prev : Option Rat) : List String :=
  let p := callbackTime / 1000
  let k := roundR ((d - start) / p)
  (match prev with
   | some q => if q < d then [] else ["later"]
   | none => []) ++
  (if 1 ≤ k ∧ d = start + (k : Rat) * p then [] else ["grid"]) ++
  (if now ≤ d then [] else ["not_before_now"]) ++
  (if d ≤ now + p then [] else ["one_period_ahead"])

/-- "for any period of at least a microsecond": the constructor must accept it (`obs = none`: it raised).  Whether
the object then *uses* the requested period is demanded by `stepViolations` evaluated with the requested period. -/
def ctorViolations (p : Period) (obs : Option Rat) : List String :=
  if 1 / 1000 ≤ p.requestedMs then (match obs with | none => ["period_accepted"] | some _ => []) else []

/-- correspondence for the constructor: the stored float is the exact quotient correctly rounded (`halfUlp = 0` for
a number stored as given) -/
def ctorAgrees (p : Period) (obs : Option Rat) (halfUlp : Rat) : Bool :=
  match ctor p, obs with
  | none, none => true
  | some c, some o => absR (o - c) ≤ halfUlp
  | _, _ => false

inductive Verdict | exact | boundary | bad
  deriving Repr, DecidableEq

/-- Is the observed result `obs` the model's result up to float rounding?  `boundary`: the exact quotient is within
2⁻⁴⁸ (relative) of an integer and the float computation took the neighbouring floor. -/
def agrees (s : PC) (now rnd obs ulp : Rat) : Verdict :=
  let p := periodSec s rnd
  if s.next ≤ now then
    let q := (now - s.next) / p
    let k := Rat.floor q
    let eps := (if 1 ≤ absR q then absR q else 1) / 281474976710656
    let close (k' : Int) : Bool := absR (obs - (s.next + ((k' + 1 : Int) : Rat) * p)) ≤ tolFor ulp p (k' + 1)
    if close k then .exact
    else if close (k + 1) ∧ ((k + 1 : Int) : Rat) - q ≤ eps then .boundary
    else if close (k - 1) ∧ q - (k : Rat) ≤ eps then .boundary
    else .bad
  else
    if absR (obs - (s.next + p)) ≤ tolFor ulp p 1 then .exact else .bad

/-! ### behavioural clauses on a trace -/

/-- walk the events keeping the set of invocations in flight; report the first overlapping start -/
def overlapIn : List Nat → List Ev → Option Nat
  | _, [] => none
  | fl, .started i _ :: es => if fl.isEmpty then overlapIn (i :: fl) es else some i
  | fl, .finished i _ :: es => overlapIn (fl.filter (· != i)) es
  | fl, _ :: es => overlapIn fl es

/-- a start between `stop` and the next `start`.  In a shared iteration (`iter`) the foreign callback's calls come
before every invocation the iteration starts — whether it ran before the timer handle or between the handle and the
body of `_run` — so a `stop()` made there must already prevent that invocation. -/
def startAfterStop : Bool → List (Op × List Ev) → Option Nat
  | _, [] => none
  | stopped, (op, evs) :: rest =>
    let stopped := match op with
      | .start => false
      | .iter _ _ acts => actsStopped stopped acts
      | _ => stopped
    match evs.find? (fun e => match e with | .started _ _ => true | _ => false) with
    | some (.started i _) => if stopped then some i else startAfterStop (op == .stop || stopped) rest
    | _ => startAfterStop (op == .stop || stopped) rest

def traceViolations (ops : List Op) (evs : List (List Ev)) : List String :=
  (match overlapIn [] evs.flatten with | some _ => ["overlap"] | none => []) ++
  (match startAfterStop false (ops.zip evs) with | some _ => ["start_after_stop"] | none => [])

end TornadoModel.C39.Spec
