/-
C13 — the model is the stream machine of `TornadoModel.C11.Model` (same code: `close`, `_signal_closed`,
`_check_closed`, `_start_read` on a closed stream, minimal write/connect futures).  This file adds the
projections the C13 statements talk about: the futures still pending in a state, and the ids settled /
created in a list of per-op outputs.
-/
import TornadoModel.C11.Model
namespace TornadoModel.C13
open TornadoModel.C11

/-- futures the stream still owes an answer: `_read_future`, `_write_futures`, `_connect_future` -/
def pending (s : St) : List Nat :=
  (match s.rfut with | some f => [f] | none => []) ++ s.wfuts.map (·.2) ++
  (match s.cfut with | some f => [f] | none => [])

/-- ids settled by a list of events, in order -/
def settledIds : List Ev → List Nat
  | [] => []
  | .settle f _ :: r => f :: settledIds r
  | .cb :: r => settledIds r

def cbCount : List Ev → Nat
  | [] => 0
  | .cb :: r => cbCount r + 1
  | .settle _ _ :: r => cbCount r

/-- all events of a run, in order -/
def allEvs (outs : List Out) : List Ev := (outs.map (·.evs)).flatten

/-- the request a read op makes (None for the other ops) -/
inductive Req where
  | bytes (n : Nat) (part : Bool)
  | into (n : Nat) (part : Bool)
  | until (d : Bytes) (max : Option Nat)
  | regex (rid : Nat) (max : Option Nat)
  | untilClose
  deriving DecidableEq, Repr

/-! ### transport arrivals the IOLoop has not yet reported (added after the missed seeded change C13-2)

`Op.feed` / `Op.eof` / `Op.rerr` are `FakeStream.feed*`: the transport changes AND the stream's handler runs at once (if it
is listening).  A real IOLoop reports readiness once per iteration: the peer's last bytes and its RST (or FIN) are usually
both in the kernel when `_handle_read` runs, so one pass of `_read_to_buffer_loop` pulls the bytes chunk by chunk and then
hits the error — `close(exc_info=e)` is called INSIDE the loop, with the read still registered and possibly satisfied by
bytes the loop has not rescanned yet.  `XOp.arrive b` = bytes reach the transport and nothing runs; the next event
(`feed` / `eof` / `rerr`) or read call picks them up together with whatever follows them. -/

inductive XOp where
  | op (o : Op)
  | arrive (b : Bytes)
  deriving DecidableEq, Repr

def arrive (s : St) (b : Bytes) : St := if b.isEmpty then s else { s with inc := s.inc ++ [b] }

def stepX (R : Nat → Bytes → Option Nat) (s : St) : XOp → St × Out
  | .op o => step R s o
  | .arrive b => (arrive { s with out := [] } b, { ret := .unit, evs := [] })

def runX (R : Nat → Bytes → Option Nat) (s : St) : List XOp → St × List Out
  | [] => (s, [])
  | op :: ops =>
    let (s1, o) := stepX R s op
    let (s2, os) := runX R s1 ops
    (s2, o :: os)

end TornadoModel.C13
