/-
C13 — the model is the stream machine of `TornadoModel.C11.Model` (same code: `close`, `_signal_closed`,
`_check_closed`, `_start_read` on a closed stream, minimal write/connect futures).  This file adds the
projections the C13 statements talk about: the futures still pending in a state, and the ids settled /
created in a list of per-op outputs.
-/
import TornadoModel.C11.Model
namespace TornadoModel.C13
open TornadoModel.C11

/-- futures the stream still owes an answer: `_read_future`, `_write_futures`, `_connect_future` -/
def pending (s : St) : List Nat :=
  (match s.rfut with | some f => [f] | none => []) ++ s.wfuts.map (·.2) ++
  (match s.cfut with | some f => [f] | none => [])

/-- ids settled by a list of events, in order -/
def settledIds : List Ev → List Nat
  | [] => []
  | .settle f _ :: r => f :: settledIds r
  | .cb :: r => settledIds r

def cbCount : List Ev → Nat
  | [] => 0
  | .cb :: r => cbCount r + 1
  | .settle _ _ :: r => cbCount r

/-- all events of a run, in order -/
def allEvs (outs : List Out) : List Ev := (outs.map (·.evs)).flatten

/-- the request a read op makes (None for the other ops) -/
inductive Req where
  | bytes (n : Nat) (part : Bool)
  | into (n : Nat) (part : Bool)
  | until (d : Bytes) (max : Option Nat)
  | regex (rid : Nat) (max : Option Nat)
  | untilClose
  deriving DecidableEq, Repr

end TornadoModel.C13
