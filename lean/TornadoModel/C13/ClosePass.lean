/-
C13 / C11 — a third pass over the stream machine, for the two statements that are about the step in which the
stream CLOSES, whatever closes it (local `close()`, EOF, reset, OSError, failed send, failed connect,
UnsatisfiableReadError, StreamBufferFullError):

* `CP.closeE`   — a transition from an open to a closed state ends with nothing pending (C13: every pending future
                  is settled in the closing step, for every cause);
* `CP.rucOpen` / `CP.rucClose` — while a `read_until_close` is registered, a transition that leaves the stream open
                  hands out no data and leaves the read registered; a transition that closes the stream leaves an
                  empty read buffer (C11: `read_until_close` completes at the close, with everything received).

`CP` is reflexive and transitive; `close` is the base case; every function of the machine is a composition.
-/
import TornadoModel.C13.Props
namespace TornadoModel.C13
open TornadoModel.C11
variable (R : Nat → Bytes → Option Nat)

structure CP (s s' : St) : Prop where
  mono : s.closed = true → s'.closed = true
  keepE : s.closed = true → pending s = [] → pending s' = []
  closeE : s.closed = false → s'.closed = true → pending s' = []
  keepB : s.closed = true → s.buf = [] → s'.buf = []
  rucOpen : s.ruc = true → ParamsNone s → s'.closed = false →
    s'.ruc = true ∧ ParamsNone s' ∧ s'.rfut = s.rfut ∧ dataEvs s'.out = dataEvs s.out
  rucClose : s.ruc = true → ParamsNone s → s.closed = false → s'.closed = true → s'.buf = []

theorem CP.refl (s : St) : CP s s :=
  ⟨id, fun _ h => h, fun h1 h2 => (by rw [h1] at h2; cases h2), fun _ h => h, fun h1 h2 _ => ⟨h1, h2, rfl, rfl⟩,
   fun _ _ h1 h2 => (by rw [h1] at h2; cases h2)⟩

theorem CP.trans {a b c : St} (h1 : CP a b) (h2 : CP b c) : CP a c := by
  refine ⟨fun h => h2.mono (h1.mono h), fun h hp => h2.keepE (h1.mono h) (h1.keepE h hp), ?_,
    fun h hb => h2.keepB (h1.mono h) (h1.keepB h hb), ?_, ?_⟩
  · intro ha hc
    cases hb : b.closed with
    | false => exact h2.closeE hb hc
    | true => exact h2.keepE hb (h1.closeE ha hb)
  · intro hr hp hc
    have hb : b.closed = false := by
      cases hb : b.closed with
      | false => rfl
      | true => rw [h2.mono hb] at hc; cases hc
    obtain ⟨r1, p1, f1, d1⟩ := h1.rucOpen hr hp hb
    obtain ⟨r2, p2, f2, d2⟩ := h2.rucOpen r1 p1 hc
    exact ⟨r2, p2, f2.trans f1, d2.trans d1⟩
  · intro hr hp ha hc
    cases hb : b.closed with
    | false =>
      obtain ⟨r1, p1, _, _⟩ := h1.rucOpen hr hp hb
      exact h2.rucClose r1 p1 hb hc
    | true => exact h2.keepB hb (h1.rucClose hr hp ha hb)

theorem pending_nil_iff (s : St) : pending s = [] ↔ s.rfut = none ∧ s.wfuts = [] ∧ s.cfut = none := by
  unfold pending
  cases s.rfut <;> cases s.cfut <;> simp

/-- a transition that keeps the closed flag -/
theorem CP.of_frame {s s' : St} (hc : s'.closed = s.closed) (hp : pending s = [] → pending s' = [])
    (hb : s.closed = true → s.buf = [] → s'.buf = [])
    (hr : s.ruc = true → ParamsNone s →
      s'.ruc = true ∧ ParamsNone s' ∧ s'.rfut = s.rfut ∧ dataEvs s'.out = dataEvs s.out) : CP s s' :=
  ⟨fun h => hc.trans h, fun _ => hp, fun h1 h2 => (by rw [hc, h1] at h2; cases h2), hb,
   fun h1 h2 _ => hr h1 h2, fun _ _ h1 h2 => (by rw [hc, h1] at h2; cases h2)⟩

/-- … and touches neither the read side nor the futures owed -/
theorem CP.of_eq {s s' : St} (hc : s'.closed = s.closed) (h1 : s'.rfut = s.rfut) (h2 : s'.wfuts = s.wfuts)
    (h3 : s'.cfut = s.cfut) (h4 : s'.buf = s.buf) (h5 : s'.ruc = s.ruc) (h6 : s'.rbytes = s.rbytes)
    (h7 : s'.rdelim = s.rdelim) (h8 : s'.rregex = s.rregex) (h9 : s'.user = s.user) (h10 : s'.out = s.out) :
    CP s s' := by
  apply CP.of_frame hc
  · intro h
    rw [pending_nil_iff] at h ⊢
    exact ⟨h1.trans h.1, h2.trans h.2.1, h3.trans h.2.2⟩
  · intro _ h; exact h4.trans h
  · intro hr hp
    exact ⟨h5.trans hr, ⟨h6.trans hp.1, h7.trans hp.2.1, h8.trans hp.2.2.1, h9.trans hp.2.2.2⟩, h1, by rw [h10]⟩

theorem addIo_cp (s : St) (r w : Bool) : CP s (addIo s r w) := by
  obtain ⟨io, h⟩ := addIo_eq s r w; rw [h]
  exact CP.of_eq rfl rfl rfl rfl rfl rfl rfl rfl rfl rfl rfl

theorem maybeAdd_cp (s : St) : CP s (maybeAddErrorListener s) := by
  obtain ⟨io, h⟩ := maybeAdd_eq s; rw [h]
  exact CP.of_eq rfl rfl rfl rfl rfl rfl rfl rfl rfl rfl rfl

theorem finishRead_buf (s : St) (n : Nat) :
    (finishRead s n).buf = (match s.user with | some _ => [] | none => s.buf.drop n) := by
  unfold finishRead maybeAddErrorListener addIo St.emit
  cases hu : s.user <;> cases hf : s.rfut <;> simp <;> (repeat' split) <;> simp_all

theorem finishRead_base (s : St) (n : Nat) :
    (finishRead s n).closed = s.closed ∧ (pending s = [] → pending (finishRead s n) = []) ∧
    (s.buf = [] → (finishRead s n).buf = []) := by
  obtain ⟨fr, _, hf⟩ := finishRead_frame s n
  refine ⟨fr.closed, ?_, ?_⟩
  · intro h
    rw [pending_nil_iff] at h ⊢
    exact ⟨hf, fr.wfuts.trans h.2.1, fr.cfut.trans h.2.2⟩
  · intro h
    rw [finishRead_buf, h]
    cases s.user <;> simp

/-- `_finish_read` when no `read_until_close` with clean parameters is registered -/
theorem finishRead_cp (s : St) (n : Nat) (hno : s.ruc = true → ParamsNone s → False) : CP s (finishRead s n) := by
  obtain ⟨a, b, c⟩ := finishRead_base s n
  exact CP.of_frame a b (fun _ => c) (fun hr hp => (hno hr hp).elim)

/-- `_read_from_buffer` is only ever called with a position `_find_read_pos` selected — which it never does for a
    `read_until_close` (no parameters to satisfy) -/
theorem readFromBuffer_cp (s : St) (p : Nat) (hp : findReadPos R s = some (some p)) : CP s (readFromBuffer s p) := by
  unfold readFromBuffer
  obtain ⟨a, b, c⟩ := finishRead_base { s with rbytes := none, rdelim := none, rregex := none, rpartial := false } p
  exact CP.of_frame a b (fun _ => c)
    (fun _ hpn => by rw [find_params_none R s ⟨hpn.1, hpn.2.1, hpn.2.2.1⟩] at hp; cases hp)

theorem signalClosed_buf (s : St) : (signalClosed s).buf = s.buf := by
  rw [(signalClosed_rs2 s).rs.buf]
  unfold clearRead; cases s.rfut <;> rfl

/-- **`close()`**: afterwards the stream is closed and owes nothing; a registered `read_until_close` has taken the
    whole buffer -/
theorem close_cp (s : St) (e : Option ErrK) : CP s (close R s e) := by
  obtain ⟨hp, hc⟩ := close_settles_all R s e
  refine ⟨fun _ => hc, fun _ _ => hp, fun _ _ => hp, ?_, fun _ _ h => (by rw [hc] at h; cases h), ?_⟩
  · intro hcl hb
    unfold close
    simp only [hcl, if_true]
    rw [signalClosed_buf]; exact hb
  · intro hr _ ho _
    unfold close
    simp only [ho, Bool.false_eq_true, if_false]
    rw [signalClosed_buf]
    have h1 : (setError s e).ruc = true := by unfold setError; cases e <;> exact hr
    show (completeAtClose R (setError s e)).buf = []
    unfold completeAtClose
    simp only [h1, if_true]
    rw [finishRead_buf]
    cases (setError s e).user <;> simp

theorem pull_cp (s : St) (c : Bytes) (rest : List Bytes) (k : Nat) (ho : s.closed = false) : CP s (pull s c rest k) :=
  CP.of_frame (by rfl) (fun h => h) (fun h => (by rw [ho] at h; cases h)) (fun hr hp => ⟨hr, hp, rfl, rfl⟩)

theorem readToBuffer_cp (s : St) (ho : s.closed = false) : CP s (readToBuffer R s).1 := by
  unfold readToBuffer
  split
  · rename_i c rest hinc
    have hp := pull_cp s c rest (min c.length (cap s)) ho
    split
    · exact close_cp R s none
    · split
      · exact hp.trans (close_cp R _ none)
      · exact hp
  · split
    · exact CP.trans (b := { s with rerr := none }) (CP.of_eq rfl rfl rfl rfl rfl rfl rfl rfl rfl rfl rfl)
        (close_cp R _ _)
    · split
      · exact close_cp R s none
      · exact CP.refl s

theorem loopGo_cp (target : Option Nat) : ∀ (fuel nf : Nat) (s : St), CP s (loopGo R target fuel nf s).1 := by
  intro fuel
  induction fuel with
  | zero => intro nf s; unfold loopGo; rw [findFinal_fst]; exact CP.refl s
  | succ fuel ih =>
    intro nf s
    unfold loopGo
    split
    · rw [findFinal_fst]; exact CP.refl s
    · rename_i hcl
      have ho : s.closed = false := by cases h : s.closed <;> simp_all
      have hp := readToBuffer_cp R s ho
      generalize readToBuffer R s = rt at hp ⊢
      obtain ⟨s1, x⟩ := rt
      cases x
      case zero => dsimp only; rw [findFinal_fst]; exact hp
      case raised r => dsimp only; exact hp
      all_goals
        dsimp only
        split
        · rw [findFinal_fst]; exact hp
        · split
          · split
            · exact hp
            · exact hp
            · exact hp.trans (ih _ s1)
          · exact hp.trans (ih _ s1)

/-- a position reported by the read loop is the one `_find_read_pos` gives for the final buffer -/
theorem loopGo_pos (target : Option Nat) : ∀ (fuel nf : Nat) (s : St) (p : Nat),
    (loopGo R target fuel nf s).2 = .pos (some p) →
      findReadPos R (loopGo R target fuel nf s).1 = some (some p) := by
  intro fuel
  induction fuel with
  | zero =>
    intro nf s p
    unfold loopGo
    rw [findFinal_fst]
    exact findFinal_pos R s p
  | succ fuel ih =>
    intro nf s p
    unfold loopGo
    split
    · rw [findFinal_fst]; exact findFinal_pos R s p
    · generalize readToBuffer R s = rt
      obtain ⟨s1, x⟩ := rt
      cases x
      case zero => dsimp only; rw [findFinal_fst]; exact findFinal_pos R s1 p
      case raised r => dsimp only; intro h; simp at h
      all_goals
        dsimp only
        split
        · rw [findFinal_fst]; exact findFinal_pos R s1 p
        · split
          · split
            · intro h; simp at h
            · rename_i q hq; intro h; simp at h; subst h; exact hq
            · exact ih (s1.buf.length * 2) s1 p
          · exact ih nf s1 p

theorem readLoop_cp (s : St) : CP s (readLoop R s).1 := by
  unfold readLoop; exact loopGo_cp R _ _ _ s

theorem readLoop_pos (s : St) (p : Nat) (h : (readLoop R s).2 = .pos (some p)) :
    findReadPos R (readLoop R s).1 = some (some p) := by
  unfold readLoop at h ⊢; exact loopGo_pos R _ _ _ s p h

theorem handleRead_cp (s : St) : CP s (handleRead R s).1 := by
  unfold handleRead
  have hp := readLoop_cp R s
  have hq := readLoop_pos R s
  split
  · rename_i s1 heq; rw [heq] at hp; exact hp
  · rename_i s1 heq; rw [heq] at hp; exact hp.trans (close_cp R _ _)
  · rename_i s1 r heq; rw [heq] at hp; exact hp.trans (close_cp R _ _)
  · rename_i s1 p heq; rw [heq] at hp hq; exact hp.trans (readFromBuffer_cp R s1 p (hq p rfl))
  · rename_i s1 heq; rw [heq] at hp; exact hp

theorem resolveWrites_cp (s : St) : CP s (resolveWrites s s.wfuts) := by
  have rs := resolveWrites_rs2 s.wfuts s
  obtain ⟨_, hr, hc, _⟩ := resolveWrites_cnt s.wfuts s
  apply CP.of_frame rs.rs.closed
  · intro h
    rw [pending_nil_iff] at h
    rw [h.2.1]
    rw [pending_nil_iff]
    exact ⟨h.1, rfl, h.2.2⟩
  · intro _ h; exact rs.rs.buf.trans h
  · intro hr' hp
    exact ⟨rs.rs.ruc.trans hr', ⟨rs.rs.rbytes.trans hp.1, rs.rs.rdelim.trans hp.2.1, rs.rs.rregex.trans hp.2.2.1,
      rs.rs.user.trans hp.2.2.2⟩, rs.rs.rfut, rs.dout⟩

theorem handleWrite_cp (s : St) : CP s (handleWrite R s) := by
  unfold handleWrite
  split
  · exact resolveWrites_cp s
  · split
    · exact CP.trans (b := { s with wdone := s.wdone + s.wpend, wpend := 0 })
        (CP.of_eq rfl rfl rfl rfl rfl rfl rfl rfl rfl rfl rfl) (resolveWrites_cp _)
    · exact resolveWrites_cp s
    · exact close_cp R s _

theorem handleConnect_cp (s : St) : CP s (handleConnect R s) := by
  unfold handleConnect
  split
  · rename_i k _
    exact CP.trans (b := { s with error := k }) (CP.of_eq rfl rfl rfl rfl rfl rfl rfl rfl rfl rfl rfl) (close_cp R _ _)
  · split
    · rename_i f hcf
      refine CP.of_frame (by rfl) ?_ ?_ ?_
      · intro h
        have := ((pending_nil_iff s).1 h).2.2
        rw [hcf] at this; cases this
      · intro _ h; exact h
      · intro hr hp
        exact ⟨hr, hp, rfl, by simp [St.emit, dataEvs_append, dataEvs]⟩
    · exact CP.of_eq rfl rfl rfl rfl rfl rfl rfl rfl rfl rfl rfl

theorem evWrite_cp (s : St) (w : Bool) : CP s (evWrite R s w) := by
  have h : CP s (if w = true then handleWrite R s else s) := by
    split
    · exact handleWrite_cp R s
    · exact CP.refl s
  unfold evWrite
  generalize (if w = true then handleWrite R s else s) = s3 at h
  split
  · exact CP.refl s
  · split
    · exact h
    · exact h.trans (CP.of_eq rfl rfl rfl rfl rfl rfl rfl rfl rfl rfl rfl)

theorem handleEvents_cp (s : St) (r w : Bool) : CP s (handleEvents R s r w) := by
  have hc : CP s (evConnect R s) := by
    unfold evConnect; split
    · exact handleConnect_cp R s
    · exact CP.refl s
  unfold handleEvents
  generalize evConnect R s = s1 at hc
  split
  · exact CP.refl s
  · split
    · exact hc
    · have hr : CP s1 (evRead R s1 r).1 := by
        unfold evRead; split
        · exact handleRead_cp R s1
        · exact CP.refl s1
      generalize evRead R s1 r = x at hr
      obtain ⟨s2, u⟩ := x
      cases u
      · exact hc.trans (hr.trans (evWrite_cp R s2 w))
      · exact hc.trans (hr.trans (close_cp R s2 _))

theorem dispatch_cp (s : St) (r w : Bool) : CP s (dispatch R s r w) := by
  unfold dispatch
  split
  · split
    · exact handleEvents_cp R s _ _
    · exact CP.refl s
  · exact CP.refl s

theorem tryInlineRead_cp (s : St) : CP s (tryInlineRead R s).1 := by
  unfold tryInlineRead
  split
  · exact CP.refl s
  · rename_i p hp; exact readFromBuffer_cp R s p hp
  · split
    · exact CP.refl s
    · have hp := readLoop_cp R s
      have hq := readLoop_pos R s
      generalize readLoop R s = x at hp hq
      obtain ⟨s1, res⟩ := x
      cases res with
      | raised r => exact hp
      | pos q =>
        cases q with
        | none => exact hp.trans (addIo_cp s1 _ _)
        | some p => exact hp.trans (readFromBuffer_cp R s1 p (hq p rfl))

theorem finishInline_cp (s : St) (c : Bool) (f : Nat) : CP s (finishInline R c s f).1 := by
  unfold finishInline
  have hp := tryInlineRead_cp R s
  generalize tryInlineRead R s = x at hp
  obtain ⟨s1, res⟩ := x
  cases res with
  | none => exact hp
  | some r =>
    cases r <;> try exact hp
    dsimp only
    split
    · exact hp.trans (close_cp R s1 _)
    · exact hp

end TornadoModel.C13
