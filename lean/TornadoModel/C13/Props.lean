/-
C13 — closing an IOStream settles every pending operation exactly once.
Theorems about `close` / `_signal_closed` of the stream machine (`TornadoModel.C11.Model`), for every state,
cause and regex engine, and about every step taken on a closed stream.
-/
import TornadoModel.C13.Lemmas
import TornadoModel.C11.Props
namespace TornadoModel.C13
open TornadoModel.C11
variable (R : Nat → Bytes → Option Nat)

/-- **close_settles_all**: after `close(cause)` — from any state, for any cause — the stream is closed and
    owes nothing: no read, write or connect future is left pending. -/
theorem close_settles_all (s : St) (e : Option ErrK) :
    pending (close R s e) = [] ∧ (close R s e).closed = true := by
  refine ⟨?_, close_closed R s e⟩
  unfold close
  split
  · exact (signalClosed_spec s).2.1
  · exact (signalClosed_spec _).2.1

example : pending (run stdR (init 4 100) [.readBytes 5 false, .wmode .block, .write 3, .connect]).1 = [0, 1, 2] ∧
    pending (close stdR (run stdR (init 4 100) [.readBytes 5 false, .wmode .block, .write 3, .connect]).1 none) = [] := by
  decide

/-- what an effective `close()` emits, exactly: the events of completing the pending read (if the buffer
    satisfies it), then one StreamClosedError per future still pending, then the close callback (if set) -/
theorem close_spec (s : St) (e : Option ErrK) (hc : s.closed = false) :
    (close R s e).out = (completeAtClose R (setError s e)).out
        ++ failEvs (setError s e).error (pending (completeAtClose R (setError s e)))
        ++ (if s.cb then [Ev.cb] else []) ∧
    (close R s e).cb = false ∧ (close R s e).error = (setError s e).error := by
  obtain ⟨fr, _⟩ := completeAtClose_frame R (setError s e)
  obtain ⟨_, _, hcb, _⟩ := setError_frame s e
  unfold close
  simp only [hc, Bool.false_eq_true, ↓reduceIte]
  obtain ⟨a, _, c, d⟩ := signalClosed_spec { completeAtClose R (setError s e) with io := none, closed := true }
  refine ⟨?_, c, ?_⟩
  · rw [a]
    have : pending ({ completeAtClose R (setError s e) with io := none, closed := true } : St)
        = pending (completeAtClose R (setError s e)) := rfl
    rw [this]
    simp only [fr.error, fr.cb, hcb]
  · rw [d]; exact fr.error

/-- **others_get_closed_error**: every write and connect future pending when the stream closes fails with
    StreamClosedError carrying the stream's real error (`stream.error` after the close). -/
theorem others_get_closed_error (s : St) (e : Option ErrK) (hc : s.closed = false) (f : Nat)
    (hf : f ∈ s.wfuts.map (·.2) ++ connFutL s) :
    Ev.settle f (.closedErr (close R s e).error) ∈ (close R s e).out := by
  obtain ⟨ho, _, he⟩ := close_spec R s e hc
  obtain ⟨fr, _⟩ := completeAtClose_frame R (setError s e)
  obtain ⟨hw, hcf, _⟩ := setError_frame s e
  rw [ho, he]
  have : f ∈ pending (completeAtClose R (setError s e)) := by
    rw [pending_eq, fr.wfuts, hw]
    have : connFutL (completeAtClose R (setError s e)) = connFutL s := by
      unfold connFutL; rw [fr.cfut, hcf]
    rw [this, List.append_assoc]
    exact List.mem_append_right _ hf
  simp only [List.mem_append, failEvs, List.mem_map]
  exact Or.inl (Or.inr ⟨f, this, rfl⟩)

/-- the cause given to `close(exc_info=exc)` is the error reported -/
theorem close_error (s : St) (k : ErrK) (hc : s.closed = false) : (close R s (some k)).error = k := by
  rw [(close_spec R s (some k) hc).2.2]; rfl

/-- **callback_once_after**: if a close callback is installed, `close()` schedules it exactly once, as the LAST
    event (after every future has been settled), and uninstalls it; otherwise nothing is scheduled. -/
theorem callback_once_after (s : St) (e : Option ErrK) (hc : s.closed = false) :
    (close R s e).cb = false ∧
    (s.cb = true → ∃ pre, (close R s e).out = pre ++ [Ev.cb] ∧ cbCount pre = cbCount s.out) ∧
    (s.cb = false → cbCount (close R s e).out = cbCount s.out) := by
  obtain ⟨ho, hcb, _⟩ := close_spec R s e hc
  obtain ⟨_, evs, hevs, h0, _⟩ := completeAtClose_frame R (setError s e)
  obtain ⟨_, _, _, hout, _⟩ := setError_frame s e
  refine ⟨hcb, ?_, ?_⟩
  · intro h
    refine ⟨_, by rw [ho, h]; rfl, ?_⟩
    rw [cbCount_append, cbCount_failEvs, hevs, cbCount_append, h0, hout]; omega
  · intro h
    rw [ho, h]
    simp only [Bool.false_eq_true, if_false, List.append_nil]
    rw [cbCount_append, cbCount_failEvs, hevs, cbCount_append, h0, hout]; omega

example : (close stdR (run stdR (init 4 100) [.setCb, .readBytes 5 false]).1 none).out
    = [.settle 0 (.closedErr .none), .cb] := by decide

/-- a second `close()` emits no callback unless one was installed again, and fails only what was started since -/
theorem close_again (s : St) (e : Option ErrK) (hc : s.closed = true) :
    (close R s e).out = s.out ++ failEvs s.error (pending s) ++ (if s.cb then [Ev.cb] else []) ∧
    (close R s e).error = s.error := by
  unfold close
  simp only [hc, if_true]
  exact ⟨(signalClosed_spec s).1, (signalClosed_spec s).2.2.2⟩

/-- **no_write_after_close**: `write()` on a closed stream raises StreamClosedError(real error) and changes nothing -/
theorem no_write_after_close (s : St) (n : Nat) (hc : s.closed = true) :
    doStep R s (.write n) = (s, .raised (.streamClosed s.error)) := by
  simp [doStep, hc]

end TornadoModel.C13
