import TornadoModel.C13.Spec
namespace TornadoModel.C13
theorem stub : cbCount [] = 0 := rfl
end TornadoModel.C13
