/-
C13 — closing an IOStream settles every pending operation exactly once.
Theorems about `close` / `_signal_closed` of the stream machine (`TornadoModel.C11.Model`), for every state,
cause and regex engine, and about every step taken on a closed stream.
-/
import TornadoModel.C13.Lemmas
import TornadoModel.C13.Once
import TornadoModel.C11.Props
namespace TornadoModel.C13
open TornadoModel.C11
variable (R : Nat → Bytes → Option Nat)

/-- **close_settles_all**: after `close(cause)` — from any state, for any cause — the stream is closed and
    owes nothing: no read, write or connect future is left pending. -/
theorem close_settles_all (s : St) (e : Option ErrK) :
    pending (close R s e) = [] ∧ (close R s e).closed = true := by
  refine ⟨?_, close_closed R s e⟩
  unfold close
  split
  · exact (signalClosed_spec s).2.1
  · exact (signalClosed_spec _).2.1

example : pending (run stdR (init 4 100) [.readBytes 5 false, .wmode .block, .write 3, .connect]).1 = [0, 1, 2] ∧
    pending (close stdR (run stdR (init 4 100) [.readBytes 5 false, .wmode .block, .write 3, .connect]).1 none) = [] := by
  decide

/-- what an effective `close()` emits, exactly: the events of completing the pending read (if the buffer
    satisfies it), then one StreamClosedError per future still pending, then the close callback (if set) -/
theorem close_spec (s : St) (e : Option ErrK) (hc : s.closed = false) :
    (close R s e).out = (completeAtClose R (setError s e)).out
        ++ failEvs (setError s e).error (pending (completeAtClose R (setError s e)))
        ++ (if s.cb then [Ev.cb] else []) ∧
    (close R s e).cb = false ∧ (close R s e).error = (setError s e).error := by
  obtain ⟨fr, _⟩ := completeAtClose_frame R (setError s e)
  obtain ⟨_, _, hcb, _⟩ := setError_frame s e
  unfold close
  simp only [hc, Bool.false_eq_true, ↓reduceIte]
  obtain ⟨a, _, c, d⟩ := signalClosed_spec { completeAtClose R (setError s e) with io := none, closed := true }
  refine ⟨?_, c, ?_⟩
  · rw [a]
    have : pending ({ completeAtClose R (setError s e) with io := none, closed := true } : St)
        = pending (completeAtClose R (setError s e)) := rfl
    rw [this]
    simp only [fr.error, fr.cb, hcb]
  · rw [d]; exact fr.error

/-- **others_get_closed_error**: every write and connect future pending when the stream closes fails with
    StreamClosedError carrying the stream's real error (`stream.error` after the close). -/
theorem others_get_closed_error (s : St) (e : Option ErrK) (hc : s.closed = false) (f : Nat)
    (hf : f ∈ s.wfuts.map (·.2) ++ connFutL s) :
    Ev.settle f (.closedErr (close R s e).error) ∈ (close R s e).out := by
  obtain ⟨ho, _, he⟩ := close_spec R s e hc
  obtain ⟨fr, _⟩ := completeAtClose_frame R (setError s e)
  obtain ⟨hw, hcf, _⟩ := setError_frame s e
  rw [ho, he]
  have : f ∈ pending (completeAtClose R (setError s e)) := by
    rw [pending_eq, fr.wfuts, hw]
    have : connFutL (completeAtClose R (setError s e)) = connFutL s := by
      unfold connFutL; rw [fr.cfut, hcf]
    rw [this, List.append_assoc]
    exact List.mem_append_right _ hf
  simp only [List.mem_append, failEvs, List.mem_map]
  exact Or.inl (Or.inr ⟨f, this, rfl⟩)

/-- the cause given to `close(exc_info=exc)` is the error reported -/
theorem close_error (s : St) (k : ErrK) (hc : s.closed = false) : (close R s (some k)).error = k := by
  rw [(close_spec R s (some k) hc).2.2]; rfl

/-- **callback_once_after**: if a close callback is installed, `close()` schedules it exactly once, as the LAST
    event (after every future has been settled), and uninstalls it; otherwise nothing is scheduled. -/
theorem callback_once_after (s : St) (e : Option ErrK) (hc : s.closed = false) :
    (close R s e).cb = false ∧
    (s.cb = true → ∃ pre, (close R s e).out = pre ++ [Ev.cb] ∧ cbCount pre = cbCount s.out) ∧
    (s.cb = false → cbCount (close R s e).out = cbCount s.out) := by
  obtain ⟨ho, hcb, _⟩ := close_spec R s e hc
  obtain ⟨_, evs, hevs, h0, _⟩ := completeAtClose_frame R (setError s e)
  obtain ⟨_, _, _, hout, _⟩ := setError_frame s e
  refine ⟨hcb, ?_, ?_⟩
  · intro h
    refine ⟨_, by rw [ho, h]; rfl, ?_⟩
    rw [cbCount_append, cbCount_failEvs, hevs, cbCount_append, h0, hout]; omega
  · intro h
    rw [ho, h]
    simp only [Bool.false_eq_true, if_false, List.append_nil]
    rw [cbCount_append, cbCount_failEvs, hevs, cbCount_append, h0, hout]; omega

example : (close stdR (run stdR (init 4 100) [.setCb, .readBytes 5 false]).1 none).out
    = [.settle 0 (.closedErr .none), .cb] := by decide

/-- a second `close()` emits no callback unless one was installed again, and fails only what was started since -/
theorem close_again (s : St) (e : Option ErrK) (hc : s.closed = true) :
    (close R s e).out = s.out ++ failEvs s.error (pending s) ++ (if s.cb then [Ev.cb] else []) ∧
    (close R s e).error = s.error := by
  unfold close
  simp only [hc, if_true]
  exact ⟨(signalClosed_spec s).1, (signalClosed_spec s).2.2.2⟩

/-- **no_write_after_close**: `write()` on a closed stream raises StreamClosedError(real error) and changes nothing -/
theorem no_write_after_close (s : St) (n : Nat) (hc : s.closed = true) :
    doStep R s (.write n) = (s, .raised (.streamClosed s.error)) := by
  simp [doStep, hc]


/-! ### a closed stream stays closed and never touches the transport again -/

/-- closed and same transport contents -/
def Same (s s' : St) : Prop := s'.closed = s.closed ∧ s'.inc = s.inc

theorem Same.refl (s : St) : Same s s := ⟨rfl, rfl⟩
theorem Same.trans {a b c : St} (h1 : Same a b) (h2 : Same b c) : Same a c :=
  ⟨h2.1.trans h1.1, h2.2.trans h1.2⟩

theorem finishRead_same (s : St) (n : Nat) : Same s (finishRead s n) :=
  ⟨(finishRead_frame s n).1.closed, (finishRead_frame s n).1.inc⟩

theorem readFromBuffer_same (s : St) (p : Nat) : Same s (readFromBuffer s p) := by
  unfold readFromBuffer
  exact Same.trans ⟨rfl, rfl⟩ (finishRead_same _ p)

theorem maybeAdd_same (s : St) : Same s (maybeAddErrorListener s) := by
  obtain ⟨io, h⟩ := maybeAdd_eq s; rw [h]; exact ⟨rfl, rfl⟩

theorem signalClosed_same (s : St) : Same s (signalClosed s) := by
  unfold signalClosed
  have h0 : Same s ({ clearRead s with wfuts := [], cfut := none } : St) := by
    unfold clearRead; cases s.rfut <;> exact ⟨rfl, rfl⟩
  have h4 := failAll_rs ({ clearRead s with wfuts := [], cfut := none } : St).error
    (readFutL s ++ s.wfuts.map (·.2) ++ connFutL s) { clearRead s with wfuts := [], cfut := none }
  simp only []
  generalize failAll ({ clearRead s with wfuts := [], cfut := none } : St).error
    { clearRead s with wfuts := [], cfut := none } (readFutL s ++ s.wfuts.map (·.2) ++ connFutL s) = s4 at h4 ⊢
  have h5 : Same s s4 := Same.trans h0 ⟨h4.closed, h4.inc⟩
  split
  · exact Same.trans h5 ⟨rfl, rfl⟩
  · exact h5

theorem close_same (s : St) (e : Option ErrK) (hc : s.closed = true) : Same s (close R s e) := by
  unfold close; simp only [hc, if_true]; exact signalClosed_same s

theorem dispatch_closed (s : St) (r w : Bool) (hc : s.closed = true) : dispatch R s r w = s := by
  unfold dispatch handleEvents
  cases s.io with
  | none => rfl
  | some x => obtain ⟨a, b⟩ := x; simp [hc]

theorem tryInlineRead_same (s : St) (hc : s.closed = true) : Same s (tryInlineRead R s).1 := by
  unfold tryInlineRead
  split
  · exact Same.refl s
  · exact readFromBuffer_same s _
  · simp [hc]; exact Same.refl s

theorem finishInline_same (s : St) (c : Bool) (f : Nat) (hc : s.closed = true) :
    Same s (finishInline R c s f).1 := by
  unfold finishInline
  have h := tryInlineRead_same R s hc
  generalize tryInlineRead R s = x at h
  obtain ⟨s1, res⟩ := x
  cases res with
  | none => exact h
  | some r =>
    cases r <;> try exact h
    dsimp only
    split
    · exact Same.trans h (close_same R s1 _ (h.1.trans hc))
    · exact h

/-- every op on a closed stream leaves it closed and leaves the transport alone (apart from what a `feed`
    itself appends): nothing is ever read from the fd again -/
theorem closed_step (s : St) (op : Op) (hc : s.closed = true) :
    (doStep R s op).1.closed = true ∧
    (doStep R s op).1.inc = (match op with
      | .feed b => if b.isEmpty then s.inc else s.inc ++ [b]
      | _ => s.inc) := by
  have fin : ∀ {t : St}, Same s t → t.closed = true ∧ t.inc = s.inc := fun h => ⟨h.1.trans hc, h.2⟩
  cases op with
  | feed b =>
    simp only [doStep]
    rw [dispatch_closed R _ _ _ (by split <;> exact hc)]
    split <;> exact ⟨hc, rfl⟩
  | eof => simp only [doStep]; rw [dispatch_closed R { s with eof := true } _ _ hc]; exact ⟨hc, rfl⟩
  | rerr k => simp only [doStep]; rw [dispatch_closed R { s with rerr := some k } _ _ hc]; exact ⟨hc, rfl⟩
  | readBytes n part =>
    simp only [doStep]
    split
    · exact ⟨hc, rfl⟩
    · rename_i s1 f hs
      obtain ⟨_, e1, _⟩ := startRead_inr s s1 f hs
      subst e1
      exact fin (Same.trans ⟨rfl, rfl⟩ (finishInline_same R _ false f hc))
  | readInto n part =>
    simp only [doStep, readInto]
    split
    · exact ⟨hc, rfl⟩
    · rename_i s1 f hs
      obtain ⟨_, e1, _⟩ := startRead_inr s s1 f hs
      subst e1
      dsimp only
      split
      · exact fin (Same.trans ⟨rfl, rfl⟩ (maybeAdd_same _))
      · exact fin (Same.trans ⟨rfl, rfl⟩ (finishInline_same R _ false f hc))
  | readUntil d mx =>
    simp only [doStep]
    split
    · exact ⟨hc, rfl⟩
    · rename_i s1 f hs
      obtain ⟨_, e1, _⟩ := startRead_inr s s1 f hs
      subst e1
      exact fin (Same.trans ⟨rfl, rfl⟩ (finishInline_same R _ true f hc))
  | readRegex rid mx =>
    simp only [doStep]
    split
    · exact ⟨hc, rfl⟩
    · rename_i s1 f hs
      obtain ⟨_, e1, _⟩ := startRead_inr s s1 f hs
      subst e1
      exact fin (Same.trans ⟨rfl, rfl⟩ (finishInline_same R _ true f hc))
  | readUntilClose =>
    simp only [doStep]
    split
    · exact ⟨hc, rfl⟩
    · rename_i s1 f hs
      obtain ⟨_, e1, _⟩ := startRead_inr s s1 f hs
      subst e1
      simp only [hc, if_true]
      exact fin (Same.trans (b := { s with rfut := some s.nextId, nextId := s.nextId + 1, closed := true })
        ⟨hc.symm, rfl⟩ (finishRead_same _ _))
  | close exc => simp only [doStep]; exact fin (close_same R s _ hc)
  | setCb => simp only [doStep]; exact fin (Same.trans ⟨rfl, rfl⟩ (maybeAdd_same _))
  | write n => simp [doStep, hc]
  | wmode m => simp [doStep, hc]
  | writable => simp only [doStep]; rw [dispatch_closed R _ _ _ hc]; exact ⟨hc, rfl⟩
  | connect => simp [doStep, hc]
  | cerr k => simp [doStep, hc]

/-- **closed_stays_closed**: for every op sequence -/
theorem closed_stays_closed : ∀ (ops : List Op) (s : St), s.closed = true → (run R s ops).1.closed = true := by
  intro ops
  induction ops with
  | nil => intro s h; exact h
  | cons op ops ih =>
    intro s h
    simp only [run]
    apply ih
    unfold step
    exact (closed_step R { s with out := [] } op h).1

/-- **read_after_close_only_buffered**: whatever a read on a closed stream returns was in the read buffer when
    it was issued — the returned bytes followed by the remaining buffer are the old buffer; the transport is
    not consulted. -/
theorem read_after_close_only_buffered (s : St) (i : Inv s) (op : Op) (hc : s.closed = true) (hop : fed op = []) :
    evBytes (step R s op).2.evs ++ (step R s op).1.buf = s.buf ∧ (step R s op).1.inc = s.inc := by
  have h1 := (read_conservation R s i op).2
  have h2 : (step R s op).1.inc = s.inc := by
    have := (closed_step R { s with out := [] } op hc).2
    unfold step
    cases op <;> first | exact this | (simp [fed] at hop; subst hop; simpa using this)
  refine ⟨?_, h2⟩
  rw [h2, hop, List.append_nil] at h1
  exact List.append_cancel_right h1

example : (step stdR (run stdR (init 4 100) [.feed [1, 2, 3], .readBytes 1 false, .close false]).1 (.readBytes 2 false)).2.evs
    = [.settle 1 (.bytes [2, 3])] := by decide

/-! ### the read that is pending when the stream closes -/

/-- how the request of the pending read is recorded in the stream's state -/
def ReqIs (s : St) : Req → Prop
  | .bytes n part => s.ruc = false ∧ s.user = none ∧ s.rbytes = some n ∧ s.rpartial = part ∧ s.rdelim = none ∧ s.rregex = none
  | .into n part => s.ruc = false ∧ s.user = some n ∧ s.rbytes = some n ∧ s.rpartial = part ∧ s.rdelim = none
      ∧ s.rregex = none ∧ s.buf.length ≤ n
  | .until d max => s.ruc = false ∧ s.user = none ∧ s.rbytes = none ∧ s.rdelim = some d ∧ s.rmax = max
  | .regex rid max => s.ruc = false ∧ s.user = none ∧ s.rbytes = none ∧ s.rdelim = none ∧ s.rregex = some rid ∧ s.rmax = max
  | .untilClose => s.ruc = true ∧ s.user = none

theorem overMax_within (s : St) (k : Nat) : overMax s k = !Spec.within s.rmax k := by
  unfold overMax Spec.within
  cases s.rmax with
  | none => rfl
  | some m => by_cases h : m < k <;> simp [h] <;> omega

/-- **satisfiable_read_gets_data**: at `close()`, the pending read is completed with exactly the data the
    specification `Spec.expected` prescribes when the buffered bytes satisfy it; otherwise the first half of
    `close()` leaves everything untouched (and `_signal_closed` then fails the future, see `close_spec`). -/
theorem satisfiable_read_gets_data (s : St) (f : Nat) (q : Req) (hf : s.rfut = some f) (hq : ReqIs s q) :
    match Spec.expected R q s.buf with
    | some o => (completeAtClose R s).out = s.out ++ [Ev.settle f o] ∧ (completeAtClose R s).rfut = none
    | none => completeAtClose R s = s := by
  cases q with
  | untilClose =>
    obtain ⟨h1, h2⟩ := hq
    simp only [Spec.expected, completeAtClose, h1, if_true]
    obtain ⟨_, ho, hr⟩ := finishRead_frame { s with ruc := false } s.buf.length
    refine ⟨?_, hr⟩
    rw [ho]; simp [finishEv, hf, h2]
  | bytes n part =>
    obtain ⟨h1, h2, h3, h4, h5, h6⟩ := hq
    simp only [Spec.expected, completeAtClose, h1, hf, findReadPos, h3, h4, h5, h6]
    by_cases hn : n ≤ s.buf.length
    · simp only [hn, decide_true, Bool.true_or, if_true, Option.isSome_some, Bool.false_eq_true, if_false]
      obtain ⟨_, ho, hr⟩ := finishRead_frame { s with rbytes := none, rdelim := none, rregex := none, rpartial := false }
        (min n s.buf.length)
      refine ⟨?_, hr⟩
      unfold readFromBuffer
      rw [ho]; simp [finishEv, hf, h2, Nat.min_eq_left hn]
    · by_cases hp : part = true ∧ 0 < s.buf.length
      · obtain ⟨hp1, hp2⟩ := hp
        simp only [hn, hp1, hp2, decide_true, decide_false, Bool.false_or, Bool.and_self, if_true, if_false,
          Option.isSome_some, Bool.false_eq_true]
        obtain ⟨_, ho, hr⟩ := finishRead_frame { s with rbytes := none, rdelim := none, rregex := none, rpartial := false }
          (min n s.buf.length)
        refine ⟨?_, hr⟩
        unfold readFromBuffer
        rw [ho]
        have : min n s.buf.length = s.buf.length := by omega
        simp [finishEv, hf, h2, this]
      · have : (decide (n ≤ s.buf.length) || part && decide (0 < s.buf.length)) = false := by
          cases part <;> simp_all <;> omega
        simp [hp, hn]
  | into n part =>
    obtain ⟨h1, h2, h3, h4, h5, h6, h7⟩ := hq
    simp only [Spec.expected, completeAtClose, h1, hf, findReadPos, h3, h4, h5, h6]
    by_cases hn : n ≤ s.buf.length
    · have hlen : s.buf.length = n := by omega
      simp only [hn, decide_true, Bool.true_or, if_true, Option.isSome_some, Bool.false_eq_true, if_false]
      obtain ⟨_, ho, hr⟩ := finishRead_frame { s with rbytes := none, rdelim := none, rregex := none, rpartial := false }
        (min n s.buf.length)
      refine ⟨?_, hr⟩
      unfold readFromBuffer
      rw [ho]; simp [finishEv, hf, h2, Nat.min_eq_left hn]
    · by_cases hp : part = true ∧ 0 < s.buf.length
      · obtain ⟨hp1, hp2⟩ := hp
        simp only [hn, hp1, hp2, decide_true, decide_false, Bool.false_or, Bool.and_self, if_true, if_false,
          Option.isSome_some, Bool.false_eq_true]
        obtain ⟨_, ho, hr⟩ := finishRead_frame { s with rbytes := none, rdelim := none, rregex := none, rpartial := false }
          (min n s.buf.length)
        refine ⟨?_, hr⟩
        unfold readFromBuffer
        rw [ho]
        have : min n s.buf.length = s.buf.length := by omega
        simp [finishEv, hf, h2, this]
      · have : (decide (n ≤ s.buf.length) || part && decide (0 < s.buf.length)) = false := by
          cases part <;> simp_all <;> omega
        simp [hp, hn]
  | «until» d max =>
    obtain ⟨h1, h2, h3, h4, h5⟩ := hq
    subst h5
    simp only [Spec.expected, completeAtClose, h1, hf, findReadPos, h3, h4, overMax_within]
    by_cases he : s.buf.isEmpty = true
    · simp [he]
    · simp only [he, Bool.false_eq_true, if_false, Option.isSome_some, if_true]
      cases hfs : findSub d s.buf with
      | none =>
        simp only []
        split
        · rename_i hh; split at hh <;> simp at hh
        · rfl
      | some loc =>
        simp only []
        cases hw : Spec.within s.rmax (loc + d.length) with
        | false => simp
        | true =>
          simp only [Bool.not_true, Bool.false_eq_true, if_false, if_true]
          obtain ⟨_, ho, hr⟩ := finishRead_frame { s with rbytes := none, rdelim := none, rregex := none, rpartial := false }
            (loc + d.length)
          refine ⟨?_, hr⟩
          unfold readFromBuffer
          rw [ho]; simp [finishEv, hf, h2]
  | regex rid max =>
    obtain ⟨h1, h2, h3, h4, h5, h6⟩ := hq
    subst h6
    simp only [Spec.expected, completeAtClose, h1, hf, findReadPos, h3, h4, h5, overMax_within]
    by_cases he : s.buf.isEmpty = true
    · simp [he]
    · simp only [he, Bool.false_eq_true, if_false, Option.isSome_some, if_true]
      cases hfs : R rid s.buf with
      | none =>
        simp only []
        split
        · rename_i hh; split at hh <;> simp at hh
        · rfl
      | some e =>
        simp only []
        cases hw : Spec.within s.rmax e with
        | false => simp
        | true =>
          simp only [Bool.not_true, Bool.false_eq_true, if_false, if_true]
          obtain ⟨_, ho, hr⟩ := finishRead_frame { s with rbytes := none, rdelim := none, rregex := none, rpartial := false } e
          refine ⟨?_, hr⟩
          unfold readFromBuffer
          rw [ho]; simp [finishEv, hf, h2]

/-- … and so, for `close(cause)` as a whole: the pending read future gets the prescribed data if the buffer
    satisfies it, and StreamClosedError(real error) otherwise -/
theorem pending_read_at_close (s : St) (e : Option ErrK) (f : Nat) (q : Req) (hc : s.closed = false)
    (hf : s.rfut = some f) (hq : ReqIs s q) :
    match Spec.expected R q s.buf with
    | some o => Ev.settle f o ∈ (close R s e).out
    | none => Ev.settle f (.closedErr (close R s e).error) ∈ (close R s e).out := by
  have hq' : ReqIs (setError s e) q := by unfold setError; cases e <;> exact hq
  have hf' : (setError s e).rfut = some f := by unfold setError; cases e <;> exact hf
  have hb : (setError s e).buf = s.buf := by unfold setError; cases e <;> rfl
  have key := satisfiable_read_gets_data R (setError s e) f q hf' hq'
  obtain ⟨ho, _, he⟩ := close_spec R s e hc
  rw [hb] at key
  cases hx : Spec.expected R q s.buf with
  | some o =>
    rw [hx] at key
    simp only []
    rw [ho, key.1]
    simp
  | none =>
    rw [hx] at key
    simp only [] at key ⊢
    rw [ho, he, key]
    have : f ∈ pending (setError s e) := by
      rw [pending_eq]; unfold readFutL; rw [hf']; simp
    simp only [List.mem_append, failEvs, List.mem_map]
    exact Or.inl (Or.inr ⟨f, this, rfl⟩)

-- `ReqIs` holds in every reachable state for the request the pending future was issued with: `pending_read_reqIs`
-- (Reach.lean), where the theorems of this section are restated over `run` (`pending_read_at_close_run` …)
example : ReqIs (run stdR (init 4 100) [.readUntil [10] (some 9), .feed [97, 98]]).1 (.until [10] (some 9)) := by
  unfold ReqIs; decide
example : Spec.expected stdR (.bytes 2 true) [7] = some (.bytes [7]) := by decide
example : Spec.expected stdR (.until [13, 10] (some 2)) [1, 13, 10] = none := by decide

/-! ### whole runs: every future is settled at most once, and exactly once if it is pending at a close -/

/-- **all_settled_once**: in every run of the stream machine — any op sequence (closes at any position, reads /
    writes / connects before and after them, transport events), any regex engine — the settle log contains
    each future id at most once.  (Invariant: `Once.lean` — every internal transition only moves ids from
    "pending" to "settled"; `_start_read`, `write`, `connect` hand out the fresh id `nextId`.) -/
theorem all_settled_once :
    ∀ (R : Nat → Bytes → Option Nat) (c m : Nat) (ops : List Op),
      (settledIds (allEvs (run R (init c m) ops).2)).Nodup := by
  intro R c m ops
  rw [List.nodup_iff_count]
  intro f
  have h := (run_count R ops (init c m) (goodP_init c m)).2.2 f
  have h0 : (pending (init c m)).count f = 0 := by simp [pending, init]
  rw [h0] at h
  split at h <;> omega

example : settledIds (allEvs (run stdR (init 4 100)
    [.readBytes 5 false, .wmode .block, .write 3, .connect, .close false, .readBytes 1 false, .close true]).2)
    = [0, 1, 2, 3] := by decide

/-- … and after a `close()` at any position of any run nothing is pending -/
theorem none_pending_after_close (c m : Nat) (pre : List Op) (exc : Bool) :
    pending (run R (init c m) (pre ++ [.close exc])).1 = [] := by
  rw [run_append]
  simp only [run]
  exact (close_step_count R _ exc 0).2

/-- **settled_exactly_once_at_close**: a future that is pending when `close()` is called (at any position of
    any run, whatever follows) occurs exactly once in the settle log of the whole run, namely in the events
    of that close step -/
theorem settled_exactly_once_at_close (c m : Nat) (pre post : List Op) (exc : Bool) (f : Nat)
    (hf : f ∈ pending (run R (init c m) pre).1) :
    (settledIds (allEvs (run R (init c m) (pre ++ .close exc :: post)).2)).count f = 1 ∧
    f ∈ settledIds (step R (run R (init c m) pre).1 (.close exc)).2.evs := by
  have hle := List.nodup_iff_count.mp (all_settled_once R c m (pre ++ .close exc :: post)) f
  have hc := (close_step_count R (run R (init c m) pre).1 exc f).1
  have hpos : 0 < (pending (run R (init c m) pre).1).count f := List.count_pos_iff.mpr hf
  refine ⟨?_, List.count_pos_iff.mp (by omega)⟩
  rw [run_append] at hle ⊢
  simp only [run, allEvs_append, allEvs_cons, settledIds_append, List.count_append] at hle ⊢
  omega

example : 1 ∈ pending (run stdR (init 4 100) [.readBytes 5 false, .wmode .block, .write 3, .connect]).1 := by decide

/-! ### later reads are served from the data that was already buffered (added after the missed seeded change C13-1) -/

/-- a registered read whose request the buffered bytes satisfy is completed by `_try_inline_read` with exactly the
    prescribed data — nothing here looks at `closed` or at `stream.error` -/
theorem tryInline_gets_buffered (s : St) (f : Nat) (q : Req) (o : Outcome) (hf : s.rfut = some f) (hq : ReqIs s q)
    (hru : s.ruc = false) (hx : Spec.expected R q s.buf = some o) :
    (tryInlineRead R s).2 = none ∧ (tryInlineRead R s).1.out = s.out ++ [Ev.settle f o] ∧
    (tryInlineRead R s).1.rfut = none := by
  have key := satisfiable_read_gets_data R s f q hf hq
  rw [hx] at key
  simp only [completeAtClose, hru, hf, Option.isSome_some, Bool.false_eq_true, if_false, if_true] at key
  unfold tryInlineRead
  cases hp : findReadPos R s with
  | none => rw [hp] at key; simp at key
  | some p =>
    cases p with
    | none => rw [hp] at key; simp at key
    | some p => rw [hp] at key; exact ⟨rfl, key.1, key.2⟩

/-- the three read methods whose request is a plain value (`read_into` and `read_until_close` have their own paths) -/
def simpleReq : Op → Option Req
  | .readBytes n part => some (.bytes n part)
  | .readUntil d max => some (.until d max)
  | .readRegex rid max => some (.regex rid max)
  | _ => none

/-- **later_read_gets_buffered**: a read issued on an idle stream — open, or closed for ANY cause (`stream.error`
    is arbitrary: plain close, EOF, reset, OSError, failed write, `close(exc_info)`, Unsatisfiable) — that the bytes
    in the buffer satisfy (`Spec.expected` = some data) returns a future that is completed in the same step with
    exactly that data.  Together with `closed_step` (a closed stream's buffer only shrinks by what reads return):
    data buffered when the stream closed stays readable. -/
theorem later_read_gets_buffered (s : St) (i : Inv s) (op : Op) (q : Req) (o : Outcome) (hidle : s.rfut = none)
    (hq : simpleReq op = some q) (hx : Spec.expected R q s.buf = some o) :
    (step R s op).2.ret = .fut s.nextId ∧ (step R s op).2.evs = [Ev.settle s.nextId o] := by
  obtain ⟨hb, hd, hr, hu⟩ := i.idle hidle
  have hruc := not_ruc_of_idle s i hidle
  have fin : ∀ (s' : St) (c : Bool), s'.rfut = some s.nextId → ReqIs s' q → s'.ruc = false → s'.out = [] →
      s'.buf = s.buf → (finishInline R c s' s.nextId).2 = .fut s.nextId ∧
        (finishInline R c s' s.nextId).1.out = [Ev.settle s.nextId o] := by
    intro s' c h1 h2 h3 h4 h5
    have := tryInline_gets_buffered R s' s.nextId q o h1 h2 h3 (by rw [h5]; exact hx)
    unfold finishInline
    generalize tryInlineRead R s' = x at this
    obtain ⟨s2, r⟩ := x
    obtain ⟨a, b, _⟩ := this
    simp only [] at a b
    subst a
    simp [b, h4]
  cases op with
  | readBytes n part =>
    simp only [simpleReq, Option.some.injEq] at hq; subst hq
    simp only [step, doStep, startRead, hidle]
    exact fin _ false rfl ⟨hruc, hu, rfl, rfl, hd, hr⟩ hruc rfl rfl
  | readUntil d max =>
    simp only [simpleReq, Option.some.injEq] at hq; subst hq
    simp only [step, doStep, startRead, hidle]
    exact fin _ true rfl ⟨hruc, hu, hb, rfl, rfl⟩ hruc rfl rfl
  | readRegex rid max =>
    simp only [simpleReq, Option.some.injEq] at hq; subst hq
    simp only [step, doStep, startRead, hidle]
    exact fin _ true rfl ⟨hruc, hu, hb, hd, rfl, rfl⟩ hruc rfl rfl
  | _ => simp [simpleReq] at hq

-- non-vacuity (the scenario of the seeded change): 11 bytes arrive, 5 are consumed, the peer resets the connection
-- while a read that the 6 buffered bytes cannot satisfy is pending; that read fails with the real error, and the
-- 6 bytes are still served afterwards
example : (run stdR (init 65536 104857600)
    [.feed [104, 101, 108, 108, 111, 32, 119, 111, 114, 108, 100], .readBytes 5 false, .readBytes 100 false, .rerr .reset,
     .readBytes 6 false]).2.map (·.evs) =
    [[], [.settle 0 (.bytes [104, 101, 108, 108, 111])], [], [.settle 1 (.closedErr .reset)],
     [.settle 2 (.bytes [32, 119, 111, 114, 108, 100])]] := by decide

/-! ### a close inside the read loop (added after the missed seeded change C13-2)

`_read_to_buffer` on an exhausted transport that holds an error (ECONNRESET, any OSError) or EOF calls `close()` in the
middle of `_read_to_buffer_loop`: the read is still registered, and the bytes pulled since the loop's last scan have not
been looked at.  Whatever the cause, that read is completed with the data the buffered bytes prescribe. -/

theorem reqIs_congr (s t : St) (q : Req) (h1 : t.ruc = s.ruc) (h2 : t.user = s.user) (h3 : t.rbytes = s.rbytes)
    (h4 : t.rpartial = s.rpartial) (h5 : t.rdelim = s.rdelim) (h6 : t.rregex = s.rregex) (h7 : t.rmax = s.rmax)
    (h8 : t.buf = s.buf) (hq : ReqIs s q) : ReqIs t q := by
  cases q <;> simp only [ReqIs, h1, h2, h3, h4, h5, h6, h7, h8] at hq ⊢ <;> exact hq

/-- **read_error_in_loop_gets_data**: the transport has nothing more to give and holds the error `k` (reset, EIO …) when
    the read loop asks it again, a read `f` with request `q` is registered: the stream closes with `error = k`, and `f`
    is completed with exactly `Spec.expected q buffer` if the buffered bytes satisfy the request — the error does not
    take that data away — and fails with StreamClosedError(k) otherwise. -/
theorem read_error_in_loop_gets_data (s : St) (k : ErrK) (f : Nat) (q : Req) (hc : s.closed = false)
    (hi : s.inc = []) (he : s.rerr = some k) (hf : s.rfut = some f) (hq : ReqIs s q) :
    (readToBuffer R s).1.closed = true ∧ (readToBuffer R s).1.error = k ∧
    match Spec.expected R q s.buf with
    | some o => Ev.settle f o ∈ (readToBuffer R s).1.out
    | none => Ev.settle f (.closedErr k) ∈ (readToBuffer R s).1.out := by
  have hq' : ReqIs { s with rerr := none } q := reqIs_congr s _ q rfl rfl rfl rfl rfl rfl rfl rfl hq
  have key := pending_read_at_close R { s with rerr := none } (some k) f q hc hf hq'
  have herr := close_error R { s with rerr := none } k hc
  have hcl := close_closed R { s with rerr := none } (some k)
  have hrb : (readToBuffer R s).1 = close R { s with rerr := none } (some k) := by
    simp only [readToBuffer, hi, he]
  rw [hrb]
  refine ⟨hcl, herr, ?_⟩
  rw [herr] at key
  exact key

/-- … and the same for an orderly EOF met inside the loop (`stream.error` stays what it was) -/
theorem eof_in_loop_gets_data (s : St) (f : Nat) (q : Req) (hc : s.closed = false)
    (hi : s.inc = []) (he : s.rerr = none) (heof : s.eof = true) (hf : s.rfut = some f) (hq : ReqIs s q) :
    (readToBuffer R s).1.closed = true ∧
    match Spec.expected R q s.buf with
    | some o => Ev.settle f o ∈ (readToBuffer R s).1.out
    | none => Ev.settle f (.closedErr (readToBuffer R s).1.error) ∈ (readToBuffer R s).1.out := by
  have hrb : (readToBuffer R s).1 = close R s none := by
    simp only [readToBuffer, hi, he, heof, if_true]
  rw [hrb]
  exact ⟨close_closed R s none, pending_read_at_close R s none f q hc hf hq⟩

-- non-vacuity (the scenario of the seeded change C13-2): read_chunk_size 4, `read_until("\n")` pending, the peer's
-- `abcde\n` and its RST are picked up by ONE pass of the loop (chunks `abcd` — scanned —, `e\n` — not rescanned —, then
-- ECONNRESET): the read gets the line; the same when bytes and reset are there before the read is issued
example : (runX stdR (init 4 100) [.op .setCb, .op (.readUntil [10] none), .arrive [97, 98, 99, 100, 101, 10],
    .op (.rerr .reset)]).2.map (·.evs) = [[], [], [], [.settle 0 (.bytes [97, 98, 99, 100, 101, 10]), .cb]] := by decide
example : (runX stdR (init 4 100) [.arrive [97, 98, 99, 100, 101, 10], .op (.rerr .oserr),
    .op (.readUntil [10] none)]).2.map (fun o => (o.ret, o.evs)) =
    [(.unit, []), (.unit, []), (.raised .oserr, [.settle 0 (.bytes [97, 98, 99, 100, 101, 10])])] := by decide

/-- **all_settled_once_arrivals**: `all_settled_once` for runs in which bytes may reach the transport without the
    handler running (`XOp.arrive`: data and error / EOF picked up by one pass of the read loop) -/
theorem all_settled_once_arrivals :
    ∀ (R : Nat → Bytes → Option Nat) (c m : Nat) (ops : List XOp),
      (settledIds (allEvs (runX R (init c m) ops).2)).Nodup := by
  intro R c m ops
  rw [List.nodup_iff_count]
  intro f
  have h := (runX_count R ops (init c m) (goodP_init c m)).2.2 f
  have h0 : (pending (init c m)).count f = 0 := by simp [pending, init]
  rw [h0] at h
  split at h <;> omega

end TornadoModel.C13
