/-
C13 — specification side.  `expected R q buf` is what a read request `q` that is pending when the stream
closes must be completed with, given the bytes buffered at that moment: `some data` when the buffered data
can satisfy it, `none` when it has to fail with StreamClosedError.
-/
import TornadoModel.C13.Model
namespace TornadoModel.C13.Spec
open TornadoModel.C11 TornadoModel.C13

def within (max : Option Nat) (k : Nat) : Bool :=
  match max with
  | some m => decide (k ≤ m)
  | none => true

def expected (R : Nat → Bytes → Option Nat) : Req → Bytes → Option Outcome
  | .bytes n part, buf =>
      if n ≤ buf.length then some (.bytes (buf.take n))
      else if part && 0 < buf.length then some (.bytes buf) else none
  | .into n part, buf =>
      if n ≤ buf.length then some (.into n (buf.take n))
      else if part && 0 < buf.length then some (.into buf.length buf) else none
  | .until d max, buf =>
      if buf.isEmpty then none else
      match findSub d buf with
      | some loc => if within max (loc + d.length) then some (.bytes (buf.take (loc + d.length))) else none
      | none => none
  | .regex rid max, buf =>
      if buf.isEmpty then none else
      match R rid buf with
      | some e => if within max e then some (.bytes (buf.take e)) else none
      | none => none
  | .untilClose, buf => some (.bytes buf)

/-- bytes a completed read takes out of the buffer -/
def consumed : Outcome → Nat
  | .bytes b => b.length
  | .into k _ => k
  | _ => 0

/-- "later reads succeed from the data that was already buffered": the reads issued one after the other on a closed
    stream whose buffer holds `buf` — each one is served from what the earlier ones left over (`some data`), or cannot
    be satisfied by it (`none`: it has to fail, and takes nothing) -/
def laterReads (R : Nat → Bytes → Option Nat) : List Req → Bytes → List (Option Outcome)
  | [], _ => []
  | q :: qs, buf =>
    match expected R q buf with
    | some o => some o :: laterReads R qs (buf.drop (consumed o))
    | none => none :: laterReads R qs buf

end TornadoModel.C13.Spec
