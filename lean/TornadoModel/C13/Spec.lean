/-
C13 — specification side.  `expected R q buf` is what a read request `q` that is pending when the stream
closes must be completed with, given the bytes buffered at that moment: `some data` when the buffered data
can satisfy it, `none` when it has to fail with StreamClosedError.
-/
import TornadoModel.C13.Model
namespace TornadoModel.C13.Spec
open TornadoModel.C11 TornadoModel.C13

def within (max : Option Nat) (k : Nat) : Bool :=
  match max with
  | some m => decide (k ≤ m)
  | none => true

def expected (R : Nat → Bytes → Option Nat) : Req → Bytes → Option Outcome
  | .bytes n part, buf =>
      if n ≤ buf.length then some (.bytes (buf.take n))
      else if part && 0 < buf.length then some (.bytes buf) else none
  | .into n part, buf =>
      if n ≤ buf.length then some (.into n (buf.take n))
      else if part && 0 < buf.length then some (.into buf.length buf) else none
  | .until d max, buf =>
      if buf.isEmpty then none else
      match findSub d buf with
      | some loc => if within max (loc + d.length) then some (.bytes (buf.take (loc + d.length))) else none
      | none => none
  | .regex rid max, buf =>
      if buf.isEmpty then none else
      match R rid buf with
      | some e => if within max e then some (.bytes (buf.take e)) else none
      | none => none
  | .untilClose, buf => some (.bytes buf)

end TornadoModel.C13.Spec
