/-
C13 / C11 — the closing step, at the level of `doStep` / `step` / `run`.

`doStep_cp`: every op is "adjust the state without touching the closed flag (register a read / write / connect future,
append to the transport, …), then an internal transition `CP`".  Consequences:

* `closing_step_settles_all` / `settled_exactly_once_at_any_close` (C13): whatever op makes an open stream closed —
  `close()`, an EOF / reset / OSError event, a failing send, a failing connect, an unsatisfiable or overflowing read —
  nothing is pending afterwards and every future that was pending is settled in that very step, exactly once in the run.
* `until_close_step` (C11): a registered `read_until_close` gets no data in a step that leaves the stream open, and a
  step that closes the stream leaves the read buffer empty (the read got everything).
-/
import TornadoModel.C13.ClosePass
namespace TornadoModel.C13
open TornadoModel.C11
variable (R : Nat → Bytes → Option Nat)

/-- what `doStep_cp` promises about the adjusted state `s0` when a read is already registered in `s` -/
def SameRead (s s0 : St) : Prop :=
  s0.ruc = s.ruc ∧ s0.rbytes = s.rbytes ∧ s0.rdelim = s.rdelim ∧ s0.rregex = s.rregex ∧ s0.user = s.user ∧
  dataEvs s0.out = dataEvs s.out

theorem SameRead.refl (s : St) : SameRead s s := ⟨rfl, rfl, rfl, rfl, rfl, rfl⟩

theorem doStep_cp (s : St) (op : Op) :
    ∃ s0, CP s0 (doStep R s op).1 ∧ s0.closed = s.closed ∧ (s.rfut.isSome = true → SameRead s s0) := by
  have idle : ∀ {s0 : St}, s.rfut = none → (s.rfut.isSome = true → SameRead s s0) := by
    intro s0 h h'; rw [h] at h'; cases h'
  cases op with
  | feed b =>
    simp only [doStep]
    refine ⟨_, dispatch_cp R _ true false, ?_, ?_⟩
    · split <;> rfl
    · intro _; split
      · exact SameRead.refl s
      · exact ⟨rfl, rfl, rfl, rfl, rfl, rfl⟩
  | eof => exact ⟨_, dispatch_cp R { s with eof := true } true false, rfl, fun _ => ⟨rfl, rfl, rfl, rfl, rfl, rfl⟩⟩
  | rerr k =>
    exact ⟨_, dispatch_cp R { s with rerr := some k } true false, rfl, fun _ => ⟨rfl, rfl, rfl, rfl, rfl, rfl⟩⟩
  | readBytes n part =>
    simp only [doStep]
    split
    · exact ⟨s, CP.refl s, rfl, fun _ => SameRead.refl s⟩
    · rename_i s1 f hs
      obtain ⟨hf, e1, _⟩ := startRead_inr s s1 f hs
      subst e1
      exact ⟨_, finishInline_cp R _ false f, rfl, idle hf⟩
  | readInto n part =>
    simp only [doStep, readInto]
    split
    · exact ⟨s, CP.refl s, rfl, fun _ => SameRead.refl s⟩
    · rename_i s1 f hs
      obtain ⟨hf, e1, _⟩ := startRead_inr s s1 f hs
      subst e1
      dsimp only
      split
      · exact ⟨_, maybeAdd_cp _, rfl, idle hf⟩
      · exact ⟨_, finishInline_cp R _ false f, rfl, idle hf⟩
  | readUntil d mx =>
    simp only [doStep]
    split
    · exact ⟨s, CP.refl s, rfl, fun _ => SameRead.refl s⟩
    · rename_i s1 f hs
      obtain ⟨hf, e1, _⟩ := startRead_inr s s1 f hs
      subst e1
      exact ⟨_, finishInline_cp R _ true f, rfl, idle hf⟩
  | readRegex rid mx =>
    simp only [doStep]
    split
    · exact ⟨s, CP.refl s, rfl, fun _ => SameRead.refl s⟩
    · rename_i s1 f hs
      obtain ⟨hf, e1, _⟩ := startRead_inr s s1 f hs
      subst e1
      exact ⟨_, finishInline_cp R _ true f, rfl, idle hf⟩
  | readUntilClose =>
    simp only [doStep]
    split
    · exact ⟨s, CP.refl s, rfl, fun _ => SameRead.refl s⟩
    · rename_i s1 f hs
      obtain ⟨hf, e1, _⟩ := startRead_inr s s1 f hs
      subst e1
      split
      · exact ⟨_, CP.refl _, (finishRead_base _ _).1, idle hf⟩
      · exact ⟨_, finishInline_cp R _ false f, rfl, idle hf⟩
  | close exc => exact ⟨s, close_cp R s _, rfl, fun _ => SameRead.refl s⟩
  | setCb => exact ⟨{ s with cb := true }, maybeAdd_cp _, rfl, fun _ => ⟨rfl, rfl, rfl, rfl, rfl, rfl⟩⟩
  | write n =>
    simp only [doStep]
    split
    · exact ⟨s, CP.refl s, rfl, fun _ => SameRead.refl s⟩
    · split
      · exact ⟨_, CP.refl _, rfl, fun _ => ⟨rfl, rfl, rfl, rfl, rfl, rfl⟩⟩
      · have h2 := handleWrite_cp R { s with wpend := s.wpend + n, wtotal := s.wtotal + n, nextId := s.nextId + 1,
                                             wfuts := s.wfuts ++ [(s.wtotal + n, s.nextId)] }
        generalize handleWrite R _ = s2 at h2
        have h3 : CP { s with wpend := s.wpend + n, wtotal := s.wtotal + n, nextId := s.nextId + 1,
                              wfuts := s.wfuts ++ [(s.wtotal + n, s.nextId)] }
            (if (decide (0 < s2.wpend) && !s2.closed) = true then addIo s2 false true else s2) := by
          split
          · exact h2.trans (addIo_cp s2 _ _)
          · exact h2
        exact ⟨_, h3.trans (maybeAdd_cp _), rfl, fun _ => ⟨rfl, rfl, rfl, rfl, rfl, rfl⟩⟩
  | wmode m => exact ⟨_, CP.refl _, rfl, fun _ => ⟨rfl, rfl, rfl, rfl, rfl, rfl⟩⟩
  | writable => exact ⟨s, dispatch_cp R s false true, rfl, fun _ => SameRead.refl s⟩
  | connect =>
    simp only [doStep]
    split
    · exact ⟨s, CP.refl s, rfl, fun _ => SameRead.refl s⟩
    · exact ⟨_, addIo_cp _ _ _, rfl, fun _ => ⟨rfl, rfl, rfl, rfl, rfl, rfl⟩⟩
  | cerr k => exact ⟨_, CP.refl _, rfl, fun _ => ⟨rfl, rfl, rfl, rfl, rfl, rfl⟩⟩

/-- **closing_step_settles_all**: ANY step that takes an open stream to a closed one — whatever the op and the cause —
    leaves no future pending -/
theorem closing_step_settles_all (s : St) (op : Op) (ho : s.closed = false)
    (hc : (step R s op).1.closed = true) : pending (step R s op).1 = [] := by
  obtain ⟨s0, cp, h0, _⟩ := doStep_cp R { s with out := [] } op
  exact cp.closeE (h0.trans ho) hc

/-! ### no future is lost: an op other than a second `connect()` never drops an id from the ledger -/

theorem cnt_le_of_start (s t : St) (f : Nat) (hf : s.rfut = none) (h1 : t.out = s.out) (h3 : t.wfuts = s.wfuts)
    (h4 : t.cfut = s.cfut) : cnt f s ≤ cnt f t := by
  unfold cnt pending
  rw [h1, h3, h4, hf]
  simp only [List.count_append, List.count_nil]
  omega

theorem readStart_noloss (s : St) (c : Bool) (s1 t : St) (f g : Nat) (hs : startRead s = .inr (s1, f))
    (h1 : t.out = s1.out) (h2 : t.wfuts = s1.wfuts) (h3 : t.cfut = s1.cfut) :
    cnt g s ≤ cnt g (finishInline R c t f).1 := by
  obtain ⟨hf, e1, _⟩ := startRead_inr s s1 f hs
  subst e1
  rw [(finishInline_mv R t c f).cnt g]
  exact cnt_le_of_start s t g hf h1 h2 h3

theorem doStep_noloss (s : St) (op : Op) (hop : op ≠ .connect) (g : Nat) : cnt g s ≤ cnt g (doStep R s op).1 := by
  have mv : ∀ {t : St}, Mv s t → cnt g s ≤ cnt g t := fun h => Nat.le_of_eq (h.cnt g).symm
  cases op with
  | feed b =>
    simp only [doStep]
    have hm : Mv s (if b.isEmpty then s else { s with inc := s.inc ++ [b] }) := by
      split
      · exact Mv.refl s
      · exact ⟨rfl, fun _ => rfl⟩
    exact mv (hm.trans (dispatch_mv R _ true false))
  | eof =>
    simp only [doStep]
    exact mv (Mv.trans (b := { s with eof := true }) ⟨rfl, fun _ => rfl⟩ (dispatch_mv R _ true false))
  | rerr k =>
    simp only [doStep]
    exact mv (Mv.trans (b := { s with rerr := some k }) ⟨rfl, fun _ => rfl⟩ (dispatch_mv R _ true false))
  | readBytes n part =>
    simp only [doStep]
    split
    · exact Nat.le_refl _
    · rename_i s1 f hs
      exact readStart_noloss R s false s1 _ f g hs rfl rfl rfl
  | readInto n part =>
    simp only [doStep, readInto]
    split
    · exact Nat.le_refl _
    · rename_i s1 f hs
      split
      · obtain ⟨hf, e1, e2⟩ := startRead_inr s s1 f hs
        subst e1
        rw [(maybeAdd_mv _).cnt g]
        unfold cnt pending
        simp [St.emit, settledIds_append, settledIds, List.count_append, hf]
      · exact readStart_noloss R s false s1 _ f g hs rfl rfl rfl
  | readUntil d mx =>
    simp only [doStep]
    split
    · exact Nat.le_refl _
    · rename_i s1 f hs
      exact readStart_noloss R s true s1 _ f g hs rfl rfl rfl
  | readRegex rid mx =>
    simp only [doStep]
    split
    · exact Nat.le_refl _
    · rename_i s1 f hs
      exact readStart_noloss R s true s1 _ f g hs rfl rfl rfl
  | readUntilClose =>
    simp only [doStep]
    split
    · exact Nat.le_refl _
    · rename_i s1 f hs
      split
      · obtain ⟨hf, e1, _⟩ := startRead_inr s s1 f hs
        subst e1
        rw [(finishRead_mv _ _).cnt g]
        exact cnt_le_of_start s _ g hf rfl rfl rfl
      · exact readStart_noloss R s false s1 _ f g hs rfl rfl rfl
  | close exc => simp only [doStep]; exact mv (close_mv R s _)
  | setCb =>
    simp only [doStep]
    exact mv (Mv.trans (b := { s with cb := true }) ⟨rfl, fun _ => rfl⟩ (maybeAdd_mv _))
  | write n =>
    simp only [doStep]
    split
    · exact Nat.le_refl _
    · have h1 : cnt g s ≤ cnt g { s with wpend := s.wpend + n, wtotal := s.wtotal + n, nextId := s.nextId + 1,
                                         wfuts := s.wfuts ++ [(s.wtotal + n, s.nextId)] } := by
        unfold cnt pending
        simp only [List.map_append, List.count_append]
        omega
      split
      · exact h1
      · have h2 := handleWrite_mv R { s with wpend := s.wpend + n, wtotal := s.wtotal + n, nextId := s.nextId + 1,
                                             wfuts := s.wfuts ++ [(s.wtotal + n, s.nextId)] }
        generalize handleWrite R _ = s2 at h2
        have h3 : Mv { s with wpend := s.wpend + n, wtotal := s.wtotal + n, nextId := s.nextId + 1,
                              wfuts := s.wfuts ++ [(s.wtotal + n, s.nextId)] }
            (if (decide (0 < s2.wpend) && !s2.closed) = true then addIo s2 false true else s2) := by
          split
          · exact h2.trans (addIo_mv s2 _ _)
          · exact h2
        rw [((h3.trans (maybeAdd_mv _)).cnt g)]
        exact h1
  | wmode m => simp only [doStep]; exact mv (⟨rfl, fun _ => rfl⟩ : Mv s { s with wmode := m })
  | writable => simp only [doStep]; exact mv (dispatch_mv R s false true)
  | connect => exact absurd rfl hop
  | cerr k => simp only [doStep]; exact mv (⟨rfl, fun _ => rfl⟩ : Mv s { s with cerr := some k })

/-- … and every future that was pending before a closing step is settled IN that step -/
theorem closing_step_settles (s : St) (op : Op) (ho : s.closed = false) (hc : (step R s op).1.closed = true)
    (f : Nat) (hf : f ∈ pending s) : f ∈ settledIds (step R s op).2.evs := by
  have hop : op ≠ .connect := by
    intro h; subst h
    have : (step R s .connect).1.closed = false := by
      show (doStep R { s with out := [] } .connect).1.closed = false
      simp only [doStep, ho, Bool.false_eq_true, if_false]
      rw [(addIo_rs _ _ _).closed]
    rw [this] at hc; cases hc
  have hp := closing_step_settles_all R s op ho hc
  have hl := doStep_noloss R { s with out := [] } op hop f
  have h0 : cnt f { s with out := [] } = (pending s).count f := by simp [cnt, settledIds, pending]
  have h1 : cnt f (doStep R { s with out := [] } op).1 = (settledIds (step R s op).2.evs).count f := by
    have hp' : pending (doStep R { s with out := [] } op).1 = [] := hp
    unfold cnt
    rw [hp']
    simp [step]
  rw [h0, h1] at hl
  have : 0 < (pending s).count f := List.count_pos_iff.mpr hf
  exact List.count_pos_iff.mp (by omega)

/-- **settled_exactly_once_at_any_close**: in any run from a fresh stream, at ANY step that closes the stream (explicit
    `close()`, EOF, ECONNRESET, OSError, failed send, failed connect, UnsatisfiableReadError, buffer overflow): nothing
    is pending afterwards, and a future that was pending before the step occurs exactly once in the settle log of the
    whole run (whatever follows), namely in the events of that step. -/
theorem settled_exactly_once_at_any_close (c m : Nat) (pre post : List Op) (op : Op) (f : Nat)
    (ho : (run R (init c m) pre).1.closed = false)
    (hc : (step R (run R (init c m) pre).1 op).1.closed = true)
    (hf : f ∈ pending (run R (init c m) pre).1) :
    pending (step R (run R (init c m) pre).1 op).1 = [] ∧
    f ∈ settledIds (step R (run R (init c m) pre).1 op).2.evs ∧
    (settledIds (allEvs (run R (init c m) (pre ++ op :: post)).2)).count f = 1 := by
  have hmem := closing_step_settles R _ op ho hc f hf
  refine ⟨closing_step_settles_all R _ op ho hc, hmem, ?_⟩
  have hle := List.nodup_iff_count.mp (all_settled_once R c m (pre ++ op :: post)) f
  have hpos : 0 < (settledIds (step R (run R (init c m) pre).1 op).2.evs).count f := List.count_pos_iff.mpr hmem
  rw [run_append] at hle ⊢
  simp only [run, allEvs_append, allEvs_cons, settledIds_append, List.count_append] at hle ⊢
  omega

-- non-vacuity: a read, a blocked write and a connect are pending; the peer resets the connection / EOF arrives /
-- the connect fails / max_bytes is exceeded: each time all three are settled in that one step
example : (run stdR (init 4 100) [.readBytes 5 false, .wmode .block, .write 3, .rerr .reset]).2.map (·.evs) =
    [[], [], [], [.settle 0 (.closedErr .reset), .settle 1 (.closedErr .reset)]] := by
  decide
example : (step stdR (run stdR (init 4 100) [.connect, .cerr .refused, .readUntil [10] none, .write 2]).1 .writable).2.evs =
    [.settle 1 (.closedErr .refused), .settle 2 (.closedErr .refused), .settle 0 (.closedErr .refused)] := by decide
example : ((step stdR (run stdR (init 4 100) [.wmode .block, .write 1, .readUntil [10] (some 2)]).1 (.feed [1, 2, 3])).1.closed,
    (step stdR (run stdR (init 4 100) [.wmode .block, .write 1, .readUntil [10] (some 2)]).1 (.feed [1, 2, 3])).2.evs) =
    (true, [.settle 1 (.closedErr .unsat), .settle 0 (.closedErr .unsat)]) := by decide

/-! ### `read_until_close` (C11) -/

/-- what a step must look like from the point of view of a registered `read_until_close` -/
def RucGoal (s' : St) : Prop :=
  (s'.closed = false → dataEvs s'.out = []) ∧ (s'.closed = true → s'.buf = [])

theorem rucGoal_of_cp {s0 s' : St} (h : CP s0 s') (hr : s0.ruc = true) (hp : ParamsNone s0) (ho : s0.closed = false)
    (hd : dataEvs s0.out = []) : RucGoal s' :=
  ⟨fun hc => (h.rucOpen hr hp hc).2.2.2.trans hd, fun hc => h.rucClose hr hp ho hc⟩

/-- **until_close_step**: `read_until_close` is registered (`ruc`) in a state satisfying the invariant.  Then for
    EVERY op: if the stream is still open afterwards, the step handed out no data at all (the read did not complete
    early, nor was anything taken from under it); if the stream is closed afterwards, its read buffer is empty — the
    read got everything that had been received (`close_spec` / `pending_read_at_close`: it is settled in that step,
    `Spec.expected .untilClose buf = buf`). -/
theorem until_close_step (s : St) (i : Inv s) (hr : s.ruc = true) (op : Op) :
    ((step R s op).1.closed = false → dataEvs (step R s op).2.evs = []) ∧
    ((step R s op).1.closed = true → (step R s op).1.buf = []) := by
  have i0 : Inv { s with out := [] } := by
    obtain ⟨a, b, c, d, e⟩ := i; exact ⟨a, b, c, d, e⟩
  obtain ⟨s0, cp, h0, h1⟩ := doStep_cp R { s with out := [] } op
  have ho : s.closed = false := by
    cases h : s.closed with
    | false => rfl
    | true => have := i.closedRuc h; rw [hr] at this; cases this
  obtain ⟨a, b, c, d, e, g⟩ := h1 (i.rucf hr)
  have hp := i.ruc hr
  exact rucGoal_of_cp cp (a.trans hr) ⟨b.trans hp.1, c.trans hp.2.1, d.trans hp.2.2.1, e.trans hp.2.2.2⟩
    (h0.trans ho) (g.trans rfl)

/-- … and the same for the step that ISSUES the `read_until_close` (on an idle stream): on an open stream it completes
    in that step only if the step closes the stream (EOF / error met by the inline read), on a closed stream it
    completes at once; either way a closed stream is left with an empty read buffer -/
theorem until_close_issue (s : St) (i : Inv s) (hf : s.rfut = none) :
    ((step R s .readUntilClose).1.closed = false → dataEvs (step R s .readUntilClose).2.evs = []) ∧
    ((step R s .readUntilClose).1.closed = true → (step R s .readUntilClose).1.buf = []) := by
  have hp := i.idle hf
  show RucGoal (doStep R { s with out := [] } .readUntilClose).1
  simp only [doStep, startRead, hf]
  split
  · rename_i hcl
    have hcl' : s.closed = true := hcl
    obtain ⟨a, _, _⟩ := finishRead_base { s with out := [], rfut := some s.nextId, nextId := s.nextId + 1 } s.buf.length
    constructor
    · intro h; rw [a] at h; rw [hcl'] at h; cases h
    · intro _
      rw [finishRead_buf]
      simp only [hp.2.2.2]
      simp
  · rename_i hcl
    have ho : s.closed = false := by
      cases h : s.closed with
      | false => rfl
      | true => exact absurd h hcl
    exact rucGoal_of_cp (finishInline_cp R _ false s.nextId) rfl hp ho rfl

-- non-vacuity: read_until_close pending across two arrivals (nothing handed out, stream open), then EOF: everything
example : (run stdR (init 4 100) [.readUntilClose, .feed [1, 2], .feed [3], .eof]).2.map (·.evs) =
    [[], [], [], [.settle 0 (.bytes [1, 2, 3])]] := by decide
example : ((run stdR (init 4 100) [.readUntilClose, .feed [1, 2], .feed [3], .eof]).1.closed,
    (run stdR (init 4 100) [.readUntilClose, .feed [1, 2], .feed [3], .eof]).1.buf) = (true, []) := by decide

end TornadoModel.C13
