/-
C13 — (1) the hypothesis `ReqIs s q` of the "pending read at close" theorems holds in EVERY reachable state for the
request the pending future was issued with (`pending_read_reqIs`), and the theorems restated over `run`;
(2) no later write or connect succeeds: `connect()` on a closed stream raises like `write()`, and no step taken on a
closed stream completes a write or connect future successfully (`no_success_after_close`).
-/
import TornadoModel.C13.Props
namespace TornadoModel.C13
open TornadoModel.C11
variable (R : Nat → Bytes → Option Nat)

/-! ### `ReqIs` is reachable -/

/-- the request type of the C11 tables and the one of `Spec.expected` are the same five shapes -/
def ofSpec : C11.Spec.Req → Req
  | .bytes n p => .bytes n p
  | .into n p => .into n p
  | .until d m => .until d m
  | .regex r m => .regex r m
  | .untilClose => .untilClose

/-- C11's `Match` (the read parameters encode the request) plus C11's state invariant give `ReqIs` -/
theorem reqIs_of_match (s : St) (i : Inv s) (q : C11.Spec.Req) (m : Match s q) : ReqIs s (ofSpec q) := by
  cases q with
  | bytes n p => exact m
  | into n p =>
    obtain ⟨h1, h2, h3, h4, h5, h6⟩ := m
    exact ⟨h1, h2, h3, h4, h5, h6, (i.user n h2).2.2.2⟩
  | «until» d mx => exact m
  | regex r mx => exact m
  | untilClose => exact ⟨m, (i.ruc m).2.2.2⟩

/-- over any run: the invariant holds at the end and the table of issued requests covers the final state -/
theorem run_cover (hR : RLocal R) : ∀ (ops : List Op) (s : St) (T : List (Nat × C11.Spec.Req)), Inv s → Cover T s →
    Inv (run R s ops).1 ∧ Cover (T ++ table R s ops) (run R s ops).1 := by
  intro ops
  induction ops with
  | nil => intro s T i c; simpa [run, table] using And.intro i c
  | cons op ops ih =>
    intro s T i c
    obtain ⟨c1, _⟩ := step_ok R hR s i T c op
    have i1 := step_inv R s i op
    have := ih (step R s op).1 (T ++ issued s op) i1 c1
    simpa [run, table, List.append_assoc] using this

theorem reach (hR : RLocal R) (c m : Nat) (ops : List Op) :
    Inv (run R (init c m) ops).1 ∧ Cover (table R (init c m) ops) (run R (init c m) ops).1 := by
  have c0 : Cover [] (init c m) :=
    ⟨by intro x hx; simp at hx, by intro f hf; simp [init] at hf, by intro g q q' h; simp at h⟩
  simpa using run_cover R hR ops (init c m) [] (init_inv c m) c0

/-- **pending_read_reqIs**: in every state reachable from a fresh stream, a registered read future `f` stands in the
    table of issued requests under the request `q` its call made, and the read parameters of the state encode exactly
    `q` — the hypothesis `ReqIs` of `satisfiable_read_gets_data`, `pending_read_at_close`, `tryInline_gets_buffered`,
    `read_error_in_loop_gets_data`, `eof_in_loop_gets_data` -/
theorem pending_read_reqIs (hR : RLocal R) (c m : Nat) (ops : List Op) (f : Nat)
    (hf : (run R (init c m) ops).1.rfut = some f) :
    ∃ q, (f, q) ∈ table R (init c m) ops ∧ ReqIs (run R (init c m) ops).1 (ofSpec q) := by
  obtain ⟨i, cv⟩ := reach R hR c m ops
  obtain ⟨q, hq, mt⟩ := cv.pend f hf
  exact ⟨q, hq, reqIs_of_match _ i q mt⟩

example : ReqIs (run stdR (init 4 100) [.readUntil [10] (some 9), .feed [97, 98]]).1 (.until [10] (some 9)) := by
  unfold ReqIs; decide
example : ReqIs (run stdR (init 4 100) [.readInto 5 false, .feed [97]]).1 (.into 5 false) := by
  unfold ReqIs; decide

/-- **pending_read_at_close_run**: at any point of any run where the stream is open and a read future `f` is pending,
    `close()` (with or without an exception) settles `f` in that step: with exactly the data `Spec.expected` prescribes
    for the request `f` was issued with (the entry of `f` in the table of the run) when the buffered bytes satisfy it,
    with StreamClosedError(real error) otherwise. -/
theorem pending_read_at_close_run (hR : RLocal R) (c m : Nat) (pre : List Op) (exc : Bool) (f : Nat)
    (ho : (run R (init c m) pre).1.closed = false) (hf : (run R (init c m) pre).1.rfut = some f) :
    ∃ q, (f, q) ∈ table R (init c m) pre ∧
      match Spec.expected R (ofSpec q) (run R (init c m) pre).1.buf with
      | some o => Ev.settle f o ∈ (step R (run R (init c m) pre).1 (.close exc)).2.evs
      | none => Ev.settle f (.closedErr (step R (run R (init c m) pre).1 (.close exc)).1.error)
                  ∈ (step R (run R (init c m) pre).1 (.close exc)).2.evs := by
  obtain ⟨q, hq, hr⟩ := pending_read_reqIs R hR c m pre f hf
  refine ⟨q, hq, ?_⟩
  have hr' : ReqIs { (run R (init c m) pre).1 with out := [] } (ofSpec q) :=
    reqIs_congr _ _ _ rfl rfl rfl rfl rfl rfl rfl rfl hr
  exact pending_read_at_close R { (run R (init c m) pre).1 with out := [] } (if exc then some .custom else none) f
    (ofSpec q) ho hf hr'

/-- **read_error_at_reachable** / **eof_at_reachable**: the same when the close is made by `_read_to_buffer` (the
    transport reports ECONNRESET / an OSError `k`, or EOF, to the read loop) in a reachable state whose transport holds
    no unread bytes: the hypotheses of `read_error_in_loop_gets_data` / `eof_in_loop_gets_data` are met. -/
theorem read_error_at_reachable (hR : RLocal R) (c m : Nat) (pre : List Op) (k : ErrK) (f : Nat)
    (ho : (run R (init c m) pre).1.closed = false) (hi : (run R (init c m) pre).1.inc = [])
    (hf : (run R (init c m) pre).1.rfut = some f) :
    ∃ q, (f, q) ∈ table R (init c m) pre ∧
      (readToBuffer R { (run R (init c m) pre).1 with rerr := some k }).1.closed = true ∧
      (readToBuffer R { (run R (init c m) pre).1 with rerr := some k }).1.error = k ∧
      match Spec.expected R (ofSpec q) (run R (init c m) pre).1.buf with
      | some o => Ev.settle f o ∈ (readToBuffer R { (run R (init c m) pre).1 with rerr := some k }).1.out
      | none => Ev.settle f (.closedErr k) ∈ (readToBuffer R { (run R (init c m) pre).1 with rerr := some k }).1.out := by
  obtain ⟨q, hq, hr⟩ := pending_read_reqIs R hR c m pre f hf
  exact ⟨q, hq, read_error_in_loop_gets_data R { (run R (init c m) pre).1 with rerr := some k } k f (ofSpec q) ho hi rfl hf
    (reqIs_congr _ _ _ rfl rfl rfl rfl rfl rfl rfl rfl hr)⟩

theorem eof_at_reachable (hR : RLocal R) (c m : Nat) (pre : List Op) (f : Nat)
    (ho : (run R (init c m) pre).1.closed = false) (hi : (run R (init c m) pre).1.inc = [])
    (he : (run R (init c m) pre).1.rerr = none) (hf : (run R (init c m) pre).1.rfut = some f) :
    ∃ q, (f, q) ∈ table R (init c m) pre ∧
      (readToBuffer R { (run R (init c m) pre).1 with eof := true }).1.closed = true ∧
      match Spec.expected R (ofSpec q) (run R (init c m) pre).1.buf with
      | some o => Ev.settle f o ∈ (readToBuffer R { (run R (init c m) pre).1 with eof := true }).1.out
      | none => Ev.settle f (.closedErr (readToBuffer R { (run R (init c m) pre).1 with eof := true }).1.error)
                  ∈ (readToBuffer R { (run R (init c m) pre).1 with eof := true }).1.out := by
  obtain ⟨q, hq, hr⟩ := pending_read_reqIs R hR c m pre f hf
  exact ⟨q, hq, eof_in_loop_gets_data R { (run R (init c m) pre).1 with eof := true } f (ofSpec q) ho hi he rfl hf
    (reqIs_congr _ _ _ rfl rfl rfl rfl rfl rfl rfl rfl hr)⟩

/-! ### no later write or connect succeeds -/

/-- **no_connect_after_close**: `connect()` on a closed stream raises StreamClosedError(real error) and changes nothing
    (no future is handed out, `_connecting` stays false) -/
theorem no_connect_after_close (s : St) (hc : s.closed = true) :
    doStep R s .connect = (s, .raised (.streamClosed s.error)) := by
  simp [doStep, hc]

/-- a write or connect future completing successfully -/
def succ : Ev → Bool
  | .settle _ .unit => true
  | .settle _ .stream => true
  | _ => false

def NoSucc (l : List Ev) : Prop := ∀ ev ∈ l, succ ev = false

theorem NoSucc.nil : NoSucc [] := by intro ev h; cases h
theorem NoSucc.append {a b : List Ev} (ha : NoSucc a) (hb : NoSucc b) : NoSucc (a ++ b) := by
  intro ev h
  rcases List.mem_append.1 h with h | h
  · exact ha ev h
  · exact hb ev h

theorem noSucc_failEvs (k : ErrK) (l : List Nat) : NoSucc (failEvs k l) := by
  intro ev h
  simp only [failEvs, List.mem_map] at h
  obtain ⟨f, _, rfl⟩ := h
  rfl

theorem noSucc_finishEv (s : St) (n : Nat) : NoSucc (finishEv s n) := by
  unfold finishEv
  cases s.rfut with
  | none => exact NoSucc.nil
  | some f =>
    intro ev h
    simp only [List.mem_singleton] at h
    subst h
    cases s.user <;> rfl

theorem noSucc_cb (b : Bool) : NoSucc (if b then [Ev.cb] else []) := by
  cases b
  · exact NoSucc.nil
  · intro ev h; simp at h; subst h; rfl

theorem close_closed_noSucc (s : St) (e : Option ErrK) (hc : s.closed = true) (h : NoSucc s.out) :
    NoSucc (close R s e).out := by
  rw [(close_again R s e hc).1]
  exact (h.append (noSucc_failEvs _ _)).append (noSucc_cb _)

theorem maybeAdd_out (s : St) : (maybeAddErrorListener s).out = s.out := by
  obtain ⟨io, h⟩ := maybeAdd_eq s; rw [h]

theorem readFromBuffer_noSucc (s : St) (p : Nat) (h : NoSucc s.out) : NoSucc (readFromBuffer s p).out := by
  unfold readFromBuffer
  rw [(finishRead_frame _ p).2.1]
  exact h.append (noSucc_finishEv _ p)

theorem finishInline_noSucc (s : St) (c : Bool) (f : Nat) (hc : s.closed = true) (h : NoSucc s.out) :
    NoSucc (finishInline R c s f).1.out := by
  have hs := tryInlineRead_same R s hc
  have ht : NoSucc (tryInlineRead R s).1.out := by
    unfold tryInlineRead
    split
    · exact h
    · exact readFromBuffer_noSucc s _ h
    · simp only [hc, if_true]; exact h
  unfold finishInline
  generalize tryInlineRead R s = x at hs ht
  obtain ⟨s1, res⟩ := x
  cases res with
  | none => exact ht
  | some r =>
    cases r <;> try exact ht
    dsimp only
    split
    · exact close_closed_noSucc R s1 _ (hs.1.trans hc) ht
    · exact ht

/-- **no_success_on_closed**: no step taken on a closed stream completes a write or a connect future successfully — the
    only events are read results (from the buffer), StreamClosedErrors and the close callback -/
theorem no_success_on_closed (s : St) (op : Op) (hc : s.closed = true) : NoSucc (step R s op).2.evs := by
  show NoSucc (doStep R { s with out := [] } op).1.out
  have hc0 : ({ s with out := [] } : St).closed = true := hc
  have h0 : NoSucc ({ s with out := [] } : St).out := NoSucc.nil
  have hd : ∀ (t : St) (r w : Bool), t.closed = true → NoSucc t.out → NoSucc (dispatch R t r w).out :=
    fun t r w h1 h2 => by rw [dispatch_closed R t r w h1]; exact h2
  cases op with
  | feed b =>
    simp only [doStep]
    refine hd _ _ _ ?_ ?_
    · split <;> exact hc
    · split <;> exact NoSucc.nil
  | eof => simp only [doStep]; exact hd _ _ _ hc NoSucc.nil
  | rerr k => simp only [doStep]; exact hd _ _ _ hc NoSucc.nil
  | readBytes n part =>
    simp only [doStep]
    split
    · exact NoSucc.nil
    · rename_i s1 f hs
      obtain ⟨_, e1, _⟩ := startRead_inr _ s1 f hs
      subst e1
      exact finishInline_noSucc R _ false f hc NoSucc.nil
  | readInto n part =>
    simp only [doStep, readInto]
    split
    · exact NoSucc.nil
    · rename_i s1 f hs
      obtain ⟨_, e1, _⟩ := startRead_inr _ s1 f hs
      subst e1
      dsimp only
      split
      · rw [maybeAdd_out]
        intro ev hev
        simp [St.emit] at hev
        subst hev; rfl
      · exact finishInline_noSucc R _ false f hc NoSucc.nil
  | readUntil d mx =>
    simp only [doStep]
    split
    · exact NoSucc.nil
    · rename_i s1 f hs
      obtain ⟨_, e1, _⟩ := startRead_inr _ s1 f hs
      subst e1
      exact finishInline_noSucc R _ true f hc NoSucc.nil
  | readRegex rid mx =>
    simp only [doStep]
    split
    · exact NoSucc.nil
    · rename_i s1 f hs
      obtain ⟨_, e1, _⟩ := startRead_inr _ s1 f hs
      subst e1
      exact finishInline_noSucc R _ true f hc NoSucc.nil
  | readUntilClose =>
    simp only [doStep]
    split
    · exact NoSucc.nil
    · rename_i s1 f hs
      obtain ⟨_, e1, _⟩ := startRead_inr _ s1 f hs
      subst e1
      simp only [hc, if_true]
      rw [(finishRead_frame _ _).2.1]
      exact NoSucc.nil.append (noSucc_finishEv _ _)
  | close exc => simp only [doStep]; exact close_closed_noSucc R _ _ hc0 h0
  | setCb =>
    simp only [doStep]
    rw [maybeAdd_out]; exact NoSucc.nil
  | write n => simp only [doStep, hc, if_true]; exact NoSucc.nil
  | wmode m => exact NoSucc.nil
  | writable => simp only [doStep]; exact hd _ _ _ hc NoSucc.nil
  | connect => simp only [doStep, hc, if_true]; exact NoSucc.nil
  | cerr k => exact NoSucc.nil

/-- **no_success_after_close**: once the stream is closed (at whatever point of a run, for whatever cause), no write or
    connect future completes successfully in ANY continuation, and `write()` / `connect()` calls raise
    (`no_write_after_close`, `no_connect_after_close`) -/
theorem no_success_after_close : ∀ (ops : List Op) (s : St), s.closed = true → NoSucc (allEvs (run R s ops).2) := by
  intro ops
  induction ops with
  | nil => intro s _; simpa [run, allEvs] using NoSucc.nil
  | cons op ops ih =>
    intro s hc
    simp only [run, allEvs_cons]
    have h1 : (step R s op).1.closed = true := by
      unfold step; exact (closed_step R { s with out := [] } op hc).1
    exact (no_success_on_closed R s op hc).append (ih _ h1)

example : (run stdR (init 4 100) [.close false, .connect, .write 1, .writable, .close false]).2.map (·.ret) =
    [.unit, .raised (.streamClosed .none), .raised (.streamClosed .none), .unit, .unit] := by decide
example : allEvs (run stdR (init 4 100) [.wmode .block, .write 1, .close false, .connect, .writable, .wmode .accept, .writable]).2 =
    [.settle 0 (.closedErr .none)] := by decide

end TornadoModel.C13
