/- C13 driver:
   `C13 run [chunk,maxBuf] [op,…]`   → as `C11 run` (the same machine), ops = the C11 ops + `[arrive,x<bytes>]` (Model.XOp)
   `C13 expect req x<buffer>`         → ok outcome | ok ~     (Spec.expected with the concrete regexes)
   `C13 later [req,…] x<buffer>`      → ok [outcome | ~,…]     (Spec.laterReads: reads after the close, served from the buffer)
-/
import TornadoModel.Base.Wire
import TornadoModel.C11.Drv
import TornadoModel.C13.Spec
namespace TornadoModel.C13.Drv
open TornadoModel TornadoModel.Wire TornadoModel.C11 TornadoModel.C13

def decReq (v : V) : Option Req := do
  let l ← v.list?
  match l with
  | [.atom "rb", n, p] => pure (.bytes (← n.nat?) (← p.bool?))
  | [.atom "ri", n, p] => pure (.into (← n.nat?) (← p.bool?))
  | [.atom "ru", d, m] => pure (.until (← d.byteNats?) (← C11.Drv.decMax m))
  | [.atom "rr", r, m] => pure (.regex (← r.nat?) (← C11.Drv.decMax m))
  | [.atom "ruc"] => pure .untilClose
  | _ => none

def decXOp (v : V) : Option XOp :=
  match v.list? with
  | some [.atom "arrive", b] => b.byteNats?.map .arrive
  | _ => (C11.Drv.decOp v).map .op

def runVX (R : Nat → Bytes → Option Nat) (s : St) : List XOp → List V
  | [] => []
  | op :: ops =>
    let (s1, o) := stepX R s op
    .list [C11.Drv.encRet o.ret, .list (C11.Drv.settles o.evs), .int (C11.Drv.cbs o.evs), C11.Drv.view s1] :: runVX R s1 ops

def handle (toks : List String) : String :=
  match toks with
  | ["run", cfg, ops] =>
    match V.parse cfg >>= V.list?, V.parse ops >>= V.list? >>= (·.mapM decXOp) with
    | some [c, m], some ops =>
      match c.nat?, m.nat? with
      | some c, some m => ok [.list (runVX stdR { chunk := c, maxBuf := m } ops)]
      | _, _ => err "bad-cfg"
    | _, _ => err "bad-arg"
  | ["expect", q, b] =>
    match V.parse q >>= decReq, V.parse b >>= V.byteNats? with
    | some q, some b => ok [V.ofOpt C11.Drv.encOutcome (Spec.expected stdR q b)]
    | _, _ => err "bad-arg"
  | ["later", qs, b] =>
    match V.parse qs >>= V.list? >>= (·.mapM decReq), V.parse b >>= V.byteNats? with
    | some qs, some b => ok [.list ((Spec.laterReads stdR qs b).map (V.ofOpt C11.Drv.encOutcome))]
    | _, _ => err "bad-arg"
  | _ => err "bad-line"

end TornadoModel.C13.Drv
