/-
C13 — the ledger invariant behind `all_settled_once`.

For a future id `f`, `cnt f s` counts how often `f` occurs among the settle events already emitted in the
current step plus the futures the stream still owes.  Every internal transition of the stream machine only
*moves* ids from "pending" to "settled" (`Mv`: `cnt` and `nextId` unchanged); the three allocating operations
(`_start_read`, `write`, `connect`) add exactly the fresh id `nextId`.  Hence an id is settled at most once
over a whole run.
-/
import TornadoModel.C13.Lemmas
import TornadoModel.C11.Props
namespace TornadoModel.C13
open TornadoModel.C11
variable (R : Nat → Bytes → Option Nat)

/-- occurrences of `f` in the ledger: settled in this step ++ still pending -/
def cnt (f : Nat) (s : St) : Nat := (settledIds s.out).count f + (pending s).count f

theorem settledIds_append (a b : List Ev) : settledIds (a ++ b) = settledIds a ++ settledIds b := by
  induction a with
  | nil => rfl
  | cons e r ih => cases e <;> simp [settledIds, ih]

theorem settledIds_failEvs (k : ErrK) (l : List Nat) : settledIds (failEvs k l) = l := by
  induction l with
  | nil => rfl
  | cons f fs ih => simpa [failEvs, settledIds] using ih

theorem settledIds_finishEv (s : St) (n : Nat) :
    settledIds (finishEv s n) = (match s.rfut with | some f => [f] | none => []) := by
  unfold finishEv; cases s.rfut <;> rfl

/-- an internal transition: ids only move from pending to settled, none is created -/
structure Mv (s s' : St) : Prop where
  nid : s'.nextId = s.nextId
  cnt : ∀ f, cnt f s' = cnt f s

theorem Mv.refl (s : St) : Mv s s := ⟨rfl, fun _ => rfl⟩
theorem Mv.trans {a b c : St} (h1 : Mv a b) (h2 : Mv b c) : Mv a c :=
  ⟨h2.nid.trans h1.nid, fun f => (h2.cnt f).trans (h1.cnt f)⟩

theorem addIo_mv (s : St) (r w : Bool) : Mv s (addIo s r w) := by
  obtain ⟨io, h⟩ := addIo_eq s r w; rw [h]; exact ⟨rfl, fun _ => rfl⟩

theorem maybeAdd_mv (s : St) : Mv s (maybeAddErrorListener s) := by
  obtain ⟨io, h⟩ := maybeAdd_eq s; rw [h]; exact ⟨rfl, fun _ => rfl⟩

theorem finishRead_nextId (s : St) (n : Nat) : (finishRead s n).nextId = s.nextId := by
  unfold finishRead
  rw [(maybeAdd_mv _).nid]
  cases s.rfut <;> cases s.user <;> rfl

theorem finishRead_mv (s : St) (n : Nat) : Mv s (finishRead s n) := by
  obtain ⟨fr, ho, hf⟩ := finishRead_frame s n
  refine ⟨finishRead_nextId s n, fun f => ?_⟩
  unfold cnt pending
  rw [ho, hf, fr.wfuts, fr.cfut, settledIds_append, settledIds_finishEv]
  cases s.rfut <;> simp [List.count_append, List.count_cons] <;> omega

theorem readFromBuffer_mv (s : St) (p : Nat) : Mv s (readFromBuffer s p) := by
  unfold readFromBuffer
  exact Mv.trans (b := { s with rbytes := none, rdelim := none, rregex := none, rpartial := false })
    ⟨rfl, fun _ => rfl⟩ (finishRead_mv _ p)

theorem failAll_nextId (k : ErrK) : ∀ (l : List Nat) (s : St), (failAll k s l).nextId = s.nextId := by
  intro l
  induction l with
  | nil => intro s; rfl
  | cons f fs ih => intro s; unfold failAll; rw [ih]; rfl

theorem signalClosed_nextId (s : St) : (signalClosed s).nextId = s.nextId := by
  have h0 : ({ clearRead s with wfuts := [], cfut := none } : St).nextId = s.nextId := by
    unfold clearRead; cases s.rfut <;> rfl
  have h1 := failAll_nextId ({ clearRead s with wfuts := [], cfut := none } : St).error
    (readFutL s ++ s.wfuts.map (·.2) ++ connFutL s) { clearRead s with wfuts := [], cfut := none }
  unfold signalClosed
  simp only []
  generalize failAll ({ clearRead s with wfuts := [], cfut := none } : St).error
    { clearRead s with wfuts := [], cfut := none } (readFutL s ++ s.wfuts.map (·.2) ++ connFutL s) = s4 at h1 ⊢
  split
  · exact h1.trans h0
  · exact h1.trans h0

/-- `_signal_closed` moves every pending id to the settle log -/
theorem signalClosed_mv (s : St) : Mv s (signalClosed s) := by
  obtain ⟨ho, hp, _, _⟩ := signalClosed_spec s
  refine ⟨signalClosed_nextId s, fun f => ?_⟩
  unfold cnt
  rw [hp, ho, settledIds_append, settledIds_append, settledIds_failEvs]
  cases s.cb <;> simp [settledIds, List.count_append]

theorem completeAtClose_mv (s : St) : Mv s (completeAtClose R s) := by
  unfold completeAtClose
  split
  · exact Mv.trans (b := { s with ruc := false }) ⟨rfl, fun _ => rfl⟩ (finishRead_mv _ _)
  · split
    · split
      · exact readFromBuffer_mv s _
      · exact Mv.refl s
    · exact Mv.refl s

theorem close_mv (s : St) (e : Option ErrK) : Mv s (close R s e) := by
  unfold close
  split
  · exact signalClosed_mv s
  · have h1 : Mv s (setError s e) := by unfold setError; cases e <;> exact ⟨rfl, fun _ => rfl⟩
    have h2 := completeAtClose_mv R (setError s e)
    exact (h1.trans h2).trans (Mv.trans (b := { completeAtClose R (setError s e) with io := none, closed := true })
      ⟨rfl, fun _ => rfl⟩ (signalClosed_mv _))

theorem readToBuffer_mv (s : St) : Mv s (readToBuffer R s).1 := by
  unfold readToBuffer
  split
  · rename_i c rest hinc
    have hp : Mv s (pull s c rest (min c.length (cap s))) := ⟨rfl, fun _ => rfl⟩
    split
    · exact close_mv R s none
    · split
      · exact hp.trans (close_mv R _ none)
      · exact hp
  · split
    · exact Mv.trans (b := { s with rerr := none }) ⟨rfl, fun _ => rfl⟩ (close_mv R _ _)
    · split
      · exact close_mv R s none
      · exact Mv.refl s

theorem loopGo_mv (target : Option Nat) : ∀ (fuel nf : Nat) (s : St), Mv s (loopGo R target fuel nf s).1 := by
  intro fuel
  induction fuel with
  | zero => intro nf s; unfold loopGo; rw [findFinal_fst]; exact Mv.refl s
  | succ fuel ih =>
    intro nf s
    unfold loopGo
    split
    · rw [findFinal_fst]; exact Mv.refl s
    · have hp := readToBuffer_mv R s
      generalize readToBuffer R s = rt at hp ⊢
      obtain ⟨s1, x⟩ := rt
      cases x
      case zero => dsimp only; rw [findFinal_fst]; exact hp
      case raised r => dsimp only; exact hp
      all_goals
        dsimp only
        split
        · rw [findFinal_fst]; exact hp
        · split
          · split
            · exact hp
            · exact hp
            · exact hp.trans (ih _ s1)
          · exact hp.trans (ih _ s1)

theorem readLoop_mv (s : St) : Mv s (readLoop R s).1 := by
  unfold readLoop
  exact loopGo_mv R _ _ _ s

theorem handleRead_mv (s : St) : Mv s (handleRead R s).1 := by
  unfold handleRead
  have hp := readLoop_mv R s
  split
  · rename_i s1 heq; rw [heq] at hp; exact hp
  · rename_i s1 heq; rw [heq] at hp; exact hp.trans (close_mv R _ _)
  · rename_i s1 r heq; rw [heq] at hp; exact hp.trans (close_mv R _ _)
  · rename_i s1 p heq; rw [heq] at hp; exact hp.trans (readFromBuffer_mv s1 p)
  · rename_i s1 heq; rw [heq] at hp; exact hp

/-- the resolution loop of `_handle_write` moves a prefix of the write futures to the settle log -/
theorem resolveWrites_cnt : ∀ (l : List (Nat × Nat)) (s : St),
    (resolveWrites s l).nextId = s.nextId ∧ (resolveWrites s l).rfut = s.rfut ∧
    (resolveWrites s l).cfut = s.cfut ∧
    ∀ f, (settledIds (resolveWrites s l).out).count f + ((resolveWrites s l).wfuts.map (·.2)).count f
       = (settledIds s.out).count f + (l.map (·.2)).count f := by
  intro l
  induction l with
  | nil => intro s; exact ⟨rfl, rfl, rfl, fun f => by simp [resolveWrites]⟩
  | cons x rest ih =>
    intro s
    obtain ⟨idx, f0⟩ := x
    unfold resolveWrites
    split
    · exact ⟨rfl, rfl, rfl, fun f => rfl⟩
    · obtain ⟨a, b, c, d⟩ := ih (s.emit (.settle f0 .unit))
      refine ⟨a, b, c, fun f => ?_⟩
      rw [d f]
      simp [St.emit, settledIds_append, settledIds, List.count_append, List.count_cons]
      omega

theorem resolveWrites_mv (s : St) : Mv s (resolveWrites s s.wfuts) := by
  obtain ⟨a, b, c, d⟩ := resolveWrites_cnt s.wfuts s
  refine ⟨a, fun f => ?_⟩
  unfold cnt pending
  rw [b, c]
  have := d f
  simp only [List.count_append]
  omega

theorem handleWrite_mv (s : St) : Mv s (handleWrite R s) := by
  unfold handleWrite
  split
  · exact resolveWrites_mv s
  · split
    · exact Mv.trans (b := { s with wdone := s.wdone + s.wpend, wpend := 0 }) ⟨rfl, fun _ => rfl⟩
        (resolveWrites_mv _)
    · exact resolveWrites_mv s
    · exact close_mv R s _

theorem handleConnect_mv (s : St) : Mv s (handleConnect R s) := by
  unfold handleConnect
  split
  · rename_i k _
    exact Mv.trans (b := { s with error := k }) ⟨rfl, fun _ => rfl⟩ (close_mv R _ _)
  · split
    · rename_i f hcf
      refine ⟨rfl, fun g => ?_⟩
      unfold cnt pending
      simp [St.emit, settledIds_append, settledIds, List.count_append, hcf]
      omega
    · exact ⟨rfl, fun _ => rfl⟩

theorem evWrite_mv (s : St) (w : Bool) : Mv s (evWrite R s w) := by
  have h : Mv s (if w = true then handleWrite R s else s) := by
    split
    · exact handleWrite_mv R s
    · exact Mv.refl s
  unfold evWrite
  generalize (if w = true then handleWrite R s else s) = s3 at h
  split
  · exact Mv.refl s
  · split
    · exact h
    · exact h.trans ⟨rfl, fun _ => rfl⟩

theorem handleEvents_mv (s : St) (r w : Bool) : Mv s (handleEvents R s r w) := by
  have hc : Mv s (evConnect R s) := by
    unfold evConnect; split
    · exact handleConnect_mv R s
    · exact Mv.refl s
  unfold handleEvents
  generalize evConnect R s = s1 at hc
  split
  · exact Mv.refl s
  · split
    · exact hc
    · have hr : Mv s1 (evRead R s1 r).1 := by
        unfold evRead; split
        · exact handleRead_mv R s1
        · exact Mv.refl s1
      generalize evRead R s1 r = x at hr
      obtain ⟨s2, u⟩ := x
      cases u
      · exact hc.trans (hr.trans (evWrite_mv R s2 w))
      · exact hc.trans (hr.trans (close_mv R s2 _))

theorem dispatch_mv (s : St) (r w : Bool) : Mv s (dispatch R s r w) := by
  unfold dispatch
  split
  · split
    · exact handleEvents_mv R s _ _
    · exact Mv.refl s
  · exact Mv.refl s

theorem tryInlineRead_mv (s : St) : Mv s (tryInlineRead R s).1 := by
  unfold tryInlineRead
  split
  · exact Mv.refl s
  · exact readFromBuffer_mv s _
  · split
    · exact Mv.refl s
    · have hp := readLoop_mv R s
      generalize readLoop R s = x at hp
      obtain ⟨s1, res⟩ := x
      cases res with
      | raised r => exact hp
      | pos q =>
        cases q with
        | none => exact hp.trans (addIo_mv s1 _ _)
        | some p => exact hp.trans (readFromBuffer_mv s1 p)

theorem finishInline_mv (s : St) (c : Bool) (f : Nat) : Mv s (finishInline R c s f).1 := by
  unfold finishInline
  have hp := tryInlineRead_mv R s
  generalize tryInlineRead R s = x at hp
  obtain ⟨s1, res⟩ := x
  cases res with
  | none => exact hp
  | some r =>
    cases r <;> try exact hp
    dsimp only
    split
    · exact hp.trans (close_mv R s1 _)
    · exact hp

/-! ### the ledger invariant over a step -/

/-- no id occurs twice in the ledger, and ids not handed out yet do not occur at all -/
def Good (s : St) : Prop := ∀ f, cnt f s ≤ 1 ∧ (s.nextId ≤ f → cnt f s = 0)

/-- `s'` is good, ids are only handed out upwards, and old ids never gain occurrences -/
def Led (s s' : St) : Prop := Good s' ∧ s.nextId ≤ s'.nextId ∧ ∀ f, f < s.nextId → cnt f s' ≤ cnt f s

theorem Mv.led {s s' : St} (h : Mv s s') (g : Good s) : Led s s' := by
  refine ⟨fun f => ?_, by rw [h.nid]; exact Nat.le_refl _, fun f _ => by rw [h.cnt f]; exact Nat.le_refl _⟩
  rw [h.cnt f, h.nid]; exact g f

theorem Led.mv {s s1 s2 : St} (h : Led s s1) (m : Mv s1 s2) : Led s s2 := by
  obtain ⟨g, a, b⟩ := h
  refine ⟨(m.led g).1, by rw [m.nid]; exact a, fun f hf => ?_⟩
  rw [m.cnt f]; exact b f hf

/-- handing out the fresh id `nextId` (and possibly forgetting older ones) -/
theorem alloc (s t : St) (g : Good s) (hn : t.nextId = s.nextId + 1)
    (hc : ∀ f, cnt f t ≤ cnt f s + (if s.nextId = f then 1 else 0)) : Led s t := by
  refine ⟨fun f => ?_, by omega, fun f hf => ?_⟩
  · have h1 := hc f
    have h2 := g f
    by_cases hfn : s.nextId = f
    · rw [if_pos hfn] at h1
      have := h2.2 (by omega)
      constructor
      · omega
      · intro h; omega
    · rw [if_neg hfn] at h1
      constructor
      · omega
      · intro h; have := h2.2 (by omega); omega
  · have h1 := hc f
    have hfn : ¬ s.nextId = f := by omega
    rw [if_neg hfn] at h1
    omega

/-- `_start_read` on an idle stream: the new read future is the fresh id -/
theorem alloc_read (s t : St) (g : Good s) (hf : s.rfut = none) (h1 : t.out = s.out)
    (h2 : t.rfut = some s.nextId) (h3 : t.wfuts = s.wfuts) (h4 : t.cfut = s.cfut)
    (h5 : t.nextId = s.nextId + 1) : Led s t := by
  apply alloc s t g h5
  intro f
  unfold cnt pending
  rw [h1, h2, h3, h4, hf]
  by_cases hfn : s.nextId = f <;> simp [List.count_append, List.count_cons, hfn] <;> omega

theorem readStart_led (s : St) (g : Good s) (c : Bool) (s1 t : St) (f : Nat)
    (hs : startRead s = .inr (s1, f))
    (h1 : t.out = s1.out) (h2 : t.rfut = s1.rfut) (h3 : t.wfuts = s1.wfuts) (h4 : t.cfut = s1.cfut)
    (h5 : t.nextId = s1.nextId) : Led s (finishInline R c t f).1 := by
  obtain ⟨hf, e1, _⟩ := startRead_inr s s1 f hs
  subst e1
  exact (alloc_read s t g hf h1 h2 h3 h4 h5).mv (finishInline_mv R t c f)

theorem doStep_led (s : St) (g : Good s) (op : Op) : Led s (doStep R s op).1 := by
  cases op with
  | feed b =>
    simp only [doStep]
    have hm : Mv s (if b.isEmpty then s else { s with inc := s.inc ++ [b] }) := by
      split
      · exact Mv.refl s
      · exact ⟨rfl, fun _ => rfl⟩
    exact (hm.trans (dispatch_mv R _ true false)).led g
  | eof =>
    simp only [doStep]
    exact (Mv.trans (b := { s with eof := true }) ⟨rfl, fun _ => rfl⟩ (dispatch_mv R _ true false)).led g
  | rerr k =>
    simp only [doStep]
    exact (Mv.trans (b := { s with rerr := some k }) ⟨rfl, fun _ => rfl⟩ (dispatch_mv R _ true false)).led g
  | readBytes n part =>
    simp only [doStep]
    split
    · exact (Mv.refl s).led g
    · rename_i s1 f hs
      exact readStart_led R s g false s1 _ f hs rfl rfl rfl rfl rfl
  | readInto n part =>
    simp only [doStep, readInto]
    split
    · exact (Mv.refl s).led g
    · rename_i s1 f hs
      split
      · obtain ⟨hf, e1, e2⟩ := startRead_inr s s1 f hs
        subst e1
        refine Led.mv ?_ (maybeAdd_mv _)
        apply alloc s _ g rfl
        intro x
        unfold cnt pending
        by_cases hfn : s.nextId = x <;>
          simp [St.emit, settledIds_append, settledIds, List.count_append, List.count_cons, hf, hfn, e2] <;> omega
      · exact readStart_led R s g false s1 _ f hs rfl rfl rfl rfl rfl
  | readUntil d mx =>
    simp only [doStep]
    split
    · exact (Mv.refl s).led g
    · rename_i s1 f hs
      exact readStart_led R s g true s1 _ f hs rfl rfl rfl rfl rfl
  | readRegex rid mx =>
    simp only [doStep]
    split
    · exact (Mv.refl s).led g
    · rename_i s1 f hs
      exact readStart_led R s g true s1 _ f hs rfl rfl rfl rfl rfl
  | readUntilClose =>
    simp only [doStep]
    split
    · exact (Mv.refl s).led g
    · rename_i s1 f hs
      split
      · obtain ⟨hf, e1, _⟩ := startRead_inr s s1 f hs
        subst e1
        exact Led.mv (s1 := { s with rfut := some s.nextId, nextId := s.nextId + 1 })
          (alloc_read s _ g hf rfl rfl rfl rfl rfl) (finishRead_mv _ _)
      · exact readStart_led R s g false s1 _ f hs rfl rfl rfl rfl rfl
  | close exc => simp only [doStep]; exact (close_mv R s _).led g
  | setCb =>
    simp only [doStep]
    exact (Mv.trans (b := { s with cb := true }) ⟨rfl, fun _ => rfl⟩ (maybeAdd_mv _)).led g
  | write n =>
    simp only [doStep]
    split
    · exact (Mv.refl s).led g
    · have h1 : Led s { s with wpend := s.wpend + n, wtotal := s.wtotal + n, nextId := s.nextId + 1,
                               wfuts := s.wfuts ++ [(s.wtotal + n, s.nextId)] } := by
        apply alloc s _ g rfl
        intro x
        unfold cnt pending
        by_cases hfn : s.nextId = x <;> simp [List.count_append, List.count_cons, hfn] <;> omega
      split
      · exact h1
      · have h2 := h1.mv (handleWrite_mv R _)
        generalize handleWrite R _ = s2 at h2
        have h3 : Led s (if (decide (0 < s2.wpend) && !s2.closed) = true then addIo s2 false true else s2) := by
          split
          · exact h2.mv (addIo_mv s2 _ _)
          · exact h2
        exact h3.mv (maybeAdd_mv _)
  | wmode m => simp only [doStep]; exact (⟨rfl, fun _ => rfl⟩ : Mv s { s with wmode := m }).led g
  | writable => simp only [doStep]; exact (dispatch_mv R s false true).led g
  | connect =>
    simp only [doStep]
    split
    · exact (Mv.refl s).led g
    · refine Led.mv ?_ (addIo_mv _ _ _)
      apply alloc s _ g rfl
      intro x
      unfold cnt pending
      by_cases hfn : s.nextId = x <;> cases s.cfut <;> simp [List.count_append, List.count_cons, hfn] <;> omega
  | cerr k => simp only [doStep]; exact (⟨rfl, fun _ => rfl⟩ : Mv s { s with cerr := some k }).led g

/-! ### whole runs -/

theorem allEvs_cons (o : Out) (os : List Out) : allEvs (o :: os) = o.evs ++ allEvs os := by
  simp [allEvs]

/-- the invariant on the futures a state still owes (what survives between steps) -/
def GoodP (s : St) : Prop := ∀ f, (pending s).count f ≤ 1 ∧ (s.nextId ≤ f → (pending s).count f = 0)

theorem step_led (s : St) (gp : GoodP s) (op : Op) :
    Led { s with out := [] } (step R s op).1 ∧ (step R s op).2.evs = (step R s op).1.out := by
  have g : Good { s with out := [] } := by
    intro f
    have := gp f
    simpa [Good, cnt, settledIds, pending] using this
  have h := doStep_led R { s with out := [] } g op
  unfold step
  generalize doStep R { s with out := [] } op = x at h
  obtain ⟨s1, r⟩ := x
  exact ⟨h, rfl⟩

theorem Good.goodP {s : St} (g : Good s) : GoodP s := by
  intro f
  have := g f
  unfold cnt at this
  constructor
  · omega
  · intro h; have := this.2 h; omega

/-- over any run from a state owing distinct, already handed-out futures: the final state is again such a
    state, an id handed out before the run is settled at most as often as it was pending (0 or 1), an id
    handed out during the run at most once -/
theorem run_count : ∀ (ops : List Op) (s : St), GoodP s →
    GoodP (run R s ops).1 ∧ s.nextId ≤ (run R s ops).1.nextId ∧
    ∀ f, (settledIds (allEvs (run R s ops).2)).count f ≤ (if f < s.nextId then (pending s).count f else 1) := by
  intro ops
  induction ops with
  | nil =>
    intro s gp
    refine ⟨gp, Nat.le_refl _, fun f => ?_⟩
    simp [run, allEvs, settledIds]
  | cons op ops ih =>
    intro s gp
    obtain ⟨⟨g1, hn, hold⟩, hev⟩ := step_led R s gp op
    obtain ⟨gp2, hn2, hc2⟩ := ih (step R s op).1 g1.goodP
    simp only [run]
    refine ⟨gp2, Nat.le_trans hn hn2, fun f => ?_⟩
    rw [allEvs_cons, settledIds_append, List.count_append, hev]
    have a := hc2 f
    have b := g1 f
    unfold cnt at b
    by_cases h1 : f < s.nextId
    · have c := hold f h1
      have h2 : f < (step R s op).1.nextId := Nat.lt_of_lt_of_le h1 hn
      rw [if_pos h2] at a
      rw [if_pos h1]
      simp only [cnt, settledIds, List.count_nil, Nat.zero_add] at c
      change (settledIds (step R s op).1.out).count f + (pending (step R s op).1).count f ≤ (pending s).count f at c
      omega
    · rw [if_neg h1]
      by_cases h2 : f < (step R s op).1.nextId
      · rw [if_pos h2] at a; omega
      · rw [if_neg h2] at a
        have := b.2 (by omega)
        omega

theorem goodP_init (c m : Nat) : GoodP (C11.init c m) := by
  intro f; simp [pending, C11.init]

theorem run_append : ∀ (a b : List Op) (s : St),
    run R s (a ++ b) = ((run R (run R s a).1 b).1, (run R s a).2 ++ (run R (run R s a).1 b).2) := by
  intro a
  induction a with
  | nil => intro b s; simp [run]
  | cons op ops ih => intro b s; simp only [List.cons_append, run, ih]

theorem allEvs_append (a b : List Out) : allEvs (a ++ b) = allEvs a ++ allEvs b := by
  simp [allEvs]

/-- a `close()` step settles every future pending before it exactly as often as it was pending -/
theorem close_step_count (s : St) (exc : Bool) (f : Nat) :
    (settledIds (step R s (.close exc)).2.evs).count f = (pending s).count f ∧
    pending (step R s (.close exc)).1 = [] := by
  have hm := (close_mv R { s with out := [] } (if exc then some .custom else none)).cnt f
  have hp : pending (close R { s with out := [] } (if exc then some .custom else none)) = [] := by
    unfold close
    split
    · exact (signalClosed_spec _).2.1
    · exact (signalClosed_spec _).2.1
  unfold cnt at hm
  rw [hp] at hm
  simp only [step, doStep]
  refine ⟨?_, hp⟩
  simpa [settledIds, pending] using hm

/-! ### runs with unreported arrivals (`XOp.arrive`, added after the missed seeded change C13-2) -/

theorem arrive_mv (s : St) (b : Bytes) : Mv s (arrive s b) := by
  unfold arrive
  split
  · exact Mv.refl s
  · exact ⟨rfl, fun _ => rfl⟩

theorem stepX_led (s : St) (gp : GoodP s) (op : XOp) :
    Led { s with out := [] } (stepX R s op).1 ∧ (stepX R s op).2.evs = (stepX R s op).1.out := by
  cases op with
  | op o => exact step_led R s gp o
  | arrive b =>
    have g : Good { s with out := [] } := by
      intro f
      have := gp f
      simpa [Good, cnt, settledIds, pending] using this
    refine ⟨(arrive_mv { s with out := [] } b).led g, ?_⟩
    simp only [stepX, arrive]
    split <;> rfl

/-- `run_count` for runs in which bytes may reach the transport without the handler running -/
theorem runX_count : ∀ (ops : List XOp) (s : St), GoodP s →
    GoodP (runX R s ops).1 ∧ s.nextId ≤ (runX R s ops).1.nextId ∧
    ∀ f, (settledIds (allEvs (runX R s ops).2)).count f ≤ (if f < s.nextId then (pending s).count f else 1) := by
  intro ops
  induction ops with
  | nil =>
    intro s gp
    refine ⟨gp, Nat.le_refl _, fun f => ?_⟩
    simp [runX, allEvs, settledIds]
  | cons op ops ih =>
    intro s gp
    obtain ⟨⟨g1, hn, hold⟩, hev⟩ := stepX_led R s gp op
    obtain ⟨gp2, hn2, hc2⟩ := ih (stepX R s op).1 g1.goodP
    simp only [runX]
    refine ⟨gp2, Nat.le_trans hn hn2, fun f => ?_⟩
    rw [allEvs_cons, settledIds_append, List.count_append, hev]
    have a := hc2 f
    have b := g1 f
    unfold cnt at b
    by_cases h1 : f < s.nextId
    · have c := hold f h1
      have h2 : f < (stepX R s op).1.nextId := Nat.lt_of_lt_of_le h1 hn
      rw [if_pos h2] at a
      rw [if_pos h1]
      simp only [cnt, settledIds, List.count_nil, Nat.zero_add] at c
      change (settledIds (stepX R s op).1.out).count f + (pending (stepX R s op).1).count f ≤ (pending s).count f at c
      omega
    · rw [if_neg h1]
      by_cases h2 : f < (stepX R s op).1.nextId
      · rw [if_pos h2] at a; omega
      · rw [if_neg h2] at a
        have := b.2 (by omega)
        omega

end TornadoModel.C13
