/- C13 — helper lemmas: what `_signal_closed` / `close` emit and leave behind; `closed` is absorbing. -/
import TornadoModel.C11.Lemmas
import TornadoModel.C13.Spec
namespace TornadoModel.C13
open TornadoModel.C11
variable (R : Nat → Bytes → Option Nat)

def failEvs (k : ErrK) (l : List Nat) : List Ev := l.map (fun f => .settle f (.closedErr k))

theorem failAll_spec (k : ErrK) : ∀ (l : List Nat) (s : St),
    (failAll k s l).out = s.out ++ failEvs k l ∧ (failAll k s l).rfut = s.rfut ∧ (failAll k s l).wfuts = s.wfuts
    ∧ (failAll k s l).cfut = s.cfut ∧ (failAll k s l).cb = s.cb ∧ (failAll k s l).error = s.error
    ∧ (failAll k s l).closed = s.closed := by
  intro l
  induction l with
  | nil => intro s; simp [failAll, failEvs]
  | cons f fs ih =>
    intro s
    obtain ⟨a, b, c, d, e, g, h⟩ := ih (s.emit (.settle f (.closedErr k)))
    unfold failAll
    refine ⟨?_, b, c, d, e, g, h⟩
    rw [a]; simp [St.emit, failEvs]

theorem pending_clearRead (s : St) :
    ({ clearRead s with wfuts := [], cfut := none } : St).rfut = none ∧
    ({ clearRead s with wfuts := [], cfut := none } : St).error = s.error ∧
    ({ clearRead s with wfuts := [], cfut := none } : St).cb = s.cb ∧
    ({ clearRead s with wfuts := [], cfut := none } : St).out = s.out := by
  unfold clearRead
  cases h : s.rfut <;> simp [h]

theorem pending_eq (s : St) : pending s = readFutL s ++ s.wfuts.map (·.2) ++ connFutL s := by
  unfold pending readFutL connFutL
  cases s.rfut <;> cases s.cfut <;> rfl

/-- `_signal_closed`, exactly: every future the stream still owes fails with StreamClosedError carrying
    `stream.error`; then (if one is installed) the close callback is scheduled, once, and uninstalled. -/
theorem signalClosed_spec (s : St) :
    (signalClosed s).out = s.out ++ failEvs s.error (pending s) ++ (if s.cb then [Ev.cb] else []) ∧
    pending (signalClosed s) = [] ∧ (signalClosed s).cb = false ∧ (signalClosed s).error = s.error := by
  obtain ⟨h1, h2, h3, h4⟩ := pending_clearRead s
  obtain ⟨a, b, c, d, e, g, _⟩ := failAll_spec ({ clearRead s with wfuts := [], cfut := none } : St).error
    (readFutL s ++ s.wfuts.map (·.2) ++ connFutL s) { clearRead s with wfuts := [], cfut := none }
  unfold signalClosed
  simp only []
  generalize failAll ({ clearRead s with wfuts := [], cfut := none } : St).error
    { clearRead s with wfuts := [], cfut := none } (readFutL s ++ s.wfuts.map (·.2) ++ connFutL s) = s4 at a b c d e g ⊢
  rw [h2] at a g; rw [h4] at a; rw [h3] at e; rw [h1] at b
  have hp : pending s4 = [] := by
    unfold pending; rw [b, c, d]; rfl
  rw [pending_eq s]
  cases hcb : s.cb with
  | false =>
    have : s4.cb = false := by rw [e, hcb]
    simp [this, a, hp, g]
  | true =>
    have : s4.cb = true := by rw [e, hcb]
    simp only [this, if_true]
    refine ⟨by simp [St.emit, a], ?_, rfl, g⟩
    unfold pending at hp ⊢; exact hp


theorem addIo_eq (s : St) (r w : Bool) : ∃ io, addIo s r w = { s with io := io } := by
  unfold addIo
  split
  · exact ⟨s.io, rfl⟩
  · split <;> exact ⟨_, rfl⟩

theorem maybeAdd_eq (s : St) : ∃ io, maybeAddErrorListener s = { s with io := io } := by
  unfold maybeAddErrorListener
  split <;> (try split) <;> first | exact ⟨s.io, rfl⟩ | exact addIo_eq s _ _

/-- the event `_finish_read` produces -/
def finishEv (s : St) (size : Nat) : List Ev :=
  match s.rfut with
  | some f => [.settle f (match s.user with | some _ => .into size (s.buf.take size) | none => .bytes (s.buf.take size))]
  | none => []

structure Frame (s s' : St) : Prop where
  wfuts : s'.wfuts = s.wfuts
  cfut : s'.cfut = s.cfut
  cb : s'.cb = s.cb
  error : s'.error = s.error
  closed : s'.closed = s.closed
  inc : s'.inc = s.inc

theorem Frame.refl (s : St) : Frame s s := ⟨rfl, rfl, rfl, rfl, rfl, rfl⟩

theorem finishRead_frame (s : St) (size : Nat) :
    Frame s (finishRead s size) ∧ (finishRead s size).out = s.out ++ finishEv s size ∧
    (finishRead s size).rfut = none := by
  unfold finishRead
  obtain ⟨io, h⟩ := maybeAdd_eq (match (match s.user with
      | some _ => (Outcome.into size (s.buf.take size), { s with buf := [], user := none })
      | none => (Outcome.bytes (s.buf.take size), { s with buf := s.buf.drop size })).2.rfut with
    | some f => ({ (match s.user with
      | some _ => (Outcome.into size (s.buf.take size), { s with buf := [], user := none })
      | none => (Outcome.bytes (s.buf.take size), { s with buf := s.buf.drop size })).2 with rfut := none }).emit
        (.settle f (match s.user with
      | some _ => (Outcome.into size (s.buf.take size), { s with buf := [], user := none })
      | none => (Outcome.bytes (s.buf.take size), { s with buf := s.buf.drop size })).1)
    | none => (match s.user with
      | some _ => (Outcome.into size (s.buf.take size), { s with buf := [], user := none })
      | none => (Outcome.bytes (s.buf.take size), { s with buf := s.buf.drop size })).2)
  cases hu : s.user <;> cases hf : s.rfut <;> simp [hu, hf] at h ⊢ <;> rw [h] <;>
    simp [finishEv, hu, hf, St.emit] <;> exact ⟨rfl, rfl, rfl, rfl, rfl, rfl⟩


theorem cbCount_append (a b : List Ev) : cbCount (a ++ b) = cbCount a + cbCount b := by
  induction a with
  | nil => simp [cbCount]
  | cons e r ih => cases e <;> simp [cbCount, ih] <;> omega

theorem cbCount_failEvs (k : ErrK) (l : List Nat) : cbCount (failEvs k l) = 0 := by
  induction l with
  | nil => rfl
  | cons f fs ih => simpa [failEvs, cbCount] using ih

theorem cbCount_finishEv (s : St) (n : Nat) : cbCount (finishEv s n) = 0 := by
  unfold finishEv; cases s.rfut <;> rfl

/-- first half of `close()`: at most one event (the pending read completed with data), nothing else of the
    life-cycle state moves -/
theorem completeAtClose_frame (s : St) :
    Frame s (completeAtClose R s) ∧
    ∃ evs, (completeAtClose R s).out = s.out ++ evs ∧ cbCount evs = 0 ∧
      (evs = [] ∧ (completeAtClose R s).rfut = s.rfut ∨
       ∃ f o, s.rfut = some f ∧ evs = [.settle f o] ∧ (completeAtClose R s).rfut = none) := by
  have key : ∀ (t : St) (n : Nat), t.wfuts = s.wfuts → t.cfut = s.cfut → t.cb = s.cb → t.error = s.error →
      t.closed = s.closed → t.inc = s.inc → t.out = s.out → t.rfut = s.rfut →
      Frame s (finishRead t n) ∧ ∃ evs, (finishRead t n).out = s.out ++ evs ∧ cbCount evs = 0 ∧
        (evs = [] ∧ (finishRead t n).rfut = s.rfut ∨
         ∃ f o, s.rfut = some f ∧ evs = [.settle f o] ∧ (finishRead t n).rfut = none) := by
    intro t n h1 h2 h3 h4 h5 h6 h7 h8
    obtain ⟨fr, ho, hf⟩ := finishRead_frame t n
    refine ⟨⟨fr.wfuts.trans h1, fr.cfut.trans h2, fr.cb.trans h3, fr.error.trans h4, fr.closed.trans h5,
      fr.inc.trans h6⟩, finishEv t n, by rw [ho, h7], cbCount_finishEv t n, ?_⟩
    cases hr : s.rfut with
    | none => left; rw [hf]; simp [finishEv, h8, hr]
    | some f =>
      right
      exact ⟨f, (match t.user with | some _ => .into n (t.buf.take n) | none => .bytes (t.buf.take n)), rfl,
        by simp [finishEv, h8, hr], hf⟩
  unfold completeAtClose
  split
  · exact key _ _ rfl rfl rfl rfl rfl rfl rfl rfl
  · split
    · split
      · unfold readFromBuffer; exact key _ _ rfl rfl rfl rfl rfl rfl rfl rfl
      · exact ⟨Frame.refl s, [], by simp, rfl, Or.inl ⟨rfl, rfl⟩⟩
    · exact ⟨Frame.refl s, [], by simp, rfl, Or.inl ⟨rfl, rfl⟩⟩

theorem setError_frame (s : St) (e : Option ErrK) :
    (setError s e).wfuts = s.wfuts ∧ (setError s e).cfut = s.cfut ∧ (setError s e).cb = s.cb ∧
    (setError s e).out = s.out ∧ (setError s e).rfut = s.rfut ∧ (setError s e).closed = s.closed ∧
    (setError s e).error = (match e with | some k => k | none => s.error) := by
  unfold setError; cases e <;> simp

end TornadoModel.C13
