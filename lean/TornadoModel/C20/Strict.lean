/- C20 — run-level safety: in a loader whose expression tags all sit in escaping files (no raw / module, no markup in
literal text, `{% apply %}` only with functions that keep escaped text escaped) the OUTPUT of every run of the
interpreter is safe — through includes, substituted (inherited) blocks, applied bodies, loops, try/finally, at any
nesting, for every environment (values of any type and content). -/
import TornadoModel.C20.Lemmas
namespace TornadoModel.C20
open TornadoModel.C19

/-- every file the loader can hand out, and every registered named block, is strict -/
structure StrictCtx (C : Ctx) : Prop where
  files : ∀ t ∈ C.L, strictFile t = true
  named : ∀ b ∈ C.named, strictNodes b.owner.autoescape b.body = true

/-! ### `safe` is closed under concatenation and under the safe functions -/
theorem isPrefixOf_append' {t cs : List Nat} (b : List Nat) (h : t.isPrefixOf cs = true) :
    t.isPrefixOf (cs ++ b) = true := by
  rw [List.isPrefixOf_iff_prefix] at h ⊢
  exact h.trans (List.prefix_append cs b)

theorem safe_append (a b : List Nat) (ha : safe a = true) (hb : safe b = true) : safe (a ++ b) = true := by
  induction a with
  | nil => simpa using hb
  | cons c cs ih =>
    simp only [List.cons_append]
    unfold safe at ha ⊢
    split at ha
    · cases ha
    · rename_i h1
      rw [if_neg h1]
      split at ha
      · rename_i h2
        rw [if_pos h2]
        simp only [Bool.and_eq_true, List.any_eq_true] at ha ⊢
        obtain ⟨⟨t, ht, hp⟩, hs⟩ := ha
        exact ⟨⟨t, ht, isPrefixOf_append' b hp⟩, ih hs⟩
      · rename_i h2
        rw [if_neg h2]; exact ih ha

theorem safe_applyFn (m : Str) (hm : safeFn m = true) (b b' : List Nat) (hb : safe b = true)
    (h : applyFn m b = .ok b') : safe b' = true := by
  unfold applyFn at h
  split at h
  · cases h; exact safe_escape_all b
  · split at h
    · cases h; exact hb
    · split at h
      · cases h
        have : (91 :: b ++ [93]) = [91] ++ (b ++ [93]) := by simp
        rw [this]
        exact safe_append _ _ (by decide) (safe_append _ _ hb (by decide))
      · rename_i h1 h2 h3
        unfold safeFn at hm
        simp only [Bool.or_eq_true] at hm h1
        rcases hm with ((hm | hm) | hm) | hm
        · exact absurd (.inl hm) h1
        · exact absurd (.inr hm) h1
        · exact absurd hm h2
        · exact absurd hm h3
where
  safe_escape_all (bs : List Nat) : safe (xhtmlEscape bs) = true := by
    induction bs with
    | nil => rfl
    | cons b bs ih =>
      have : xhtmlEscape (b :: bs) = escapeChar b ++ xhtmlEscape bs := by simp [xhtmlEscape]
      rw [this]; exact safe_escape_cons b _ ih

theorem safe_xhtmlEscape (bs : List Nat) : safe (xhtmlEscape bs) = true := safe_applyFn.safe_escape_all bs

/-! ### sections of a control body -/
theorem strict_splitInter (ae : Option Str) (body : List Node) (h : strictNodes ae body = true) :
    strictNodes ae (splitInter body).1 = true ∧ ∀ p ∈ (splitInter body).2, strictNodes ae p.2 = true := by
  induction body with
  | nil => simp [splitInter, strictNodes]
  | cons n ns ih =>
    cases n <;> simp only [strictNodes, Bool.and_eq_true] at h <;> simp only [splitInter]
    case inter s l =>
      obtain ⟨h1, h2⟩ := ih h
      refine ⟨by simp [strictNodes], ?_⟩
      intro p hp
      simp only [List.mem_cons] at hp
      rcases hp with rfl | hp
      · exact h1
      · exact h2 p hp
    all_goals
      first
      | (obtain ⟨h1, h2⟩ := ih h.2
         exact ⟨by simp only [strictNodes, Bool.and_eq_true]; exact ⟨h.1, h1⟩, h2⟩)
      | (obtain ⟨h1, h2⟩ := ih h
         exact ⟨by simp only [strictNodes]; exact h1, h2⟩)


theorem safe_escaping (fn : Str) (h : isEscaping fn = true) (b b' : List Nat) (hb : applyFn fn b = .ok b') :
    safe b' = true := by
  unfold isEscaping at h
  unfold applyFn at hb
  rw [if_pos h] at hb
  cases hb; exact safe_xhtmlEscape b

/-! ### the `try` statement, factored (same code as in `interpControl`) -/
def tryMid (C : Ctx) (f : Nat) (owner : FileInfo) (excepts elses : List (Str × List Node)) (r : R) : R :=
  match r.sig with
  | .raise exc =>
    if exc == (/-"Unsupported"-/ [85, 110, 115, 117, 112, 112, 111, 114, 116, 101, 100] : List Nat) || exc == (/-"Fuel"-/ [70, 117, 101, 108] : List Nat) then r else
    match excepts.find? (fun p => exceptMatches p.1 exc) with
    | some (_, h) => interp C f owner h r.out r.env
    | none => r
  | .normal =>
    match elses with
    | (_, e) :: _ => interp C f owner e r.out r.env
    | [] => r
  | _ => r

def tryTail (C : Ctx) (f : Nat) (owner : FileInfo) (finals : List (Str × List Node)) (r1 : R) : R :=
  match finals with
  | (_, fin) :: _ =>
    let r2 := interp C f owner fin r1.out r1.env
    match r2.sig with
    | .normal => ⟨r2.out, r2.env, r1.sig⟩
    | _ => r2
  | [] => r1

section
variable {C : Ctx} {f : Nat} {owner : FileInfo}
variable (I : ∀ nodes out env, strictNodes owner.autoescape nodes = true → safe out = true →
  safe (interp C f owner nodes out env).out = true)
include I

theorem tryMid_safe (excepts elses : List (Str × List Node))
    (hex : ∀ p ∈ excepts, strictNodes owner.autoescape p.2 = true)
    (hel : ∀ p ∈ elses, strictNodes owner.autoescape p.2 = true) (r : R) (hr : safe r.out = true) :
    safe (tryMid C f owner excepts elses r).out = true := by
  unfold tryMid
  split
  · split
    · exact hr
    · split
      · rename_i heq
        exact I _ _ _ (hex _ (List.mem_of_find?_eq_some heq)) hr
      · exact hr
  · split
    · exact I _ _ _ (hel (_, _) (List.mem_cons_self ..)) hr
    · exact hr
  · exact hr

theorem tryTail_safe (finals : List (Str × List Node))
    (hfi : ∀ p ∈ finals, strictNodes owner.autoescape p.2 = true) (r1 : R) (hr : safe r1.out = true) :
    safe (tryTail C f owner finals r1).out = true := by
  unfold tryTail
  split
  · have := I _ _ r1.env (hfi (_, _) (List.mem_cons_self ..)) hr
    simp only []
    split
    · exact this
    · exact this
  · exact hr

theorem seq_safe (ns : List Node) (hns : strictNodes owner.autoescape ns = true) (r : R) (hr : safe r.out = true) :
    safe (match r.sig with | .normal => interp C f owner ns r.out r.env | _ => r).out = true := by
  split
  · exact I _ _ _ hns hr
  · exact hr
end

theorem filter_strict {ae : Option Str} {secs : List (Str × List Node)} (q : Str × List Node → Bool)
    (h : ∀ p ∈ secs, strictNodes ae p.2 = true) : ∀ p ∈ secs.filter q, strictNodes ae p.2 = true :=
  fun p hp => h p (List.mem_filter.1 hp).1


theorem escAe_some {ae : Option Str} (h : escAe ae = true) : ∃ fn, ae = some fn ∧ isEscaping fn = true := by
  cases ae with
  | none => cases h
  | some fn => exact ⟨fn, rfl, h⟩

theorem lookupNamed_mem {named : List Named} {name : Str} {b : Named} (h : lookupNamed named name = some b) :
    b ∈ named := by
  unfold lookupNamed at h
  exact List.mem_reverse.1 (List.mem_of_find?_eq_some h)

/-- the five mutually recursive interpreter functions keep the output safe -/
theorem interp_safe_all (C : Ctx) (hC : StrictCtx C) (f : Nat) :
    (∀ owner nodes out env, strictNodes owner.autoescape nodes = true → safe out = true →
        safe (interp C f owner nodes out env).out = true) ∧
    (∀ owner s body out env, strictNodes owner.autoescape body = true → safe out = true →
        safe (interpControl C f owner s body out env).out = true) ∧
    (∀ owner (secs : List (Str × List Node)) out env, (∀ p ∈ secs, strictNodes owner.autoescape p.2 = true) →
        safe out = true → safe (interpIf C f owner secs out env).out = true) ∧
    (∀ owner x items main (secs : List (Str × List Node)) out env, strictNodes owner.autoescape main = true →
        (∀ p ∈ secs, strictNodes owner.autoescape p.2 = true) → safe out = true →
        safe (interpFor C f owner x items main secs out env).out = true) ∧
    (∀ owner cond main (secs : List (Str × List Node)) out env, strictNodes owner.autoescape main = true →
        (∀ p ∈ secs, strictNodes owner.autoescape p.2 = true) → safe out = true →
        safe (interpWhile C f owner cond main secs out env).out = true) := by
  induction f with
  | zero =>
    refine ⟨?_, ?_, ?_, ?_, ?_⟩ <;> intros <;> simp only [interp, interpControl, interpIf, interpFor, interpWhile] <;>
      assumption
  | succ f ih =>
    obtain ⟨I, Cn, If, Fo, Wh⟩ := ih
    refine ⟨?_, ?_, ?_, ?_, ?_⟩
    · -- interp
      intro owner nodes out env hs hout
      cases nodes with
      | nil => simpa only [interp] using hout
      | cons n ns =>
        cases n with
        | text v l ws =>
          simp only [strictNodes, Bool.and_eq_true] at hs
          simp only [interp]
          exact I _ _ _ _ hs.2 (safe_append _ _ hout hs.1)
        | expr e l raw =>
          simp only [strictNodes, Bool.and_eq_true, Bool.not_eq_true'] at hs
          obtain ⟨⟨hraw, hae⟩, hns⟩ := hs
          obtain ⟨fn, hfn, hesc⟩ := escAe_some hae
          subst hraw
          simp only [interp, hfn]
          apply seq_safe (I owner) ns hns
          cases hev : evalExpr env e with
          | error x => exact hout
          | ok v =>
            cases v with
            | list _ => exact hout
            | atom a =>
              simp only []
              cases hap : applyFn fn a.toBytes with
              | error x => exact hout
              | ok b' => exact safe_append _ _ hout (safe_escaping fn hesc _ _ hap)
        | stmt s l =>
          simp only [strictNodes] at hs
          simp only [interp]
          apply seq_safe (I owner) ns hs
          repeat' split
          all_goals exact hout
        | inter s l =>
          simp only [strictNodes] at hs
          simp only [interp]
          exact seq_safe (I owner) ns hs (unsupported out env) hout
        | control s l body =>
          simp only [strictNodes, Bool.and_eq_true] at hs
          simp only [interp]
          apply seq_safe (I owner) ns hs.2
          exact Cn _ _ _ _ _ hs.1 hout
        | apply m l body =>
          simp only [strictNodes, Bool.and_eq_true] at hs
          obtain ⟨⟨hm, hb⟩, hns⟩ := hs
          simp only [interp]
          apply seq_safe (I owner) ns hns
          have hr := I owner body [] env hb rfl
          generalize interp C f owner body [] env = r at hr
          split
          · split
            · rename_i hap
              exact safe_append _ _ hout (safe_applyFn m hm _ _ hr hap)
            · exact hout
          · exact hout
          · exact hout
        | block name l body =>
          simp only [strictNodes, Bool.and_eq_true] at hs
          simp only [interp]
          apply seq_safe (I owner) ns hs.2
          split
          · exact hout
          · rename_i b hb
            exact I _ _ _ _ (hC.named b (lookupNamed_mem hb)) hout
        | «extends» name =>
          simp only [strictNodes] at hs
          simp only [interp]
          exact hout
        | incl name l =>
          simp only [strictNodes] at hs
          simp only [interp]
          apply seq_safe (I owner) ns hs
          split
          · exact hout
          · rename_i t ht
            exact I _ _ _ _ (hC.files t (List.mem_of_find?_eq_some ht)) hout
    · -- interpControl
      intro owner s body out env hs hout
      obtain ⟨hmain, hsecs⟩ := strict_splitInter _ _ hs
      simp only [interpControl]
      generalize splitInter body = sp at hmain hsecs
      obtain ⟨main, secs⟩ := sp
      generalize partitionSp s = ps
      obtain ⟨op, rest⟩ := ps
      simp only [] at hmain hsecs ⊢
      split
      · refine If _ _ _ _ ?_ hout
        intro p hp
        simp only [List.mem_cons] at hp
        rcases hp with rfl | hp
        · exact hmain
        · exact hsecs p hp
      · split
        · split
          · exact hout
          · split
            · exact hout
            · split
              · exact hout
              · exact hout
              · exact Fo _ _ _ _ _ _ _ hmain hsecs hout
        · split
          · exact Wh _ _ _ _ _ _ hmain hsecs hout
          · split
            · show safe (tryTail C f owner _ (tryMid C f owner _ _ (interp C f owner main out env))).out = true
              exact tryTail_safe (I owner) _ (filter_strict _ hsecs) _
                (tryMid_safe (I owner) _ _ (filter_strict _ hsecs) (filter_strict _ hsecs) _ (I _ _ _ _ hmain hout))
            · exact hout
    · -- interpIf
      intro owner secs out env hs hout
      cases secs with
      | nil => simpa only [interpIf] using hout
      | cons p more =>
        obtain ⟨s, sec⟩ := p
        simp only [interpIf]
        have hsec := hs (s, sec) (List.mem_cons_self ..)
        have hmore : ∀ p ∈ more, strictNodes owner.autoescape p.2 = true := fun p hp => hs p (List.mem_cons_of_mem _ hp)
        split
        · exact I _ _ _ _ hsec hout
        · split
          · exact hout
          · split
            · exact I _ _ _ _ hsec hout
            · exact If _ _ _ _ hmore hout
    · -- interpFor
      intro owner x items main secs out env hmain hsecs hout
      cases items with
      | nil =>
        simp only [interpFor]
        split
        · rename_i e _
          exact I _ _ _ _ (hsecs (_, _) (List.mem_cons_self ..)) hout
        · exact hout
      | cons a items =>
        simp only [interpFor]
        have hr := I owner main out (Env.set env x (.atom a)) hmain hout
        generalize interp C f owner main out (Env.set env x (.atom a)) = r at hr
        split
        · exact Fo _ _ _ _ _ _ _ hmain hsecs hr
        · exact Fo _ _ _ _ _ _ _ hmain hsecs hr
        · exact hr
        · exact hr
    · -- interpWhile
      intro owner cond main secs out env hmain hsecs hout
      simp only [interpWhile]
      split
      · exact hout
      · split
        · have hr := I owner main out env hmain hout
          generalize interp C f owner main out env = r at hr
          split
          · exact Wh _ _ _ _ _ _ hmain hsecs hr
          · exact Wh _ _ _ _ _ _ hmain hsecs hr
          · exact hr
          · exact hr
        · split
          · exact I _ _ _ _ (hsecs (_, _) (List.mem_cons_self ..)) hout
          · exact hout


/-! ### what `_generate_python` prepares (root template, named blocks) is strict when the loader is -/
theorem mapM_ok_mem {α β ε : Type} (g : α → Except ε β) (l : List α) (r : List β) (h : l.mapM g = .ok r) :
    ∀ y ∈ r, ∃ x ∈ l, g x = .ok y := by
  induction l generalizing r with
  | nil => simp only [List.mapM_nil, pure, Except.pure] at h; cases h; intro y hy; cases hy
  | cons a l ih =>
    simp only [List.mapM_cons, bind, Except.bind, pure, Except.pure] at h
    cases hga : g a with
    | error e => rw [hga] at h; cases h
    | ok b =>
      rw [hga] at h; simp only at h
      cases hl : l.mapM g with
      | error e => rw [hl] at h; cases h
      | ok bs =>
        rw [hl] at h; cases h
        intro y hy
        simp only [List.mem_cons] at hy
        rcases hy with rfl | hy
        · exact ⟨a, by simp, hga⟩
        · obtain ⟨x, hx, hg⟩ := ih bs hl y hy; exact ⟨x, by simp [hx], hg⟩

theorem ancestors_strict (L : Loader) (hL : ∀ t ∈ L, strictFile t = true) (f : Nat) (t : FileInfo)
    (ht : strictFile t = true) (anc : List FileInfo) (h : ancestors L f t = .ok anc) :
    ∀ a ∈ anc, strictFile a = true := by
  induction f generalizing t anc with
  | zero => simp [ancestors] at h
  | succ f ih =>
    simp only [ancestors, bind, Except.bind, pure, Except.pure] at h
    split at h
    · cases h
    · rename_i ups hups
      cases h
      intro a ha
      simp only [List.mem_cons, List.mem_flatten] at ha
      rcases ha with rfl | ⟨l, hl, hal⟩
      · exact ht
      · obtain ⟨name, _, hg⟩ := mapM_ok_mem _ _ _ hups l hl
        split at hg
        · cases hg
        · rename_i p hp
          exact ih p (hL p (List.mem_of_find?_eq_some hp)) l hg a hal

theorem findNamed_strict (L : Loader) (hL : ∀ t ∈ L, strictFile t = true) (f : Nat) (owner : FileInfo)
    (nodes : List Node) (hs : strictNodes owner.autoescape nodes = true) (nm : List Named)
    (h : findNamed L f owner nodes = .ok nm) : ∀ b ∈ nm, strictNodes b.owner.autoescape b.body = true := by
  induction f generalizing owner nodes nm with
  | zero => simp [findNamed] at h
  | succ f ih =>
    cases nodes with
    | nil => simp only [findNamed] at h; cases h; intro b hb; cases hb
    | cons n ns =>
      cases n <;> simp only [strictNodes, Bool.and_eq_true] at hs <;>
        simp only [findNamed, bind, Except.bind, pure, Except.pure] at h
      case block name l body =>
        split at h
        · cases h
        · rename_i inner hinner
          split at h
          · cases h
          · rename_i rest hrest
            cases h
            intro b hb
            simp only [List.cons_append, List.mem_cons, List.mem_append] at hb
            rcases hb with rfl | hb | hb
            · exact hs.1
            · exact ih owner body hs.1 inner hinner b hb
            · exact ih owner ns hs.2 rest hrest b hb
      case control s l body =>
        split at h
        · cases h
        · rename_i inner hinner
          split at h
          · cases h
          · rename_i rest hrest
            cases h
            intro b hb
            rcases List.mem_append.1 hb with hb | hb
            · exact ih owner body hs.1 inner hinner b hb
            · exact ih owner ns hs.2 rest hrest b hb
      case apply m l body =>
        split at h
        · cases h
        · rename_i inner hinner
          split at h
          · cases h
          · rename_i rest hrest
            cases h
            intro b hb
            rcases List.mem_append.1 hb with hb | hb
            · exact ih owner body hs.1.2 inner hinner b hb
            · exact ih owner ns hs.2 rest hrest b hb
      case incl name l =>
        split at h
        · cases h
        · rename_i t ht
          split at h
          · cases h
          · rename_i inner hinner
            split at h
            · cases h
            · rename_i rest hrest
              cases h
              intro b hb
              rcases List.mem_append.1 hb with hb | hb
              · exact ih t t.body (hL t (List.mem_of_find?_eq_some ht)) inner hinner b hb
              · exact ih owner ns hs rest hrest b hb
      all_goals
        split at h
        · cases h
        · rename_i rest hrest
          cases h
          intro b hb
          simp only [List.nil_append] at hb
          first
          | exact ih owner ns hs.2 rest hrest b hb
          | exact ih owner ns hs rest hrest b hb

end TornadoModel.C20
