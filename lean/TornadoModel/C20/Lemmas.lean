/- C20 — helper lemmas: the stateful generator (`gen`, mutable `current_template`) equals the owner-passing one (`genO`);
UTF-8 and `xhtml_escape` commute; escaped bytes are safe. -/
import TornadoModel.C19.Lemmas
import TornadoModel.C20.Spec
namespace TornadoModel.C20
open TornadoModel.C19

theorem proj_fail (w : W) (e : GenErr) : proj (w.fail e) = (proj w).fail e := by
  unfold W.fail WO.fail proj; cases h : w.err <;> simp [h]

theorem proj_writeAt (w : W) (i : Nat) (c : Str) (h : Bool) (l : Nat) :
    proj (w.writeAt i c h l) = (proj w).writeAt w.cur w.stack i c h l := rfl

theorem proj_writeAll (w : W) (cs : List Str) (l : Nat) :
    proj (w.writeAll cs l) = (proj w).writeAll w.cur w.stack cs l := by
  unfold W.writeAll WO.writeAll
  induction cs generalizing w with
  | nil => rfl
  | cons c cs ih => simp only [List.foldl_cons]; rw [ih]; rfl

theorem proj_leave {x : W} {t : FileInfo} {l : Nat} {rest : List (FileInfo × Nat)} (h : x.stack = (t, l) :: rest) :
    proj x.leave = proj x := by
  unfold W.leave; rw [h]; rfl

/-- what is known about the body generator while proving the step for one chunk -/
def Agree (g : List Node → W → W) (gO : FileInfo → List (FileInfo × Nat) → List Node → WO → WO) : Prop :=
  ∀ nodes w, proj (g nodes w) = gO w.cur w.stack nodes (proj w) ∧ Inv (g nodes w) w

theorem proj_write' (X : W) (cur : FileInfo) (stack : List (FileInfo × Nat)) (h1 : X.cur = cur) (h2 : X.stack = stack)
    (Y : WO) (hY : proj X = Y) (c : Str) (l : Nat) :
    proj (X.write c l) = Y.writeAt cur stack Y.indent c false l := by
  subst hY; simp [proj, W.write, W.writeAt, WO.writeAt, h1, h2]

theorem proj_close (X : W) (cur : FileInfo) (stack : List (FileInfo × Nat)) (h1 : X.cur = cur) (h2 : X.stack = stack)
    (Y : WO) (hY : proj X = Y) (c : Str) (l : Nat) :
    proj { (X.write c l) with indent := (X.write c l).indent - 1 } =
      { (Y.writeAt cur stack Y.indent c false l) with indent := (Y.writeAt cur stack Y.indent c false l).indent - 1 } := by
  subst hY; simp [proj, W.write, W.writeAt, WO.writeAt, h1, h2]

theorem control_shape (g : List Node → W → W) (gO : FileInfo → List (FileInfo × Nat) → List Node → WO → WO)
    (hg : Agree g gO) (body : List Node) (W1 : W) (c1 : Str) (l : Nat) :
    proj ({ ((g body W1).write c1 l) with indent := ((g body W1).write c1 l).indent - 1 } : W) =
      (let Y := gO W1.cur W1.stack body (proj W1)
       let Y6 := Y.writeAt W1.cur W1.stack Y.indent c1 false l
       { Y6 with indent := Y6.indent - 1 }) := by
  obtain ⟨hp, hs, hc, _⟩ := hg body W1
  exact proj_close _ _ _ hc hs _ hp _ _

theorem apply_shape (g : List Node → W → W) (gO : FileInfo → List (FileInfo × Nat) → List Node → WO → WO)
    (hg : Agree g gO) (body : List Node) (W4 : W) (c1 c2 : Str) (l : Nat) :
    proj (({ ((g body W4).write c1 l) with indent := ((g body W4).write c1 l).indent - 1 } : W).write c2 l) =
      (let Y := gO W4.cur W4.stack body (proj W4)
       let Y6 := Y.writeAt W4.cur W4.stack Y.indent c1 false l
       let Y7 : WO := { Y6 with indent := Y6.indent - 1 }
       Y7.writeAt W4.cur W4.stack Y7.indent c2 false l) := by
  obtain ⟨hp, hs, hc, _⟩ := hg body W4
  exact proj_write' ({ ((g body W4).write c1 l) with indent := ((g body W4).write c1 l).indent - 1 } : W)
    W4.cur W4.stack hc hs _ (proj_close _ _ _ hc hs _ hp _ _) _ _

theorem genNode_eq (L : Loader) (named : List Named) (g : List Node → W → W)
    (gO : FileInfo → List (FileInfo × Nat) → List Node → WO → WO) (hg : Agree g gO) (n : Node) (w : W) :
    proj (genNode L named g n w) = genNodeO L named gO w.cur w.stack n (proj w) := by
  cases n with
  | text v line ws => simp only [genNode, genNodeO]; split <;> rfl
  | expr e line raw => simp only [genNode, genNodeO]; exact proj_writeAll ..
  | stmt s line => rfl
  | inter s line => rfl
  | control s line body =>
    simp only [genNode, genNodeO]
    exact control_shape g gO hg body _ _ _
  | apply m line body =>
    simp only [genNode, genNodeO]
    exact apply_shape g gO hg body _ _ _ _
  | block name line body =>
    simp only [genNode, genNodeO]
    cases hlk : lookupNamed named name with
    | none => exact proj_fail ..
    | some b =>
      obtain ⟨hp, hs, _, _⟩ := hg b.body (w.enter b.owner line)
      simp only []
      rw [proj_leave (by simpa [W.enter] using hs), hp]; rfl
  | «extends» name => exact proj_fail ..
  | incl name line =>
    simp only [genNode, genNodeO]
    cases hlk : L.find name with
    | none => exact proj_fail ..
    | some t =>
      obtain ⟨hp, hs, _, _⟩ := hg t.body (w.enter t line)
      simp only []
      rw [proj_leave (by simpa [W.enter] using hs), hp]; rfl

theorem gen_agree (L : Loader) (named : List Named) (f : Nat) : Agree (gen L named f) (genO L named f) := by
  induction f with
  | zero => intro nodes w; exact ⟨proj_fail .., gen_inv ..⟩
  | succ f ih =>
    intro nodes w
    refine ⟨?_, gen_inv ..⟩
    cases nodes with
    | nil => rfl
    | cons n ns =>
      simp only [gen, genO]
      have he : (proj w).err = w.err := rfl
      rw [he]
      split
      · rfl
      · have hn := genNode_inv L named (gen L named f) (fun a b => (ih a b).2) n w
        rw [(ih ns _).1, hn.1, hn.2.1, genNode_eq L named _ _ ih n w]

/-! ### escaping -/
theorem utf8c_ascii {c : Nat} (h : c < 128) : utf8c c = [c] := by simp [utf8c, h]

theorem utf8c_high {c : Nat} (h : ¬ c < 128) : ∀ b ∈ utf8c c, 128 ≤ b := by
  intro b hb
  unfold utf8c at hb
  simp only [h, if_false] at hb
  split at hb
  · simp at hb; omega
  · split at hb
    · simp at hb; omega
    · simp at hb; omega

theorem escapeChar_high {b : Nat} (h : 128 ≤ b) : escapeChar b = [b] := by
  unfold escapeChar
  have h1 : (b == 38) = false := by simp; omega
  have h2 : (b == 60) = false := by simp; omega
  have h3 : (b == 62) = false := by simp; omega
  have h4 : (b == 34) = false := by simp; omega
  have h5 : (b == 39) = false := by simp; omega
  simp [h1, h2, h3, h4, h5]

theorem escape_high_list (bs : List Nat) (h : ∀ b ∈ bs, 128 ≤ b) : xhtmlEscape bs = bs := by
  induction bs with
  | nil => rfl
  | cons b bs ih =>
    simp only [xhtmlEscape, List.flatMap_cons] at ih ⊢
    rw [escapeChar_high (h b (by simp)), ih (fun x hx => h x (by simp [hx]))]; rfl

theorem escapeChar_ascii (c : Nat) (h : c < 128) : ∀ b ∈ escapeChar c, b < 128 := by
  intro b hb
  unfold escapeChar at hb
  repeat' split at hb
  all_goals simp at hb; omega

theorem utf8_ascii_list (s : Str) (h : ∀ b ∈ s, b < 128) : utf8 s = s := by
  induction s with
  | nil => rfl
  | cons c s ih =>
    simp only [utf8, List.flatMap_cons] at ih ⊢
    rw [utf8c_ascii (h c (by simp)), ih (fun x hx => h x (by simp [hx]))]; rfl

/-- escaping the code points and then encoding = encoding and then escaping the bytes (the five characters are ASCII,
every byte of a multi-byte sequence is ≥ 0x80): the model's byte-level escaping is `utf8(xhtml_escape(to_unicode(b)))` -/
theorem utf8_escape_comm (s : Str) : utf8 (xhtmlEscape s) = xhtmlEscape (utf8 s) := by
  induction s with
  | nil => rfl
  | cons c s ih =>
    have e1 : xhtmlEscape (c :: s) = escapeChar c ++ xhtmlEscape s := by simp [xhtmlEscape]
    have e2 : utf8 (c :: s) = utf8c c ++ utf8 s := by simp [utf8]
    have e3 : ∀ a b : Str, utf8 (a ++ b) = utf8 a ++ utf8 b := by intro a b; simp [utf8]
    have e4 : ∀ a b : Str, xhtmlEscape (a ++ b) = xhtmlEscape a ++ xhtmlEscape b := by intro a b; simp [xhtmlEscape]
    rw [e1, e2, e3, e4, ih]
    congr 1
    by_cases h : c < 128
    · rw [utf8c_ascii h, utf8_ascii_list _ (escapeChar_ascii c h)]; simp [xhtmlEscape]
    · rw [escape_high_list _ (utf8c_high h)]
      have : escapeChar c = [c] := escapeChar_high (by omega)
      rw [this]; simp [utf8]

theorem safe_append_entity (t : Str) (ht : t ∈ entityTails) (rest : List Nat) (h : safe rest = true) :
    safe (38 :: (t ++ rest)) = true := by
  simp only [entityTails, List.mem_cons, List.mem_nil_iff, or_false] at ht
  rcases ht with rfl | rfl | rfl | rfl | rfl <;> simp [safe, entityTails, h, List.isPrefixOf]

theorem safe_escape_cons (c : Nat) (rest : List Nat) (h : safe rest = true) : safe (escapeChar c ++ rest) = true := by
  unfold escapeChar
  split
  · exact safe_append_entity [97, 109, 112, 59] (by simp [entityTails]) rest h
  · split
    · exact safe_append_entity [108, 116, 59] (by simp [entityTails]) rest h
    · split
      · exact safe_append_entity [103, 116, 59] (by simp [entityTails]) rest h
      · split
        · exact safe_append_entity [113, 117, 111, 116, 59] (by simp [entityTails]) rest h
        · split
          · exact safe_append_entity [35, 120, 50, 55, 59] (by simp [entityTails]) rest h
          · rename_i h1 h2 h3 h4 h5
            simp only [List.cons_append, List.nil_append, safe]
            simp at h1 h2 h3 h4 h5
            simp [h1, h2, h3, h4, h5, h]

end TornadoModel.C20
