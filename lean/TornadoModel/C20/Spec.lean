/-
C20 — specification side.

* `genO`: the code generator written the way the property reads — every chunk is generated under the template it
  was **parsed from** (`owner`, passed down structurally; an include / a substituted block switches to the file that
  owns the included body) and the include chain `via`; there is no mutable `current_template`.
* `safe`: a byte string contains none of `< > " '`, and every `&` starts one of the five entities.
* the direct interpreter of C19 (`C19.render`) already escapes by owner; it is the oracle for the outputs.
-/
import TornadoModel.C20.Model
namespace TornadoModel.C20
open TornadoModel.C19

/-- the writer without `current_template` / `include_stack` -/
structure WO where
  lines : List Line
  indent : Nat
  counter : Nat
  err : Option GenErr
  deriving Repr, Inhabited

def proj (w : W) : WO := ⟨w.lines, w.indent, w.counter, w.err⟩

def WO.fail (w : WO) (e : GenErr) : WO := match w.err with | some _ => w | none => { w with err := some e }

def WO.writeAt (w : WO) (owner : FileInfo) (stack : List (FileInfo × Nat)) (indent : Nat) (code : Str) (hdr : Bool)
    (lineno : Nat) : WO :=
  { w with lines := ⟨indent, code, hdr, owner.name, lineno, viaOf stack⟩ :: w.lines }

def WO.writeAll (w : WO) (owner : FileInfo) (stack : List (FileInfo × Nat)) (codes : List Str) (lineno : Nat) : WO :=
  codes.foldl (fun w c => w.writeAt owner stack w.indent c false lineno) w

/-- one chunk, generated for the file `owner` it belongs to -/
def genNodeO (L : Loader) (named : List Named)
    (g : FileInfo → List (FileInfo × Nat) → List Node → WO → WO)
    (owner : FileInfo) (stack : List (FileInfo × Nat)) (n : Node) (w : WO) : WO :=
  match n with
  | .text v line ws =>
    let value := textValue v ws
    if value.isEmpty then w
    else w.writeAt owner stack w.indent ((/-"_tt_append("-/ [95, 116, 116, 95, 97, 112, 112, 101, 110, 100, 40] : List Nat) ++ reprBytes (utf8 value) ++ (/-")"-/ [41] : List Nat)) false line
  | .expr e line raw => w.writeAll owner stack (exprLines e raw owner.autoescape) line
  | .stmt s line => w.writeAt owner stack w.indent s false line
  | .inter s line =>
    let w1 := w.writeAt owner stack w.indent (/-"pass"-/ [112, 97, 115, 115] : List Nat) false line
    w1.writeAt owner stack (w1.indent - 1) (s ++ (/-":"-/ [58] : List Nat)) true line
  | .control s line body =>
    let w1 := w.writeAt owner stack w.indent (s ++ (/-":"-/ [58] : List Nat)) true line
    let w2 := g owner stack body { w1 with indent := w1.indent + 1 }
    let w3 := w2.writeAt owner stack w2.indent (/-"pass"-/ [112, 97, 115, 115] : List Nat) false line
    { w3 with indent := w3.indent - 1 }
  | .apply m line body =>
    let mname := (/-"_tt_apply"-/ [95, 116, 116, 95, 97, 112, 112, 108, 121] : List Nat) ++ dec w.counter
    let w1 := { w with counter := w.counter + 1 }
    let w2 := w1.writeAt owner stack w1.indent ((/-"def "-/ [100, 101, 102, 32] : List Nat) ++ mname ++ (/-"():"-/ [40, 41, 58] : List Nat)) true line
    let w3 := { w2 with indent := w2.indent + 1 }
    let w4 := (w3.writeAt owner stack w3.indent (/-"_tt_buffer = []"-/ [95, 116, 116, 95, 98, 117, 102, 102, 101, 114, 32, 61, 32, 91, 93] : List Nat) false line).writeAt owner stack w3.indent
      (/-"_tt_append = _tt_buffer.append"-/ [95, 116, 116, 95, 97, 112, 112, 101, 110, 100, 32, 61, 32, 95, 116, 116, 95, 98, 117, 102, 102, 101, 114, 46, 97, 112, 112, 101, 110, 100] : List Nat) false line
    let w5 := g owner stack body w4
    let w6 := w5.writeAt owner stack w5.indent (/-"return _tt_utf8('').join(_tt_buffer)"-/ [114, 101, 116, 117, 114, 110, 32, 95, 116, 116, 95, 117, 116, 102, 56, 40, 39, 39, 41, 46, 106, 111, 105, 110, 40, 95, 116, 116, 95, 98, 117, 102, 102, 101, 114, 41] : List Nat) false line
    let w7 := { w6 with indent := w6.indent - 1 }
    w7.writeAt owner stack w7.indent ((/-"_tt_append(_tt_utf8("-/ [95, 116, 116, 95, 97, 112, 112, 101, 110, 100, 40, 95, 116, 116, 95, 117, 116, 102, 56, 40] : List Nat) ++ m ++ (/-"("-/ [40] : List Nat) ++ mname ++ (/-"())))"-/ [40, 41, 41, 41, 41] : List Nat)) false line
  | .block name line _ =>
    match lookupNamed named name with
    | none => w.fail .keyError
    | some b => g b.owner ((owner, line) :: stack) b.body w       -- the file that owns the substituted body
  | .extends _ => w.fail .notImplemented
  | .incl name line =>
    match L.find name with
    | none => w.fail .keyError
    | some t => g t ((owner, line) :: stack) t.body w             -- the included file

def genO (L : Loader) (named : List Named) : Nat → FileInfo → List (FileInfo × Nat) → List Node → WO → WO
  | 0, _, _, _, w => w.fail .fuel
  | _ + 1, _, _, [], w => w
  | f + 1, owner, stack, n :: ns, w =>
    if w.err.isSome then w else genO L named f owner stack ns (genNodeO L named (genO L named f) owner stack n w)

/-! ### safety of a byte string -/
def entityTails : List Str := [(/-"amp;"-/ [97, 109, 112, 59] : List Nat), (/-"lt;"-/ [108, 116, 59] : List Nat), (/-"gt;"-/ [103, 116, 59] : List Nat), (/-"quot;"-/ [113, 117, 111, 116, 59] : List Nat), (/-"#x27;"-/ [35, 120, 50, 55, 59] : List Nat)]

/-- no `< > " '`; every `&` is followed by the rest of one of the five entities -/
def safe : List Nat → Bool
  | [] => true
  | c :: cs =>
    if c == 60 || c == 62 || c == 34 || c == 39 then false
    else if c == 38 then entityTails.any (fun t => t.isPrefixOf cs) && safe cs
    else safe cs

/-! ### strict loaders: the hypothesis of `strict_render_safe` (and of the harness's `strict` oracle) -/
/-- `{% apply f %}` functions of the pool that map safe bytes to safe bytes (`up` does not: `&amp;` → `&AMP;`) -/
def safeFn (m : Str) : Bool :=
  m == (/-"xhtml_escape"-/ [120, 104, 116, 109, 108, 95, 101, 115, 99, 97, 112, 101] : List Nat) ||
  m == (/-"escape"-/ [101, 115, 99, 97, 112, 101] : List Nat) ||
  m == (/-"ident"-/ [105, 100, 101, 110, 116] : List Nat) || m == (/-"wrap"-/ [119, 114, 97, 112] : List Nat)

/-- the file's autoescape setting escapes -/
def escAe : Option Str → Bool
  | some fn => isEscaping fn
  | none => false

/-- a body of a file with autoescape `ae` that cannot emit unescaped data by itself: literal text without markup, every
expression tag non-raw (no `{% raw %}`, no `{% module %}`) and `ae` escaping, `{% apply %}` only with `safeFn`s.  A file
whose setting is `None` qualifies as long as it has no expression tag of its own. -/
def strictNodes (ae : Option Str) : List Node → Bool
  | [] => true
  | .text v _ ws :: ns => safe (utf8 (textValue v ws)) && strictNodes ae ns
  | .expr _ _ raw :: ns => (!raw && escAe ae) && strictNodes ae ns
  | .control _ _ body :: ns => strictNodes ae body && strictNodes ae ns
  | .apply m _ body :: ns => (safeFn m && strictNodes ae body) && strictNodes ae ns
  | .block _ _ body :: ns => strictNodes ae body && strictNodes ae ns
  | .stmt _ _ :: ns => strictNodes ae ns
  | .inter _ _ :: ns => strictNodes ae ns
  | .extends _ :: ns => strictNodes ae ns
  | .incl _ _ :: ns => strictNodes ae ns

def strictFile (t : FileInfo) : Bool := strictNodes t.autoescape t.body

end TornadoModel.C20
