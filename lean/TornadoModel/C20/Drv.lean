/- C20 driver: the C19 operations (`compile`, `render`, …) plus `safe`, `strict`, `exprbytes`, `compileO` -/
import TornadoModel.Base.Wire
import TornadoModel.C19.Drv
import TornadoModel.C20.Spec
namespace TornadoModel.C20.Drv
open TornadoModel TornadoModel.Wire TornadoModel.C19 TornadoModel.C20

/-- `Template.code` computed by the owner-passing generator `genO` -/
def compileO (s : Settings) (srcs : List Source) (entry : Str) : Outcome :=
  let fuel := fuelFor srcs
  match loadAll s srcs fuel [entry] [] with
  | .error (.parse file e) => .parseError file e
  | .error (.missing _) => .genError .keyError
  | .error .fuel => .genError .fuel
  | .ok L =>
    match L.find entry with
    | none => .genError .keyError
    | some t =>
      match plan L fuel t with
      | .error e => .genError e
      | .ok p =>
        let r := p.root
        let w0 : WO := ⟨[], 0, 0, none⟩
        let w1 := w0.writeAt r [] 0 (/-"def _tt_execute():"-/ [100, 101, 102, 32, 95, 116, 116, 95, 101, 120, 101, 99, 117, 116, 101, 40, 41, 58] : List Nat) true 0
        let w2 := { w1 with indent := 1 }
        let w3 := (w2.writeAt r [] 1 (/-"_tt_buffer = []"-/ [95, 116, 116, 95, 98, 117, 102, 102, 101, 114, 32, 61, 32, 91, 93] : List Nat) false 0).writeAt r [] 1 (/-"_tt_append = _tt_buffer.append"-/ [95, 116, 116, 95, 97, 112, 112, 101, 110, 100, 32, 61, 32, 95, 116, 116, 95, 98, 117, 102, 102, 101, 114, 46, 97, 112, 112, 101, 110, 100] : List Nat) false 0
        let w4 := genO L p.named fuel r [] r.body w3
        let w5 := w4.writeAt r [] w4.indent (/-"return _tt_utf8('').join(_tt_buffer)"-/ [114, 101, 116, 117, 114, 110, 32, 95, 116, 116, 95, 117, 116, 102, 56, 40, 39, 39, 41, 46, 106, 111, 105, 110, 40, 95, 116, 116, 95, 98, 117, 102, 102, 101, 114, 41] : List Nat) false 0
        match w5.err with
        | some e => .genError e
        | none => .code w5.lines.reverse

def handle (toks : List String) : String :=
  match toks with
  | "safe" :: [b] =>
    match V.parse b >>= V.byteNats? with
    | some bs => ok [V.ofBool (safe bs)]
    | none => err "bad-arg"
  | "compileO" :: args =>
    match parseArgs args with
    | some [ws, ae, entry, files] =>
      match C19.Drv.decWs ws, C19.Drv.decAe ae, entry.cps?, C19.Drv.decSources files with
      | some ws, some ae, some entry, some srcs => ok (C19.Drv.encOutcome true (compileO ⟨ws, ae⟩ srcs entry))
      | _, _, _, _ => err "bad-arg"
    | _ => err "bad-arg"
  | "strict" :: args =>
    -- the hypothesis of `strict_render_safe`: every file loaded for `entry` is strict
    match parseArgs args with
    | some [ws, ae, entry, files] =>
      match C19.Drv.decWs ws, C19.Drv.decAe ae, entry.cps?, C19.Drv.decSources files with
      | some ws, some ae, some entry, some srcs =>
        match loadAll ⟨ws, ae⟩ srcs (fuelFor srcs) [entry] [] with
        | .ok L => ok [V.ofBool (L.all strictFile)]
        | .error _ => ok [V.ofBool false]
      | _, _, _, _ => err "bad-arg"
    | _ => err "bad-arg"
  | "exprbytes" :: args =>
    match parseArgs args with
    | some [ae, raw, .atom ty, x] =>
      match C19.Drv.decAe ae, raw.bool?, C19.Drv.decAtom ty x with
      | some ae, some raw, some a =>
        match exprBytes ae raw a with
        | .ok bs => ok [.atom "out", V.ofByteNats bs]
        | .error e => ok [.atom "Raised", V.ofCps e]
      | _, _, _ => err "bad-arg"
    | _ => err "bad-arg"
  | _ => C19.Drv.handle toks

end TornadoModel.C20.Drv
