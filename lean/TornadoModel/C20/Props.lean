/-
C20 — property theorems (template autoescaping never emits unescaped data).  Helper lemmas: `Lemmas.lean`.
-/
import TornadoModel.C20.Lemmas
import TornadoModel.C20.Strict
namespace TornadoModel.C20
open TornadoModel.C19

/-- **expr_uses_owner_file_autoescape**: the generator with its mutable `current_template` / `include_stack`
(`gen`) produces exactly the lines, indentation, apply counter and error of the generator that passes the **owning
file** of every chunk down structurally (`genO`): in particular every expression is wrapped by the autoescape function
of the file it was parsed from, inside included, inherited (substituted blocks) and applied bodies, at any nesting —
and after any body `current_template` and the include stack are what they were (`include` restores).
Induction over the fuel/AST with the include stack as invariant (`Agree`, `Inv`). -/
theorem expr_uses_owner_file_autoescape (L : Loader) (named : List Named) (f : Nat) (nodes : List Node) (w : W) :
    proj (gen L named f nodes w) = genO L named f w.cur w.stack nodes (proj w) ∧
    (gen L named f nodes w).cur = w.cur ∧ (gen L named f nodes w).stack = w.stack := by
  obtain ⟨h1, h2, h3, _⟩ := gen_agree L named f nodes w
  exact ⟨h1, h3, h2⟩

/-- in `genO` the lines of an expression chunk are those of `_Expression.generate` for the owner's autoescape -/
theorem genO_expr (L : Loader) (named : List Named) (g) (owner : FileInfo) (stack) (e : Str) (line : Nat) (raw : Bool)
    (w : WO) : genNodeO L named g owner stack (.expr e line raw) w
      = w.writeAll owner stack (exprLines e raw owner.autoescape) line := rfl

/-- an included file is generated under *its own* template, whatever the including file's setting is -/
theorem genO_include (L : Loader) (named : List Named) (g) (owner t : FileInfo) (stack) (name : Str) (line : Nat)
    (w : WO) (h : L.find name = some t) :
    genNodeO L named g owner stack (.incl name line) w = g t ((owner, line) :: stack) t.body w := by
  simp [genNodeO, h]

-- non-vacuity: a file with autoescape None including a file with xhtml_escape: the expression is escaped
example :
    let inc : FileInfo := ⟨[105], [.expr [120] 1 false], some [101]⟩
    let top : FileInfo := ⟨[116], [.incl [105] 1], none⟩
    ((gen [top, inc] [] 9 top.body ⟨[], 0, 0, top, [], none⟩).lines.map (·.code)).contains (escapeLine [101]) = true := by
  decide

/-- **only_raw_escapes_the_filter** (generated code): the escaping line is emitted exactly for non-raw expressions of
a file whose autoescape is not None, directly before `_tt_append(_tt_tmp)`. -/
theorem only_raw_escapes_the_filter (e : Str) (raw : Bool) (ae : Option Str) :
    (∃ fn, ae = some fn ∧ raw = false ∧
        exprLines e raw ae = [[95, 116, 116, 95, 116, 109, 112, 32, 61, 32] ++ e,
          (exprLines e true none)[1]!, (exprLines e true none)[2]!, escapeLine fn, (exprLines e true none)[3]!]) ∨
    ((raw = true ∨ ae = none) ∧ exprLines e raw ae = exprLines e true none) := by
  cases raw <;> cases ae <;> simp [exprLines, escapeLine]

theorem safe_escape (bs : List Nat) : safe (xhtmlEscape bs) = true := by
  induction bs with
  | nil => rfl
  | cons b bs ih =>
    have : xhtmlEscape (b :: bs) = escapeChar b ++ xhtmlEscape bs := by simp [xhtmlEscape]
    rw [this]; exact safe_escape_cons b _ ih

/-- **escaped_output_safe**: with an escaping autoescape function in effect, the bytes appended for an expression tag
are `utf8(xhtml_escape(str(v)))`; they contain none of `< > " '` and `&` only at the head of one of the five
entities — for every value (str, bytes, int, None, bool, object with any `__str__`). -/
theorem escaped_output_safe (fn : Str) (h : isEscaping fn = true) (a : Atom) :
    exprBytes (some fn) false a = .ok (utf8 (xhtmlEscape a.text)) ∧ safe (utf8 (xhtmlEscape a.text)) = true := by
  have hb : exprBytes (some fn) false a = .ok (xhtmlEscape a.toBytes) := by
    unfold isEscaping at h
    simp only [exprBytes, applyFn, h, if_true]
  rw [utf8_escape_comm]
  exact ⟨hb, safe_escape _⟩

example : isEscaping [101, 115, 99, 97, 112, 101] = true := by decide
example : exprBytes (some [101, 115, 99, 97, 112, 101]) false (.obj [60, 38, 39]) =
    .ok [38, 108, 116, 59, 38, 97, 109, 112, 59, 38, 35, 120, 50, 55, 59] := rfl

/-- **strict_render_safe** (run level, outputs): in a loader in which every file is strict — literal text without
markup, every expression tag non-raw in a file whose autoescape function escapes (the default, the loader's, or the
file's own `{% autoescape %}` directive), `{% apply %}` only with functions that preserve escaped text — every
successful `generate()` of every template, with every environment (values of any type and content: strings, bytes,
numbers, None, booleans, objects with arbitrary `__str__`, lists of those as loop items), produces output that contains
none of `< > " '` and `&` only at the head of one of the five entities.  The run goes through `{% include %}`d files,
inherited (`{% extends %}` + substituted `{% block %}`) bodies, `{% apply %}`ed bodies, loops, conditionals,
`try/except/else/finally`, at any nesting.  A file whose setting is `None` may take part as long as it has no
expression tag of its own: the setting of one file never decides how another file's expressions are emitted. -/
theorem strict_render_safe (L : Loader) (hL : ∀ t ∈ L, strictFile t = true) (fuel : Nat) (t : FileInfo)
    (ht : strictFile t = true) (env : Env) (out : List Nat) (h : render L fuel t env = .ok out) :
    safe out = true := by
  unfold render at h
  split at h
  · cases h
  · cases h
  · cases h
  · rename_i p hp
    have hplan : strictFile p.root = true ∧ ∀ b ∈ p.named, strictNodes b.owner.autoescape b.body = true := by
      simp only [plan, bind, Except.bind, pure, Except.pure] at hp
      split at hp
      · cases hp
      · rename_i anc hanc
        have hA := ancestors_strict L hL fuel t ht anc hanc
        split at hp
        · cases hp
        · rename_i nameds hnameds
          split at hp
          · cases hp
          · rename_i root rest hroot
            cases hp
            refine ⟨hA root (List.mem_reverse.1 (by rw [hroot]; exact List.mem_cons_self ..)), ?_⟩
            intro b hb
            obtain ⟨l, hl, hbl⟩ := List.mem_flatten.1 hb
            obtain ⟨a, ha, hg⟩ := mapM_ok_mem _ _ _ hnameds l hl
            exact findNamed_strict L hL fuel a a.body (hA a (List.mem_reverse.1 ha)) l hg b hbl
    have hsafe := (interp_safe_all ⟨L, p.named⟩ ⟨hL, hplan.2⟩ fuel).1 p.root p.root.body [] env hplan.1 rfl
    simp only [] at h
    split at h
    · cases h; exact hsafe
    · cases h
    · cases h

-- non-vacuity: a file with autoescape None includes a file with autoescape `escape` whose expression sits inside
-- `{% apply wrap %}`; both files are strict; with x = an object whose str() is `<&'` the output is `[&lt;&amp;&#x27;]`
example :
    let inc : FileInfo := ⟨[105], [.apply [119, 114, 97, 112] 1 [.expr [120] 1 false]], some [101, 115, 99, 97, 112, 101]⟩
    let top : FileInfo := ⟨[116], [.incl [105] 1], none⟩
    strictFile inc = true ∧ strictFile top = true ∧
    render [top, inc] 9 top [([120], .atom (.obj [60, 38, 39]))] =
      .ok [91, 38, 108, 116, 59, 38, 97, 109, 112, 59, 38, 35, 120, 50, 55, 59, 93] := by
  refine ⟨by simp [strictFile, strictNodes, safeFn, escAe, isEscaping], by simp [strictFile, strictNodes], by rfl⟩
-- and the hypotheses are needed: the same expression made raw is not strict, and its output is not safe
example : strictNodes (some [101, 115, 99, 97, 112, 101]) [.expr [120] 1 true] = false := by simp [strictNodes]
example : safe [60, 38, 39] = false := by decide

/-- **expr_bytes_type_blind**: what an expression tag appends depends only on the text of the value (`str(v)`; the content
of a str/bytes) — never on its type: the generated code has no branch on the type other than str/bytes. -/
theorem expr_bytes_type_blind (ae : Option Str) (raw : Bool) (a b : Atom) (h : a.text = b.text) :
    exprBytes ae raw a = exprBytes ae raw b := by
  unfold exprBytes Atom.toBytes; rw [h]

/-- **number_not_exempt**: a number is converted with `str()` and sent through the file's escape function like every
other value that is not str/bytes.  A value of an int/float *subclass* (IntEnum, `class Q(int)`) whose `__str__` returns
`s` is therefore the model's `.obj s`, and `escaped_output_safe` covers it. -/
theorem number_not_exempt (ae : Option Str) (raw : Bool) (i : Int) :
    exprBytes ae raw (.int i) = exprBytes ae raw (.obj (decInt i)) := expr_bytes_type_blind ae raw _ _ rfl

-- non-vacuity: an "int" whose str() is `<b>` under xhtml_escape gives `&lt;b&gt;`
example : exprBytes (some [120, 104, 116, 109, 108, 95, 101, 115, 99, 97, 112, 101]) false (.obj [60, 98, 62]) =
    .ok [38, 108, 116, 59, 98, 38, 103, 116, 59] := rfl

/-- unescaped data reaches the output only through `raw` (also modules) or `autoescape None` -/
theorem unescaped_only_if_raw_or_none (ae : Option Str) (raw : Bool) (a : Atom)
    (h : exprBytes ae raw a = .ok a.toBytes) (hunsafe : safe a.toBytes = false) :
    raw = true ∨ ae = none ∨ ∃ fn, ae = some fn ∧ isEscaping fn = false := by
  cases raw with
  | true => exact .inl rfl
  | false =>
    cases ae with
    | none => exact .inr (.inl rfl)
    | some fn =>
      refine .inr (.inr ⟨fn, rfl, ?_⟩)
      cases hfn : isEscaping fn with
      | false => rfl
      | true =>
        have := escaped_output_safe fn hfn a
        rw [this.1] at h
        injection h with h
        have hs := this.2
        rw [h] at hs
        rw [hs] at hunsafe; cases hunsafe

/-- the interpreter (specification of the output) appends exactly `exprBytes` of the owner's setting -/
theorem interp_expr (C : Ctx) (f : Nat) (owner : FileInfo) (e : Str) (l : Nat) (raw : Bool) (out : List Nat) (env : Env)
    (a : Atom) (bs : List Nat) (he : evalExpr env e = .ok (.atom a)) (hb : exprBytes owner.autoescape raw a = .ok bs) :
    interp C (f + 2) owner [.expr e l raw] out env = ⟨out ++ bs, env, .normal⟩ := by
  cases raw <;> cases hae : owner.autoescape <;> simp_all [interp, exprBytes]

/-- **autoescape_file_local**: every template of a loader is the parse of its own source under the loader's settings:
an `{% autoescape %}` directive in one file cannot change another file. -/
theorem autoescape_file_local (s : Settings) (srcs : List Source) (f : Nat) (todo : List Str) (acc L : Loader)
    (h : loadAll s srcs f todo acc = .ok L) (hacc : ∀ t ∈ acc, ∃ src ∈ srcs, parseSource s src = .ok t) :
    ∀ t ∈ L, ∃ src ∈ srcs, parseSource s src = .ok t := by
  induction f generalizing todo acc with
  | zero => simp [loadAll] at h
  | succ f ih =>
    cases todo with
    | nil => simp only [loadAll] at h; cases h; exact hacc
    | cons name todo =>
      simp only [loadAll] at h
      split at h
      · exact ih _ _ h hacc
      · split at h
        · cases h
        · rename_i src hsrc
          split at h
          · cases h
          · rename_i t ht
            refine ih _ _ h ?_
            intro t' ht'
            simp only [List.mem_append, List.mem_singleton] at ht'
            rcases ht' with h1 | rfl
            · exact hacc _ h1
            · exact ⟨src, List.mem_of_find?_eq_some hsrc, ht⟩

end TornadoModel.C20
