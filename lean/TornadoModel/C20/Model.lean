/-
C20 — template autoescaping.  The executable model is shared with C19 (`TornadoModel.C19`): `_parse` with the
`{% autoescape %}` directive (`Scan`), `_Expression.generate` (`exprLines`), `_CodeWriter.include` / `current_template`
(`W.enter`, `W.leave`, `genNode`, `gen`) and `xhtml_escape` (`xhtmlEscape`).  This file adds the pieces that are
specific to the property: which autoescape settings escape, and what one expression tag appends.
-/
import TornadoModel.C19.Model
import TornadoModel.C19.Spec
namespace TornadoModel.C20
open TornadoModel.C19

/-- the escaping autoescape functions of the default namespace -/
def isEscaping (fn : Str) : Bool := fn == (/-"xhtml_escape"-/ [120, 104, 116, 109, 108, 95, 101, 115, 99, 97, 112, 101] : List Nat) || fn == (/-"escape"-/ [101, 115, 99, 97, 112, 101] : List Nat)

/-- what `_tt_append(_tt_tmp)` receives for one expression tag evaluated to `a`, in a file whose autoescape is `ae`
(the four or five generated lines, executed): `utf8(str(a))`, then `utf8(fn(…))` unless raw or `ae` is None -/
def exprBytes (ae : Option Str) (raw : Bool) (a : Atom) : Except Str (List Nat) :=
  match raw, ae with
  | false, some fn => applyFn fn a.toBytes
  | _, _ => .ok a.toBytes

/-- the line of generated code that applies the autoescape function -/
def escapeLine (fn : Str) : Str := (/-"_tt_tmp = _tt_utf8("-/ [95, 116, 116, 95, 116, 109, 112, 32, 61, 32, 95, 116, 116, 95, 117, 116, 102, 56, 40] : List Nat) ++ fn ++ (/-"(_tt_tmp))"-/ [40, 95, 116, 116, 95, 116, 109, 112, 41, 41] : List Nat)

end TornadoModel.C20
