/-
C19 — from the generator to the statement tree (helper lemmas for `interp_matches_gen_structure_partial`).

* `parse_flat`: `parseBlock` recovers every statement tree from its lines (`flatList`), for all trees;
* the decidable fragment predicate `frag` on syntax trees (text, expression, raw, `if/elif/else`, `for/else`);
* `emitBody`: the statement tree of a body in the fragment, and `gen_emit`: on the fragment the stateful generator
  `gen` appends exactly the lines of that tree.
-/
import TornadoModel.C19.PySem
import TornadoModel.C19.Lemmas
namespace TornadoModel.C19

/-! ### string helpers -/
theorem dropPrefix?_append (p s : Str) : dropPrefix? p (p ++ s) = some s := by
  induction p with
  | nil => cases s <;> rfl
  | cons c cs ih => simp [dropPrefix?, ih]

theorem dropSuffix?_append (suf a : Str) : dropSuffix? suf (a ++ suf) = some a := by
  unfold dropSuffix?; rw [List.reverse_append, dropPrefix?_append]; simp

theorem unhex_hexDigit (n : Nat) : unhex (hexDigit n) = n := by
  unfold unhex hexDigit
  by_cases h : n < 10
  · simp only [h, if_true]; split <;> omega
  · simp only [h, if_false]; split <;> omega

/-- decoding undoes `repr(bytes)`, byte by byte -/
theorem decLit_step (q : Nat) (hq : q = 39 ∨ q = 34) (b : Nat) (T : Str) (bs : List Nat) (rest : Str)
    (ih : decLit q T = some (bs, rest)) : decLit q (reprByte q b ++ T) = some (b :: bs, rest) := by
  unfold reprByte
  by_cases h1 : (b == q || b == 92) = true
  · simp only [h1, if_true]
    simp only [Bool.or_eq_true, beq_iff_eq] at h1
    rcases hq with rfl | rfl <;> rcases h1 with rfl | rfl <;> (rw [decLit.eq_def]; simp [ih])
  · simp only [h1, if_false]
    simp only [Bool.or_eq_true, beq_iff_eq, not_or] at h1
    obtain ⟨hbq, hb92⟩ := h1
    by_cases h2 : b = 9
    · subst h2; rcases hq with rfl | rfl <;> (rw [decLit.eq_def]; simp [ih])
    · by_cases h3 : b = 10
      · subst h3; rcases hq with rfl | rfl <;> (rw [decLit.eq_def]; simp [ih])
      · by_cases h4 : b = 13
        · subst h4; rcases hq with rfl | rfl <;> (rw [decLit.eq_def]; simp [ih])
        · by_cases h5 : (b < 32 || 127 ≤ b) = true
          · have e : 16 * unhex (hexDigit (b / 16)) + unhex (hexDigit (b % 16)) = b := by
              rw [unhex_hexDigit, unhex_hexDigit]; omega
            rcases hq with rfl | rfl <;> (rw [decLit.eq_def]; simp [ih, h2, h3, h4, h5, e])
          · have hc1 : (b == q) = false := by simpa using hbq
            have hc2 : (b == 92) = false := by simpa using hb92
            simp only [beq_iff_eq, h2, h3, h4, h5, if_false, List.cons_append, List.nil_append]
            rw [decLit.eq_def]; simp [ih, hc1, hc2]

theorem decLit_repr (q : Nat) (hq : q = 39 ∨ q = 34) (bs : List Nat) (rest : Str) :
    decLit q (bs.flatMap (reprByte q) ++ q :: rest) = some (bs, rest) := by
  induction bs with
  | nil => rw [decLit.eq_def]; simp
  | cons b bs ih =>
    rw [List.flatMap_cons, List.append_assoc]
    exact decLit_step q hq b _ bs rest ih

/-! ### classification of the emitted lines -/
theorem classify_pass : classify (/-"pass"-/ [112, 97, 115, 115] : List Nat) = .pass := by rfl
theorem classify_initBuf : classify (/-"_tt_buffer = []"-/ [95, 116, 116, 95, 98, 117, 102, 102, 101, 114, 32, 61, 32, 91, 93] : List Nat) = .initBuf := by rfl
theorem classify_bindAppend : classify (/-"_tt_append = _tt_buffer.append"-/ [95, 116, 116, 95, 97, 112, 112, 101, 110, 100, 32, 61, 32, 95, 116, 116, 95, 98, 117, 102, 102, 101, 114, 46, 97, 112, 112, 101, 110, 100] : List Nat) = .bindAppend := by rfl
theorem classify_retJoin : classify (/-"return _tt_utf8('').join(_tt_buffer)"-/ [114, 101, 116, 117, 114, 110, 32, 95, 116, 116, 95, 117, 116, 102, 56, 40, 39, 39, 41, 46, 106, 111, 105, 110, 40, 95, 116, 116, 95, 98, 117, 102, 102, 101, 114, 41] : List Nat) = .retJoin := by rfl
theorem classify_appendTmp : classify (/-"_tt_append(_tt_tmp)"-/ [95, 116, 116, 95, 97, 112, 112, 101, 110, 100, 40, 95, 116, 116, 95, 116, 109, 112, 41] : List Nat) = .appendTmp := by rfl
theorem classify_convIf : classify (/-"if isinstance(_tt_tmp, _tt_string_types): _tt_tmp = _tt_utf8(_tt_tmp)"-/ [105, 102, 32, 105, 115, 105, 110, 115, 116, 97, 110, 99, 101, 40, 95, 116, 116, 95, 116, 109, 112, 44, 32, 95, 116, 116, 95, 115, 116, 114, 105, 110, 103, 95, 116, 121, 112, 101, 115, 41, 58, 32, 95, 116, 116, 95, 116, 109, 112, 32, 61, 32, 95, 116, 116, 95, 117, 116, 102, 56, 40, 95, 116, 116, 95, 116, 109, 112, 41] : List Nat) = .convIf := by rfl
theorem classify_convElse : classify (/-"else: _tt_tmp = _tt_utf8(str(_tt_tmp))"-/ [101, 108, 115, 101, 58, 32, 95, 116, 116, 95, 116, 109, 112, 32, 61, 32, 95, 116, 116, 95, 117, 116, 102, 56, 40, 115, 116, 114, 40, 95, 116, 116, 95, 116, 109, 112, 41, 41] : List Nat) = .convElse := by rfl
theorem classify_assign (e : Str) :
    classify ((/-"_tt_tmp = "-/ [95, 116, 116, 95, 116, 109, 112, 32, 61, 32] : List Nat) ++ e) = .assignTmp e := by
  unfold classify; rw [dropPrefix?_append]
theorem classify_lit (q : Nat) (body : Str) :
    classify ((/-"_tt_append("-/ [95, 116, 116, 95, 97, 112, 112, 101, 110, 100, 40] : List Nat) ++ 98 :: q :: body) = .appendLit q body := by
  rfl

/-- the escaping line is outside the expression pool -/
theorem evalExpr_esc (env : Env) (r : Str) :
    evalExpr env ((/-"_tt_utf8("-/ [95, 116, 116, 95, 117, 116, 102, 56, 40] : List Nat) ++ r) = .error (/-"Unsupported"-/ [85, 110, 115, 117, 112, 112, 111, 114, 116, 101, 100] : List Nat) := by
  have h1 : isIdent ((/-"_tt_utf8("-/ [95, 116, 116, 95, 117, 116, 102, 56, 40] : List Nat) ++ r) = false := rfl
  have h2 : startsWith (/-"not "-/ [110, 111, 116, 32] : List Nat) ((/-"_tt_utf8("-/ [95, 116, 116, 95, 117, 116, 102, 56, 40] : List Nat) ++ r) = false := rfl
  have h3 : startsWith (/-"_tt_modules."-/ [95, 116, 116, 95, 109, 111, 100, 117, 108, 101, 115, 46] : List Nat) ((/-"_tt_utf8("-/ [95, 116, 116, 95, 117, 116, 102, 56, 40] : List Nat) ++ r) = false := rfl
  simp only [evalExpr, h1, h2, h3, Bool.false_eq_true, if_false]

theorem hdrKind_colon (s : Str) :
    hdrKind (s ++ [58]) =
      (if (partitionSp s).1 == (/-"if"-/ [105, 102] : List Nat) then .ifc (strip (partitionSp s).2)
       else if (partitionSp s).1 == (/-"elif"-/ [101, 108, 105, 102] : List Nat) then .elifc (strip (partitionSp s).2)
       else if (partitionSp s).1 == (/-"for"-/ [102, 111, 114] : List Nat) then
         match splitIn (strip (partitionSp s).2) with
         | some (x, e) => .forc (strip x) (strip e)
         | none => .bad
       else if s == (/-"else"-/ [101, 108, 115, 101] : List Nat) then .elsec
       else if s == (/-"def _tt_execute()"-/ [100, 101, 102, 32, 95, 116, 116, 95, 101, 120, 101, 99, 117, 116, 101, 40, 41] : List Nat) then .defExec
       else .bad) := by
  unfold hdrKind; rw [dropSuffix?_append]; rfl

/-! ### `parseBlock ∘ flatList = id` -/
def Ends (i : Nat) : List Line → Prop
  | [] => True
  | l :: _ => l.indent < i

theorem flatList_append (i : Nat) (a b : List PStmt) : flatList i (a ++ b) = flatList i a ++ flatList i b := by
  induction a with
  | nil => simp [flatList]
  | cons s ss ih => simp [flatList, ih, List.append_assoc]

theorem flat_head (s : PStmt) (i : Nat) : ∃ l ls, s.flat i = l :: ls ∧ l.indent = i := by
  cases s with
  | simple c m => exact ⟨⟨i, c, false, m.file, m.line, m.via⟩, [], by simp [PStmt.flat], rfl⟩
  | block h m body => exact ⟨⟨i, h, true, m.file, m.line, m.via⟩, flatList (i + 1) body, by simp [PStmt.flat], rfl⟩

theorem ends_flat (i : Nat) (ss : List PStmt) (rest : List Line) (h : Ends i rest) :
    Ends (i + 1) (flatList i ss ++ rest) := by
  cases ss with
  | nil =>
    cases rest with
    | nil => simp [flatList, Ends]
    | cons l ls => simp only [Ends] at h; simp only [flatList, List.nil_append, Ends]; omega
  | cons s ss' =>
    obtain ⟨l, ls, h1, h2⟩ := flat_head s i
    simp only [flatList, h1, List.cons_append, Ends, h2]; omega

theorem parse_flat : ∀ (tree : List PStmt) (i f : Nat) (rest : List Line), Ends i rest →
    (flatList i tree).length + 1 ≤ f → parseBlock f i (flatList i tree ++ rest) = some (tree, rest)
  | [], i, f, rest, he, hf => by
    obtain ⟨f', rfl⟩ : ∃ f', f = f' + 1 := ⟨f - 1, by omega⟩
    cases rest with
    | nil => simp [flatList, parseBlock]
    | cons l ls => simp only [Ends] at he; simp [flatList, parseBlock, he]
  | .simple c m :: ss, i, f, rest, he, hf => by
    obtain ⟨f', rfl⟩ : ∃ f', f = f' + 1 := ⟨f - 1, by omega⟩
    simp only [flatList, PStmt.flat, List.length_append, List.length_cons, List.length_nil] at hf
    have ih := parse_flat ss i f' rest he (by omega)
    simp [flatList, PStmt.flat, parseBlock, ih]
  | .block h m body :: ss, i, f, rest, he, hf => by
    obtain ⟨f', rfl⟩ : ∃ f', f = f' + 1 := ⟨f - 1, by omega⟩
    simp only [flatList, PStmt.flat, List.length_append, List.length_cons] at hf
    have ih1 := parse_flat body (i + 1) f' (flatList i ss ++ rest) (ends_flat i ss rest he) (by omega)
    have ih2 := parse_flat ss i f' rest he (by omega)
    simp [flatList, PStmt.flat, parseBlock, List.append_assoc, ih1, ih2]

theorem parseLines_flat (tree : List PStmt) : parseLines (flatList 0 tree) = some tree := by
  unfold parseLines
  have := parse_flat tree 0 ((flatList 0 tree).length + 1) [] trivial (Nat.le_refl _)
  simp only [List.append_nil] at this
  rw [this]

/-! ### the fragment -/
/-- which intermediate blocks may follow at the current level -/
inductive FSt where
  | plain      -- none (top level of a file, a section after `else`)
  | ifChain    -- inside `{% if %}`: `elif …` or `else`
  | forMain    -- inside `{% for %}`: `else`
  | last       -- after `{% else %}`: none
  deriving DecidableEq, Repr, Inhabited

/-- statements of the fragment: `break`, `continue`, and `{% set x = e %}` whose text does not collide with a statement
form of the generator itself (`_tt_tmp = …`, `_tt_append(…)`, `pass` …) -/
def stmtOK (s : Str) : Bool :=
  s == (/-"break"-/ [98, 114, 101, 97, 107] : List Nat) || s == (/-"continue"-/ [99, 111, 110, 116, 105, 110, 117, 101] : List Nat) ||
  (classify s == .other &&
   !(startsWith (/-"import "-/ [105, 109, 112, 111, 114, 116, 32] : List Nat) s || startsWith (/-"from "-/ [102, 114, 111, 109, 32] : List Nat) s) &&
   (splitEq s).isSome)

/-- **the fragment covered by `interp_matches_gen_structure_partial`**: text, `{{ expression }}`, `{% raw %}`
(and `{% module %}`, which is a raw expression), `{% if %}` with any number of `{% elif %}` and a final
`{% else %}`, `{% for %}` with an optional `{% else %}`, `{% set x = e %}`, `{% break %}`, `{% continue %}`, nested
arbitrarily; comments, `{% whitespace %}` and `{% autoescape %}` leave no node.  Excluded: `import`/`from`, `while`,
`try`, `apply`, `block`, `extends`, `include`. -/
def frag : FSt → List Node → Bool
  | _, [] => true
  | st, .text _ _ _ :: ns => frag st ns
  | st, .expr _ _ _ :: ns => frag st ns
  | st, .stmt s _ :: ns => stmtOK s && frag st ns
  | st, .inter s _ :: ns =>
    match st with
    | .ifChain =>
      if s == (/-"else"-/ [101, 108, 115, 101] : List Nat) then frag .last ns
      else ((partitionSp s).1 == (/-"elif"-/ [101, 108, 105, 102] : List Nat) && frag .ifChain ns)
    | .forMain => s == (/-"else"-/ [101, 108, 115, 101] : List Nat) && frag .last ns
    | _ => false
  | st, .control s _ body :: ns =>
    (if (partitionSp s).1 == (/-"if"-/ [105, 102] : List Nat) then frag .ifChain body
     else if (partitionSp s).1 == (/-"for"-/ [102, 111, 114] : List Nat) then frag .forMain body
     else false) && frag st ns
  | _, _ :: _ => false

/-! ### the statement tree of a body -/
def mkPass (file : Str) (via : List (Str × Nat)) (l : Nat) : PStmt := .simple (/-"pass"-/ [112, 97, 115, 115] : List Nat) ⟨file, l, via⟩

/-- the sibling blocks of one control statement: `s:` with its statements, then one block per intermediate
section; every block ends with `pass` (carrying the line of the directive that closed it) -/
def buildBlocks (file : Str) (via : List (Str × Nat)) :
    Str → Nat → List PStmt → List (Nat × Str × List PStmt) → Nat → List PStmt
  | s, l, stmts, [], endl => [.block (s ++ [58]) ⟨file, l, via⟩ (stmts ++ [mkPass file via endl])]
  | s, l, stmts, (l', s', b') :: more, endl =>
    .block (s ++ [58]) ⟨file, l, via⟩ (stmts ++ [mkPass file via l']) :: buildBlocks file via s' l' b' more endl

/-- statements of a body up to its first intermediate block, and the sections behind the intermediate blocks
(line and text of the intermediate block, statements) -/
def emitBody (file : Str) (via : List (Str × Nat)) (ae : Option Str) :
    List Node → List PStmt × List (Nat × Str × List PStmt)
  | [] => ([], [])
  | .inter s l :: ns =>
    let r := emitBody file via ae ns
    ([], (l, s, r.1) :: r.2)
  | .text v l ws :: ns =>
    let r := emitBody file via ae ns
    ((if (textValue v ws).isEmpty then []
      else [.simple ((/-"_tt_append("-/ [95, 116, 116, 95, 97, 112, 112, 101, 110, 100, 40] : List Nat) ++ reprBytes (utf8 (textValue v ws)) ++ (/-")"-/ [41] : List Nat)) ⟨file, l, via⟩]) ++ r.1, r.2)
  | .expr e l raw :: ns =>
    let r := emitBody file via ae ns
    ((exprLines e raw ae).map (fun c => PStmt.simple c ⟨file, l, via⟩) ++ r.1, r.2)
  | .stmt s l :: ns =>
    let r := emitBody file via ae ns
    (.simple s ⟨file, l, via⟩ :: r.1, r.2)
  | .control s l body :: ns =>
    let b := emitBody file via ae body
    let r := emitBody file via ae ns
    (buildBlocks file via s l b.1 b.2 l ++ r.1, r.2)
  | _ :: ns => emitBody file via ae ns

def secLines (file : Str) (via : List (Str × Nat)) (i : Nat) (secs : List (Nat × Str × List PStmt)) : List Line :=
  secs.flatMap (fun p =>
    (⟨i, (/-"pass"-/ [112, 97, 115, 115] : List Nat), false, file, p.1, via⟩ : Line) ::
    (⟨i - 1, p.2.1 ++ [58], true, file, p.1, via⟩ : Line) :: flatList i p.2.2)

/-- the lines of a body as the generator writes them (intermediate blocks: `pass`, then the header one level up) -/
def bodyLines (file : Str) (via : List (Str × Nat)) (i : Nat) (r : List PStmt × List (Nat × Str × List PStmt)) :
    List Line :=
  flatList i r.1 ++ secLines file via i r.2

theorem flat_buildBlocks (file : Str) (via : List (Str × Nat)) (i : Nat) (secs : List (Nat × Str × List PStmt)) :
    ∀ (s : Str) (l : Nat) (a : List PStmt) (endl : Nat),
    flatList i (buildBlocks file via s l a secs endl) =
      (⟨i, s ++ [58], true, file, l, via⟩ : Line) ::
        (bodyLines file via (i + 1) (a, secs) ++ [(⟨i + 1, (/-"pass"-/ [112, 97, 115, 115] : List Nat), false, file, endl, via⟩ : Line)]) := by
  induction secs with
  | nil =>
    intro s l a endl
    simp [buildBlocks, flatList, PStmt.flat, flatList_append, bodyLines, secLines, mkPass]
  | cons p more ih =>
    intro s l a endl
    obtain ⟨l', s', b'⟩ := p
    simp only [buildBlocks, flatList, PStmt.flat, ih s' l' b' endl]
    simp [flatList_append, bodyLines, secLines, mkPass, flatList, PStmt.flat, List.append_assoc]

/-! ### the generator on the fragment -/
theorem fail_err (w : W) (e : GenErr) : (w.fail e).err ≠ none := by
  unfold W.fail; cases h : w.err <;> simp [h]

theorem gen_err_none (L : Loader) (named : List Named) (f : Nat) (nodes : List Node) (w : W)
    (h : (gen L named f nodes w).err = none) : w.err = none := by
  cases f with
  | zero => simp only [gen] at h; exact absurd h (fail_err _ _)
  | succ f =>
    cases nodes with
    | nil => exact h
    | cons n ns =>
      simp only [gen] at h
      split at h
      · exact h
      · rename_i hs; cases he : w.err with
        | none => rfl
        | some e => rw [he] at hs; simp at hs

theorem writeAll_lines (codes : List Str) (l : Nat) (w : W) :
    w.writeAll codes l = { w with lines := (codes.map (fun c => (⟨w.indent, c, false, w.cur.name, l, viaOf w.stack⟩ : Line))).reverse ++ w.lines } := by
  unfold W.writeAll
  induction codes generalizing w with
  | nil => simp
  | cons c cs ih =>
    simp only [List.foldl_cons, ih]
    simp [W.write, W.writeAt]

theorem flat_simples (i : Nat) (codes : List Str) (m : Meta) :
    flatList i (codes.map (fun c => PStmt.simple c m)) = codes.map (fun c => (⟨i, c, false, m.file, m.line, m.via⟩ : Line)) := by
  induction codes with
  | nil => simp [flatList]
  | cons c cs ih => simp [flatList, PStmt.flat, ih]

/-- appending the lines `X` -/
def W.app (w : W) (X : List Line) : W := { w with lines := X.reverse ++ w.lines }

theorem W.app_app (w : W) (X Y : List Line) : (w.app X).app Y = w.app (X ++ Y) := by
  simp [W.app, List.reverse_append, List.append_assoc]

theorem W.app_nil (w : W) : w.app [] = w := by simp [W.app]

theorem gen_emit (L : Loader) (named : List Named) : ∀ (f : Nat) (st : FSt) (nodes : List Node) (w : W),
    frag st nodes = true → (gen L named f nodes w).err = none →
    gen L named f nodes w =
      w.app (bodyLines w.cur.name (viaOf w.stack) w.indent (emitBody w.cur.name (viaOf w.stack) w.cur.autoescape nodes)) := by
  intro f
  induction f with
  | zero => intro st nodes w _ h; simp only [gen] at h; exact absurd h (fail_err _ _)
  | succ f ih =>
    intro st nodes w hfr h
    cases nodes with
    | nil => simp [gen, emitBody, bodyLines, secLines, flatList, W.app]
    | cons n ns =>
      have hw : w.err = none := gen_err_none L named (f + 1) (n :: ns) w h
      simp only [gen, hw, Option.isSome_none, Bool.false_eq_true, if_false] at h ⊢
      have hw' := gen_err_none L named f ns _ h
      cases n with
      | text v l ws =>
        simp only [frag] at hfr
        rw [ih st ns _ hfr h]
        simp only [genNode] at hw' ⊢
        by_cases hv : (textValue v ws).isEmpty = true
        · simp only [hv, if_true, emitBody, bodyLines, flatList_append, flatList, List.nil_append]
        · simp only [hv, if_false, Bool.false_eq_true]
          simp [emitBody, hv, bodyLines, flatList_append, flatList, PStmt.flat, W.app, W.write, W.writeAt, List.append_assoc]
      | expr e l raw =>
        simp only [frag] at hfr
        rw [ih st ns _ hfr h]
        simp only [genNode, writeAll_lines]
        simp [emitBody, bodyLines, flatList_append, flat_simples, W.app, List.append_assoc]
      | inter s l =>
        have hfr' : ∃ st', frag st' ns = true := by
          cases st with
          | ifChain =>
            simp only [frag] at hfr
            split at hfr
            · exact ⟨_, hfr⟩
            · simp only [Bool.and_eq_true] at hfr; exact ⟨_, hfr.2⟩
          | forMain => simp only [frag, Bool.and_eq_true] at hfr; exact ⟨_, hfr.2⟩
          | plain => simp [frag] at hfr
          | last => simp [frag] at hfr
        obtain ⟨st', hfr'⟩ := hfr'
        rw [ih st' ns _ hfr' h]
        simp [genNode, emitBody, bodyLines, secLines, flatList, W.app, W.write, W.writeAt, List.append_assoc]
      | control s l body =>
        simp only [frag, Bool.and_eq_true] at hfr
        obtain ⟨hb, hns⟩ := hfr
        have hb' : ∃ st', frag st' body = true := by
          split at hb
          · exact ⟨_, hb⟩
          · split at hb
            · exact ⟨_, hb⟩
            · cases hb
        obtain ⟨st', hb'⟩ := hb'
        rw [ih st ns _ hns h]
        simp only [genNode] at hw' ⊢
        have hbody := ih st' body _ hb' hw'
        rw [hbody]
        simp [emitBody, bodyLines, flatList_append, flat_buildBlocks, W.app, W.write, W.writeAt, W.writeHdr,
          List.append_assoc, secLines]
      | stmt s l =>
        simp only [frag, Bool.and_eq_true] at hfr
        rw [ih st ns _ hfr.2 h]
        simp [genNode, emitBody, bodyLines, flatList, PStmt.flat, W.app, W.write, W.writeAt, List.append_assoc]
      | apply m l body => simp [frag] at hfr
      | block name l body => simp [frag] at hfr
      | «extends» name => simp [frag] at hfr
      | incl name l => simp [frag] at hfr

end TornadoModel.C19
