/-
C19 — specification side: what a template *means*.

`Interp` is a direct interpreter of the syntax tree over an environment of named values (a fixed expression
pool: identifiers bound to strings / bytes / ints / None / booleans / objects with a `__str__` / lists of
those; `not x`; `M(x)` for modules).  It never looks at generated code.  Each expression is escaped with the
autoescape function of the file **it was parsed from** (`owner`), which is passed down structurally.

The second half gives the specification of `ParseError.lineno`: the line of a source offset.
-/
import TornadoModel.C19.Gen
namespace TornadoModel.C19

/-! ### values -/
inductive Atom where
  | str (s : Str)
  /-- a `bytes` value, given by the text it is the UTF-8 encoding of (values are valid UTF-8 by construction) -/
  | bytes (s : Str)
  | int (i : Int)
  | none
  | bool (b : Bool)
  /-- an object whose `__str__` returns `s` (always truthy) -/
  | obj (s : Str)
  deriving DecidableEq, Repr, Inhabited

inductive Val where
  | atom (a : Atom)
  | list (l : List Atom)
  deriving DecidableEq, Repr, Inhabited

abbrev Env := List (Str × Val)

def Env.get (env : Env) (name : Str) : Option Val := (List.find? (fun p => p.1 == name) env).map (·.2)
def Env.set (env : Env) (name : Str) (v : Val) : Env := (name, v) :: env

def Atom.truthy : Atom → Bool
  | .str s => !s.isEmpty | .bytes s => !s.isEmpty | .int i => i != 0 | .none => false | .bool b => b | .obj _ => true
def Val.truthy : Val → Bool
  | .atom a => a.truthy | .list l => !l.isEmpty

/-- `str(v)` for the non-string atoms; strings and bytes are passed through `_tt_utf8` unchanged -/
def Atom.text : Atom → Str
  | .str s => s | .bytes s => s | .int i => decInt i | .none => (/-"None"-/ [78, 111, 110, 101] : List Nat)
  | .bool true => (/-"True"-/ [84, 114, 117, 101] : List Nat) | .bool false => (/-"False"-/ [70, 97, 108, 115, 101] : List Nat) | .obj s => s

/-- the bytes `_tt_tmp` holds after the two conversion lines of `_Expression.generate` -/
def Atom.toBytes (a : Atom) : List Nat := utf8 a.text

inductive Sig where
  | normal | brk | cont
  | raise (exc : Str)
  deriving DecidableEq, Repr, Inhabited

structure R where
  out : List Nat
  env : Env
  sig : Sig
  deriving Repr, Inhabited

def isIdentStart (c : Nat) : Bool := (65 ≤ c && c ≤ 90) || (97 ≤ c && c ≤ 122) || c == 95
def isIdentChar (c : Nat) : Bool := isIdentStart c || (48 ≤ c && c ≤ 57)
def isIdent (s : Str) : Bool := match s with | [] => false | c :: cs => isIdentStart c && cs.all isIdentChar

/-- evaluation of the expression pool: `x`, `not x`, `_tt_modules.M(x)` (modules return their argument) -/
def evalExpr (env : Env) (e : Str) : Except Str Val :=
  if isIdent e then
    match env.get e with
    | some v => .ok v
    | none => .error (/-"NameError"-/ [78, 97, 109, 101, 69, 114, 114, 111, 114] : List Nat)
  else if startsWith (/-"not "-/ [110, 111, 116, 32] : List Nat) e then
    let x := strip (e.drop 4)
    if isIdent x then
      match env.get x with
      | some v => .ok (.atom (.bool (!v.truthy)))
      | none => .error (/-"NameError"-/ [78, 97, 109, 101, 69, 114, 114, 111, 114] : List Nat)
    else .error (/-"Unsupported"-/ [85, 110, 115, 117, 112, 112, 111, 114, 116, 101, 100] : List Nat)
  else if startsWith (/-"_tt_modules."-/ [95, 116, 116, 95, 109, 111, 100, 117, 108, 101, 115, 46] : List Nat) e then
    let r := e.drop 12
    let nm := r.takeWhile isIdentChar
    let arg := r.dropWhile isIdentChar
    match arg, arg.getLast? with
    | 40 :: inner, some 41 =>
      let x := strip inner.dropLast
      if isIdent nm && isIdent x then
        match env.get x with
        | some v => .ok v
        | none => .error (/-"NameError"-/ [78, 97, 109, 101, 69, 114, 114, 111, 114] : List Nat)
      else .error (/-"Unsupported"-/ [85, 110, 115, 117, 112, 112, 111, 114, 116, 101, 100] : List Nat)
    | _, _ => .error (/-"Unsupported"-/ [85, 110, 115, 117, 112, 112, 111, 114, 116, 101, 100] : List Nat)
  else .error (/-"Unsupported"-/ [85, 110, 115, 117, 112, 112, 111, 114, 116, 101, 100] : List Nat)

/-- ASCII `bytes.upper()` -/
def upperBytes (b : List Nat) : List Nat := b.map (fun c => if 97 ≤ c && c ≤ 122 then c - 32 else c)

/-- the function pool usable in `{% apply f %}` and `{% autoescape f %}`, acting on UTF-8 bytes -/
def applyFn (fn : Str) (b : List Nat) : Except Str (List Nat) :=
  if fn == (/-"xhtml_escape"-/ [120, 104, 116, 109, 108, 95, 101, 115, 99, 97, 112, 101] : List Nat) || fn == (/-"escape"-/ [101, 115, 99, 97, 112, 101] : List Nat) then .ok (xhtmlEscape b)
  else if fn == (/-"ident"-/ [105, 100, 101, 110, 116] : List Nat) then .ok b
  else if fn == (/-"wrap"-/ [119, 114, 97, 112] : List Nat) then .ok (91 :: b ++ [93])
  else if fn == (/-"up"-/ [117, 112] : List Nat) then .ok (upperBytes b)
  else if isIdent fn then .error (/-"NameError"-/ [78, 97, 109, 101, 69, 114, 114, 111, 114] : List Nat) else .error (/-"Unsupported"-/ [85, 110, 115, 117, 112, 112, 111, 114, 116, 101, 100] : List Nat)

/-- split a control body at its intermediate blocks -/
def splitInter : List Node → List Node × List (Str × List Node)
  | [] => ([], [])
  | .inter s _ :: ns =>
    let (a, secs) := splitInter ns
    ([], (s, a) :: secs)
  | n :: ns =>
    let (a, secs) := splitInter ns
    (n :: a, secs)

/-- `a in b` separated by the first occurrence of " in " -/
def splitIn : Str → Option (Str × Str)
  | [] => none
  | c :: cs =>
    if startsWith (/-" in "-/ [32, 105, 110, 32] : List Nat) (c :: cs) then some ([], cs.drop 3)
    else (splitIn cs).map (fun (a, b) => (c :: a, b))

/-- `x = e` (the `{% set %}` statements of the pool) -/
def splitEq (s : Str) : Option (Str × Str) :=
  let a := s.takeWhile (· != 61)
  match s.dropWhile (· != 61) with
  | 61 :: b =>
    let x := strip a
    if isIdent x && !startsWith [61] b then some (x, strip b) else none
  | _ => none

def exceptMatches (clause exc : Str) : Bool :=
  let (_, r) := partitionSp clause
  let t := strip r
  t.isEmpty || t == exc || t == (/-"Exception"-/ [69, 120, 99, 101, 112, 116, 105, 111, 110] : List Nat) || t == (/-"BaseException"-/ [66, 97, 115, 101, 69, 120, 99, 101, 112, 116, 105, 111, 110] : List Nat)

/-- context of an interpretation: loader and table of named blocks -/
structure Ctx where
  L : Loader
  named : List Named

def unsupported (out : List Nat) (env : Env) : R := ⟨out, env, .raise (/-"Unsupported"-/ [85, 110, 115, 117, 112, 112, 111, 114, 116, 101, 100] : List Nat)⟩

mutual
/-- interpret a body.  `owner` = the file the nodes were parsed from. -/
def interp (C : Ctx) : Nat → FileInfo → List Node → List Nat → Env → R
  | 0, _, _, out, env => ⟨out, env, .raise (/-"Fuel"-/ [70, 117, 101, 108] : List Nat)⟩
  | _ + 1, _, [], out, env => ⟨out, env, .normal⟩
  | f + 1, owner, n :: ns, out, env =>
    let r : R :=
      match n with
      | .text v _ ws => ⟨out ++ utf8 (textValue v ws), env, .normal⟩
      | .expr e _ raw =>
        match evalExpr env e with
        | .error x => ⟨out, env, .raise x⟩
        | .ok (.list _) => unsupported out env
        | .ok (.atom a) =>
          let b := a.toBytes
          match raw, owner.autoescape with
          | false, some fn =>
            match applyFn fn b with
            | .ok b' => ⟨out ++ b', env, .normal⟩
            | .error x => ⟨out, env, .raise x⟩
          | _, _ => ⟨out ++ b, env, .normal⟩
      | .stmt s _ =>
        if s == (/-"break"-/ [98, 114, 101, 97, 107] : List Nat) then ⟨out, env, .brk⟩
        else if s == (/-"continue"-/ [99, 111, 110, 116, 105, 110, 117, 101] : List Nat) then ⟨out, env, .cont⟩
        else if startsWith (/-"import "-/ [105, 109, 112, 111, 114, 116, 32] : List Nat) s || startsWith (/-"from "-/ [102, 114, 111, 109, 32] : List Nat) s then ⟨out, env, .normal⟩
        else
          match splitEq s with
          | some (x, e) =>
            match evalExpr env e with
            | .ok v => ⟨out, env.set x v, .normal⟩
            | .error exc => ⟨out, env, .raise exc⟩
          | none => unsupported out env
      | .inter _ _ => unsupported out env      -- only meaningful directly inside a control body (handled there)
      | .control s _ body => interpControl C f owner s body out env
      | .apply m _ body =>
        let r := interp C f owner body [] env
        match r.sig with
        | .normal =>
          match applyFn m r.out with
          | .ok b => ⟨out ++ b, env, .normal⟩
          | .error x => ⟨out, env, .raise x⟩
        | .raise x => ⟨out, env, .raise x⟩
        | _ => unsupported out env
      | .block name _ _ =>
        match lookupNamed C.named name with
        | none => ⟨out, env, .raise (/-"KeyError"-/ [75, 101, 121, 69, 114, 114, 111, 114] : List Nat)⟩
        | some b => interp C f b.owner b.body out env
      | .extends _ => ⟨out, env, .raise (/-"NotImplementedError"-/ [78, 111, 116, 73, 109, 112, 108, 101, 109, 101, 110, 116, 101, 100, 69, 114, 114, 111, 114] : List Nat)⟩
      | .incl name _ =>
        match C.L.find name with
        | none => ⟨out, env, .raise (/-"KeyError"-/ [75, 101, 121, 69, 114, 114, 111, 114] : List Nat)⟩
        | some t => interp C f t t.body out env
    match r.sig with
    | .normal => interp C f owner ns r.out r.env
    | _ => r

/-- `if/elif/else`, `for … else`, `while … else`, `try/except/else/finally` -/
def interpControl (C : Ctx) : Nat → FileInfo → Str → List Node → List Nat → Env → R
  | 0, _, _, _, out, env => ⟨out, env, .raise (/-"Fuel"-/ [70, 117, 101, 108] : List Nat)⟩
  | f + 1, owner, s, body, out, env =>
    let (op, rest) := partitionSp s
    let arg := strip rest
    let (main, secs) := splitInter body
    if op == (/-"if"-/ [105, 102] : List Nat) then interpIf C f owner ((s, main) :: secs) out env
    else if op == (/-"for"-/ [102, 111, 114] : List Nat) then
      match splitIn arg with
      | none => unsupported out env
      | some (x, e) =>
        let x := strip x
        if !isIdent x then unsupported out env else
        match evalExpr env (strip e) with
        | .error exc => ⟨out, env, .raise exc⟩
        | .ok (.atom _) => unsupported out env
        | .ok (.list items) => interpFor C f owner x items main secs out env
    else if op == (/-"while"-/ [119, 104, 105, 108, 101] : List Nat) then interpWhile C f owner arg main secs out env
    else if op == (/-"try"-/ [116, 114, 121] : List Nat) && arg.isEmpty then
      let r := interp C f owner main out env
      let excepts := secs.filter (fun p => startsWith (/-"except"-/ [101, 120, 99, 101, 112, 116] : List Nat) p.1)
      let elses := secs.filter (fun p => p.1 == (/-"else"-/ [101, 108, 115, 101] : List Nat))
      let finals := secs.filter (fun p => p.1 == (/-"finally"-/ [102, 105, 110, 97, 108, 108, 121] : List Nat))
      let r1 : R :=
        match r.sig with
        | .raise exc =>
          if exc == (/-"Unsupported"-/ [85, 110, 115, 117, 112, 112, 111, 114, 116, 101, 100] : List Nat) || exc == (/-"Fuel"-/ [70, 117, 101, 108] : List Nat) then r else
          match excepts.find? (fun p => exceptMatches p.1 exc) with
          | some (_, h) => interp C f owner h r.out r.env
          | none => r
        | .normal =>
          match elses with
          | (_, e) :: _ => interp C f owner e r.out r.env
          | [] => r
        | _ => r
      match finals with
      | (_, fin) :: _ =>
        let r2 := interp C f owner fin r1.out r1.env
        match r2.sig with
        | .normal => ⟨r2.out, r2.env, r1.sig⟩
        | _ => r2
      | [] => r1
    else unsupported out env

def interpIf (C : Ctx) : Nat → FileInfo → List (Str × List Node) → List Nat → Env → R
  | 0, _, _, out, env => ⟨out, env, .raise (/-"Fuel"-/ [70, 117, 101, 108] : List Nat)⟩
  | _ + 1, _, [], out, env => ⟨out, env, .normal⟩
  | f + 1, owner, (s, sec) :: more, out, env =>
    if s == (/-"else"-/ [101, 108, 115, 101] : List Nat) then interp C f owner sec out env
    else
      let (_, rest) := partitionSp s      -- `if c` / `elif c`
      match evalExpr env (strip rest) with
      | .error exc => ⟨out, env, .raise exc⟩
      | .ok v => if v.truthy then interp C f owner sec out env else interpIf C f owner more out env

def interpFor (C : Ctx) : Nat → FileInfo → Str → List Atom → List Node → List (Str × List Node) → List Nat → Env → R
  | 0, _, _, _, _, _, out, env => ⟨out, env, .raise (/-"Fuel"-/ [70, 117, 101, 108] : List Nat)⟩
  | f + 1, owner, _, [], _, secs, out, env =>
    match secs with
    | (_, e) :: _ => interp C f owner e out env       -- `else` of a loop that was not left by `break`
    | [] => ⟨out, env, .normal⟩
  | f + 1, owner, x, a :: items, main, secs, out, env =>
    let r := interp C f owner main out (env.set x (.atom a))
    match r.sig with
    | .normal | .cont => interpFor C f owner x items main secs r.out r.env
    | .brk => ⟨r.out, r.env, .normal⟩
    | .raise _ => r

def interpWhile (C : Ctx) : Nat → FileInfo → Str → List Node → List (Str × List Node) → List Nat → Env → R
  | 0, _, _, _, _, out, env => ⟨out, env, .raise (/-"Fuel"-/ [70, 117, 101, 108] : List Nat)⟩
  | f + 1, owner, cond, main, secs, out, env =>
    match evalExpr env cond with
    | .error exc => ⟨out, env, .raise exc⟩
    | .ok v =>
      if v.truthy then
        let r := interp C f owner main out env
        match r.sig with
        | .normal | .cont => interpWhile C f owner cond main secs r.out r.env
        | .brk => ⟨r.out, r.env, .normal⟩
        | .raise _ => r
      else
        match secs with
        | (_, e) :: _ => interp C f owner e out env
        | [] => ⟨out, env, .normal⟩
end

/-- the outcome of `Template.generate(**env)`: output bytes or the type name of the exception -/
def render (L : Loader) (fuel : Nat) (t : FileInfo) (env : Env) : Except Str (List Nat) :=
  match plan L fuel t with
  | .error .fuel => .error (/-"Fuel"-/ [70, 117, 101, 108] : List Nat)
  | .error .keyError => .error (/-"KeyError"-/ [75, 101, 121, 69, 114, 114, 111, 114] : List Nat)
  | .error .notImplemented => .error (/-"NotImplementedError"-/ [78, 111, 116, 73, 109, 112, 108, 101, 109, 101, 110, 116, 101, 100, 69, 114, 114, 111, 114] : List Nat)
  | .ok p =>
    let r := interp ⟨L, p.named⟩ fuel p.root p.root.body [] env
    match r.sig with
    | .normal => .ok r.out
    | .raise x => .error x
    | _ => .error (/-"Unsupported"-/ [85, 110, 115, 117, 112, 112, 111, 114, 116, 101, 100] : List Nat)

/-! ### the line of a source offset (specification of `ParseError.lineno`) -/
/-- 1 + number of `\n` among the first `pos` code points -/
def lineAt (text : Str) (pos : Nat) : Nat := 1 + countNl (text.take pos)

/-! ### Python's rule for `break` / `continue`, read off the generated line list -/
def hdrIsLoop (c : Str) : Bool := startsWith (/-"for "-/ [102, 111, 114, 32] : List Nat) c || startsWith (/-"while "-/ [119, 104, 105, 108, 101, 32] : List Nat) c
def hdrIsDef (c : Str) : Bool := startsWith (/-"def "-/ [100, 101, 102, 32] : List Nat) c

/-- the innermost enclosing header that decides: a loop (fine), or a function definition / nothing (SyntaxError) -/
def inLoopStack : List (Nat × Str) → Bool
  | [] => false
  | (_, c) :: rest => if hdrIsLoop c then true else if hdrIsDef c then false else inLoopStack rest

/-- walk the lines with the stack of open headers (innermost first, found by indentation): every `break` / `continue`
line must be inside a `for` / `while` block of the same function -/
def loopOKFrom (stack : List (Nat × Str)) : List Line → Bool
  | [] => true
  | l :: ls =>
    let st := stack.dropWhile (fun p => l.indent ≤ p.1)
    (if l.code == (/-"break"-/ [98, 114, 101, 97, 107] : List Nat) || l.code == (/-"continue"-/ [99, 111, 110, 116, 105, 110, 117, 101] : List Nat) then inLoopStack st else true) &&
      loopOKFrom (if l.hdr then (l.indent, l.code) :: st else st) ls

/-- CPython compiles the generated module without "'break' outside loop" / "'continue' not properly in loop" -/
def loopOK (lines : List Line) : Bool := loopOKFrom [] lines

end TornadoModel.C19
