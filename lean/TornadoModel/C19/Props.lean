/-
C19 — property theorems (compiled templates produce what the template language defines).
Helper lemmas: `Lemmas.lean`.  Everything here is universally quantified; the `example`s show the hypotheses
are satisfiable by non-trivial inputs.
-/
import TornadoModel.C19.Lemmas
import TornadoModel.C19.FilterSingle
import TornadoModel.C19.PyCorr
namespace TornadoModel.C19

/-! ### the reader -/

/-- **lex_src** (general form of `text_verbatim`): the reader neither drops nor invents a code point — the
sources of the tokens (text, `{x!` escapes, directives with their markers, the unterminated rest) concatenate
to the input, for every input. -/
theorem lex_src (text : Str) : (lex text).1.flatMap Tok.src ++ (lex text).2.src = text := by
  simpa [lex] using (lex_good.1 [] 1 text).1

/-- **lex_line_invariant**: every line number attached to a token is `reader.line` as defined by the text:
1 + the newlines of the source consumed so far (`walk` threads exactly that quantity). -/
theorem lex_line_invariant (text : Str) : walk 1 (lex text).1 (lex text).2 := (lex_good.1 [] 1 text).2

/-- **scan_total**: `_parse` terminates on every input with a body or a `ParseError` carrying a line; the model
is structurally recursive over the input (no fuel), and `lex_src` shows that it reached the end of the input. -/
theorem scan_total (ws : Ws) (ae : Option Str) (text : Str) :
    (∃ e, scan ws ae text = .error e) ∨ (∃ p, scan ws ae text = .ok p) := by
  cases h : scan ws ae text with
  | error e => exact .inl ⟨e, rfl⟩
  | ok p => exact .inr ⟨p, rfl⟩

/-- no `{` is followed by `{`, `%` or `#` -/
def noOpen : Str → Bool
  | c :: c2 :: rest => !(c == 123 && isOpen2 c2) && noOpen (c2 :: rest)
  | _ => true

theorem lexText_noOpen (acc : Str) (line : Nat) (s : Str) (h : noOpen s = true) :
    lexText acc line s = ([], .eof line (acc.reverse ++ s) (line + countNl (acc.reverse ++ s))) := by
  induction s generalizing acc with
  | nil => simp [lexText, countNl_reverse]
  | cons c s ih =>
    cases s with
    | nil =>
      simp only [lexText, List.reverse_cons]
      rw [countNl_append, countNl_reverse, countNl_cons, countNl_cons]; simp [countNl]; omega
    | cons c2 rest =>
      simp only [noOpen, Bool.and_eq_true, Bool.not_eq_true'] at h
      rw [lexText.eq_def]
      simp only [h.1]
      have := ih (c :: acc) h.2
      simpa using this

/-- **text_verbatim**: a template without `{{`, `{%`, `{#` is one text node equal to the input, whatever else it
contains (single braces, `}}`, quotes, backslashes, `!`, any Unicode), and nothing else happens to it. -/
theorem text_verbatim (ws : Ws) (ae : Option Str) (text : Str) (h : noOpen text = true) :
    scan ws ae text = .ok ⟨[.text text (1 + countNl text) ws], ae⟩ := by
  simp [scan, lex, lexText_noOpen [] 1 text h, build, finish]

example : noOpen [123, 32, 123, 125, 125, 34, 92, 33, 233] = true := by decide

/-- **text_only_output**: generating such a template yields exactly the UTF-8 bytes of the text after the selected
whitespace filtering (byte-for-byte in mode `all`, and for any text containing `<pre>`). -/
theorem text_only_output (name : Str) (ws : Ws) (ae : Option Str) (text : Str) (l : Nat) (fuel : Nat) (env : Env) :
    render [⟨name, [.text text l ws], ae⟩] (fuel + 2) ⟨name, [.text text l ws], ae⟩ env
      = .ok (utf8 (textValue text ws)) := by
  simp [render, plan, ancestors, extendsOf, findNamed, interp, bind, Except.bind, pure, Except.pure, List.mapM_cons,
    List.mapM_nil]

theorem textValue_all (text : Str) : textValue text .all = text := by
  unfold textValue; split <;> rfl

/-- **escape_sequences**: `{{!`, `{%!`, `{#!` produce the two-character marker as literal text and the reader goes on
behind the `!`. -/
theorem escape_sequences (c2 : Nat) (rest : Str) (h : isOpen2 c2 = true) :
    lex (123 :: c2 :: 33 :: rest) = (.esc c2 1 :: (lexText [] 1 rest).1, (lexText [] 1 rest).2) ∧
    ∀ st l, stepTok st (.esc c2 l) = .ok (push st (.text [123, c2] l st.ws)) := by
  refine ⟨?_, fun _ _ => rfl⟩
  unfold lex
  rw [lexText]
  have h3 : (c2 == 123 && (33 : Nat) == 123) = false := by simp
  simp [h, h3, flushText, countNl]

/-- **triple_brace_innermost**: of three or more braces the innermost two open the directive; the outer ones are text. -/
theorem triple_brace_innermost (acc : Str) (line : Nat) (rest : Str) :
    lexText acc line (123 :: 123 :: 123 :: rest) = lexText (123 :: acc) line (123 :: 123 :: rest) := by
  rw [lexText]; simp [isOpen2]

/-- **parse_error_line**: whatever error `_parse` raises, the reported line is 1 + the number of newlines before an
offset of the source (the end of the offending directive, or its start when it is not terminated): the reader's
line counter never drifts, for every input. -/
theorem parse_error_line (ws : Ws) (ae : Option Str) (text : Str) (e : PErr) (h : scan ws ae text = .error e) :
    ∃ pos, pos ≤ text.length ∧ e.line = lineAt text pos := by
  unfold scan lex at h
  have g := lex_good.1 [] 1 text
  generalize lexText [] 1 text = r at h g
  obtain ⟨ts, f⟩ := r
  simp only at h g
  obtain ⟨j, hj, hn⟩ := errLines_pos g.2 (build_err h)
  rw [g.1] at hj hn
  exact ⟨j, by simpa using hj, by simpa [lineAt] using hn⟩

-- non-vacuity: an unknown operator on line 3 of a three-line template is reported on line 3
example : scan .all none [97, 10, 10, 123, 37, 120, 37, 125] = .error ⟨.unknownOp, 3⟩ := rfl
example : lineAt [97, 10, 10, 123, 37, 120, 37, 125] 8 = 3 := by decide

theorem lineAt_prefix (A B : Str) : lineAt (A ++ B) A.length = 1 + countNl A := by simp [lineAt]

/-- **parse_error_located**: every `ParseError` names the line of *the* offending directive.  Either
(a) the error is raised by a complete directive `T = {x … x}`: every token before it was accepted by the builder (state
`st`), `T` is the first one `stepTok` rejects — with exactly the reported error —, its source sits in the template at
offset `|A|` (`A` = source of the accepted tokens), it opens on line `lineAt text |A|` and the reported line is the line
of the offset just behind its closing marker (`reader.line` after the directive has been consumed; the line of the
directive itself unless it spans several lines); or
(b) all complete directives were accepted and the input ran out (`Missing {% end %}`, a directive that is never
closed): the reported line is that of the offset where the remaining text / the unclosed directive starts. -/
theorem parse_error_located (ws : Ws) (ae : Option Str) (text : Str) (e : PErr) (h : scan ws ae text = .error e) :
    (∃ pre k c l post st rest,
        (lex text).1 = pre ++ Tok.tag k c l e.line :: post ∧
        runToks ⟨ws, ae, [], []⟩ pre = .ok st ∧ stepTok st (.tag k c l e.line) = .error e ∧
        text = pre.flatMap Tok.src ++ (Tok.tag k c l e.line).src ++ rest ∧
        l = lineAt text (pre.flatMap Tok.src).length ∧
        e.line = lineAt text ((pre.flatMap Tok.src).length + (Tok.tag k c l e.line).src.length)) ∨
    (∃ st, runToks ⟨ws, ae, [], []⟩ (lex text).1 = .ok st ∧ finish st (lex text).2 = .error e ∧
        text = (lex text).1.flatMap Tok.src ++ (lex text).2.src ∧
        e.line = lineAt text ((lex text).1.flatMap Tok.src).length) := by
  have hsrc := lex_src text
  have hw := lex_line_invariant text
  unfold scan at h
  generalize lex text = r at h hsrc hw ⊢
  obtain ⟨ts, f⟩ := r
  simp only at h hsrc hw ⊢
  rcases build_err_split h with ⟨pre, t, post, st, rfl, hr, he⟩ | ⟨st, hr, he⟩
  · obtain ⟨k, c, l, rfl⟩ := stepTok_err he
    have hw' := walk_split hw
    simp only [walk] at hw'
    obtain ⟨hl, hle, _⟩ := hw'
    have htext : text = pre.flatMap Tok.src ++ (Tok.tag k c l e.line).src ++ (post.flatMap Tok.src ++ f.src) := by
      rw [← hsrc]; simp [List.flatMap_append, List.flatMap_cons]
    refine .inl ⟨pre, k, c, l, post, st, _, rfl, hr, he, htext, ?_, ?_⟩
    · rw [htext, List.append_assoc, lineAt_prefix, hl]
    · rw [htext, ← List.length_append, lineAt_prefix, countNl_append, countNl_tag_src, hle, Nat.add_assoc]
  · have hw' := walk_split (rest := []) (by simpa using hw)
    refine .inr ⟨st, hr, he, hsrc.symm, ?_⟩
    rw [← hsrc, lineAt_prefix]
    cases f with
    | eof l r le =>
      simp only [walk] at hw'
      simp only [finish] at he
      split at he
      · cases he; exact hw'.1
      · cases he
    | unterminated k l r =>
      simp only [walk] at hw'
      cases k <;> simp only [finish] at he <;> cases he <;> exact hw'

-- non-vacuity (a): `a\n\n{%x%}`: the unknown operator is the first (and only) directive, at offset 3, line 3
example : (lex [97, 10, 10, 123, 37, 120, 37, 125]).1 = [.text [97, 10, 10] 3, .tag .block [120] 3 3] := by rfl
example : stepTok ⟨.all, none, [], [.text [97, 10, 10] 3 .all]⟩ (.tag .block [120] 3 3) = .error ⟨.unknownOp, 3⟩ := by rfl
-- (a) with an earlier accepted directive and a directive spanning two lines: `{%if x%}{%end%}{{\n}}` reports line 2
example : scan .all none [123, 37, 105, 102, 32, 120, 37, 125, 123, 37, 101, 110, 100, 37, 125, 123, 123, 10, 125, 125]
    = .error ⟨.emptyExpr, 2⟩ := by rfl
-- (b) `a\n{%if x%}\nb`: input runs out on line 3 with the `if` open
example : scan .all none [97, 10, 123, 37, 105, 102, 32, 120, 37, 125, 10, 98] = .error ⟨.missingEnd, 2⟩ := by rfl

/-- **unterminated_error_line**: a directive that is never closed is reported on the line of its opening marker. -/
theorem unterminated_error_line (k : TagKind) (acc : Str) (l0 : Nat) (s : Str) (st : BState) (e : PErr)
    (h : finish st (lexTag k acc l0 s).2 = .error e) (hts : (lexTag k acc l0 s).1 = []) : e.line = l0 := by
  have w := (lex_good.2 k acc l0 s).2
  rw [hts] at w
  cases hf : (lexTag k acc l0 s).2 with
  | eof l r le => rw [hf] at w; simp [walk] at w; rw [hf] at h; simp only [finish] at h; split at h <;> cases h; exact w.1
  | unterminated k' l r =>
    rw [hf] at w h; simp [walk] at w
    cases k' <;> simp only [finish] at h <;> cases h <;> exact w

/-! ### whitespace filtering -/

theorem filter_all_identity (s : Str) : filterWhitespace .all s = s := rfl

theorem collapse_idem (cls : Nat → Bool) (h32 : cls 32 = true) (s : Str) :
    collapseRuns cls false (collapseRuns cls false s) = collapseRuns cls false s ∧
    collapseRuns cls true (collapseRuns cls true s) = collapseRuns cls true s := by
  induction s with
  | nil => simp [collapseRuns]
  | cons c cs ih =>
    by_cases hc : cls c = true
    · simp [collapseRuns, hc, h32, ih.2]
    · simp [collapseRuns, hc, ih.1]

theorem filter_oneline_idempotent (s : Str) :
    filterWhitespace .oneline (filterWhitespace .oneline s) = filterWhitespace .oneline s :=
  (collapse_idem isSpace (by decide) s).1

/-- **filter_single_idempotent**: mode `single` (`[\t ]+` → one space, then every whitespace run containing a newline →
one newline) is idempotent.  After the first application there is no tab and no two adjacent blanks (`noBB`), so the
first substitution is the identity; the second substitution is idempotent on every text (`nlRuns_idem`). -/
theorem filter_single_idempotent :
    ∀ s, filterWhitespace .single (filterWhitespace .single s) = filterWhitespace .single s := by
  intro s
  show nlRuns [] false (collapseRuns isBlank false (nlRuns [] false (collapseRuns isBlank false s))) = _
  rw [collapse_noBB false _ (noBB_nlRuns [] false _ (by simpa using noBB_collapse false s))]
  exact nlRuns_idem [] false _ (by simp) (by simp)

/-- **filter_idempotent** for the modes `all` and `oneline` -/
theorem filter_idempotent (m : Ws) (hm : m ≠ .single) (s : Str) :
    filterWhitespace m (filterWhitespace m s) = filterWhitespace m s := by
  cases m with
  | all => rfl
  | single => exact absurd rfl hm
  | oneline => exact filter_oneline_idempotent s

/-- **filter_whitespace_idempotent**: every whitespace mode is idempotent -/
theorem filter_whitespace_idempotent (m : Ws) (s : Str) :
    filterWhitespace m (filterWhitespace m s) = filterWhitespace m s := by
  cases m with
  | all => rfl
  | single => exact filter_single_idempotent s
  | oneline => exact filter_oneline_idempotent s

/-! ### the generator -/

/-- **gen_balanced**: generating any body, through any includes and block substitutions, leaves the indentation
where it was — every `indent()` is closed. -/
theorem gen_balanced (L : Loader) (named : List Named) (f : Nat) (nodes : List Node) (w : W) :
    (gen L named f nodes w).indent = w.indent := gen_indent L named f nodes w

/-- **gen_stack_balanced**: likewise the include stack and `current_template` are restored, and lines are only
appended (nothing already written is touched). -/
theorem gen_stack_balanced (L : Loader) (named : List Named) (f : Nat) (nodes : List Node) (w : W) :
    (gen L named f nodes w).stack = w.stack ∧ (gen L named f nodes w).cur = w.cur ∧
    ∃ new, (gen L named f nodes w).lines = new ++ w.lines := gen_inv L named f nodes w

/-- **control_body_nonempty**: a control block is a header line at the current indentation, the body one level
deeper, and a final `pass` one level deeper — so the Python block is never empty, whatever the body generates. -/
theorem control_body_nonempty (L : Loader) (named : List Named) (f : Nat) (s : Str) (line : Nat) (body : List Node)
    (w : W) (hw : w.err = none) :
    ∃ mid, (gen L named (f + 2) [.control s line body] w).lines =
        (⟨w.indent + 1, [112, 97, 115, 115], false, w.cur.name, line, viaOf w.stack⟩ :: mid) ++
        (⟨w.indent, s ++ [58], true, w.cur.name, line, viaOf w.stack⟩ :: w.lines) := by
  have hb := gen_inv L named (f + 1) body { (w.writeHdr (s ++ [58]) line) with indent := w.indent + 1 }
  have hi := gen_indent L named (f + 1) body { (w.writeHdr (s ++ [58]) line) with indent := w.indent + 1 }
  obtain ⟨hs, hc, new, hl⟩ := hb
  refine ⟨new, ?_⟩
  simp only [W.writeHdr, W.writeAt, hw] at hs hc hl hi
  simp [W.write, W.writeAt, W.writeHdr, gen, genNode, hw, hs, hc, hl, hi]

/-! ### the generated Python means what the interpreter says (`PySem.lean`, `PyEmit.lean`, `PyCorr.lean`)

`pyRun : List Line → Env → Except Str (List Nat)` is a big-step semantics of the generated line list: block structure
from indentation (`parseLines`), then `execList` over exactly the statement forms the generator emits (bytes literals are
decoded again, `_tt_tmp` conversion/escaping lines one by one, `if/elif/else`, `for/else`, `pass`, prologue and `return`).
Expressions, truthiness and the function pool are those of the Spec (`evalExpr`, `applyFn`). -/

/-- **interp_matches_gen_structure_partial**: for every template of the fragment `frag` — text, `{{ expression }}`,
`{% raw %}` / `{% module %}`, `{% if %}` with any number of `{% elif %}` and a final `{% else %}`, `{% for %}` over a
finite list with an optional `{% else %}`, `{% set x = e %}`, `{% break %}`, `{% continue %}`, nested arbitrarily, under any
whitespace mode and any autoescape function (comments, `{% whitespace %}`, `{% autoescape %}` leave no node) — the output of
the direct interpreter is the denotation of the generated Python line list.  The side condition `stmtOK` on `set` is
necessary: `{% set _tt_tmp = x %}{{ _tt_tmp }}` collides with the generator's own temporary.  Not covered (the remaining
part of the goal): `import`/`from`, `while`, `try`, `apply`, `block`/`extends`/`include`. -/
theorem interp_matches_gen_structure_partial (L : Loader) (t : FileInfo) (env : Env) (fuel : Nat) (lines : List Line)
    (out : List Nat) (hfrag : frag .plain t.body = true) (hgen : generatePython L fuel t = .ok lines)
    (hr : render L fuel t env = .ok out) : pyRun lines env = .ok out := by
  rw [← hr]
  exact pyRun_render L t env fuel lines hfrag hgen (by rw [hr]; simp) (by rw [hr]; simp)

/-- **interp_matches_gen_outcome_partial**: on the same fragment also the exceptions agree (`NameError` of an unbound
name, in the same place and with the same output so far discarded), whenever the interpreter's outcome is defined by
the template language: not `Fuel` (the interpreter's own fuel) and not `Unsupported` (outside the Spec's expression pool). -/
theorem interp_matches_gen_outcome_partial (L : Loader) (t : FileInfo) (env : Env) (fuel : Nat) (lines : List Line)
    (hfrag : frag .plain t.body = true) (hgen : generatePython L fuel t = .ok lines)
    (hF : render L fuel t env ≠ .error (/-"Fuel"-/ [70, 117, 101, 108] : List Nat))
    (hU : render L fuel t env ≠ .error (/-"Unsupported"-/ [85, 110, 115, 117, 112, 112, 111, 114, 116, 101, 100] : List Nat)) :
    pyRun lines env = render L fuel t env :=
  pyRun_render L t env fuel lines hfrag hgen hF hU

/-- **parse_flat_roundtrip**: the block structure of every statement tree is recovered from its lines (indentation and
header flags determine the tree) -/
theorem parse_flat_roundtrip (tree : List PStmt) : parseLines (flatList 0 tree) = some tree := parseLines_flat tree

/-- **bytes_literal_roundtrip**: decoding the `repr(bytes)` literal the generator writes gives the bytes back -/
theorem bytes_literal_roundtrip (bs : List Nat) (st : PS) (mode : Mode) :
    execSimple mode ((/-"_tt_append("-/ [95, 116, 116, 95, 97, 112, 112, 101, 110, 100, 40] : List Nat) ++ reprBytes bs ++ (/-")"-/ [41] : List Nat)) st
      = (({ st with buf := st.buf ++ bs }, .normal), .none) := execSimple_lit mode bs st

-- non-vacuity: `a\n{{ x }}{% if x %}b{% else %}c{% end %}{% for y in l %}{% raw y %}{% else %}d{% end %}` with autoescape
-- `xhtml_escape`, x = "<", l = [1, b"&"]: in the fragment, generates 25 lines, renders `a\n&lt;b1&d`
example : frag .plain exT.body = true := by simp [exT, frag, partitionSp]
example : ∃ lines, generatePython [exT] 12 exT = .ok lines ∧ lines.length = 25 := ⟨_, rfl, rfl⟩
example : render [exT] 12 exT exEnv = .ok [97, 10, 38, 108, 116, 59, 98, 49, 38, 100] := by rfl
-- an exception outcome covered by `interp_matches_gen_outcome_partial`: the unbound `x`
example : render [exT] 12 exT [] = .error (/-"NameError"-/ [78, 97, 109, 101, 69, 114, 114, 111, 114] : List Nat) := by rfl

/-- the stretch goal as it was first stated.  NOTE: with the semantics existentially quantified *inside* the statement it
is weak (any constant function is a witness); the content is in `interp_matches_gen_structure_partial`, which fixes
`sem := pyRun`.  What remains open (tie only, covered by the two correspondence streams) is the extension of `pyRun`
and of the proof to `apply`, `block`/`extends`/`include`, `while`, `try`, `import`. -/
def interp_matches_gen_structure_goal : Prop :=
  ∀ (L : Loader) (t : FileInfo) (env : Env) (fuel : Nat) (lines : List Line) (out : List Nat),
    generatePython L fuel t = .ok lines → render L fuel t env = .ok out →
    ∃ sem : List Line → Env → Option (List Nat), sem lines env = some out

/-! ### `break` / `continue` in a body that is generated somewhere else (known finding `valid/compile-error/break-in-moved-block`)

`_parse` lets `{% block %}` inherit `in_loop`, so `{% for %}{% block b %}{% break %}{% end %}{% end %}` is accepted.  The body of a block
is generated at the position of the block `b` of the ROOT template of the `{% extends %}` chain, which may be outside every
loop (or inside an `{% apply %}` function): the generated module then fails to compile with a `SyntaxError` that names a line
of the generated file — not a `ParseError` naming a line of the template. -/

/-- what the property demands: every template set that is accepted (no ParseError) generates a module that respects
Python's rule for `break` / `continue` -/
def break_inside_loop_full : Prop :=
  ∀ (s : Settings) (srcs : List Source) (entry : Str) (lines : List Line),
    compile s srcs entry = .code lines → loopOK lines = true

def exBreakSrcs : List Source := [⟨(/-"p"-/ [112] : List Nat), (/-"{% block b %}{% end %}"-/ [123, 37, 32, 98, 108, 111, 99, 107, 32, 98, 32, 37, 125, 123, 37, 32, 101, 110, 100, 32, 37, 125] : List Nat)⟩, ⟨(/-"e"-/ [101] : List Nat), (/-"{% extends p %}{% for q in l %}{% block b %}{% break %}{% end %}{% end %}"-/ [123, 37, 32, 101, 120, 116, 101, 110, 100, 115, 32, 112, 32, 37, 125, 123, 37, 32, 102, 111, 114, 32, 113, 32, 105, 110, 32, 108, 32, 37, 125, 123, 37, 32, 98, 108, 111, 99, 107, 32, 98, 32, 37, 125, 123, 37, 32, 98, 114, 101, 97, 107, 32, 37, 125, 123, 37, 32, 101, 110, 100, 32, 37, 125, 123, 37, 32, 101, 110, 100, 32, 37, 125] : List Nat)⟩]

/-- **break_inside_loop_refuted**: `p` = `{% block b %}{% end %}`, `e` = `{% extends p %}{% for q in l %}{% block b %}{% break %}{% end %}{% end %}`:
both files parse, the generated module has `break` directly under `def _tt_execute():` -/
theorem break_inside_loop_refuted : ¬ break_inside_loop_full := by
  intro h
  have key : (match compile ⟨none, none⟩ exBreakSrcs (/-"e"-/ [101] : List Nat) with | .code lines => loopOK lines | _ => true) = false := by rfl
  cases hc : compile ⟨none, none⟩ exBreakSrcs (/-"e"-/ [101] : List Nat) with
  | code lines =>
    rw [hc] at key
    simp only [] at key
    rw [h _ _ _ lines hc] at key
    cases key
  | parseError f e => rw [hc] at key; cases key
  | genError e => rw [hc] at key; cases key

/-- **break_inside_loop_partial** (what holds of the current code, side condition on the generated lines): a module in
which no line is `break` / `continue` trivially respects the rule, from any stack of open headers.  The statement one
wants instead — side condition on the *sources*: no `{% block %}` body has a `break` / `continue` that is not inside a loop of
that body — is `break_inside_loop_goal` (open; the check decides it on every case through CPython's own verdict). -/
theorem break_inside_loop_partial (lines : List Line) (stack : List (Nat × Str))
    (h : ∀ l ∈ lines, (l.code == (/-"break"-/ [98, 114, 101, 97, 107] : List Nat) || l.code == (/-"continue"-/ [99, 111, 110, 116, 105, 110, 117, 101] : List Nat)) = false) :
    loopOKFrom stack lines = true := by
  induction lines generalizing stack with
  | nil => rfl
  | cons l ls ih =>
    simp only [loopOKFrom, h l (List.mem_cons_self ..), Bool.false_eq_true, if_false, Bool.true_and]
    exact ih _ (fun l' hl' => h l' (List.mem_cons_of_mem _ hl'))

/-- no `break` / `continue` chunk reachable without passing a loop (`{% apply %}` bodies start afresh, like in `_parse`) -/
def noFreeBreak : List Node → Bool
  | [] => true
  | .stmt s _ :: ns => !(s == (/-"break"-/ [98, 114, 101, 97, 107] : List Nat) || s == (/-"continue"-/ [99, 111, 110, 116, 105, 110, 117, 101] : List Nat)) && noFreeBreak ns
  | .control s _ body :: ns =>
    (hdrIsLoop (s ++ [58]) || noFreeBreak body) && noFreeBreak ns
  | .block _ _ body :: ns => noFreeBreak body && noFreeBreak ns
  | _ :: ns => noFreeBreak ns

/-- every `{% block %}` body of a body is free of loose `break` / `continue` -/
def blocksClosed : List Node → Bool
  | [] => true
  | .block _ _ body :: ns => noFreeBreak body && blocksClosed body && blocksClosed ns
  | .control _ _ body :: ns => blocksClosed body && blocksClosed ns
  | .apply _ _ body :: ns => blocksClosed body && blocksClosed ns
  | _ :: ns => blocksClosed ns

/-- the open part: if no block body of any loaded file has a loose `break` / `continue`, the generated module is fine -/
def break_inside_loop_goal : Prop :=
  ∀ (s : Settings) (srcs : List Source) (entry : Str) (L : Loader) (lines : List Line),
    loadAll s srcs (fuelFor srcs) [entry] [] = .ok L → (∀ t ∈ L, blocksClosed t.body = true) →
    compile s srcs entry = .code lines → loopOK lines = true

-- non-vacuity: the same block inside the loop of ONE file is fine (and is what `in_loop` inheritance is for)
example : (match compile ⟨none, none⟩ [⟨(/-"e"-/ [101] : List Nat), (/-"{% for q in l %}{% block b %}{% break %}{% end %}{% end %}"-/ [123, 37, 32, 102, 111, 114, 32, 113, 32, 105, 110, 32, 108, 32, 37, 125, 123, 37, 32, 98, 108, 111, 99, 107, 32, 98, 32, 37, 125, 123, 37, 32, 98, 114, 101, 97, 107, 32, 37, 125, 123, 37, 32, 101, 110, 100, 32, 37, 125, 123, 37, 32, 101, 110, 100, 32, 37, 125] : List Nat)⟩] (/-"e"-/ [101] : List Nat) with | .code lines => loopOK lines | _ => false) = true := by rfl

/-! ### the loader: names are resolved against the mentioning file, the cache is keyed by the resolved name -/

/-- every template in the cache is the parse of the source stored under the template's **own** name -/
def CacheOK (s : Settings) (srcs : List Source) (L : Loader) : Prop :=
  ∀ t ∈ L, ∃ src, srcs.find? (fun x => x.name == t.name) = some src ∧ parseSource s src = .ok t

theorem parseSource_name {s : Settings} {src : Source} {t : FileInfo} (h : parseSource s src = .ok t) :
    t.name = src.name := by
  unfold parseSource at h
  split at h
  · cases h
  · cases h; rfl

theorem loadAll_cacheOK (s : Settings) (srcs : List Source) (f : Nat) (todo : List Str) (acc L : Loader)
    (h : loadAll s srcs f todo acc = .ok L) (hacc : CacheOK s srcs acc) : CacheOK s srcs L := by
  induction f generalizing todo acc with
  | zero => simp [loadAll] at h
  | succ f ih =>
    cases todo with
    | nil => simp only [loadAll] at h; cases h; exact hacc
    | cons name todo =>
      simp only [loadAll] at h
      split at h
      · exact ih _ _ h hacc
      · split at h
        · cases h
        · rename_i src hsrc
          split at h
          · cases h
          · rename_i t ht
            refine ih _ _ h ?_
            intro t' ht'
            simp only [List.mem_append, List.mem_singleton] at ht'
            rcases ht' with h1 | rfl
            · exact hacc _ h1
            · have hn : src.name = name := by
                have := List.find?_some hsrc
                simpa using this
              refine ⟨src, ?_, ht⟩
              rw [parseSource_name ht, hn]; exact hsrc

/-- **cache_keyed_by_resolved_name**: after any sequence of top-level loads on one loader instance (each of which
loads everything reachable through resolved `{% extends %}` / `{% include %}` names) every cached template is the parse
of the source stored under its own name. -/
theorem cache_keyed_by_resolved_name (s : Settings) (srcs : List Source) (names : List Str) (cache : Loader)
    (h : CacheOK s srcs cache) : CacheOK s srcs (loadSeq s srcs names cache) := by
  induction names generalizing cache with
  | nil => exact h
  | cons n rest ih =>
    simp only [loadSeq]
    split
    · exact ih _ h
    · rename_i L hL
      exact ih _ (loadAll_cacheOK s srcs _ _ _ _ hL h)

/-- **load_history_independent**: which template a (resolved) name denotes does not depend on what the loader
loaded before — two arbitrary load histories agree on every name both have cached. -/
theorem load_history_independent (s : Settings) (srcs : List Source) (h1 h2 : List Str) (name : Str) (t1 t2 : FileInfo)
    (e1 : (loadSeq s srcs h1 []).find name = some t1) (e2 : (loadSeq s srcs h2 []).find name = some t2) : t1 = t2 := by
  have ok1 := cache_keyed_by_resolved_name s srcs h1 [] (by intro t ht; cases ht)
  have ok2 := cache_keyed_by_resolved_name s srcs h2 [] (by intro t ht; cases ht)
  unfold Loader.find at e1 e2
  have n1 : t1.name = name := by simpa using List.find?_some e1
  have n2 : t2.name = name := by simpa using List.find?_some e2
  obtain ⟨s1, f1, p1⟩ := ok1 t1 (List.mem_of_find?_eq_some e1)
  obtain ⟨s2, f2, p2⟩ := ok2 t2 (List.mem_of_find?_eq_some e2)
  rw [n1] at f1; rw [n2] at f2
  rw [f1] at f2; cases f2
  rw [p1] at p2; cases p2; rfl

/-- a top-level `loader.load(name)` uses the name as it is -/
theorem resolve_toplevel (name : Str) : resolvePath name none = name := rfl

-- non-vacuity: `footer.html` mentioned by `admin/page.html` is `admin/footer.html`; `../footer.html` is the top-level
-- file; a `/absolute` parent or name switches resolution off; and a loader with `footer.html` in two directories
-- gives `admin/page.html` the sibling, whether or not the top-level `footer.html` was loaded before.
example : resolvePath (/-"footer.html"-/ [102, 111, 111, 116, 101, 114, 46, 104, 116, 109, 108]) (some (/-"admin/page.html"-/ [97, 100, 109, 105, 110, 47, 112, 97, 103, 101, 46, 104, 116, 109, 108]))
    = (/-"admin/footer.html"-/ [97, 100, 109, 105, 110, 47, 102, 111, 111, 116, 101, 114, 46, 104, 116, 109, 108]) := by decide
example : resolvePath (/-"../footer.html"-/ [46, 46, 47, 102, 111, 111, 116, 101, 114, 46, 104, 116, 109, 108]) (some (/-"admin/page.html"-/ [97, 100, 109, 105, 110, 47, 112, 97, 103, 101, 46, 104, 116, 109, 108]))
    = (/-"footer.html"-/ [102, 111, 111, 116, 101, 114, 46, 104, 116, 109, 108]) := by decide
example : resolvePath (/-"footer.html"-/ [102, 111, 111, 116, 101, 114, 46, 104, 116, 109, 108]) (some (/-"/abs/page.html"-/ [47, 97, 98, 115, 47, 112, 97, 103, 101, 46, 104, 116, 109, 108]))
    = (/-"footer.html"-/ [102, 111, 111, 116, 101, 114, 46, 104, 116, 109, 108]) := by decide

/-- `f`, `a/f` and `a/p` = `{% include f %}`: the same base name in two directories -/
def exDirs : List Source := [⟨(/-"f"-/ [102] : List Nat), (/-"top"-/ [116, 111, 112] : List Nat)⟩, ⟨(/-"a/f"-/ [97, 47, 102] : List Nat), (/-"sub"-/ [115, 117, 98] : List Nat)⟩, ⟨(/-"a/p"-/ [97, 47, 112] : List Nat), (/-"{% include f %}"-/ [123, 37, 32, 105, 110, 99, 108, 117, 100, 101, 32, 102, 32, 37, 125] : List Nat)⟩]
-- `a/p` first, or the top-level `f` first: in both histories `a/p` pulls in its sibling `a/f`
example : (loadSeq ⟨none, none⟩ exDirs [(/-"a/p"-/ [97, 47, 112] : List Nat)] []).map (·.name) = [(/-"a/p"-/ [97, 47, 112] : List Nat), (/-"a/f"-/ [97, 47, 102] : List Nat)] := by decide
example : (loadSeq ⟨none, none⟩ exDirs [(/-"f"-/ [102] : List Nat), (/-"a/p"-/ [97, 47, 112] : List Nat)] []).map (·.name) = [(/-"f"-/ [102] : List Nat), (/-"a/p"-/ [97, 47, 112] : List Nat), (/-"a/f"-/ [97, 47, 102] : List Nat)] := by decide
example : (compileSeq ⟨none, none⟩ exDirs [(/-"f"-/ [102] : List Nat), (/-"a/p"-/ [97, 47, 112] : List Nat)] []).getLast? = (compileSeq ⟨none, none⟩ exDirs [(/-"a/p"-/ [97, 47, 112] : List Nat)] []).getLast? := by rfl

end TornadoModel.C19
