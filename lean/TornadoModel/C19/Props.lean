import TornadoModel.C19.Spec
import TornadoModel.C19.Model
namespace TornadoModel.C19

end TornadoModel.C19
