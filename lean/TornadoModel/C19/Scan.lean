/-
C19 — `_parse` + `_TemplateReader` of `tornado/template.py` (core Lean only).

The reader is split into two fuel-free structurally recursive passes that together perform exactly the
steps of `_parse`:

* `lex` walks the code points once (the `reader.find("{", curly)` loop with its three rules: a brace not
  followed by `{ % #` is text, of three or more braces the innermost two are used, a brace in the last
  position is text; then `{{! {%! {#!`; then the search of the closing marker), producing tokens that
  carry `reader.line` as the code computes it (number of `\n` consumed so far + 1);
* `build` consumes the tokens in order with an explicit stack of open blocks (= the recursion of
  `_parse` with its `in_block` / `in_loop` parameters), the reader's mutable `whitespace` mode and the
  template's mutable `autoescape` attribute, and raises the first error in document order.

Error positions: `ParseError.lineno` is `reader.line` at the moment of `raise_parse_error`.
The model follows the code after the `fix:` commits of branch fix/g12 (apply/block name checked before the
body is parsed; `autoescape`/`raw`/`module` without argument and unknown whitespace modes are ParseErrors) and after the
`fix:` commit of branch fix/hC19 (`break`/`continue` in the `else` clause of a loop belong to the enclosing loop).
-/
import TornadoModel.C19.Base
namespace TornadoModel.C19

inductive TagKind where
  | expr | block | comment
  deriving DecidableEq, Repr, Inhabited

/-- second character of the opening marker -/
def TagKind.open2 : TagKind → Nat
  | .expr => 123 | .block => 37 | .comment => 35
/-- first character of the closing marker (`}}`, `%}`, `#}`) -/
def TagKind.close1 : TagKind → Nat
  | .expr => 125 | .block => 37 | .comment => 35

def tagKindOf (c2 : Nat) : TagKind := if c2 == 123 then .expr else if c2 == 37 then .block else .comment

inductive Tok where
  /-- literal text before a directive; `line` = `reader.line` after consuming it -/
  | text (v : Str) (line : Nat)
  /-- `{{!`, `{%!`, `{#!`: emits the two-character marker `{c2` as text -/
  | esc (c2 : Nat) (line : Nat)
  /-- a complete directive; `line` = line of its opening marker, `lineEnd` = `reader.line` after its closing marker -/
  | tag (k : TagKind) (contents : Str) (line lineEnd : Nat)
  deriving DecidableEq, Repr, Inhabited

/-- how the reader runs out of input -/
inductive Final where
  /-- no further directive: `line` = `reader.line` before the rest is consumed, `rest` = the remaining text,
      `lineEnd` = `reader.line` after consuming it -/
  | eof (line : Nat) (rest : Str) (lineEnd : Nat)
  /-- a directive whose closing marker is missing; `line` = line of the opening marker -/
  | unterminated (k : TagKind) (line : Nat) (rest : Str)
  deriving DecidableEq, Repr, Inhabited

/-- the source text of a token (for `text_verbatim`) -/
def Tok.src : Tok → Str
  | .text v _ => v
  | .esc c2 _ => [123, c2, 33]
  | .tag k c _ _ => 123 :: k.open2 :: c ++ [k.close1, 125]

def Final.src : Final → Str
  | .eof _ r _ => r
  | .unterminated k _ r => 123 :: k.open2 :: r

def isOpen2 (c : Nat) : Bool := c == 123 || c == 37 || c == 35

/-- "Append any text before the special token": nothing if there is none -/
def flushText (acc : Str) (line : Nat) : List Tok :=
  if acc.isEmpty then [] else [.text acc.reverse (line + countNl acc)]

mutual
  /-- text mode: `acc` = pending text (reversed), `line` = `reader.line` at `reader.pos` (start of `acc`) -/
  def lexText (acc : Str) (line : Nat) : Str → List Tok × Final
    | [] => ([], .eof line acc.reverse (line + countNl acc))
    | [c] => ([], .eof line (c :: acc).reverse (line + countNl (c :: acc)))
    | c :: c2 :: rest =>
      if c == 123 && isOpen2 c2 then
        match rest with
        | [] =>
          -- `{x` at the very end: a directive is opened and cannot be closed
          (flushText acc line, .unterminated (tagKindOf c2) (line + countNl acc) [])
        | c3 :: rest' =>
          if c2 == 123 && c3 == 123 then
            -- three braces: skip the outer one
            lexText (c :: acc) line (c2 :: c3 :: rest')
          else if c3 == 33 then
            let l := line + countNl acc
            let (ts, f) := lexText [] l rest'
            (flushText acc line ++ .esc c2 l :: ts, f)
          else
            let l := line + countNl acc
            let (ts, f) := lexTag (tagKindOf c2) [] l (c3 :: rest')
            (flushText acc line ++ ts, f)
      else lexText (c :: acc) line (c2 :: rest)
  /-- directive mode: `acc` = contents so far (reversed), `l0` = line of the opening marker -/
  def lexTag (k : TagKind) (acc : Str) (l0 : Nat) : Str → List Tok × Final
    | [] => ([], .unterminated k l0 acc.reverse)
    | [c] => ([], .unterminated k l0 (c :: acc).reverse)
    | c :: c2 :: rest =>
      if c == k.close1 && c2 == 125 then
        let l := l0 + countNl acc
        let (ts, f) := lexText [] l rest
        (.tag k acc.reverse l0 l :: ts, f)
      else lexTag k (c :: acc) l0 (c2 :: rest)
end

/-- the token stream of a template source -/
def lex (text : Str) : List Tok × Final := lexText [] 1 text

/-! ### AST -/
inductive Node where
  | text (v : Str) (line : Nat) (ws : Ws)
  /-- `_Expression` (also `_Module`, whose expression is prefixed with `_tt_modules.` and is raw) -/
  | expr (e : Str) (line : Nat) (raw : Bool)
  | stmt (s : Str) (line : Nat)
  | inter (s : Str) (line : Nat)
  | control (s : Str) (line : Nat) (body : List Node)
  | apply (m : Str) (line : Nat) (body : List Node)
  | block (name : Str) (line : Nat) (body : List Node)
  | extends (name : Str)
  | incl (name : Str) (line : Nat)
  deriving Repr, Inhabited

inductive ErrKind where
  | missingEnd            -- "Missing {% end %} block for X"
  | missingEndComment | missingEndExpr | missingEndTag
  | emptyExpr | emptyBlock
  | interOutside          -- "else outside {...} block"
  | interNotAttachable    -- "else block cannot be attached to X block"
  | extraEnd
  | extendsMissing | importMissing | includeMissing | setMissing
  | autoescapeMissing | badWhitespace | rawMissing | moduleMissing
  | applyMissing | blockMissing
  | breakOutside
  | unknownOp
  deriving DecidableEq, Repr, Inhabited

structure PErr where
  kind : ErrKind
  line : Nat
  deriving DecidableEq, Repr, Inhabited

inductive FrameKind where
  | control | apply | block
  deriving DecidableEq, Repr, Inhabited

/-- one activation of `_parse` below the top level -/
structure Frame where
  op : Str            -- `in_block`
  kind : FrameKind
  arg : Str           -- statement (control) / method (apply) / name (block)
  line : Nat
  inLoop : Bool       -- `in_loop` inside this block
  saved : List Node   -- chunks of the enclosing body so far (reversed)
  deriving Repr, Inhabited

structure BState where
  ws : Ws
  autoescape : Option Str
  stack : List Frame
  cur : List Node     -- chunks of the current body (reversed)
  deriving Repr, Inhabited

def inLoopOf (st : BState) : Bool := match st.stack with | [] => false | f :: _ => f.inLoop

/-- allowed parents of an intermediate block -/
def interParents (op : Str) : Option (List Str) :=
  if op == (/-"else"-/ [101, 108, 115, 101] : List Nat) then some [(/-"if"-/ [105, 102] : List Nat), (/-"for"-/ [102, 111, 114] : List Nat), (/-"while"-/ [119, 104, 105, 108, 101] : List Nat), (/-"try"-/ [116, 114, 121] : List Nat)]
  else if op == (/-"elif"-/ [101, 108, 105, 102] : List Nat) then some [(/-"if"-/ [105, 102] : List Nat)]
  else if op == (/-"except"-/ [101, 120, 99, 101, 112, 116] : List Nat) then some [(/-"try"-/ [116, 114, 121] : List Nat)]
  else if op == (/-"finally"-/ [102, 105, 110, 97, 108, 108, 121] : List Nat) then some [(/-"try"-/ [116, 114, 121] : List Nat)]
  else none

def isSimpleOp (op : Str) : Bool :=
  [(/-"extends"-/ [101, 120, 116, 101, 110, 100, 115] : List Nat), (/-"include"-/ [105, 110, 99, 108, 117, 100, 101] : List Nat), (/-"set"-/ [115, 101, 116] : List Nat), (/-"import"-/ [105, 109, 112, 111, 114, 116] : List Nat), (/-"from"-/ [102, 114, 111, 109] : List Nat), (/-"comment"-/ [99, 111, 109, 109, 101, 110, 116] : List Nat), (/-"autoescape"-/ [97, 117, 116, 111, 101, 115, 99, 97, 112, 101] : List Nat), (/-"whitespace"-/ [119, 104, 105, 116, 101, 115, 112, 97, 99, 101] : List Nat), (/-"raw"-/ [114, 97, 119] : List Nat), (/-"module"-/ [109, 111, 100, 117, 108, 101] : List Nat)].contains op

def isBlockOp (op : Str) : Bool :=
  [(/-"apply"-/ [97, 112, 112, 108, 121] : List Nat), (/-"block"-/ [98, 108, 111, 99, 107] : List Nat), (/-"try"-/ [116, 114, 121] : List Nat), (/-"if"-/ [105, 102] : List Nat), (/-"for"-/ [102, 111, 114] : List Nat), (/-"while"-/ [119, 104, 105, 108, 101] : List Nat)].contains op

def push (st : BState) (n : Node) : BState := { st with cur := n :: st.cur }

def closeFrame (f : Frame) (body : List Node) : Node :=
  match f.kind with
  | .control => .control f.arg f.line body
  | .apply => .apply f.arg f.line body
  | .block => .block f.arg f.line body

/-- one `{% … %}` directive (`contents` already stripped and non-empty): new state or the kind of error -/
def blockTagK (st : BState) (contents : Str) (l : Nat) : Except ErrKind BState :=
  let (op, rest) := partitionSp contents
  let suffix := strip rest
  match interParents op with
  | some allowed =>
    match st.stack with
    | [] => .error .interOutside
    | f :: fs =>
      if allowed.contains f.op then
        -- the `else` clause of a loop is not part of the loop body: `in_loop` falls back to the enclosing loop
        let st' : BState :=
          if op == (/-"else"-/ [101, 108, 115, 101] : List Nat) && (f.op == (/-"for"-/ [102, 111, 114] : List Nat) || f.op == (/-"while"-/ [119, 104, 105, 108, 101] : List Nat)) then
            { st with stack := { f with inLoop := inLoopOf { st with stack := fs } } :: fs }
          else st
        .ok (push st' (.inter contents l))
      else .error .interNotAttachable
  | none =>
    if op == (/-"end"-/ [101, 110, 100] : List Nat) then
      match st.stack with
      | [] => .error .extraEnd
      | f :: fs => .ok { st with stack := fs, cur := closeFrame f st.cur.reverse :: f.saved }
    else if isSimpleOp op then
      if op == (/-"comment"-/ [99, 111, 109, 109, 101, 110, 116] : List Nat) then .ok st
      else if op == (/-"extends"-/ [101, 120, 116, 101, 110, 100, 115] : List Nat) then
        let sfx := stripChar 39 (stripChar 34 suffix)
        if sfx.isEmpty then .error .extendsMissing else .ok (push st (.extends sfx))
      else if op == (/-"import"-/ [105, 109, 112, 111, 114, 116] : List Nat) || op == (/-"from"-/ [102, 114, 111, 109] : List Nat) then
        if suffix.isEmpty then .error .importMissing else .ok (push st (.stmt contents l))
      else if op == (/-"include"-/ [105, 110, 99, 108, 117, 100, 101] : List Nat) then
        let sfx := stripChar 39 (stripChar 34 suffix)
        if sfx.isEmpty then .error .includeMissing else .ok (push st (.incl sfx l))
      else if op == (/-"set"-/ [115, 101, 116] : List Nat) then
        if suffix.isEmpty then .error .setMissing else .ok (push st (.stmt suffix l))
      else if op == (/-"autoescape"-/ [97, 117, 116, 111, 101, 115, 99, 97, 112, 101] : List Nat) then
        if suffix.isEmpty then .error .autoescapeMissing
        else .ok { st with autoescape := if suffix == (/-"None"-/ [78, 111, 110, 101] : List Nat) then none else some suffix }
      else if op == (/-"whitespace"-/ [119, 104, 105, 116, 101, 115, 112, 97, 99, 101] : List Nat) then
        match wsOfName suffix with
        | none => .error .badWhitespace
        | some m => .ok { st with ws := m }
      else if op == (/-"raw"-/ [114, 97, 119] : List Nat) then
        if suffix.isEmpty then .error .rawMissing else .ok (push st (.expr suffix l true))
      else -- module
        if suffix.isEmpty then .error .moduleMissing
        else .ok (push st (.expr ((/-"_tt_modules."-/ [95, 116, 116, 95, 109, 111, 100, 117, 108, 101, 115, 46] : List Nat) ++ suffix) l true))
    else if isBlockOp op then
      if op == (/-"apply"-/ [97, 112, 112, 108, 121] : List Nat) && suffix.isEmpty then .error .applyMissing
      else if op == (/-"block"-/ [98, 108, 111, 99, 107] : List Nat) && suffix.isEmpty then .error .blockMissing
      else
        let inLoop := if op == (/-"for"-/ [102, 111, 114] : List Nat) || op == (/-"while"-/ [119, 104, 105, 108, 101] : List Nat) then true
                      else if op == (/-"apply"-/ [97, 112, 112, 108, 121] : List Nat) then false else inLoopOf st
        let (kind, arg) := if op == (/-"apply"-/ [97, 112, 112, 108, 121] : List Nat) then (FrameKind.apply, suffix)
                           else if op == (/-"block"-/ [98, 108, 111, 99, 107] : List Nat) then (FrameKind.block, suffix) else (FrameKind.control, contents)
        .ok { st with stack := ⟨op, kind, arg, l, inLoop, st.cur⟩ :: st.stack, cur := [] }
    else if op == (/-"break"-/ [98, 114, 101, 97, 107] : List Nat) || op == (/-"continue"-/ [99, 111, 110, 116, 105, 110, 117, 101] : List Nat) then
      if inLoopOf st then .ok (push st (.stmt contents l)) else .error .breakOutside
    else .error .unknownOp

/-- every error of a directive is raised after the directive has been consumed: at `reader.line` = `le` -/
def blockTag (st : BState) (contents : Str) (l le : Nat) : Except PErr BState :=
  match blockTagK st contents l with
  | .ok st' => .ok st'
  | .error k => .error ⟨k, le⟩

/-- one token -/
def stepTok (st : BState) : Tok → Except PErr BState
  | .text v l => .ok (push st (.text v l st.ws))
  | .esc c2 l => .ok (push st (.text [123, c2] l st.ws))
  | .tag .comment _ _ _ => .ok st
  | .tag .expr c l le =>
    let contents := strip c
    if contents.isEmpty then .error ⟨.emptyExpr, le⟩ else .ok (push st (.expr contents l false))
  | .tag .block c l le =>
    let contents := strip c
    if contents.isEmpty then .error ⟨.emptyBlock, le⟩ else blockTag st contents l le

/-- the parsed body of a file and the final value of `template.autoescape` -/
structure Parsed where
  body : List Node
  autoescape : Option Str
  deriving Repr, Inhabited

def finish (st : BState) : Final → Except PErr Parsed
  | .unterminated .comment l _ => .error ⟨.missingEndComment, l⟩
  | .unterminated .expr l _ => .error ⟨.missingEndExpr, l⟩
  | .unterminated .block l _ => .error ⟨.missingEndTag, l⟩
  | .eof l rest le =>
    match st.stack with
    | _ :: _ => .error ⟨.missingEnd, l⟩
    | [] => .ok ⟨(Node.text rest le st.ws :: st.cur).reverse, st.autoescape⟩

def build (st : BState) : List Tok → Final → Except PErr Parsed
  | [], f => finish st f
  | t :: ts, f =>
    match stepTok st t with
    | .error e => .error e
    | .ok st' => build st' ts f

/-- `Template.__init__` up to and including `_parse`: initial whitespace mode and autoescape are given -/
def scan (ws : Ws) (autoescape : Option Str) (text : Str) : Except PErr Parsed :=
  let (ts, f) := lex text
  build ⟨ws, autoescape, [], []⟩ ts f

end TornadoModel.C19
