/- C19 driver: `C19 compile|render|filter|repr|lineat|lex …` (see `harness/props/c19.py`) -/
import TornadoModel.Base.Wire
import TornadoModel.C19.Model
import TornadoModel.C19.Spec
namespace TornadoModel.C19.Drv
open TornadoModel TornadoModel.Wire TornadoModel.C19

def decWs (v : V) : Option (Option Ws) :=
  if v.isNone then some none else
  match v.cps? with
  | some n => (wsOfName n).map some
  | none => none

def decAe (v : V) : Option (Option Str) := if v.isNone then some none else v.cps?.map some

def decSources (v : V) : Option (List Source) := do
  let l ← v.list?
  l.mapM (fun p => do
    match ← p.list? with
    | [n, t] => pure ⟨← n.cps?, ← t.cps?⟩
    | _ => none)

def decAtom (ty : String) (x : V) : Option Atom :=
  match ty with
  | "s" => x.cps?.map Atom.str
  | "b" => x.cps?.map Atom.bytes
  | "i" => x.int?.map Atom.int
  | "n" => some Atom.none
  | "t" => x.bool?.map Atom.bool
  | "o" => x.cps?.map Atom.obj
  | _ => none

def decVal (ty : String) (x : V) : Option Val :=
  if ty == "l" then do
    let l ← x.list?
    let as ← l.mapM (fun p => do
      match ← p.list? with
      | [.atom t, y] => decAtom t y
      | _ => none)
    pure (.list as)
  else (decAtom ty x).map Val.atom

def decEnv (v : V) : Option Env := do
  let l ← v.list?
  l.mapM (fun p => do
    match ← p.list? with
    | [n, .atom t, x] => pure (← n.cps?, ← decVal t x)
    | _ => none)

def errName : ErrKind → String
  | .missingEnd => "missingEnd" | .missingEndComment => "missingEndComment" | .missingEndExpr => "missingEndExpr"
  | .missingEndTag => "missingEndTag" | .emptyExpr => "emptyExpr" | .emptyBlock => "emptyBlock"
  | .interOutside => "interOutside" | .interNotAttachable => "interNotAttachable" | .extraEnd => "extraEnd"
  | .extendsMissing => "extendsMissing" | .importMissing => "importMissing" | .includeMissing => "includeMissing"
  | .setMissing => "setMissing" | .autoescapeMissing => "autoescapeMissing" | .badWhitespace => "badWhitespace"
  | .rawMissing => "rawMissing" | .moduleMissing => "moduleMissing" | .applyMissing => "applyMissing"
  | .blockMissing => "blockMissing" | .breakOutside => "breakOutside" | .unknownOp => "unknownOp"

def genErrName : GenErr → String
  | .fuel => "Fuel" | .keyError => "KeyError" | .notImplemented => "NotImplementedError"

def encOutcome (withComment : Bool) : Outcome → List V
  | .parseError file e => [.atom "ParseError", .atom (errName e.kind), V.ofCps file, .int e.line]
  | .genError e => [.atom "Raised", .atom (genErrName e)]
  | .code lines => [.atom "code", .list (lines.map (fun l => V.ofCps (l.render withComment)))]

def encTok : Tok → V
  | .text v l => .list [.atom "text", V.ofCps v, .int l]
  | .esc c l => .list [.atom "esc", .int c, .int l]
  | .tag k c l le => .list [.atom (match k with | .expr => "expr" | .block => "block" | .comment => "comment"),
                            V.ofCps c, .int l, .int le]

def handle (toks : List String) : String :=
  match toks with
  | cmd :: args =>
    match parseArgs args with
    | none => err "bad-arg"
    | some vs =>
      match cmd, vs with
      | "compile", [ws, ae, entry, files] =>
        match decWs ws, decAe ae, entry.cps?, decSources files with
        | some ws, some ae, some entry, some srcs => ok (encOutcome true (compile ⟨ws, ae⟩ srcs entry))
        | _, _, _, _ => err "bad-arg"
      | "loopok", [ws, ae, entry, files] =>
        -- Python's verdict on `break` / `continue` in the generated module, as `Spec.loopOK` predicts it
        match decWs ws, decAe ae, entry.cps?, decSources files with
        | some ws, some ae, some entry, some srcs =>
          match compile ⟨ws, ae⟩ srcs entry with
          | .code lines => ok [V.ofBool (loopOK lines)]
          | _ => ok [.atom "N"]
        | _, _, _, _ => err "bad-arg"
      | "compileseq", [ws, ae, names, files] =>
        match decWs ws, decAe ae, names.list? >>= (·.mapM V.cps?), decSources files with
        | some ws, some ae, some names, some srcs =>
          ok ((compileSeq ⟨ws, ae⟩ srcs names []).map (fun o => V.list (encOutcome true o)))
        | _, _, _, _ => err "bad-arg"
      | "resolve", [name, parent] =>
        match name.cps?, (if parent.isNone then some none else parent.cps?.map some) with
        | some n, some p => ok [V.ofCps (resolvePath n p)]
        | _, _ => err "bad-arg"
      | "render", [ws, ae, entry, files, envv] =>
        match decWs ws, decAe ae, entry.cps?, decSources files, decEnv envv with
        | some ws, some ae, some entry, some srcs, some env =>
          let fuel := fuelFor srcs
          match loadAll ⟨ws, ae⟩ srcs fuel [entry] [] with
          | .error (.parse file e) => ok (encOutcome true (.parseError file e))
          | .error (.missing _) => ok [.atom "Raised", .atom "KeyError"]
          | .error .fuel => ok [.atom "Raised", .atom "Fuel"]
          | .ok L =>
            match L.find entry with
            | none => ok [.atom "Raised", .atom "KeyError"]
            | some t =>
              match render L (fuel + 4096) t env with
              | .ok bs => ok [.atom "out", V.ofByteNats bs]
              | .error x => ok [.atom "Raised", V.ofCps x]
        | _, _, _, _, _ => err "bad-arg"
      | "filter", [mode, text] =>
        match mode.cps? >>= wsOfName, text.cps? with
        | some m, some t => ok [V.ofCps (filterWhitespace m t)]
        | _, _ => err "bad-arg"
      | "repr", [b] =>
        match b.byteNats? with
        | some bs => ok [V.ofCps (reprBytes bs)]
        | none => err "bad-arg"
      | "utf8", [t] =>
        match t.cps? with
        | some s => ok [V.ofByteNats (utf8 s)]
        | none => err "bad-arg"
      | "escape", [t] =>
        match t.cps? with
        | some s => ok [V.ofCps (xhtmlEscape s)]
        | none => err "bad-arg"
      | "lineat", [t, p] =>
        match t.cps?, p.nat? with
        | some s, some n => ok [.int (lineAt s n)]
        | _, _ => err "bad-arg"
      | "lex", [t] =>
        match t.cps? with
        | some s =>
          let (ts, f) := lex s
          ok [.list (ts.map encTok), match f with
            | .eof l r le => .list [.atom "eof", .int l, V.ofCps r, .int le]
            | .unterminated _ l r => .list [.atom "unterminated", .int l, V.ofCps r]]
        | none => err "bad-arg"
      | _, _ => err "bad-cmd"
  | _ => err "bad-line"

end TornadoModel.C19.Drv
