/-
C19 — the code generator of `tornado/template.py`: every `_Node.generate`, `_CodeWriter` (indentation,
`include` stack, `apply_counter`, line comments), `Template._generate_python`, `_get_ancestors`,
`find_named_blocks`, against a dictionary loader (core Lean only).

The writer is modelled as the mutable object it is (`W`): `include` pushes `(current_template, line)` and
switches `current_template`; leaving the `with` block pops and restores — that the restored template is the
right one is a theorem (C20 `expr_uses_owner_file_autoescape`), not a modelling decision.
Recursion through `{% include %}` / `{% block %}` leaves the syntax tree, so `gen` takes fuel and reports
exhaustion explicitly (`GenErr.fuel`); nothing is silently truncated.
-/
import TornadoModel.C19.Scan
namespace TornadoModel.C19

/-- a loaded template: `Template.name`, `Template.file.body`, `Template.autoescape` -/
structure FileInfo where
  name : Str
  body : List Node
  autoescape : Option Str
  deriving Repr, Inhabited

abbrev Loader := List FileInfo

def Loader.find (L : Loader) (name : Str) : Option FileInfo := List.find? (fun f => f.name == name) L

/-- one generated source line -/
structure Line where
  indent : Nat
  code : Str
  /-- header of a Python block (`def …:`, `if …:`, `else:` …): the next line must be indented one level deeper -/
  hdr : Bool
  file : Str                    -- `current_template.name`
  line : Nat
  via : List (Str × Nat)        -- `include_stack`, innermost first (as printed)
  deriving Repr, Inhabited

inductive GenErr where
  | fuel              -- model ran out of fuel (never hidden)
  | keyError          -- `writer.named_blocks[name]` / `loader.dict[name]`
  | notImplemented    -- `_ExtendsBlock.generate`
  deriving DecidableEq, Repr, Inhabited

/-- `_CodeWriter` -/
structure W where
  lines : List Line             -- reversed
  indent : Nat
  counter : Nat                 -- `apply_counter`
  cur : FileInfo                -- `current_template`
  stack : List (FileInfo × Nat) -- `include_stack`, innermost first
  err : Option GenErr
  deriving Repr, Inhabited

def W.fail (w : W) (e : GenErr) : W := match w.err with | some _ => w | none => { w with err := some e }

def viaOf (stack : List (FileInfo × Nat)) : List (Str × Nat) := stack.map (fun (f, l) => (f.name, l))

/-- `write_line(line, line_number, indent)` -/
def W.writeAt (w : W) (indent : Nat) (code : Str) (hdr : Bool) (lineno : Nat) : W :=
  { w with lines := ⟨indent, code, hdr, w.cur.name, lineno, viaOf w.stack⟩ :: w.lines }

def W.write (w : W) (code : Str) (lineno : Nat) : W := w.writeAt w.indent code false lineno
def W.writeHdr (w : W) (code : Str) (lineno : Nat) : W := w.writeAt w.indent code true lineno

/-- `writer.include(template, line).__enter__` -/
def W.enter (w : W) (t : FileInfo) (line : Nat) : W := { w with stack := (w.cur, line) :: w.stack, cur := t }
/-- `IncludeTemplate.__exit__`: `self.current_template = self.include_stack.pop()[0]` -/
def W.leave (w : W) : W :=
  match w.stack with
  | [] => w.fail .keyError      -- pop from an empty list: cannot happen (`gen_stack_balanced`)
  | (t, _) :: rest => { w with stack := rest, cur := t }

/-- a registered named block: name, owning template, body -/
structure Named where
  name : Str
  owner : FileInfo
  body : List Node
  deriving Repr, Inhabited

/-- `named_blocks[name]`: the last registration wins -/
def lookupNamed (named : List Named) (name : Str) : Option Named :=
  List.find? (fun b => b.name == name) named.reverse

/-- `_Text.generate`: the value appended, if any -/
def textValue (v : Str) (ws : Ws) : Str :=
  if isInfix (/-"<pre>"-/ [60, 112, 114, 101, 62] : List Nat) v then v else filterWhitespace ws v

def exprLines (e : Str) (raw : Bool) (autoescape : Option Str) : List Str :=
  [(/-"_tt_tmp = "-/ [95, 116, 116, 95, 116, 109, 112, 32, 61, 32] : List Nat) ++ e,
   (/-"if isinstance(_tt_tmp, _tt_string_types): _tt_tmp = _tt_utf8(_tt_tmp)"-/ [105, 102, 32, 105, 115, 105, 110, 115, 116, 97, 110, 99, 101, 40, 95, 116, 116, 95, 116, 109, 112, 44, 32, 95, 116, 116, 95, 115, 116, 114, 105, 110, 103, 95, 116, 121, 112, 101, 115, 41, 58, 32, 95, 116, 116, 95, 116, 109, 112, 32, 61, 32, 95, 116, 116, 95, 117, 116, 102, 56, 40, 95, 116, 116, 95, 116, 109, 112, 41] : List Nat),
   (/-"else: _tt_tmp = _tt_utf8(str(_tt_tmp))"-/ [101, 108, 115, 101, 58, 32, 95, 116, 116, 95, 116, 109, 112, 32, 61, 32, 95, 116, 116, 95, 117, 116, 102, 56, 40, 115, 116, 114, 40, 95, 116, 116, 95, 116, 109, 112, 41, 41] : List Nat)] ++
  (match raw, autoescape with
   | false, some fn => [(/-"_tt_tmp = _tt_utf8("-/ [95, 116, 116, 95, 116, 109, 112, 32, 61, 32, 95, 116, 116, 95, 117, 116, 102, 56, 40] : List Nat) ++ fn ++ (/-"(_tt_tmp))"-/ [40, 95, 116, 116, 95, 116, 109, 112, 41, 41] : List Nat)]
   | _, _ => []) ++
  [(/-"_tt_append(_tt_tmp)"-/ [95, 116, 116, 95, 97, 112, 112, 101, 110, 100, 40, 95, 116, 116, 95, 116, 109, 112, 41] : List Nat)]

def W.writeAll (w : W) (codes : List Str) (lineno : Nat) : W := codes.foldl (fun w c => w.write c lineno) w

/-- `chunk.generate(writer)` for one chunk; `g` generates a body (the recursive call) -/
def genNode (L : Loader) (named : List Named) (g : List Node → W → W) (n : Node) (w : W) : W :=
  match n with
  | .text v line ws =>
    let value := textValue v ws
    if value.isEmpty then w else w.write ((/-"_tt_append("-/ [95, 116, 116, 95, 97, 112, 112, 101, 110, 100, 40] : List Nat) ++ reprBytes (utf8 value) ++ (/-")"-/ [41] : List Nat)) line
  | .expr e line raw => w.writeAll (exprLines e raw w.cur.autoescape) line
  | .stmt s line => w.write s line
  | .inter s line =>
    let w1 := w.write (/-"pass"-/ [112, 97, 115, 115] : List Nat) line
    w1.writeAt (w1.indent - 1) (s ++ (/-":"-/ [58] : List Nat)) true line
  | .control s line body =>
    let w1 := w.writeHdr (s ++ (/-":"-/ [58] : List Nat)) line
    let w2 := g body { w1 with indent := w1.indent + 1 }
    let w3 := w2.write (/-"pass"-/ [112, 97, 115, 115] : List Nat) line
    { w3 with indent := w3.indent - 1 }
  | .apply m line body =>
    let mname := (/-"_tt_apply"-/ [95, 116, 116, 95, 97, 112, 112, 108, 121] : List Nat) ++ dec w.counter
    let w1 := { w with counter := w.counter + 1 }
    let w2 := w1.writeHdr ((/-"def "-/ [100, 101, 102, 32] : List Nat) ++ mname ++ (/-"():"-/ [40, 41, 58] : List Nat)) line
    let w3 := { w2 with indent := w2.indent + 1 }
    let w4 := (w3.write (/-"_tt_buffer = []"-/ [95, 116, 116, 95, 98, 117, 102, 102, 101, 114, 32, 61, 32, 91, 93] : List Nat) line).write (/-"_tt_append = _tt_buffer.append"-/ [95, 116, 116, 95, 97, 112, 112, 101, 110, 100, 32, 61, 32, 95, 116, 116, 95, 98, 117, 102, 102, 101, 114, 46, 97, 112, 112, 101, 110, 100] : List Nat) line
    let w5 := g body w4
    let w6 := w5.write (/-"return _tt_utf8('').join(_tt_buffer)"-/ [114, 101, 116, 117, 114, 110, 32, 95, 116, 116, 95, 117, 116, 102, 56, 40, 39, 39, 41, 46, 106, 111, 105, 110, 40, 95, 116, 116, 95, 98, 117, 102, 102, 101, 114, 41] : List Nat) line
    let w7 := { w6 with indent := w6.indent - 1 }
    w7.write ((/-"_tt_append(_tt_utf8("-/ [95, 116, 116, 95, 97, 112, 112, 101, 110, 100, 40, 95, 116, 116, 95, 117, 116, 102, 56, 40] : List Nat) ++ m ++ (/-"("-/ [40] : List Nat) ++ mname ++ (/-"())))"-/ [40, 41, 41, 41, 41] : List Nat)) line
  | .block name line _ =>
    match lookupNamed named name with
    | none => w.fail .keyError
    | some b => (g b.body (w.enter b.owner line)).leave
  | .extends _ => w.fail .notImplemented
  | .incl name line =>
    match L.find name with
    | none => w.fail .keyError
    | some t => (g t.body (w.enter t line)).leave

/-- `chunk.generate(writer)` for every chunk of a body.  Fuel decreases on every step. -/
def gen (L : Loader) (named : List Named) : Nat → List Node → W → W
  | 0, _, w => w.fail .fuel
  | _ + 1, [], w => w
  | f + 1, n :: ns, w =>
    if w.err.isSome then w else gen L named f ns (genNode L named (gen L named f) n w)

/-- `find_named_blocks` over a body, in visiting order (later entries override earlier ones) -/
def findNamed (L : Loader) : Nat → FileInfo → List Node → Except GenErr (List Named)
  | 0, _, _ => .error .fuel
  | _ + 1, _, [] => .ok []
  | f + 1, owner, n :: ns => do
    let here ← match n with
      | .block name _ body => do
        let inner ← findNamed L f owner body
        pure (⟨name, owner, body⟩ :: inner)
      | .control _ _ body => findNamed L f owner body
      | .apply _ _ body => findNamed L f owner body
      | .incl name _ =>
        match L.find name with
        | none => .error .keyError
        | some t => findNamed L f t t.body
      | _ => pure []
    let rest ← findNamed L f owner ns
    pure (here ++ rest)

def extendsOf : List Node → List Str
  | [] => []
  | .extends name :: ns => name :: extendsOf ns
  | _ :: ns => extendsOf ns

/-- `Template._get_ancestors` -/
def ancestors (L : Loader) : Nat → FileInfo → Except GenErr (List FileInfo)
  | 0, _ => .error .fuel
  | f + 1, t => do
    let ups ← (extendsOf t.body).mapM (fun name =>
      match L.find name with
      | none => Except.error GenErr.keyError
      | some p => ancestors L f p)
    pure (t :: ups.flatten)

def fileLines (w : W) (body : List Node) (g : List Node → W → W) : W :=
  let w1 := w.writeHdr (/-"def _tt_execute():"-/ [100, 101, 102, 32, 95, 116, 116, 95, 101, 120, 101, 99, 117, 116, 101, 40, 41, 58] : List Nat) 0
  let w2 := { w1 with indent := w1.indent + 1 }
  let w3 := (w2.write (/-"_tt_buffer = []"-/ [95, 116, 116, 95, 98, 117, 102, 102, 101, 114, 32, 61, 32, 91, 93] : List Nat) 0).write (/-"_tt_append = _tt_buffer.append"-/ [95, 116, 116, 95, 97, 112, 112, 101, 110, 100, 32, 61, 32, 95, 116, 116, 95, 98, 117, 102, 102, 101, 114, 46, 97, 112, 112, 101, 110, 100] : List Nat) 0
  let w4 := g body w3
  let w5 := w4.write (/-"return _tt_utf8('').join(_tt_buffer)"-/ [114, 101, 116, 117, 114, 110, 32, 95, 116, 116, 95, 117, 116, 102, 56, 40, 39, 39, 41, 46, 106, 111, 105, 110, 40, 95, 116, 116, 95, 98, 117, 102, 102, 101, 114, 41] : List Nat) 0
  { w5 with indent := w5.indent - 1 }

/-- what `_generate_python` prepares: the root template and the table of named blocks -/
structure Plan where
  root : FileInfo
  named : List Named
  deriving Repr, Inhabited

def plan (L : Loader) (fuel : Nat) (t : FileInfo) : Except GenErr Plan := do
  let anc ← ancestors L fuel t
  let anc := anc.reverse
  let nameds ← anc.mapM (fun a => findNamed L fuel a a.body)
  match anc with
  | [] => .error .keyError
  | root :: _ => pure ⟨root, nameds.flatten⟩

/-- `Template._generate_python` -/
def generatePython (L : Loader) (fuel : Nat) (t : FileInfo) : Except GenErr (List Line) := do
  let p ← plan L fuel t
  let w := fileLines ⟨[], 0, 0, p.root, [], none⟩ p.root.body (gen L p.named fuel)
  match w.err with
  | some e => .error e
  | none => pure w.lines.reverse

/-! ### rendering of a line as `print` writes it -/
def joinWith (sep : Str) : List Str → Str
  | [] => []
  | [x] => x
  | x :: xs => x ++ sep ++ joinWith sep xs

def Line.render (l : Line) (withComment : Bool) : Str :=
  (List.replicate (4 * l.indent) 32) ++ l.code ++
  (if withComment then
    (/-"  # "-/ [32, 32, 35, 32] : List Nat) ++ l.file ++ [58] ++ dec l.line ++
      (if l.via.isEmpty then [] else
        (/-" (via "-/ [32, 40, 118, 105, 97, 32] : List Nat) ++ joinWith (/-", "-/ [44, 32] : List Nat) (l.via.map (fun (n, k) => n ++ [58] ++ dec k)) ++ (/-")"-/ [41] : List Nat))
   else [])

end TornadoModel.C19
