/- C19 — helper lemmas: writer invariants of the generator, the reader invariant (sources and running line). -/
import TornadoModel.C19.Spec
import TornadoModel.C19.Model
namespace TornadoModel.C19
def Inv (w' w : W) : Prop :=
  w'.stack = w.stack ∧ w'.cur = w.cur ∧ ∃ new, w'.lines = new ++ w.lines

theorem Inv.refl (w : W) : Inv w w := ⟨rfl, rfl, [], rfl⟩
theorem Inv.trans {a b c : W} (h1 : Inv a b) (h2 : Inv b c) : Inv a c := by
  obtain ⟨s1, c1, n1, l1⟩ := h1
  obtain ⟨s2, c2, n2, l2⟩ := h2
  exact ⟨s1.trans s2, c1.trans c2, n1 ++ n2, by rw [l1, l2, List.append_assoc]⟩

theorem Inv.fail (w : W) (e : GenErr) : Inv (w.fail e) w := by
  unfold W.fail; split <;> exact Inv.refl _
theorem Inv.writeAt (w : W) (i : Nat) (c : Str) (h : Bool) (l : Nat) : Inv (w.writeAt i c h l) w :=
  ⟨rfl, rfl, [_], rfl⟩
theorem Inv.write (w : W) (c : Str) (l : Nat) : Inv (w.write c l) w := Inv.writeAt ..
theorem Inv.writeHdr (w : W) (c : Str) (l : Nat) : Inv (w.writeHdr c l) w := Inv.writeAt ..
theorem Inv.writeAll (w : W) (cs : List Str) (l : Nat) : Inv (w.writeAll cs l) w := by
  unfold W.writeAll
  induction cs generalizing w with
  | nil => exact Inv.refl _
  | cons c cs ih => exact (ih (w.write c l)).trans (Inv.write ..)
theorem Inv.setIndent (w : W) (i : Nat) : Inv { w with indent := i } w := ⟨rfl, rfl, [], rfl⟩
theorem Inv.setCounter (w : W) (i : Nat) : Inv { w with counter := i } w := ⟨rfl, rfl, [], rfl⟩

/-- entering another template's body and leaving it again restores the writer -/
theorem Inv.entered {w w2 : W} {t : FileInfo} {l : Nat} (h : Inv w2 (w.enter t l)) : Inv w2.leave w := by
  obtain ⟨s, cu, n, ls⟩ := h
  simp only [W.enter] at s cu ls
  unfold W.leave
  rw [s]
  exact ⟨rfl, rfl, n, ls⟩

/-- one chunk preserves the invariant if the body generator does -/
theorem genNode_inv (L : Loader) (named : List Named) (g : List Node → W → W)
    (hg : ∀ nodes w, Inv (g nodes w) w) (n : Node) (w : W) : Inv (genNode L named g n w) w := by
  cases n with
  | text v line ws => simp only [genNode]; split; exact Inv.refl _; exact Inv.write ..
  | expr e line raw => exact Inv.writeAll ..
  | stmt s line => exact Inv.write ..
  | inter s line => exact (Inv.writeAt ..).trans (Inv.write ..)
  | control s line body =>
    exact (Inv.setIndent ..).trans ((Inv.write ..).trans ((hg body _).trans ((Inv.setIndent ..).trans (Inv.writeHdr ..))))
  | apply m line body =>
    exact (Inv.write ..).trans ((Inv.setIndent ..).trans ((Inv.write ..).trans ((hg body _).trans
      ((Inv.write ..).trans ((Inv.write ..).trans ((Inv.setIndent ..).trans ((Inv.writeHdr ..).trans (Inv.setCounter ..))))))))
  | block name line body =>
    simp only [genNode]; split
    · exact Inv.fail ..
    · exact Inv.entered (hg _ _)
  | «extends» name => exact Inv.fail ..
  | incl name line =>
    simp only [genNode]; split
    · exact Inv.fail ..
    · exact Inv.entered (hg _ _)

theorem gen_inv (L : Loader) (named : List Named) (f : Nat) (nodes : List Node) (w : W) :
    Inv (gen L named f nodes w) w := by
  induction f generalizing nodes w with
  | zero => exact Inv.fail ..
  | succ f ih =>
    cases nodes with
    | nil => exact Inv.refl _
    | cons n ns =>
      simp only [gen]
      split
      · exact Inv.refl _
      · exact (ih ns _).trans (genNode_inv L named _ ih n w)

theorem W.fail_indent (w : W) (e : GenErr) : (w.fail e).indent = w.indent := by unfold W.fail; split <;> rfl
theorem W.writeAll_indent (w : W) (cs : List Str) (l : Nat) : (w.writeAll cs l).indent = w.indent := by
  unfold W.writeAll
  induction cs generalizing w with
  | nil => rfl
  | cons c cs ih => exact (ih (w.write c l)).trans rfl
theorem W.leave_indent (w : W) : w.leave.indent = w.indent := by
  unfold W.leave; split; exact W.fail_indent ..; rfl

theorem genNode_indent (L : Loader) (named : List Named) (g : List Node → W → W)
    (hg : ∀ nodes w, (g nodes w).indent = w.indent) (n : Node) (w : W) : (genNode L named g n w).indent = w.indent := by
  cases n with
  | text v line ws => simp only [genNode]; split <;> rfl
  | expr e line raw => exact W.writeAll_indent ..
  | stmt s line => rfl
  | inter s line => rfl
  | control s line body => simp [genNode, W.write, W.writeAt, W.writeHdr, hg body]
  | apply m line body => simp [genNode, W.write, W.writeAt, W.writeHdr, hg body]
  | block name line body =>
    simp only [genNode]; split
    · exact W.fail_indent ..
    · rw [W.leave_indent, hg]; rfl
  | «extends» name => exact W.fail_indent ..
  | incl name line =>
    simp only [genNode]; split
    · exact W.fail_indent ..
    · rw [W.leave_indent, hg]; rfl

theorem gen_indent (L : Loader) (named : List Named) (f : Nat) (nodes : List Node) (w : W) :
    (gen L named f nodes w).indent = w.indent := by
  induction f generalizing nodes w with
  | zero => exact W.fail_indent ..
  | succ f ih =>
    cases nodes with
    | nil => rfl
    | cons n ns =>
      simp only [gen]
      split
      · rfl
      · rw [ih ns]; exact genNode_indent L named _ ih n w

theorem countNl_append (a b : Str) : countNl (a ++ b) = countNl a + countNl b := by simp [countNl]
theorem countNl_reverse (a : Str) : countNl a.reverse = countNl a := by simp [countNl]
theorem countNl_cons (c : Nat) (a : Str) : countNl (c :: a) = (if c = 10 then 1 else 0) + countNl a := by
  simp [countNl, List.count_cons]; split <;> omega

theorem open2_tagKindOf {c2 : Nat} (h : isOpen2 c2 = true) : (tagKindOf c2).open2 = c2 := by
  unfold isOpen2 at h; unfold tagKindOf TagKind.open2
  by_cases h1 : c2 = 123
  · simp [h1]
  · by_cases h2 : c2 = 37
    · simp [h2]
    · have : c2 = 35 := by simpa [h1, h2] using h
      simp [this]

theorem isOpen2_ne_nl {c2 : Nat} (h : isOpen2 c2 = true) : c2 ≠ 10 := by
  intro h'; subst h'; simp [isOpen2] at h

/-- running-line check of a token stream: `L` = `reader.line` before the token -/
def walk : Nat → List Tok → Final → Prop
  | L, [], .eof l r le => l = L ∧ le = L + countNl r
  | L, [], .unterminated _ l _ => l = L
  | L, .text v l :: ts, f => l = L + countNl v ∧ walk l ts f
  | L, .esc c2 l :: ts, f => l = L ∧ c2 ≠ 10 ∧ walk L ts f
  | L, .tag _ c l le :: ts, f => l = L ∧ le = L + countNl c ∧ walk le ts f

theorem flatMap_flush (acc : Str) (line : Nat) : (flushText acc line).flatMap Tok.src = acc.reverse := by
  unfold flushText; split
  · rename_i h; simp at h; simp [h]
  · simp [Tok.src]

theorem walk_flush (acc : Str) (line : Nat) (ts : List Tok) (f : Final)
    (h : walk (line + countNl acc) ts f) : walk line (flushText acc line ++ ts) f := by
  unfold flushText; split
  · rename_i h'; simp at h'; subst h'; simpa [countNl] using h
  · simp only [List.cons_append, List.nil_append, walk, countNl_reverse]; exact ⟨trivial, h⟩

/-- what one pass of the reader guarantees: the sources of the tokens concatenate to the input, and every
line number is the running line -/
theorem lex_good :
    (∀ acc line s, ((lexText acc line s).1.flatMap Tok.src ++ (lexText acc line s).2.src = acc.reverse ++ s) ∧
      walk line (lexText acc line s).1 (lexText acc line s).2) ∧
    (∀ k acc l0 s, ((lexTag k acc l0 s).1.flatMap Tok.src ++ (lexTag k acc l0 s).2.src
        = 123 :: k.open2 :: (acc.reverse ++ s)) ∧
      walk l0 (lexTag k acc l0 s).1 (lexTag k acc l0 s).2) := by
  apply lexText.mutual_induct
    (motive_1 := fun acc line s =>
      ((lexText acc line s).1.flatMap Tok.src ++ (lexText acc line s).2.src = acc.reverse ++ s) ∧
      walk line (lexText acc line s).1 (lexText acc line s).2)
    (motive_2 := fun k acc l0 s =>
      ((lexTag k acc l0 s).1.flatMap Tok.src ++ (lexTag k acc l0 s).2.src = 123 :: k.open2 :: (acc.reverse ++ s)) ∧
      walk l0 (lexTag k acc l0 s).1 (lexTag k acc l0 s).2)
  · intro acc line; simp [lexText, Final.src, walk, countNl_reverse]
  · intro acc line c
    simp only [lexText, Final.src, walk, List.flatMap_nil, List.nil_append, List.reverse_cons, true_and]
    rw [countNl_append, countNl_reverse, countNl_cons, countNl_cons]; simp [countNl]; omega
  · intro acc line c c2 h
    have hc : c = 123 := by simp at h; exact h.1
    have ho : isOpen2 c2 = true := by simp at h; exact h.2
    have e : lexText acc line [c, c2] = (flushText acc line, .unterminated (tagKindOf c2) (line + countNl acc) []) := by
      rw [lexText]; simp [h]
    rw [e]
    refine ⟨by simp [Final.src, flatMap_flush, open2_tagKindOf ho, hc], ?_⟩
    have := walk_flush acc line [] (.unterminated (tagKindOf c2) (line + countNl acc) []) (by simp [walk])
    simpa using this
  · intro acc line c c2 h c3 rest' h3 ih
    have e : lexText acc line (c :: c2 :: c3 :: rest') = lexText (c :: acc) line (c2 :: c3 :: rest') := by
      rw [lexText]; simp only [h, h3, if_true]
    rw [e]; simpa using ih
  · intro acc line c c2 h c3 rest' h3 h33
    dsimp only
    intro ts f hl ih
    have hc : c = 123 := by simp at h; exact h.1
    have ho : isOpen2 c2 = true := by simp at h; exact h.2
    have h33' : c3 = 33 := by simpa using h33
    have e : lexText acc line (c :: c2 :: c3 :: rest') =
        (flushText acc line ++ .esc c2 (line + countNl acc) :: ts, f) := by
      rw [lexText]; simp only [h, h3, h33, if_true, hl]; simp
    rw [hl] at ih
    rw [e]
    refine ⟨?_, ?_⟩
    · simp only [List.flatMap_append, flatMap_flush, List.flatMap_cons, Tok.src, hc, h33']
      have := ih.1; simp at this; simp [List.append_assoc, this]
    · exact walk_flush _ _ _ _ ⟨rfl, isOpen2_ne_nl ho, ih.2⟩
  · intro acc line c c2 h c3 rest' h3 h33
    dsimp only
    intro ts f hl ih
    have hc : c = 123 := by simp at h; exact h.1
    have ho : isOpen2 c2 = true := by simp at h; exact h.2
    have e : lexText acc line (c :: c2 :: c3 :: rest') = (flushText acc line ++ ts, f) := by
      rw [lexText]; simp only [h, h3, h33, if_true, hl]; simp
    rw [hl] at ih
    rw [e]
    refine ⟨?_, ?_⟩
    · simp only [List.flatMap_append, flatMap_flush, List.append_assoc]
      have := ih.1; simp at this; rw [this, open2_tagKindOf ho, hc]
    · exact walk_flush _ _ _ _ ih.2
  · intro acc line c c2 rest h ih
    have e : lexText acc line (c :: c2 :: rest) = lexText (c :: acc) line (c2 :: rest) := by
      rw [lexText.eq_def]; simp only [h]; simp
    rw [e]; simpa using ih
  · intro k acc l0; simp [lexTag, Final.src, walk]
  · intro k acc l0 c; simp [lexTag, Final.src, walk]
  · intro k acc l0 c c2 rest h
    dsimp only
    intro ts f hl ih
    have hc : c = k.close1 := by simp at h; exact h.1
    have h2 : c2 = 125 := by simp at h; exact h.2
    have e : lexTag k acc l0 (c :: c2 :: rest) = (.tag k acc.reverse l0 (l0 + countNl acc) :: ts, f) := by
      rw [lexTag]; simp only [h, if_true, hl]
    rw [hl] at ih
    rw [e]
    refine ⟨?_, ?_⟩
    · have := ih.1; simp at this; simp [Tok.src, hc, h2, this]
    · exact ⟨rfl, by simp [countNl_reverse], ih.2⟩
  · intro k acc l0 c c2 rest h ih
    have e : lexTag k acc l0 (c :: c2 :: rest) = lexTag k (c :: acc) l0 (c2 :: rest) := by
      rw [lexTag]; simp only [h]; simp
    rw [e]; simpa using ih

/-- the lines at which the builder can raise: after a complete directive, or where the input runs out -/
def errLines : List Tok → Final → List Nat
  | [], .eof l _ _ => [l]
  | [], .unterminated _ l _ => [l]
  | .tag _ _ _ le :: ts, f => le :: errLines ts f
  | _ :: ts, f => errLines ts f

theorem blockTag_err {st : BState} {c : Str} {l le : Nat} {e : PErr} (h : blockTag st c l le = .error e) :
    e.line = le := by
  unfold blockTag at h
  split at h
  · cases h
  · cases h; rfl

theorem stepTok_err {st : BState} {t : Tok} {e : PErr} (h : stepTok st t = .error e) :
    ∃ k c l, t = .tag k c l e.line := by
  cases t with
  | text v l => simp [stepTok] at h
  | esc c l => simp [stepTok] at h
  | tag k c l le =>
    refine ⟨k, c, l, ?_⟩
    cases k with
    | comment => simp [stepTok] at h
    | expr =>
      simp only [stepTok] at h
      split at h
      · cases h; rfl
      · cases h
    | block =>
      simp only [stepTok] at h
      split at h
      · cases h; rfl
      · rw [blockTag_err h]

theorem finish_err {st : BState} {f : Final} {e : PErr} (h : finish st f = .error e) : e.line ∈ errLines [] f := by
  cases f with
  | eof l r le =>
    simp only [finish] at h
    split at h
    · cases h; simp [errLines]
    · cases h
  | unterminated k l r =>
    cases k <;> simp only [finish] at h <;> cases h <;> simp [errLines]

theorem build_err {st : BState} {ts : List Tok} {f : Final} {e : PErr} (h : build st ts f = .error e) :
    e.line ∈ errLines ts f := by
  induction ts generalizing st with
  | nil => exact finish_err (by simpa [build] using h)
  | cons t ts ih =>
    simp only [build] at h
    split at h
    · rename_i e' he
      cases h
      obtain ⟨k, c, l, rfl⟩ := stepTok_err he
      simp [errLines]
    · rename_i st' _
      have := ih h
      cases t <;> simp [errLines, this]

theorem open2_ne_nl (k : TagKind) : k.open2 ≠ 10 := by cases k <;> decide
theorem close1_ne_nl (k : TagKind) : k.close1 ≠ 10 := by cases k <;> decide

theorem countNl_tag_src (k : TagKind) (c : Str) (l le : Nat) : countNl (Tok.tag k c l le).src = countNl c := by
  simp [Tok.src, countNl, List.count_cons, open2_ne_nl k, close1_ne_nl k]

/-- every line at which the builder can raise is the line of a source offset -/
theorem errLines_pos {L : Nat} {ts : List Tok} {f : Final} (hw : walk L ts f) {n : Nat} (hn : n ∈ errLines ts f) :
    ∃ j, j ≤ (ts.flatMap Tok.src ++ f.src).length ∧ n = L + countNl ((ts.flatMap Tok.src ++ f.src).take j) := by
  induction ts generalizing L with
  | nil =>
    cases f with
    | eof l r le => simp [errLines] at hn; simp [walk] at hw; exact ⟨0, by simp, by simp [hn, hw.1, countNl]⟩
    | unterminated k l r => simp [errLines] at hn; simp [walk] at hw; exact ⟨0, by simp, by simp [hn, hw, countNl]⟩
  | cons t ts ih =>
    -- the suffix after `t` starts at running line `L + countNl t.src`
    have shift : ∀ L', walk L' ts f → L' = L + countNl t.src → n ∈ errLines ts f →
        ∃ j, j ≤ ((t :: ts).flatMap Tok.src ++ f.src).length ∧
          n = L + countNl (((t :: ts).flatMap Tok.src ++ f.src).take j) := by
      intro L' hw' hL' hn'
      obtain ⟨j, hj, hnj⟩ := ih hw' hn'
      refine ⟨t.src.length + j, by simp at hj ⊢; omega, ?_⟩
      simp only [List.flatMap_cons, List.append_assoc]
      rw [List.take_append, List.take_of_length_le (by omega), countNl_append, hnj, hL']
      simp [Nat.add_assoc]
    cases t with
    | text v l =>
      simp only [walk] at hw
      exact shift l hw.2 (by simp [Tok.src, hw.1]) (by simpa [errLines] using hn)
    | esc c2 l =>
      simp only [walk] at hw
      exact shift L hw.2.2 (by simp [Tok.src, countNl, List.count_cons, hw.2.1]) (by simpa [errLines] using hn)
    | tag k c l le =>
      simp only [walk] at hw
      simp only [errLines, List.mem_cons] at hn
      rcases hn with hn | hn
      · refine ⟨(Tok.tag k c l le).src.length, by simp, ?_⟩
        simp only [List.flatMap_cons, List.append_assoc]
        rw [List.take_append, List.take_of_length_le (by omega)]
        have := countNl_tag_src k c l le
        simp only [List.take_length, Nat.sub_self, List.take_zero, List.append_nil]
        rw [this, hn, hw.2.1]
      · exact shift le hw.2.2 (by rw [countNl_tag_src]; exact hw.2.1) hn


/-! ### which directive an error belongs to -/
/-- the builder over a prefix of the token stream (the part of `build` before `finish`) -/
def runToks (st : BState) : List Tok → Except PErr BState
  | [] => .ok st
  | t :: ts =>
    match stepTok st t with
    | .error e => .error e
    | .ok st' => runToks st' ts

/-- an error of `build` is raised by the first token `stepTok` rejects (everything before it was accepted), or by
`finish` after all tokens were accepted -/
theorem build_err_split {st : BState} {ts : List Tok} {f : Final} {e : PErr} (h : build st ts f = .error e) :
    (∃ pre t post st', ts = pre ++ t :: post ∧ runToks st pre = .ok st' ∧ stepTok st' t = .error e) ∨
    (∃ st', runToks st ts = .ok st' ∧ finish st' f = .error e) := by
  induction ts generalizing st with
  | nil => exact .inr ⟨st, rfl, by simpa [build] using h⟩
  | cons t ts ih =>
    simp only [build] at h
    cases hs : stepTok st t with
    | error e' => rw [hs] at h; cases h; exact .inl ⟨[], t, ts, st, rfl, rfl, hs⟩
    | ok st' =>
      rw [hs] at h
      rcases ih h with ⟨pre, t', post, st'', rfl, hr, he⟩ | ⟨st'', hr, he⟩
      · exact .inl ⟨t :: pre, t', post, st'', rfl, by simp [runToks, hs, hr], he⟩
      · exact .inr ⟨st'', by simp [runToks, hs, hr], he⟩

/-- the running line after a prefix of the tokens is the start line plus the newlines of the prefix's source -/
theorem walk_split {L : Nat} {pre rest : List Tok} {f : Final} (h : walk L (pre ++ rest) f) :
    walk (L + countNl (pre.flatMap Tok.src)) rest f := by
  induction pre generalizing L with
  | nil => simpa [countNl] using h
  | cons t pre ih =>
    cases t with
    | text v l =>
      simp only [List.cons_append, walk] at h
      have := ih h.2
      rw [h.1] at this
      simpa [Tok.src, countNl_append, Nat.add_assoc] using this
    | esc c2 l =>
      simp only [List.cons_append, walk] at h
      have := ih h.2.2
      have e0 : countNl (Tok.esc c2 l).src = 0 := by
        simp [Tok.src, countNl, List.count_cons, h.2.1]
      simpa [List.flatMap_cons, countNl_append, e0] using this
    | tag k c l le =>
      simp only [List.cons_append, walk] at h
      have := ih h.2.2
      rw [h.2.1] at this
      simpa [List.flatMap_cons, countNl_append, countNl_tag_src, Nat.add_assoc] using this

end TornadoModel.C19
