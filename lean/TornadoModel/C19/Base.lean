/-
C19 — Python string/bytes primitives used by `tornado/template.py` (core Lean only).

Text is a list of Unicode code points (`List Nat`), byte strings are lists of naturals < 256.
Anchors: `str.strip()`, `str.partition(" ")`, `str.strip('"')`, `re` class `\s` (= `str.isspace`),
`filter_whitespace`, `escape.utf8` (`str.encode("utf-8")`), `bytes.__repr__`, `"%d" %`, `html.escape`.
-/
namespace TornadoModel.C19

abbrev Str := List Nat

/-- `str.isspace()` for one code point = the `\s` class of `re` on `str` patterns (CPython 3.12). -/
def isSpace (c : Nat) : Bool :=
  (9 ≤ c && c ≤ 13) || (28 ≤ c && c ≤ 32) || c == 0x85 || c == 0xA0 || c == 0x1680 ||
  (0x2000 ≤ c && c ≤ 0x200A) || c == 0x2028 || c == 0x2029 || c == 0x202F || c == 0x205F || c == 0x3000

/-- `[\t ]` -/
def isBlank (c : Nat) : Bool := c == 9 || c == 32

def lstrip (s : Str) : Str := s.dropWhile isSpace
def rstrip (s : Str) : Str := (s.reverse.dropWhile isSpace).reverse
/-- `s.strip()` -/
def strip (s : Str) : Str := rstrip (lstrip s)

/-- `s.strip(ch)` for a one-character set -/
def stripChar (ch : Nat) (s : Str) : Str :=
  (((s.dropWhile (· == ch)).reverse).dropWhile (· == ch)).reverse

/-- `s.partition(" ")` → (head, tail after the first space); no space: `(s, [])` -/
def partitionSp : Str → Str × Str
  | [] => ([], [])
  | c :: cs => if c == 32 then ([], cs) else let (a, b) := partitionSp cs; (c :: a, b)

def countNl (s : Str) : Nat := s.count 10

/-- `needle in s` -/
def isInfix (needle : Str) : Str → Bool
  | [] => needle.isEmpty
  | c :: cs => needle.isPrefixOf (c :: cs) || isInfix needle cs

def startsWith (p s : Str) : Bool := p.isPrefixOf s
def endsWith (p s : Str) : Bool := p.reverse.isPrefixOf s.reverse

/-! ### decimal -/
def digitsAux : Nat → Nat → Str → Str
  | 0, _, acc => acc
  | fuel + 1, n, acc => if n < 10 then (48 + n) :: acc else digitsAux fuel (n / 10) ((48 + n % 10) :: acc)
/-- `"%d" % n` for a natural number -/
def dec (n : Nat) : Str := digitsAux (n + 1) n []
def decInt (i : Int) : Str := if i < 0 then 45 :: dec i.natAbs else dec i.toNat

def hexDigit (n : Nat) : Nat := if n < 10 then 48 + n else 87 + n

/-! ### UTF-8 -/
/-- UTF-8 encoding of one scalar value (surrogates are excluded by the generators) -/
def utf8c (c : Nat) : List Nat :=
  if c < 0x80 then [c]
  else if c < 0x800 then [0xC0 + c / 64, 0x80 + c % 64]
  else if c < 0x10000 then [0xE0 + c / 4096, 0x80 + (c / 64) % 64, 0x80 + c % 64]
  else [0xF0 + c / 262144, 0x80 + (c / 4096) % 64, 0x80 + (c / 64) % 64, 0x80 + c % 64]

/-- `escape.utf8(str)` -/
def utf8 (s : Str) : List Nat := s.flatMap utf8c

/-! ### `repr(bytes)` -/
def reprByte (q : Nat) (b : Nat) : Str :=
  if b == q || b == 92 then [92, b]
  else if b == 9 then (/-"\\t"-/ [92, 116] : List Nat)
  else if b == 10 then (/-"\\n"-/ [92, 110] : List Nat)
  else if b == 13 then (/-"\\r"-/ [92, 114] : List Nat)
  else if b < 32 || 127 ≤ b then [92, 120, hexDigit (b / 16), hexDigit (b % 16)]
  else [b]

/-- `repr(b)` for a `bytes` object: `'` unless the value contains `'` and no `"` -/
def reprBytes (bs : List Nat) : Str :=
  let q := if bs.contains 39 && !bs.contains 34 then 34 else 39
  98 :: q :: (bs.flatMap (reprByte q)) ++ [q]

/-! ### `filter_whitespace` -/
inductive Ws where
  | all | single | oneline
  deriving DecidableEq, Repr, Inhabited

/-- `re.sub(cls+, " ", text)`: every maximal run of characters of the class becomes one space.
`prev` = the previous character was in the class (its space has been emitted). -/
def collapseRuns (cls : Nat → Bool) : Bool → Str → Str
  | _, [] => []
  | prev, c :: cs =>
    if cls c then (if prev then collapseRuns cls true cs else 32 :: collapseRuns cls true cs)
    else c :: collapseRuns cls false cs

def flushRun (run : Str) (hasNl : Bool) : Str := if hasNl then [10] else run.reverse

/-- `re.sub(r"(\s*\n\s*)", "\n", text)`: every maximal whitespace run that contains a newline becomes
one newline; other runs stay.  `run` = the pending whitespace run (reversed). -/
def nlRuns : Str → Bool → Str → Str
  | run, h, [] => flushRun run h
  | run, h, c :: cs =>
    if isSpace c then nlRuns (c :: run) (h || c == 10) cs
    else flushRun run h ++ c :: nlRuns [] false cs

def filterWhitespace (mode : Ws) (text : Str) : Str :=
  match mode with
  | .all => text
  | .single => nlRuns [] false (collapseRuns isBlank false text)
  | .oneline => collapseRuns isSpace false text

def wsOfName : Str → Option Ws
  | s => if s == (/-"all"-/ [97, 108, 108] : List Nat) then some .all else if s == (/-"single"-/ [115, 105, 110, 103, 108, 101] : List Nat) then some .single
         else if s == (/-"oneline"-/ [111, 110, 101, 108, 105, 110, 101] : List Nat) then some .oneline else none

def Ws.name : Ws → Str
  | .all => (/-"all"-/ [97, 108, 108] : List Nat) | .single => (/-"single"-/ [115, 105, 110, 103, 108, 101] : List Nat) | .oneline => (/-"oneline"-/ [111, 110, 101, 108, 105, 110, 101] : List Nat)

/-! ### `html.escape(s, quote=True)` on code points (also used on UTF-8 bytes: the five characters are ASCII) -/
def escapeChar (c : Nat) : Str :=
  if c == 38 then (/-"&amp;"-/ [38, 97, 109, 112, 59] : List Nat) else if c == 60 then (/-"&lt;"-/ [38, 108, 116, 59] : List Nat) else if c == 62 then (/-"&gt;"-/ [38, 103, 116, 59] : List Nat)
  else if c == 34 then (/-"&quot;"-/ [38, 113, 117, 111, 116, 59] : List Nat) else if c == 39 then (/-"&#x27;"-/ [38, 35, 120, 50, 55, 59] : List Nat) else [c]

def xhtmlEscape (s : Str) : Str := s.flatMap escapeChar

end TornadoModel.C19
