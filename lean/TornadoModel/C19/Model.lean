/-
C19 — top level of the executable model: a `DictLoader` over source texts, `Template.__init__`
(initial whitespace mode by loader setting or file name, initial autoescape from the loader), loading of
everything reachable through `{% extends %}` / `{% include %}`, and `Template.code`.

Files: `Base` (Python string primitives, `filter_whitespace`, `repr(bytes)`, UTF-8), `Scan` (`_parse` +
`_TemplateReader`), `Gen` (code generator), this file (loader + entry points).  `Spec.lean` holds the
direct interpreter (`Interp`).
-/
import TornadoModel.C19.Gen
import TornadoModel.C19.Path
namespace TornadoModel.C19

structure Source where
  name : Str
  text : Str
  deriving Repr, Inhabited

/-- the loader's settings: `DictLoader(dict, autoescape=…, whitespace=…)` -/
structure Settings where
  ws : Option Ws
  autoescape : Option Str
  deriving Repr, Inhabited

/-- "Whitespace defaults by filename." -/
def initWs (s : Settings) (name : Str) : Ws :=
  match s.ws with
  | some w => w
  | none => if endsWith (/-".html"-/ [46, 104, 116, 109, 108] : List Nat) name || endsWith (/-".js"-/ [46, 106, 115] : List Nat) name then .single else .all

/-! ### names
`_IncludeBlock` keeps `(name, template_name = reader.name)` and `_get_ancestors` passes `(chunk.name, self.name)`;
every later `loader.load(name, parent)` sends the pair through the pure function `resolve_path` and then looks the
**resolved** name up in the cache.  The model stores the resolved name in the node (same pair, same function). -/
mutual
def resolveNode (parent : Str) : Node → Node
  | .control s l b => .control s l (resolveBody parent b)
  | .apply m l b => .apply m l (resolveBody parent b)
  | .block n l b => .block n l (resolveBody parent b)
  | .extends name => .extends (resolvePath name (some parent))
  | .incl name l => .incl (resolvePath name (some parent)) l
  | n => n
def resolveBody (parent : Str) : List Node → List Node
  | [] => []
  | n :: ns => resolveNode parent n :: resolveBody parent ns
end

/-- `Template(self.dict[name], name=name, loader=self)`; `name` is the resolved name (the cache key) -/
def parseSource (s : Settings) (src : Source) : Except PErr FileInfo :=
  match scan (initWs s src.name) s.autoescape src.text with
  | .error e => .error e
  | .ok p => .ok ⟨src.name, resolveBody src.name p.body, p.autoescape⟩

/-- names referenced by `{% include %}` anywhere in a body -/
def includesOf : Nat → List Node → List Str
  | 0, _ => []
  | _ + 1, [] => []
  | f + 1, n :: ns =>
    (match n with
     | .incl name _ => [name]
     | .control _ _ b => includesOf f b
     | .apply _ _ b => includesOf f b
     | .block _ _ b => includesOf f b
     | _ => []) ++ includesOf f ns

inductive LoadErr where
  | parse (file : Str) (e : PErr)
  | missing (file : Str)         -- `self.dict[name]` → KeyError
  | fuel
  deriving Repr, Inhabited

/-- load `todo` and everything reachable from it (depth-first); `acc` = templates loaded so far.
With at most one malformed file the order of discovery does not influence the error reported. -/
def loadAll (s : Settings) (srcs : List Source) : Nat → List Str → Loader → Except LoadErr Loader
  | 0, _, _ => .error .fuel
  | _ + 1, [], acc => .ok acc
  | f + 1, name :: todo, acc =>
    if (acc.find name).isSome then loadAll s srcs f todo acc else
    match srcs.find? (fun x => x.name == name) with
    | none => .error (.missing name)
    | some src =>
      match parseSource s src with
      | .error e => .error (.parse name e)
      | .ok t => loadAll s srcs f (extendsOf t.body ++ includesOf (f + 1) t.body ++ todo) (acc ++ [t])

inductive Outcome where
  | parseError (file : Str) (e : PErr)
  | genError (e : GenErr)
  | code (lines : List Line)
  deriving Repr, Inhabited

def fuelFor (srcs : List Source) : Nat := 64 + 4 * (srcs.map (fun s => s.text.length + 8)).sum

/-- `loader.load(entry).code` -/
def compile (s : Settings) (srcs : List Source) (entry : Str) : Outcome :=
  let fuel := fuelFor srcs
  match loadAll s srcs fuel [entry] [] with
  | .error (.parse file e) => .parseError file e
  | .error (.missing _) => .genError .keyError
  | .error .fuel => .genError .fuel
  | .ok L =>
    match L.find entry with
    | none => .genError .keyError
    | some t =>
      match generatePython L fuel t with
      | .error e => .genError e
      | .ok lines => .code lines

def outcomeOf (L : Loader) (fuel : Nat) (entry : Str) : Outcome :=
  match L.find entry with
  | none => .genError .keyError
  | some t =>
    match generatePython L fuel t with
    | .error e => .genError e
    | .ok lines => .code lines

/-- the cache `BaseLoader.templates` after a sequence of top-level `loader.load(name)` calls on ONE loader instance,
starting from `cache`; a load that fails leaves the cache as it was (see `docs/C19.md`) -/
def loadSeq (s : Settings) (srcs : List Source) : List Str → Loader → Loader
  | [], cache => cache
  | entry :: rest, cache =>
    match loadAll s srcs (fuelFor srcs) [entry] cache with
    | .error _ => loadSeq s srcs rest cache
    | .ok L => loadSeq s srcs rest L

/-- `[loader.load(n).code for n in names]` on ONE loader instance: the cache is carried from one load to the next -/
def compileSeq (s : Settings) (srcs : List Source) : List Str → Loader → List Outcome
  | [], _ => []
  | entry :: rest, cache =>
    let fuel := fuelFor srcs
    match loadAll s srcs fuel [entry] cache with
    | .error (.parse file e) => .parseError file e :: compileSeq s srcs rest cache
    | .error (.missing _) => .genError .keyError :: compileSeq s srcs rest cache
    | .error .fuel => .genError .fuel :: compileSeq s srcs rest cache
    | .ok L => outcomeOf L fuel entry :: compileSeq s srcs rest L

end TornadoModel.C19
