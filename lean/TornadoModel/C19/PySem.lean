/-
C19 — a small big-step semantics of the Python source that `_generate_python` emits (for the stretch theorem
`interp_matches_gen_structure`).  It is defined on the generated `List Line` itself and never looks at the
template's syntax tree:

* `parseLines` recovers the block structure from indentation and the `hdr` flag of each line (a header opens a
  block one level deeper; a dedent closes blocks; any other indentation is an error);
* `execList` executes a statement list.  It knows exactly the statement forms the generator emits:
  `_tt_append(b'…')` (the bytes literal is decoded again), `_tt_tmp = <expr>`, the two conversion lines
  `if isinstance(…): …` / `else: …`, `_tt_tmp = _tt_utf8(f(_tt_tmp))`, `_tt_append(_tt_tmp)`, `pass`, `break`, `continue`, `x = e`,
  `if c:` / `elif c:` / `else:` blocks, `for x in e:` blocks with `else:`, and the prologue/epilogue of
  `def _tt_execute():`.  Expressions, truthiness and the function pool are those of `Spec.lean`
  (`evalExpr`, `Val.truthy`, `applyFn`): the theorem is about *structure* — blocks, order, buffer, escaping.

The `else`/`elif` clauses are attached to the preceding statement by a mode that `execList` threads through the
sibling statements (`Mode.chain isIf live`), so no look-ahead is needed and the recursion is structural.
-/
import TornadoModel.C19.Spec
namespace TornadoModel.C19

/-! ### block structure -/
/-- where a generated line comes from (ignored by the semantics) -/
structure Meta where
  file : Str
  line : Nat
  via : List (Str × Nat)
  deriving Repr, Inhabited

inductive PStmt where
  | simple (code : Str) (m : Meta)
  | block (hdr : Str) (m : Meta) (body : List PStmt)
  deriving Repr, Inhabited

mutual
/-- the source lines of a statement at indentation `i` -/
def PStmt.flat (i : Nat) : PStmt → List Line
  | .simple c m => [⟨i, c, false, m.file, m.line, m.via⟩]
  | .block h m body => ⟨i, h, true, m.file, m.line, m.via⟩ :: flatList (i + 1) body
def flatList (i : Nat) : List PStmt → List Line
  | [] => []
  | s :: ss => s.flat i ++ flatList i ss
end

/-- the statements of one block at indentation `i`, and the lines behind the block.  `none` = IndentationError. -/
def parseBlock : Nat → Nat → List Line → Option (List PStmt × List Line)
  | 0, _, _ => none
  | _ + 1, _, [] => some ([], [])
  | f + 1, i, l :: ls =>
    if l.indent < i then some ([], l :: ls)
    else if l.indent != i then none
    else if l.hdr then
      match parseBlock f (i + 1) ls with
      | none => none
      | some (body, rest) =>
        match parseBlock f i rest with
        | none => none
        | some (sibs, rest') => some (.block l.code ⟨l.file, l.line, l.via⟩ body :: sibs, rest')
    else
      match parseBlock f i ls with
      | none => none
      | some (sibs, rest) => some (.simple l.code ⟨l.file, l.line, l.via⟩ :: sibs, rest)

def parseLines (lines : List Line) : Option (List PStmt) :=
  match parseBlock (lines.length + 1) 0 lines with
  | some (t, []) => some t
  | _ => none

/-! ### string helpers -/
def dropPrefix? : Str → Str → Option Str
  | [], s => some s
  | _ :: _, [] => none
  | p :: ps, c :: cs => if p == c then dropPrefix? ps cs else none

def dropSuffix? (suf s : Str) : Option Str := (dropPrefix? suf.reverse s.reverse).map List.reverse

/-- value of a hexadecimal digit `0-9a-f` -/
def unhex (c : Nat) : Nat := if c ≤ 57 then c - 48 else c - 87

/-- the body of a bytes literal up to the closing quote `q`: the bytes, and what follows the quote -/
def decLit (q : Nat) : Str → Option (List Nat × Str)
  | [] => none
  | c :: cs =>
    if c == q then some ([], cs)
    else if c == 92 then
      match cs with
      | [] => none
      | x :: xs =>
        if x == 120 then
          match xs with
          | h :: l :: rest =>
            match decLit q rest with
            | some (bs, r) => some ((16 * unhex h + unhex l) :: bs, r)
            | none => none
          | _ => none
        else
          match decLit q xs with
          | some (bs, r) =>
            some ((if x == 116 then 9 else if x == 110 then 10 else if x == 114 then 13 else x) :: bs, r)
          | none => none
    else
      match decLit q cs with
      | some (bs, r) => some (c :: bs, r)
      | none => none

/-! ### statement forms -/
inductive SKind where
  | pass | initBuf | bindAppend | retJoin | appendTmp | convIf | convElse
  | appendLit (q : Nat) (body : Str)
  | assignTmp (e : Str)
  | brk | cont
  /-- any other statement; understood if it is an assignment `x = e` of the Spec's statement pool (`{% set %}`) -/
  | other
  deriving DecidableEq, Repr, Inhabited

def classify (c : Str) : SKind :=
  match dropPrefix? (/-"_tt_tmp = "-/ [95, 116, 116, 95, 116, 109, 112, 32, 61, 32] : List Nat) c with
  | some e => .assignTmp e
  | none =>
    match dropPrefix? (/-"_tt_append("-/ [95, 116, 116, 95, 97, 112, 112, 101, 110, 100, 40] : List Nat) c with
    | some (98 :: q :: body) => .appendLit q body
    | some r => if r == (/-"_tt_tmp)"-/ [95, 116, 116, 95, 116, 109, 112, 41] : List Nat) then .appendTmp else .other
    | none =>
      if c == (/-"pass"-/ [112, 97, 115, 115] : List Nat) then .pass
      else if c == (/-"_tt_buffer = []"-/ [95, 116, 116, 95, 98, 117, 102, 102, 101, 114, 32, 61, 32, 91, 93] : List Nat) then .initBuf
      else if c == (/-"_tt_append = _tt_buffer.append"-/ [95, 116, 116, 95, 97, 112, 112, 101, 110, 100, 32, 61, 32, 95, 116, 116, 95, 98, 117, 102, 102, 101, 114, 46, 97, 112, 112, 101, 110, 100] : List Nat) then .bindAppend
      else if c == (/-"return _tt_utf8('').join(_tt_buffer)"-/ [114, 101, 116, 117, 114, 110, 32, 95, 116, 116, 95, 117, 116, 102, 56, 40, 39, 39, 41, 46, 106, 111, 105, 110, 40, 95, 116, 116, 95, 98, 117, 102, 102, 101, 114, 41] : List Nat) then .retJoin
      else if c == (/-"if isinstance(_tt_tmp, _tt_string_types): _tt_tmp = _tt_utf8(_tt_tmp)"-/ [105, 102, 32, 105, 115, 105, 110, 115, 116, 97, 110, 99, 101, 40, 95, 116, 116, 95, 116, 109, 112, 44, 32, 95, 116, 116, 95, 115, 116, 114, 105, 110, 103, 95, 116, 121, 112, 101, 115, 41, 58, 32, 95, 116, 116, 95, 116, 109, 112, 32, 61, 32, 95, 116, 116, 95, 117, 116, 102, 56, 40, 95, 116, 116, 95, 116, 109, 112, 41] : List Nat) then .convIf
      else if c == (/-"else: _tt_tmp = _tt_utf8(str(_tt_tmp))"-/ [101, 108, 115, 101, 58, 32, 95, 116, 116, 95, 116, 109, 112, 32, 61, 32, 95, 116, 116, 95, 117, 116, 102, 56, 40, 115, 116, 114, 40, 95, 116, 116, 95, 116, 109, 112, 41, 41] : List Nat) then .convElse
      else if c == (/-"break"-/ [98, 114, 101, 97, 107] : List Nat) then .brk
      else if c == (/-"continue"-/ [99, 111, 110, 116, 105, 110, 117, 101] : List Nat) then .cont
      else .other

inductive HKind where
  | ifc (cond : Str) | elifc (cond : Str) | elsec
  | forc (x e : Str)
  | defExec | bad
  deriving DecidableEq, Repr, Inhabited

/-- the kind of a block header `s:` — the statement text is split exactly as Python's grammar does for these forms
(keyword, one space, the rest) -/
def hdrKind (h : Str) : HKind :=
  match dropSuffix? [58] h with
  | none => .bad
  | some s =>
    if (partitionSp s).1 == (/-"if"-/ [105, 102] : List Nat) then .ifc (strip (partitionSp s).2)
    else if (partitionSp s).1 == (/-"elif"-/ [101, 108, 105, 102] : List Nat) then .elifc (strip (partitionSp s).2)
    else if (partitionSp s).1 == (/-"for"-/ [102, 111, 114] : List Nat) then
      match splitIn (strip (partitionSp s).2) with
      | some (x, e) => .forc (strip x) (strip e)
      | none => .bad
    else if s == (/-"else"-/ [101, 108, 115, 101] : List Nat) then .elsec
    else if s == (/-"def _tt_execute()"-/ [100, 101, 102, 32, 95, 116, 116, 95, 101, 120, 101, 99, 117, 116, 101, 40, 41] : List Nat) then .defExec
    else .bad

/-! ### execution -/
/-- the local `_tt_tmp` -/
inductive Tmp where
  | unset
  | val (v : Val)            -- the value of the expression
  | bytes (b : List Nat)     -- after `_tt_utf8(…)`
  deriving Repr, Inhabited

/-- state of `_tt_execute`: the joined `_tt_buffer`, the namespace, `_tt_tmp` -/
structure PS where
  buf : List Nat
  env : Env
  tmp : Tmp
  deriving Repr, Inhabited

inductive PSig where
  | normal | brk | cont
  | raise (exc : Str)
  | ret (b : List Nat)
  deriving Repr, Inhabited

/-- what the previous sibling statement leaves for a following `elif`/`else` clause -/
inductive Mode where
  | none
  /-- after an `if`/`elif` clause (`isIf`) or a loop; `live` = no clause has run yet / the loop was not left by `break` -/
  | chain (isIf live : Bool)
  deriving DecidableEq, Repr, Inhabited

def pyUnsupported (st : PS) : PS × PSig := (st, .raise (/-"Unsupported"-/ [85, 110, 115, 117, 112, 112, 111, 114, 116, 101, 100] : List Nat))
def pySyntaxError (st : PS) : PS × PSig := (st, .raise (/-"SyntaxError"-/ [83, 121, 110, 116, 97, 120, 69, 114, 114, 111, 114] : List Nat))
def pyNameError (st : PS) : PS × PSig := (st, .raise (/-"NameError"-/ [78, 97, 109, 101, 69, 114, 114, 111, 114] : List Nat))

/-- one simple statement: new state, signal, and the mode it leaves -/
def execSimple (mode : Mode) (c : Str) (st : PS) : (PS × PSig) × Mode :=
  match classify c with
  | .pass => ((st, .normal), .none)
  | .initBuf => (({ st with buf := [] }, .normal), .none)
  | .bindAppend => ((st, .normal), .none)
  | .retJoin => ((st, .ret st.buf), .none)
  | .appendTmp =>
    match st.tmp with
    | .bytes b => (({ st with buf := st.buf ++ b }, .normal), .none)
    | .val _ => (pyUnsupported st, .none)
    | .unset => (pyNameError st, .none)
  | .appendLit q body =>
    if q == 39 || q == 34 then
      match decLit q body with
      | some (bs, rest) =>
        if rest == [41] then (({ st with buf := st.buf ++ bs }, .normal), .none) else (pySyntaxError st, .none)
      | none => (pySyntaxError st, .none)
    else (pySyntaxError st, .none)
  | .assignTmp e =>
    match evalExpr st.env e with
    | .ok v => (({ st with tmp := .val v }, .normal), .none)
    | .error x =>
      -- outside the expression pool: the escaping line `_tt_tmp = _tt_utf8(f(_tt_tmp))`
      match (dropPrefix? (/-"_tt_utf8("-/ [95, 116, 116, 95, 117, 116, 102, 56, 40] : List Nat) e).bind
              (dropSuffix? (/-"(_tt_tmp))"-/ [40, 95, 116, 116, 95, 116, 109, 112, 41, 41] : List Nat)) with
      | some fn =>
        match st.tmp with
        | .bytes b =>
          match applyFn fn b with
          | .ok b' => (({ st with tmp := .bytes b' }, .normal), .none)
          | .error y => ((st, .raise y), .none)
        | .val _ => (pyUnsupported st, .none)
        | .unset => (pyNameError st, .none)
      | none => ((st, .raise x), .none)
  | .convIf =>
    -- `if isinstance(_tt_tmp, (str, bytes)): _tt_tmp = _tt_utf8(_tt_tmp)`
    match st.tmp with
    | .val (.atom (.str s)) => (({ st with tmp := .bytes (utf8 s) }, .normal), .chain true false)
    | .val (.atom (.bytes s)) => (({ st with tmp := .bytes (utf8 s) }, .normal), .chain true false)
    | .bytes _ => ((st, .normal), .chain true false)
    | .val _ => ((st, .normal), .chain true true)
    | .unset => (pyNameError st, .none)
  | .convElse =>
    -- `else: _tt_tmp = _tt_utf8(str(_tt_tmp))`
    match mode with
    | .chain true true =>
      match st.tmp with
      | .val (.atom a) => (({ st with tmp := .bytes (utf8 a.text) }, .normal), .none)
      | .val (.list _) => (pyUnsupported st, .none)      -- `str(list)` is outside the value pool of the Spec
      | .bytes _ => (pyUnsupported st, .none)
      | .unset => (pyNameError st, .none)
    | .chain true false => ((st, .normal), .none)
    | _ => (pySyntaxError st, .none)
  | .brk => ((st, .brk), .none)
  | .cont => ((st, .cont), .none)
  | .other =>
    -- `x = e` (`{% set x = e %}`)
    match splitEq c with
    | some (x, e) =>
      match evalExpr st.env e with
      | .ok v => (({ st with env := st.env.set x v }, .normal), .none)
      | .error exc => ((st, .raise exc), .none)
    | none => (pyUnsupported st, .none)

/-- `for x in items:` with the denotation of the body -/
def loopFor (body : PS → PS × PSig) (x : Str) : List Atom → PS → PS × PSig
  | [], st => (st, .normal)
  | a :: items, st =>
    match body { st with env := st.env.set x (.atom a) } with
    | (st', .normal) => loopFor body x items st'
    | (st', .cont) => loopFor body x items st'
    | r => r

/-- a statement list -/
def execList : Mode → List PStmt → PS → PS × PSig
  | _, [], st => (st, .normal)
  | mode, .simple c _ :: rest, st =>
    match execSimple mode c st with
    | ((st', .normal), mode') => execList mode' rest st'
    | (r, _) => r
  | mode, .block h _ body :: rest, st =>
    match hdrKind h with
    | .ifc c =>
      match evalExpr st.env c with
      | .error x => (st, .raise x)
      | .ok v =>
        if v.truthy then
          match execList .none body st with
          | (st', .normal) => execList (.chain true false) rest st'
          | r => r
        else execList (.chain true true) rest st
    | .elifc c =>
      match mode with
      | .chain true true =>
        match evalExpr st.env c with
        | .error x => (st, .raise x)
        | .ok v =>
          if v.truthy then
            match execList .none body st with
            | (st', .normal) => execList (.chain true false) rest st'
            | r => r
          else execList (.chain true true) rest st
      | .chain true false => execList (.chain true false) rest st
      | _ => pySyntaxError st
    | .elsec =>
      match mode with
      | .chain _ true =>
        match execList .none body st with
        | (st', .normal) => execList .none rest st'
        | r => r
      | .chain _ false => execList .none rest st
      | .none => pySyntaxError st
    | .forc x e =>
      if !isIdent x then pyUnsupported st else
      match evalExpr st.env e with
      | .error exc => (st, .raise exc)
      | .ok (.atom _) => pyUnsupported st
      | .ok (.list items) =>
        match loopFor (execList .none body) x items st with
        | (st', .normal) => execList (.chain false true) rest st'
        | (st', .brk) => execList (.chain false false) rest st'
        | r => r
    | .defExec => pyUnsupported st
    | .bad => pyUnsupported st

/-- `exec` of the generated module followed by `_tt_execute()`: the bytes returned or the type of the exception -/
def pyRun (lines : List Line) (env : Env) : Except Str (List Nat) :=
  match parseLines lines with
  | some [.block h _ body] =>
    match hdrKind h with
    | .defExec =>
      match execList .none body ⟨[], env, .unset⟩ with
      | (_, .ret b) => .ok b
      | (_, .raise x) => .error x
      | _ => .error (/-"Unsupported"-/ [85, 110, 115, 117, 112, 112, 111, 114, 116, 101, 100] : List Nat)
    | _ => .error (/-"SyntaxError"-/ [83, 121, 110, 116, 97, 120, 69, 114, 114, 111, 114] : List Nat)
  | _ => .error (/-"SyntaxError"-/ [83, 121, 110, 116, 97, 120, 69, 114, 114, 111, 114] : List Nat)

end TornadoModel.C19
