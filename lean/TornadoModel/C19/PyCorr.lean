/-
C19 — the interpreter and the semantics of the generated Python agree on the fragment `frag`
(helper lemmas for `interp_matches_gen_structure_partial`).
-/
import TornadoModel.C19.PyEmit
namespace TornadoModel.C19

/-! ### one-step unfoldings of the interpreter -/
/-- the result of one chunk (the `let r` of `interp`) -/
def nodeR (C : Ctx) (f : Nat) (owner : FileInfo) (n : Node) (out : List Nat) (env : Env) : R :=
      match n with
      | .text v _ ws => ⟨out ++ utf8 (textValue v ws), env, .normal⟩
      | .expr e _ raw =>
        match evalExpr env e with
        | .error x => ⟨out, env, .raise x⟩
        | .ok (.list _) => unsupported out env
        | .ok (.atom a) =>
          let b := a.toBytes
          match raw, owner.autoescape with
          | false, some fn =>
            match applyFn fn b with
            | .ok b' => ⟨out ++ b', env, .normal⟩
            | .error x => ⟨out, env, .raise x⟩
          | _, _ => ⟨out ++ b, env, .normal⟩
      | .stmt s _ =>
        if s == (/-"break"-/ [98, 114, 101, 97, 107] : List Nat) then ⟨out, env, .brk⟩
        else if s == (/-"continue"-/ [99, 111, 110, 116, 105, 110, 117, 101] : List Nat) then ⟨out, env, .cont⟩
        else if startsWith (/-"import "-/ [105, 109, 112, 111, 114, 116, 32] : List Nat) s || startsWith (/-"from "-/ [102, 114, 111, 109, 32] : List Nat) s then ⟨out, env, .normal⟩
        else
          match splitEq s with
          | some (x, e) =>
            match evalExpr env e with
            | .ok v => ⟨out, env.set x v, .normal⟩
            | .error exc => ⟨out, env, .raise exc⟩
          | none => unsupported out env
      | .inter _ _ => unsupported out env
      | .control s _ body => interpControl C f owner s body out env
      | .apply m _ body =>
        let r := interp C f owner body [] env
        match r.sig with
        | .normal =>
          match applyFn m r.out with
          | .ok b => ⟨out ++ b, env, .normal⟩
          | .error x => ⟨out, env, .raise x⟩
        | .raise x => ⟨out, env, .raise x⟩
        | _ => unsupported out env
      | .block name _ _ =>
        match lookupNamed C.named name with
        | none => ⟨out, env, .raise (/-"KeyError"-/ [75, 101, 121, 69, 114, 114, 111, 114] : List Nat)⟩
        | some b => interp C f b.owner b.body out env
      | .extends _ => ⟨out, env, .raise (/-"NotImplementedError"-/ [78, 111, 116, 73, 109, 112, 108, 101, 109, 101, 110, 116, 101, 100, 69, 114, 114, 111, 114] : List Nat)⟩
      | .incl name _ =>
        match C.L.find name with
        | none => ⟨out, env, .raise (/-"KeyError"-/ [75, 101, 121, 69, 114, 114, 111, 114] : List Nat)⟩
        | some t => interp C f t t.body out env

theorem interp_cons (C : Ctx) (f : Nat) (owner : FileInfo) (n : Node) (ns : List Node) (out : List Nat) (env : Env) :
    interp C (f + 1) owner (n :: ns) out env =
      (match (nodeR C f owner n out env).sig with
       | .normal => interp C f owner ns (nodeR C f owner n out env).out (nodeR C f owner n out env).env
       | _ => nodeR C f owner n out env) := by
  first | rfl | (simp only [interp, nodeR]) | (rw [interp.eq_def]; rfl)

theorem interpControl_if (C : Ctx) (f : Nat) (owner : FileInfo) (s : Str) (body : List Node) (out : List Nat) (env : Env)
    (h : ((partitionSp s).1 == (/-"if"-/ [105, 102] : List Nat)) = true) :
    interpControl C (f + 1) owner s body out env = interpIf C f owner ((s, (splitInter body).1) :: (splitInter body).2) out env := by
  rw [interpControl]; simp only [h, if_true]

theorem interpIf_cons (C : Ctx) (f : Nat) (owner : FileInfo) (s : Str) (sec : List Node) (more : List (Str × List Node)) (out : List Nat) (env : Env) :
    interpIf C (f + 1) owner ((s, sec) :: more) out env =
    (if s == (/-"else"-/ [101, 108, 115, 101] : List Nat) then interp C f owner sec out env
    else
      match evalExpr env (strip (partitionSp s).2) with
      | .error exc => ⟨out, env, .raise exc⟩
      | .ok v => if v.truthy then interp C f owner sec out env else interpIf C f owner more out env) := by
  rw [interpIf]; rfl

theorem interp_zero (C : Ctx) (owner : FileInfo) (nodes : List Node) (out : List Nat) (env : Env) :
    interp C 0 owner nodes out env = ⟨out, env, .raise (/-"Fuel"-/ [70, 117, 101, 108] : List Nat)⟩ := by
  cases nodes <;> rfl

theorem interp_nil (C : Ctx) (f : Nat) (owner : FileInfo) (out : List Nat) (env : Env) :
    interp C (f + 1) owner [] out env = ⟨out, env, .normal⟩ := by rfl

theorem interpIf_nil (C : Ctx) (f : Nat) (owner : FileInfo) (out : List Nat) (env : Env) :
    interpIf C (f + 1) owner [] out env = ⟨out, env, .normal⟩ := by rfl

theorem interpIf_zero (C : Ctx) (owner : FileInfo) (l : List (Str × List Node)) (out : List Nat) (env : Env) :
    interpIf C 0 owner l out env = ⟨out, env, .raise (/-"Fuel"-/ [70, 117, 101, 108] : List Nat)⟩ := by
  cases l <;> rfl

theorem interpControl_zero (C : Ctx) (owner : FileInfo) (s : Str) (body : List Node) (out : List Nat) (env : Env) :
    interpControl C 0 owner s body out env = ⟨out, env, .raise (/-"Fuel"-/ [70, 117, 101, 108] : List Nat)⟩ := by rfl

theorem interpControl_for (C : Ctx) (f : Nat) (owner : FileInfo) (s : Str) (body : List Node) (out : List Nat) (env : Env)
    (h1 : ((partitionSp s).1 == (/-"if"-/ [105, 102] : List Nat)) = false)
    (h2 : ((partitionSp s).1 == (/-"for"-/ [102, 111, 114] : List Nat)) = true) :
    interpControl C (f + 1) owner s body out env =
      (match splitIn (strip (partitionSp s).2) with
       | none => unsupported out env
       | some (x, e) =>
         if !isIdent (strip x) then unsupported out env else
         match evalExpr env (strip e) with
         | .error exc => ⟨out, env, .raise exc⟩
         | .ok (.atom _) => unsupported out env
         | .ok (.list items) => interpFor C f owner (strip x) items (splitInter body).1 (splitInter body).2 out env) := by
  rw [interpControl]; simp only [h1, h2, if_true, Bool.false_eq_true, if_false]; rfl

theorem interpFor_zero (C : Ctx) (owner : FileInfo) (x : Str) (items : List Atom) (main : List Node)
    (secs : List (Str × List Node)) (out : List Nat) (env : Env) :
    interpFor C 0 owner x items main secs out env = ⟨out, env, .raise (/-"Fuel"-/ [70, 117, 101, 108] : List Nat)⟩ := by
  cases items <;> rfl

theorem interpFor_nil (C : Ctx) (f : Nat) (owner : FileInfo) (x : Str) (main : List Node)
    (secs : List (Str × List Node)) (out : List Nat) (env : Env) :
    interpFor C (f + 1) owner x [] main secs out env =
      (match secs with
       | (_, e) :: _ => interp C f owner e out env
       | [] => ⟨out, env, .normal⟩) := by
  first | rfl | (rw [interpFor.eq_def])

theorem interpFor_cons (C : Ctx) (f : Nat) (owner : FileInfo) (x : Str) (a : Atom) (items : List Atom) (main : List Node)
    (secs : List (Str × List Node)) (out : List Nat) (env : Env) :
    interpFor C (f + 1) owner x (a :: items) main secs out env =
      (match (interp C f owner main out (env.set x (.atom a))).sig with
       | .normal => interpFor C f owner x items main secs (interp C f owner main out (env.set x (.atom a))).out
            (interp C f owner main out (env.set x (.atom a))).env
       | .cont => interpFor C f owner x items main secs (interp C f owner main out (env.set x (.atom a))).out
            (interp C f owner main out (env.set x (.atom a))).env
       | .brk => ⟨(interp C f owner main out (env.set x (.atom a))).out, (interp C f owner main out (env.set x (.atom a))).env, .normal⟩
       | .raise _ => interp C f owner main out (env.set x (.atom a))) := by
  first | rfl | (rw [interpFor]; rfl) | (rw [interpFor.eq_def]; rfl)

/-! ### outcomes -/
/-- the interpreter's outcome is defined by the template language (not by the limits of the interpreter) -/
def Good (s : Sig) : Prop :=
  s ≠ .raise (/-"Fuel"-/ [70, 117, 101, 108] : List Nat) ∧ s ≠ .raise (/-"Unsupported"-/ [85, 110, 115, 117, 112, 112, 111, 114, 116, 101, 100] : List Nat)

/-- what the Python side must do after the statements of some nodes, with `ys` behind them: go on with `ys` in the
interpreter's state, or stop with the interpreter's signal -/
def after (ys : List PStmt) (r : R) (t : Tmp) : PS × PSig :=
  match r.sig with
  | .normal => execList .none ys ⟨r.out, r.env, t⟩
  | .brk => (⟨r.out, r.env, t⟩, .brk)
  | .cont => (⟨r.out, r.env, t⟩, .cont)
  | .raise x => (⟨r.out, r.env, t⟩, .raise x)

theorem after_stop {r : R} (h : r.sig ≠ .normal) (ys zs : List PStmt) (t : Tmp) : after ys r t = after zs r t := by
  unfold after; cases hs : r.sig <;> simp_all

/-- the block case of `execList`, by the kind of the header -/
def blockSem (mode : Mode) (k : HKind) (body rest : List PStmt) (st : PS) : PS × PSig :=
    match k with
    | .ifc c =>
      match evalExpr st.env c with
      | .error x => (st, .raise x)
      | .ok v =>
        if v.truthy then
          match execList .none body st with
          | (st', .normal) => execList (.chain true false) rest st'
          | r => r
        else execList (.chain true true) rest st
    | .elifc c =>
      match mode with
      | .chain true true =>
        match evalExpr st.env c with
        | .error x => (st, .raise x)
        | .ok v =>
          if v.truthy then
            match execList .none body st with
            | (st', .normal) => execList (.chain true false) rest st'
            | r => r
          else execList (.chain true true) rest st
      | .chain true false => execList (.chain true false) rest st
      | _ => pySyntaxError st
    | .elsec =>
      match mode with
      | .chain _ true =>
        match execList .none body st with
        | (st', .normal) => execList .none rest st'
        | r => r
      | .chain _ false => execList .none rest st
      | .none => pySyntaxError st
    | .forc x e =>
      if !isIdent x then pyUnsupported st else
      match evalExpr st.env e with
      | .error exc => (st, .raise exc)
      | .ok (.atom _) => pyUnsupported st
      | .ok (.list items) =>
        match loopFor (execList .none body) x items st with
        | (st', .normal) => execList (.chain false true) rest st'
        | (st', .brk) => execList (.chain false false) rest st'
        | r => r
    | .defExec => pyUnsupported st
    | .bad => pyUnsupported st

theorem execList_block (mode : Mode) (h : Str) (m' : Meta) (body rest : List PStmt) (st : PS) :
    execList mode (.block h m' body :: rest) st = blockSem mode (hdrKind h) body rest st := by
  rw [execList.eq_def]; rfl

theorem execList_simple (mode : Mode) (c : Str) (m' : Meta) (rest : List PStmt) (st : PS) :
    execList mode (.simple c m' :: rest) st =
      (match execSimple mode c st with
       | ((st', .normal), mode') => execList mode' rest st'
       | (r, _) => r) := by
  rw [execList.eq_def]; rfl

/-- `ys` does not start with a clause of the preceding statement -/
def Insens (ys : List PStmt) : Prop := ∀ m st, execList m ys st = execList .none ys st

theorem insens_nil : Insens [] := by intro m st; simp [execList]

theorem execSimple_mode (m : Mode) (c : Str) (st : PS) (h : classify c ≠ .convElse) :
    execSimple m c st = execSimple .none c st := by
  unfold execSimple
  cases hk : classify c <;> first | rfl | exact absurd hk h

theorem insens_simple (c : Str) (m' : Meta) (rest : List PStmt) (h : classify c ≠ .convElse) :
    Insens (.simple c m' :: rest) := by
  intro m st; rw [execList_simple, execList_simple, execSimple_mode m c st h]

theorem insens_pass (file : Str) (via : List (Str × Nat)) (l : Nat) (rest : List PStmt) :
    Insens (mkPass file via l :: rest) :=
  insens_simple _ _ _ (by rw [classify_pass]; simp)

theorem insens_block (h : Str) (m' : Meta) (body rest : List PStmt)
    (h1 : ∀ c, hdrKind h ≠ .elifc c) (h2 : hdrKind h ≠ .elsec) : Insens (.block h m' body :: rest) := by
  intro m st; rw [execList_block, execList_block]
  cases hk : hdrKind h with
  | elifc c => exact absurd hk (h1 c)
  | elsec => exact absurd hk h2
  | _ => rfl

/-! ### text -/
theorem reprBytes_form (bs : List Nat) :
    ∃ q body, (q = 39 ∨ q = 34) ∧
      (/-"_tt_append("-/ [95, 116, 116, 95, 97, 112, 112, 101, 110, 100, 40] : List Nat) ++ reprBytes bs ++ (/-")"-/ [41] : List Nat)
        = (/-"_tt_append("-/ [95, 116, 116, 95, 97, 112, 112, 101, 110, 100, 40] : List Nat) ++ 98 :: q :: body ∧
      decLit q body = some (bs, [41]) := by
  refine ⟨if bs.contains 39 && !bs.contains 34 then 34 else 39, bs.flatMap (reprByte (if bs.contains 39 && !bs.contains 34 then 34 else 39)) ++
    (if bs.contains 39 && !bs.contains 34 then 34 else 39) :: [41], ?_, ?_, ?_⟩
  · split <;> simp
  · simp [reprBytes]
  · exact decLit_repr _ (by split <;> simp) bs [41]

theorem execSimple_lit (mode : Mode) (bs : List Nat) (st : PS) :
    execSimple mode ((/-"_tt_append("-/ [95, 116, 116, 95, 97, 112, 112, 101, 110, 100, 40] : List Nat) ++ reprBytes bs ++ (/-")"-/ [41] : List Nat)) st
      = (({ st with buf := st.buf ++ bs }, .normal), .none) := by
  obtain ⟨q, body, hq, he, hd⟩ := reprBytes_form bs
  rw [he]; unfold execSimple; rw [classify_lit]
  rcases hq with rfl | rfl <;> simp [hd]

theorem classify_text_ne (bs : List Nat) :
    classify ((/-"_tt_append("-/ [95, 116, 116, 95, 97, 112, 112, 101, 110, 100, 40] : List Nat) ++ reprBytes bs ++ (/-")"-/ [41] : List Nat)) ≠ .convElse := by
  obtain ⟨q, body, _, he, _⟩ := reprBytes_form bs
  rw [he, classify_lit]; simp

/-! ### expressions -/
theorem dropPrefix?_some (p s r : Str) (h : dropPrefix? p s = some r) : s = p ++ r := by
  induction p generalizing s with
  | nil => cases s <;> simp_all [dropPrefix?]
  | cons c cs ih =>
    cases s with
    | nil => simp [dropPrefix?] at h
    | cons d ds =>
      simp only [dropPrefix?] at h
      split at h
      · rename_i hcd; have := ih ds h; simp at hcd; simp [hcd, this]
      · cases h

/-- the result of the conversion lines, the escaping line and the append, as the interpreter defines it -/
def exprR (ae : Option Str) (out : List Nat) (env : Env) (e : Str) (raw : Bool) : R :=
  match evalExpr env e with
  | .error x => ⟨out, env, .raise x⟩
  | .ok (.list _) => unsupported out env
  | .ok (.atom a) =>
    match raw, ae with
    | false, some fn =>
      match applyFn fn a.toBytes with
      | .ok b' => ⟨out ++ b', env, .normal⟩
      | .error x => ⟨out, env, .raise x⟩
    | _, _ => ⟨out ++ a.toBytes, env, .normal⟩

theorem nodeR_expr (C : Ctx) (f : Nat) (owner : FileInfo) (e : Str) (l : Nat) (raw : Bool) (out : List Nat) (env : Env) :
    nodeR C f owner (.expr e l raw) out env = exprR owner.autoescape out env e raw := by rfl

theorem exec_assign_ok (mode : Mode) (e : Str) (m' : Meta) (rest : List PStmt) (st : PS) (v : Val)
    (h : evalExpr st.env e = .ok v) :
    execList mode (.simple ((/-"_tt_tmp = "-/ [95, 116, 116, 95, 116, 109, 112, 32, 61, 32] : List Nat) ++ e) m' :: rest) st
      = execList .none rest { st with tmp := .val v } := by
  rw [execList]; unfold execSimple; rw [classify_assign]; simp only [h]

theorem exec_assign_err (mode : Mode) (e : Str) (m' : Meta) (rest : List PStmt) (st : PS) (x : Str)
    (h : evalExpr st.env e = .error x) (hx : x ≠ (/-"Unsupported"-/ [85, 110, 115, 117, 112, 112, 111, 114, 116, 101, 100] : List Nat)) :
    execList mode (.simple ((/-"_tt_tmp = "-/ [95, 116, 116, 95, 116, 109, 112, 32, 61, 32] : List Nat) ++ e) m' :: rest) st
      = (st, .raise x) := by
  rw [execList]; unfold execSimple; rw [classify_assign]; simp only [h]
  cases hp : dropPrefix? (/-"_tt_utf8("-/ [95, 116, 116, 95, 117, 116, 102, 56, 40] : List Nat) e with
  | none => simp
  | some r =>
    have he := dropPrefix?_some _ _ _ hp
    rw [he, evalExpr_esc] at h
    cases h; exact absurd rfl hx

theorem exec_conv (a : Atom) (m1 m2 : Meta) (rest : List PStmt) (buf : List Nat) (env : Env) :
    execList .none (.simple (/-"if isinstance(_tt_tmp, _tt_string_types): _tt_tmp = _tt_utf8(_tt_tmp)"-/ [105, 102, 32, 105, 115, 105, 110, 115, 116, 97, 110, 99, 101, 40, 95, 116, 116, 95, 116, 109, 112, 44, 32, 95, 116, 116, 95, 115, 116, 114, 105, 110, 103, 95, 116, 121, 112, 101, 115, 41, 58, 32, 95, 116, 116, 95, 116, 109, 112, 32, 61, 32, 95, 116, 116, 95, 117, 116, 102, 56, 40, 95, 116, 116, 95, 116, 109, 112, 41] : List Nat) m1 ::
      .simple (/-"else: _tt_tmp = _tt_utf8(str(_tt_tmp))"-/ [101, 108, 115, 101, 58, 32, 95, 116, 116, 95, 116, 109, 112, 32, 61, 32, 95, 116, 116, 95, 117, 116, 102, 56, 40, 115, 116, 114, 40, 95, 116, 116, 95, 116, 109, 112, 41, 41] : List Nat) m2 :: rest)
      ⟨buf, env, .val (.atom a)⟩ = execList .none rest ⟨buf, env, .bytes a.toBytes⟩ := by
  rw [execList]; unfold execSimple; rw [classify_convIf]
  cases a <;> (simp only []; rw [execList]; unfold execSimple; rw [classify_convElse]; rfl)

theorem exec_esc (fn : Str) (m' : Meta) (rest : List PStmt) (buf : List Nat) (env : Env) (b : List Nat) :
    execList .none (.simple ((/-"_tt_tmp = _tt_utf8("-/ [95, 116, 116, 95, 116, 109, 112, 32, 61, 32, 95, 116, 116, 95, 117, 116, 102, 56, 40] : List Nat) ++ fn ++ (/-"(_tt_tmp))"-/ [40, 95, 116, 116, 95, 116, 109, 112, 41, 41] : List Nat)) m' :: rest) ⟨buf, env, .bytes b⟩
      = (match applyFn fn b with
         | .ok b' => execList .none rest ⟨buf, env, .bytes b'⟩
         | .error y => (⟨buf, env, .bytes b⟩, .raise y)) := by
  have e1 : (/-"_tt_tmp = _tt_utf8("-/ [95, 116, 116, 95, 116, 109, 112, 32, 61, 32, 95, 116, 116, 95, 117, 116, 102, 56, 40] : List Nat) ++ fn ++ (/-"(_tt_tmp))"-/ [40, 95, 116, 116, 95, 116, 109, 112, 41, 41] : List Nat)
      = (/-"_tt_tmp = "-/ [95, 116, 116, 95, 116, 109, 112, 32, 61, 32] : List Nat) ++ ((/-"_tt_utf8("-/ [95, 116, 116, 95, 117, 116, 102, 56, 40] : List Nat) ++ (fn ++ (/-"(_tt_tmp))"-/ [40, 95, 116, 116, 95, 116, 109, 112, 41, 41] : List Nat))) := by
    simp
  rw [e1, execList]; unfold execSimple; rw [classify_assign]
  simp only [evalExpr_esc, dropPrefix?_append, Option.bind_some, dropSuffix?_append]
  cases applyFn fn b <;> rfl

theorem exec_appendTmp (m' : Meta) (rest : List PStmt) (buf : List Nat) (env : Env) (b : List Nat) :
    execList .none (.simple (/-"_tt_append(_tt_tmp)"-/ [95, 116, 116, 95, 97, 112, 112, 101, 110, 100, 40, 95, 116, 116, 95, 116, 109, 112, 41] : List Nat) m' :: rest) ⟨buf, env, .bytes b⟩
      = execList .none rest ⟨buf ++ b, env, .bytes b⟩ := by
  rw [execList]; unfold execSimple; rw [classify_appendTmp]

theorem exprLines_map (file : Str) (via : List (Str × Nat)) (l : Nat) (e : Str) (raw : Bool) (ae : Option Str) (K : List PStmt) :
    (exprLines e raw ae).map (fun c => PStmt.simple c ⟨file, l, via⟩) ++ K =
      .simple ((/-"_tt_tmp = "-/ [95, 116, 116, 95, 116, 109, 112, 32, 61, 32] : List Nat) ++ e) ⟨file, l, via⟩ ::
      .simple (/-"if isinstance(_tt_tmp, _tt_string_types): _tt_tmp = _tt_utf8(_tt_tmp)"-/ [105, 102, 32, 105, 115, 105, 110, 115, 116, 97, 110, 99, 101, 40, 95, 116, 116, 95, 116, 109, 112, 44, 32, 95, 116, 116, 95, 115, 116, 114, 105, 110, 103, 95, 116, 121, 112, 101, 115, 41, 58, 32, 95, 116, 116, 95, 116, 109, 112, 32, 61, 32, 95, 116, 116, 95, 117, 116, 102, 56, 40, 95, 116, 116, 95, 116, 109, 112, 41] : List Nat) ⟨file, l, via⟩ ::
      .simple (/-"else: _tt_tmp = _tt_utf8(str(_tt_tmp))"-/ [101, 108, 115, 101, 58, 32, 95, 116, 116, 95, 116, 109, 112, 32, 61, 32, 95, 116, 116, 95, 117, 116, 102, 56, 40, 115, 116, 114, 40, 95, 116, 116, 95, 116, 109, 112, 41, 41] : List Nat) ⟨file, l, via⟩ ::
      (match raw, ae with
       | false, some fn =>
         .simple ((/-"_tt_tmp = _tt_utf8("-/ [95, 116, 116, 95, 116, 109, 112, 32, 61, 32, 95, 116, 116, 95, 117, 116, 102, 56, 40] : List Nat) ++ fn ++ (/-"(_tt_tmp))"-/ [40, 95, 116, 116, 95, 116, 109, 112, 41, 41] : List Nat)) ⟨file, l, via⟩ ::
         .simple (/-"_tt_append(_tt_tmp)"-/ [95, 116, 116, 95, 97, 112, 112, 101, 110, 100, 40, 95, 116, 116, 95, 116, 109, 112, 41] : List Nat) ⟨file, l, via⟩ :: K
       | _, _ => .simple (/-"_tt_append(_tt_tmp)"-/ [95, 116, 116, 95, 97, 112, 112, 101, 110, 100, 40, 95, 116, 116, 95, 116, 109, 112, 41] : List Nat) ⟨file, l, via⟩ :: K) := by
  cases raw <;> cases ae <;> rfl

theorem exec_expr (file : Str) (via : List (Str × Nat)) (ae : Option Str) (e : Str) (l : Nat) (raw : Bool)
    (out : List Nat) (env : Env) (tmp : Tmp) (mode : Mode) (K : List PStmt)
    (hg : Good (exprR ae out env e raw).sig) :
    ∃ t, execList mode ((exprLines e raw ae).map (fun c => PStmt.simple c ⟨file, l, via⟩) ++ K) ⟨out, env, tmp⟩
      = after K (exprR ae out env e raw) t := by
  unfold exprR at hg ⊢
  rw [exprLines_map]
  cases hev : evalExpr env e with
  | error x =>
    simp only [hev] at hg ⊢
    refine ⟨tmp, ?_⟩
    rw [exec_assign_err mode e _ _ ⟨out, env, tmp⟩ x hev (fun h => hg.2 (by rw [h]))]
    rfl
  | ok v =>
    cases v with
    | list items => simp only [hev, unsupported] at hg; exact absurd rfl hg.2
    | atom a =>
      simp only [hev] at hg ⊢
      rw [exec_assign_ok mode e _ _ ⟨out, env, tmp⟩ _ hev, exec_conv]
      cases raw with
      | true =>
        refine ⟨.bytes a.toBytes, ?_⟩
        simp only []
        rw [exec_appendTmp]; rfl
      | false =>
        cases ae with
        | none =>
          refine ⟨.bytes a.toBytes, ?_⟩
          simp only []
          rw [exec_appendTmp]; rfl
        | some fn =>
          simp only []
          rw [exec_esc]
          cases hap : applyFn fn a.toBytes with
          | ok b' =>
            refine ⟨.bytes b', ?_⟩
            simp only []
            rw [exec_appendTmp]; rfl
          | error y => exact ⟨.bytes a.toBytes, rfl⟩

/-! ### continuations -/
/-- `after` with an arbitrary continuation for the normal case -/
def afterK (k : PS → PS × PSig) (r : R) (t : Tmp) : PS × PSig :=
  match r.sig with
  | .normal => k ⟨r.out, r.env, t⟩
  | .brk => (⟨r.out, r.env, t⟩, .brk)
  | .cont => (⟨r.out, r.env, t⟩, .cont)
  | .raise x => (⟨r.out, r.env, t⟩, .raise x)

theorem after_eq_afterK (ys : List PStmt) (r : R) (t : Tmp) : after ys r t = afterK (execList .none ys) r t := rfl

def thenK (k : PS → PS × PSig) (res : PS × PSig) : PS × PSig :=
  match res with
  | (st', .normal) => k st'
  | r => r

theorem thenK_afterK (k : PS → PS × PSig) (r : R) (t : Tmp) :
    thenK k (afterK (fun s => (s, .normal)) r t) = afterK k r t := by
  unfold afterK thenK; cases r.sig <;> rfl

theorem execList_pass (mode : Mode) (file : Str) (via : List (Str × Nat)) (l : Nat) (rest : List PStmt) (st : PS) :
    execList mode (mkPass file via l :: rest) st = execList .none rest st := by
  unfold mkPass; rw [execList_simple]; unfold execSimple; rw [classify_pass]

theorem after_pass (file : Str) (via : List (Str × Nat)) (l : Nat) (r : R) (t : Tmp) :
    after [mkPass file via l] r t = afterK (fun s => (s, .normal)) r t := by
  unfold after afterK
  cases r.sig <;> simp [execList_pass, execList]

def forTail (rest : List PStmt) (res : PS × PSig) : PS × PSig :=
  match res with
  | (st', .normal) => execList (.chain false true) rest st'
  | (st', .brk) => execList (.chain false false) rest st'
  | r => r

theorem blockSem_cond_err (mode : Mode) (k : HKind) (c : Str) (body rest : List PStmt) (st : PS) (x : Str)
    (hk : k = .ifc c ∨ (k = .elifc c ∧ mode = .chain true true)) (hev : evalExpr st.env c = .error x) :
    blockSem mode k body rest st = (st, .raise x) := by
  rcases hk with rfl | ⟨rfl, rfl⟩ <;> simp [blockSem, hev]

theorem blockSem_cond_false (mode : Mode) (k : HKind) (c : Str) (body rest : List PStmt) (st : PS) (v : Val)
    (hk : k = .ifc c ∨ (k = .elifc c ∧ mode = .chain true true)) (hev : evalExpr st.env c = .ok v)
    (ht : v.truthy = false) :
    blockSem mode k body rest st = execList (.chain true true) rest st := by
  rcases hk with rfl | ⟨rfl, rfl⟩ <;> simp [blockSem, hev, ht]

theorem blockSem_cond_true (mode : Mode) (k : HKind) (c : Str) (body rest : List PStmt) (st : PS) (v : Val)
    (hk : k = .ifc c ∨ (k = .elifc c ∧ mode = .chain true true)) (hev : evalExpr st.env c = .ok v)
    (ht : v.truthy = true) :
    blockSem mode k body rest st = thenK (execList (.chain true false) rest) (execList .none body st) := by
  rcases hk with rfl | ⟨rfl, rfl⟩ <;> simp only [blockSem, hev, ht, if_true] <;> rfl

theorem blockSem_elif_skip (c : Str) (body rest : List PStmt) (st : PS) :
    blockSem (.chain true false) (.elifc c) body rest st = execList (.chain true false) rest st := rfl

theorem blockSem_else_live (b : Bool) (body rest : List PStmt) (st : PS) :
    blockSem (.chain b true) .elsec body rest st = thenK (execList .none rest) (execList .none body st) := rfl

theorem blockSem_else_skip (b : Bool) (body rest : List PStmt) (st : PS) :
    blockSem (.chain b false) .elsec body rest st = execList .none rest st := rfl

theorem blockSem_for (mode : Mode) (x e : Str) (body rest : List PStmt) (st : PS) (items : List Atom)
    (hid : isIdent x = true) (hev : evalExpr st.env e = .ok (.list items)) :
    blockSem mode (.forc x e) body rest st = forTail rest (loopFor (execList .none body) x items st) := by
  simp only [blockSem, hid, hev, Bool.not_true, Bool.false_eq_true, if_false]; rfl

theorem blockSem_for_err (mode : Mode) (x e : Str) (body rest : List PStmt) (st : PS) (exc : Str)
    (hid : isIdent x = true) (hev : evalExpr st.env e = .error exc) :
    blockSem mode (.forc x e) body rest st = (st, .raise exc) := by
  simp only [blockSem, hid, hev, Bool.not_true, Bool.false_eq_true, if_false]

theorem loopFor_cons (body : PS → PS × PSig) (x : Str) (a : Atom) (items : List Atom) (st : PS) :
    loopFor body x (a :: items) st =
      (match body { st with env := st.env.set x (.atom a) } with
       | (st', .normal) => loopFor body x items st'
       | (st', .cont) => loopFor body x items st'
       | r => r) := by
  rw [loopFor]; rfl

/-! ### headers -/
theorem hk_if (s : Str) (h : ((partitionSp s).1 == (/-"if"-/ [105, 102] : List Nat)) = true) :
    hdrKind (s ++ [58]) = .ifc (strip (partitionSp s).2) := by
  rw [hdrKind_colon]; simp only [h, if_true]

theorem hk_elif (s : Str) (h : ((partitionSp s).1 == (/-"elif"-/ [101, 108, 105, 102] : List Nat)) = true) :
    hdrKind (s ++ [58]) = .elifc (strip (partitionSp s).2) := by
  have e : (partitionSp s).1 = (/-"elif"-/ [101, 108, 105, 102] : List Nat) := by simpa using h
  have h1 : ((partitionSp s).1 == (/-"if"-/ [105, 102] : List Nat)) = false := by rw [e]; rfl
  rw [hdrKind_colon]; simp only [h1, h, if_true, Bool.false_eq_true, if_false]

theorem hk_else : hdrKind ((/-"else"-/ [101, 108, 115, 101] : List Nat) ++ [58]) = .elsec := by rfl

theorem hk_for (s : Str) (h1 : ((partitionSp s).1 == (/-"if"-/ [105, 102] : List Nat)) = false)
    (h : ((partitionSp s).1 == (/-"for"-/ [102, 111, 114] : List Nat)) = true) :
    hdrKind (s ++ [58]) =
      (match splitIn (strip (partitionSp s).2) with
       | some (x, e) => .forc (strip x) (strip e)
       | none => .bad) := by
  have e : (partitionSp s).1 = (/-"for"-/ [102, 111, 114] : List Nat) := by simpa using h
  have h2 : ((partitionSp s).1 == (/-"elif"-/ [101, 108, 105, 102] : List Nat)) = false := by rw [e]; rfl
  rw [hdrKind_colon]; simp only [h1, h2, h, if_true, Bool.false_eq_true, if_false]; rfl

theorem if_not_else (s : Str) (h : ((partitionSp s).1 == (/-"if"-/ [105, 102] : List Nat)) = true) :
    (s == (/-"else"-/ [101, 108, 115, 101] : List Nat)) = false := by
  cases hse : s == (/-"else"-/ [101, 108, 115, 101] : List Nat) with
  | false => rfl
  | true =>
    have e : s = (/-"else"-/ [101, 108, 115, 101] : List Nat) := by simpa using hse
    subst e; revert h; decide

/-! ### sections of a control body -/
def nextLine (ps : List (Nat × Str × List PStmt)) (endl : Nat) : Nat :=
  match ps with
  | [] => endl
  | (l', _, _) :: _ => l'

def restBlocks (file : Str) (via : List (Str × Nat)) (ps : List (Nat × Str × List PStmt)) (endl : Nat) : List PStmt :=
  match ps with
  | [] => []
  | (l', s', b') :: more => buildBlocks file via s' l' b' more endl

theorem buildBlocks_head (file : Str) (via : List (Str × Nat)) (s : Str) (l : Nat) (a : List PStmt)
    (ps : List (Nat × Str × List PStmt)) (endl : Nat) :
    buildBlocks file via s l a ps endl =
      .block (s ++ [58]) ⟨file, l, via⟩ (a ++ [mkPass file via (nextLine ps endl)]) :: restBlocks file via ps endl := by
  cases ps with
  | nil => rfl
  | cons p more => obtain ⟨l', s', b'⟩ := p; rfl

theorem splitInter_inter (s : Str) (l : Nat) (ns : List Node) :
    splitInter (.inter s l :: ns) = ([], (s, (splitInter ns).1) :: (splitInter ns).2) := by rfl

theorem splitInter_other (n : Node) (ns : List Node) (h : ∀ s l, n ≠ .inter s l) :
    splitInter (n :: ns) = (n :: (splitInter ns).1, (splitInter ns).2) := by
  cases n with
  | inter s l => exact absurd rfl (h s l)
  | _ => rfl

def emitNode (file : Str) (via : List (Str × Nat)) (ae : Option Str) (n : Node) : List PStmt :=
  (emitBody file via ae [n]).1

theorem emitBody_cons (file : Str) (via : List (Str × Nat)) (ae : Option Str) (n : Node) (ns : List Node)
    (h : ∀ s l, n ≠ .inter s l) :
    emitBody file via ae (n :: ns) =
      (emitNode file via ae n ++ (emitBody file via ae ns).1, (emitBody file via ae ns).2) := by
  cases n with
  | inter s l => exact absurd rfl (h s l)
  | _ => simp [emitBody, emitNode]

def SecRel (file : Str) (via : List (Str × Nat)) (ae : Option Str) :
    List (Nat × Str × List PStmt) → List (Str × List Node) → Prop
  | [], [] => True
  | (_, s, b) :: ps, (s', n) :: qs => s = s' ∧ b = (emitBody file via ae n).1 ∧ SecRel file via ae ps qs
  | [], _ :: _ => False
  | _ :: _, [] => False

theorem emit_split (file : Str) (via : List (Str × Nat)) (ae : Option Str) (nodes : List Node) :
    (emitBody file via ae nodes).1 = (emitBody file via ae (splitInter nodes).1).1 ∧
    SecRel file via ae (emitBody file via ae nodes).2 (splitInter nodes).2 := by
  induction nodes with
  | nil => simp [splitInter, emitBody, SecRel]
  | cons n ns ih =>
    by_cases hn : ∃ s l, n = .inter s l
    · obtain ⟨s, l, rfl⟩ := hn
      rw [splitInter_inter]
      simp only [emitBody, SecRel]
      exact ⟨trivial, trivial, ih.1, ih.2⟩
    · have hn' : ∀ s l, n ≠ .inter s l := fun s l h => hn ⟨s, l, h⟩
      rw [splitInter_other n ns hn', emitBody_cons _ _ _ n ns hn', emitBody_cons _ _ _ n _ hn']
      exact ⟨by rw [ih.1], ih.2⟩

def SecsOK (st : FSt) (secs : List (Str × List Node)) : Prop :=
  match secs with
  | [] => True
  | (s, b) :: more =>
    match st with
    | .ifChain =>
      frag .plain b = true ∧
        (if s == (/-"else"-/ [101, 108, 115, 101] : List Nat) then more = []
         else ((partitionSp s).1 == (/-"elif"-/ [101, 108, 105, 102] : List Nat)) = true ∧ SecsOK .ifChain more)
    | .forMain => (s == (/-"else"-/ [101, 108, 115, 101] : List Nat)) = true ∧ frag .plain b = true ∧ more = []
    | _ => False

theorem secsOK_last {secs : List (Str × List Node)} (h : SecsOK .last secs) : secs = [] := by
  cases secs with
  | nil => rfl
  | cons p more => obtain ⟨s, b⟩ := p; simp [SecsOK] at h

theorem secsOK_plain {secs : List (Str × List Node)} (h : SecsOK .plain secs) : secs = [] := by
  cases secs with
  | nil => rfl
  | cons p more => obtain ⟨s, b⟩ := p; simp [SecsOK] at h

theorem frag_split : ∀ (nodes : List Node) (st : FSt), frag st nodes = true →
    frag .plain (splitInter nodes).1 = true ∧ SecsOK st (splitInter nodes).2 := by
  intro nodes
  induction nodes with
  | nil => intro st _; simp [splitInter, frag, SecsOK]
  | cons n ns ih =>
    intro st h
    cases n with
    | text v l ws =>
      simp only [frag] at h
      rw [splitInter_other _ _ (by intro s l h'; cases h')]
      simp only [frag]; exact ih st h
    | expr e l raw =>
      simp only [frag] at h
      rw [splitInter_other _ _ (by intro s l h'; cases h')]
      simp only [frag]; exact ih st h
    | control s l body =>
      simp only [frag, Bool.and_eq_true] at h
      rw [splitInter_other _ _ (by intro s l h'; cases h')]
      simp only [frag, Bool.and_eq_true]
      exact ⟨⟨h.1, (ih st h.2).1⟩, (ih st h.2).2⟩
    | inter s l =>
      rw [splitInter_inter]
      cases st with
      | ifChain =>
        simp only [frag] at h
        by_cases hse : (s == (/-"else"-/ [101, 108, 115, 101] : List Nat)) = true
        · simp only [hse, if_true] at h
          have := ih .last h
          refine ⟨by simp [frag], ?_⟩
          simp only [SecsOK, hse, if_true]
          exact ⟨this.1, secsOK_last this.2⟩
        · simp only [Bool.not_eq_true] at hse
          simp only [hse, Bool.false_eq_true, if_false, Bool.and_eq_true] at h
          have := ih .ifChain h.2
          refine ⟨by simp [frag], ?_⟩
          simp only [SecsOK, hse, Bool.false_eq_true, if_false]
          exact ⟨this.1, h.1, this.2⟩
      | forMain =>
        simp only [frag, Bool.and_eq_true] at h
        have := ih .last h.2
        refine ⟨by simp [frag], ?_⟩
        simp only [SecsOK]
        exact ⟨h.1, this.1, secsOK_last this.2⟩
      | plain => simp [frag] at h
      | last => simp [frag] at h
    | stmt s l =>
      simp only [frag, Bool.and_eq_true] at h
      rw [splitInter_other _ _ (by intro s l h'; cases h')]
      simp only [frag, Bool.and_eq_true]
      exact ⟨⟨h.1, (ih st h.2).1⟩, (ih st h.2).2⟩
    | apply m l body => simp [frag] at h
    | block name l body => simp [frag] at h
    | «extends» name => simp [frag] at h
    | incl name l => simp [frag] at h

theorem stmtOK_classify (s : Str) (h : stmtOK s = true) : classify s ≠ .convElse := by
  unfold stmtOK at h
  simp only [Bool.or_eq_true, Bool.and_eq_true] at h
  rcases h with (hb | hc) | ho
  · have e : s = (/-"break"-/ [98, 114, 101, 97, 107] : List Nat) := by simpa using hb
    subst e; rw [show classify (/-"break"-/ [98, 114, 101, 97, 107] : List Nat) = .brk from rfl]; simp
  · have e : s = (/-"continue"-/ [99, 111, 110, 116, 105, 110, 117, 101] : List Nat) := by simpa using hc
    subst e; rw [show classify (/-"continue"-/ [99, 111, 110, 116, 105, 110, 117, 101] : List Nat) = .cont from rfl]; simp
  · have hcl : classify s = .other := by simpa using ho.1.1
    rw [hcl]; simp

/-- a body of the fragment starts with a statement that is not a clause of its predecessor -/
theorem insens_emit (file : Str) (via : List (Str × Nat)) (ae : Option Str) : ∀ (ns : List Node) (ys : List PStmt),
    frag .plain ns = true → Insens ys → Insens ((emitBody file via ae ns).1 ++ ys) := by
  intro ns
  induction ns with
  | nil => intro ys _ hys; simpa [emitBody] using hys
  | cons n ns ih =>
    intro ys h hys
    cases n with
    | text v l ws =>
      simp only [frag] at h
      simp only [emitBody]
      by_cases hv : (textValue v ws).isEmpty = true
      · simp only [hv, if_true, List.nil_append]; exact ih ys h hys
      · simp only [hv, if_false, Bool.false_eq_true, List.cons_append, List.nil_append]
        exact insens_simple _ _ _ (classify_text_ne _)
    | expr e l raw =>
      simp only [emitBody, List.append_assoc]
      rw [exprLines_map]
      exact insens_simple _ _ _ (by rw [classify_assign]; simp)
    | control s l body =>
      simp only [frag, Bool.and_eq_true] at h
      simp only [emitBody, List.append_assoc]
      rw [buildBlocks_head, List.cons_append]
      by_cases hif : ((partitionSp s).1 == (/-"if"-/ [105, 102] : List Nat)) = true
      · exact insens_block _ _ _ _ (by rw [hk_if s hif]; simp) (by rw [hk_if s hif]; simp)
      · simp only [Bool.not_eq_true] at hif
        have hfor : ((partitionSp s).1 == (/-"for"-/ [102, 111, 114] : List Nat)) = true := by
          have := h.1; simp only [hif, Bool.false_eq_true, if_false] at this
          split at this
          · assumption
          · cases this
        have hk := hk_for s hif hfor
        cases hsp : splitIn (strip (partitionSp s).2) with
        | none => rw [hsp] at hk; exact insens_block _ _ _ _ (by rw [hk]; simp) (by rw [hk]; simp)
        | some p => obtain ⟨x, e⟩ := p; rw [hsp] at hk; exact insens_block _ _ _ _ (by rw [hk]; simp) (by rw [hk]; simp)
    | inter s l => simp [frag] at h
    | stmt s l =>
      simp only [frag, Bool.and_eq_true] at h
      simp only [emitBody, List.cons_append]
      exact insens_simple _ _ _ (stmtOK_classify s h.1)
    | apply m l body => simp [frag] at h
    | block name l body => simp [frag] at h
    | «extends» name => simp [frag] at h
    | incl name l => simp [frag] at h

/-! ### the induction -/
/-- the statements of a body of the fragment do what the interpreter does with the body (at fuel `g`) -/
def P (C : Ctx) (file : Str) (via : List (Str × Nat)) (g : Nat) : Prop :=
  ∀ (owner : FileInfo) (nodes : List Node) (out : List Nat) (env : Env), frag .plain nodes = true →
    Good (interp C g owner nodes out env).sig →
    ∀ (mode : Mode) (tmp : Tmp) (ys : List PStmt), Insens ys →
      ∃ t, execList mode ((emitBody file via owner.autoescape nodes).1 ++ ys) ⟨out, env, tmp⟩
        = after ys (interp C g owner nodes out env) t

theorem secRel_nil_right {file : Str} {via : List (Str × Nat)} {ae : Option Str} {ps : List (Nat × Str × List PStmt)}
    (h : SecRel file via ae ps []) : ps = [] := by
  cases ps with
  | nil => rfl
  | cons p more => simp [SecRel] at h

/-- clauses behind a clause that has run are skipped -/
theorem skip_chain (file : Str) (via : List (Str × Nat)) (ae : Option Str) (ys : List PStmt) (hys : Insens ys) :
    ∀ (qs : List (Str × List Node)) (ps : List (Nat × Str × List PStmt)) (s : Str) (l : Nat) (a : List PStmt) (endl : Nat) (st : PS),
    SecRel file via ae ps qs →
    (if s == (/-"else"-/ [101, 108, 115, 101] : List Nat) then qs = []
     else ((partitionSp s).1 == (/-"elif"-/ [101, 108, 105, 102] : List Nat)) = true ∧ SecsOK .ifChain qs) →
    execList (.chain true false) (buildBlocks file via s l a ps endl ++ ys) st = execList .none ys st := by
  intro qs
  induction qs with
  | nil =>
    intro ps s l a endl st hrel hs
    have hps := secRel_nil_right hrel
    subst hps
    rw [buildBlocks_head, List.cons_append, execList_block]
    by_cases hse : (s == (/-"else"-/ [101, 108, 115, 101] : List Nat)) = true
    · have e : s = (/-"else"-/ [101, 108, 115, 101] : List Nat) := by simpa using hse
      subst e
      rw [hk_else, blockSem_else_skip]; rfl
    · simp only [Bool.not_eq_true] at hse
      simp only [hse, Bool.false_eq_true, if_false] at hs
      rw [hk_elif s hs.1, blockSem_elif_skip]
      exact hys _ _
  | cons q qs ih =>
    intro ps s l a endl st hrel hs
    obtain ⟨s', n'⟩ := q
    cases ps with
    | nil => simp [SecRel] at hrel
    | cons p ps' =>
      obtain ⟨l', s'', b'⟩ := p
      simp only [SecRel] at hrel
      obtain ⟨rfl, _, hrel'⟩ := hrel
      have hse : (s == (/-"else"-/ [101, 108, 115, 101] : List Nat)) = false := by
        cases h : s == (/-"else"-/ [101, 108, 115, 101] : List Nat) with
        | false => rfl
        | true => simp [h] at hs
      simp only [hse, Bool.false_eq_true, if_false] at hs
      obtain ⟨helif, hok⟩ := hs
      simp only [SecsOK] at hok
      rw [buildBlocks_head, List.cons_append, execList_block, hk_elif s helif, blockSem_elif_skip]
      exact ih ps' s'' l' b' endl st hrel' hok.2

/-- how the head of an `if` chain may be entered -/
def HeadOK (mode : Mode) (s : Str) : Prop :=
  ((partitionSp s).1 == (/-"if"-/ [105, 102] : List Nat)) = true ∨
  (mode = .chain true true ∧ (s == (/-"else"-/ [101, 108, 115, 101] : List Nat)) = false ∧
    ((partitionSp s).1 == (/-"elif"-/ [101, 108, 105, 102] : List Nat)) = true) ∨
  (mode = .chain true true ∧ (s == (/-"else"-/ [101, 108, 115, 101] : List Nat)) = true)

theorem if_head (C : Ctx) (file : Str) (via : List (Str × Nat)) (owner : FileInfo) (G : Nat)
    (IH : ∀ g, g < G → P C file via g)
    (s : Str) (l : Nat) (main : List Node) (qs : List (Str × List Node)) (f' : Nat) (out : List Nat) (env : Env)
    (tmp : Tmp) (mode : Mode) (ys : List PStmt) (ps : List (Nat × Str × List PStmt)) (endl : Nat)
    (hf : f' < G) (hmain : frag .plain main = true) (hentry : HeadOK mode s)
    (helse : (s == (/-"else"-/ [101, 108, 115, 101] : List Nat)) = true → ps = [])
    (hskip : ∀ st, execList (.chain true false) (restBlocks file via ps endl ++ ys) st = execList .none ys st)
    (htail : Good (interpIf C f' owner qs out env).sig →
      ∃ t, execList (.chain true true) (restBlocks file via ps endl ++ ys) ⟨out, env, tmp⟩ = after ys (interpIf C f' owner qs out env) t)
    (hgood : Good (interpIf C (f' + 1) owner ((s, main) :: qs) out env).sig) :
    ∃ t, execList mode (buildBlocks file via s l (emitBody file via owner.autoescape main).1 ps endl ++ ys) ⟨out, env, tmp⟩
      = after ys (interpIf C (f' + 1) owner ((s, main) :: qs) out env) t := by
  rw [buildBlocks_head, List.cons_append, execList_block]
  rw [interpIf_cons] at hgood ⊢
  by_cases hse : (s == (/-"else"-/ [101, 108, 115, 101] : List Nat)) = true
  · simp only [hse, if_true] at hgood ⊢
    have e : s = (/-"else"-/ [101, 108, 115, 101] : List Nat) := by simpa using hse
    have hmode : mode = .chain true true := by
      rcases hentry with h | h | h
      · rw [if_not_else s h] at hse; cases hse
      · rw [h.2.1] at hse; cases hse
      · exact h.1
    subst e hmode
    obtain ⟨t1, hb⟩ := IH f' hf owner main out env hmain hgood .none tmp [mkPass file via (nextLine ps endl)] (insens_pass _ _ _ _)
    rw [hk_else, blockSem_else_live, hb, after_pass, thenK_afterK, helse rfl]
    exact ⟨t1, rfl⟩
  · simp only [Bool.not_eq_true] at hse
    simp only [hse, Bool.false_eq_true, if_false] at hgood ⊢
    have hk : hdrKind (s ++ [58]) = .ifc (strip (partitionSp s).2) ∨
        (hdrKind (s ++ [58]) = .elifc (strip (partitionSp s).2) ∧ mode = .chain true true) := by
      rcases hentry with h | h | h
      · exact .inl (hk_if s h)
      · exact .inr ⟨hk_elif s h.2.2, h.1⟩
      · rw [h.2] at hse; cases hse
    cases hev : evalExpr env (strip (partitionSp s).2) with
    | error x =>
      rw [blockSem_cond_err _ _ _ _ _ _ x hk hev]
      exact ⟨tmp, rfl⟩
    | ok v =>
      simp only [hev] at hgood
      by_cases ht : v.truthy = true
      · simp only [ht, if_true] at hgood ⊢
        obtain ⟨t1, hb⟩ := IH f' hf owner main out env hmain hgood .none tmp [mkPass file via (nextLine ps endl)] (insens_pass _ _ _ _)
        rw [blockSem_cond_true _ _ _ _ _ _ v hk hev ht, hb, after_pass, thenK_afterK]
        refine ⟨t1, ?_⟩
        rw [after_eq_afterK]
        congr 1
        funext st; exact hskip st
      · simp only [Bool.not_eq_true] at ht
        simp only [ht, Bool.false_eq_true, if_false] at hgood ⊢
        rw [blockSem_cond_false _ _ _ _ _ _ v hk hev ht]
        exact htail hgood

theorem if_chain (C : Ctx) (file : Str) (via : List (Str × Nat)) (owner : FileInfo) (G : Nat)
    (IH : ∀ g, g < G → P C file via g) (ys : List PStmt) (hys : Insens ys) :
    ∀ (qs : List (Str × List Node)) (ps : List (Nat × Str × List PStmt)) (s : Str) (l : Nat) (main : List Node) (f : Nat)
      (out : List Nat) (env : Env) (tmp : Tmp) (mode : Mode) (endl : Nat),
    f < G → SecRel file via owner.autoescape ps qs → frag .plain main = true → HeadOK mode s →
    (if s == (/-"else"-/ [101, 108, 115, 101] : List Nat) then qs = [] else SecsOK .ifChain qs) →
    Good (interpIf C f owner ((s, main) :: qs) out env).sig →
    ∃ t, execList mode (buildBlocks file via s l (emitBody file via owner.autoescape main).1 ps endl ++ ys) ⟨out, env, tmp⟩
      = after ys (interpIf C f owner ((s, main) :: qs) out env) t := by
  intro qs
  induction qs with
  | nil =>
    intro ps s l main f out env tmp mode endl hf hrel hmain hentry _ hgood
    have hps := secRel_nil_right hrel
    subst hps
    cases f with
    | zero => rw [interpIf_zero] at hgood; exact absurd rfl hgood.1
    | succ f' =>
      refine if_head C file via owner G IH s l main [] f' out env tmp mode ys [] endl (by omega) hmain hentry
        (fun _ => rfl) (fun st => hys _ _) ?_ hgood
      intro hg
      cases f' with
      | zero => rw [interpIf_zero] at hg; exact absurd rfl hg.1
      | succ f'' =>
        rw [interpIf_nil]
        exact ⟨tmp, hys _ _⟩
  | cons q qs ih =>
    intro ps s l main f out env tmp mode endl hf hrel hmain hentry hqs hgood
    obtain ⟨s', n'⟩ := q
    cases ps with
    | nil => simp [SecRel] at hrel
    | cons p ps' =>
      obtain ⟨l', s'', b'⟩ := p
      simp only [SecRel] at hrel
      obtain ⟨rfl, rfl, hrel'⟩ := hrel
      have hse : (s == (/-"else"-/ [101, 108, 115, 101] : List Nat)) = false := by
        cases h : s == (/-"else"-/ [101, 108, 115, 101] : List Nat) with
        | false => rfl
        | true => simp [h] at hqs
      simp only [hse, Bool.false_eq_true, if_false, SecsOK] at hqs
      obtain ⟨hn', hrest⟩ := hqs
      cases f with
      | zero => rw [interpIf_zero] at hgood; exact absurd rfl hgood.1
      | succ f' =>
        refine if_head C file via owner G IH s l main ((s'', n') :: qs) f' out env tmp mode ys _ endl (by omega) hmain hentry
          (fun h => by rw [hse] at h; cases h) ?_ ?_ hgood
        · intro st
          exact skip_chain file via owner.autoescape ys hys qs ps' s'' l' _ endl st hrel' (by
            by_cases h : (s'' == (/-"else"-/ [101, 108, 115, 101] : List Nat)) = true
            · simp only [h, if_true] at hrest ⊢; exact hrest
            · simp only [Bool.not_eq_true] at h; simp only [h, Bool.false_eq_true, if_false] at hrest ⊢; exact hrest)
        · intro hg
          refine ih ps' s'' l' n' f' out env tmp (.chain true true) endl (by omega) hrel' hn' ?_ ?_ hg
          · by_cases h : (s'' == (/-"else"-/ [101, 108, 115, 101] : List Nat)) = true
            · exact .inr (.inr ⟨rfl, h⟩)
            · simp only [Bool.not_eq_true] at h
              simp only [h, Bool.false_eq_true, if_false] at hrest
              exact .inr (.inl ⟨rfl, h, hrest.1⟩)
          · by_cases h : (s'' == (/-"else"-/ [101, 108, 115, 101] : List Nat)) = true
            · simp only [h, if_true] at hrest ⊢; exact hrest
            · simp only [Bool.not_eq_true] at h; simp only [h, Bool.false_eq_true, if_false] at hrest ⊢; exact hrest.2

/-- `for` loops: the iterations, then the `else` block unless the loop was left by `break` -/
theorem for_loop (C : Ctx) (file : Str) (via : List (Str × Nat)) (owner : FileInfo) (G : Nat)
    (IH : ∀ g, g < G → P C file via g) (ys : List PStmt) (hys : Insens ys)
    (x : Str) (main : List Node) (hmain : frag .plain main = true) (pl : Nat)
    (secs : List (Str × List Node)) (elseB : List PStmt)
    (hsecs : (secs = [] ∧ elseB = []) ∨
      (∃ sn m' pl', secs = [((/-"else"-/ [101, 108, 115, 101] : List Nat), sn)] ∧ frag .plain sn = true ∧
        elseB = [.block ((/-"else"-/ [101, 108, 115, 101] : List Nat) ++ [58]) m'
          ((emitBody file via owner.autoescape sn).1 ++ [mkPass file via pl'])])) :
    ∀ (items : List Atom) (f : Nat) (out : List Nat) (env : Env) (tmp : Tmp), f < G →
      Good (interpFor C f owner x items main secs out env).sig →
      ∃ t, forTail (elseB ++ ys)
          (loopFor (execList .none ((emitBody file via owner.autoescape main).1 ++ [mkPass file via pl])) x items ⟨out, env, tmp⟩)
        = after ys (interpFor C f owner x items main secs out env) t := by
  intro items
  induction items with
  | nil =>
    intro f out env tmp hf hgood
    cases f with
    | zero => rw [interpFor_zero] at hgood; exact absurd rfl hgood.1
    | succ f' =>
      rw [interpFor_nil] at hgood ⊢
      simp only [loopFor, forTail]
      rcases hsecs with ⟨rfl, rfl⟩ | ⟨sn, m', pl', rfl, hsn, rfl⟩
      · exact ⟨tmp, hys _ _⟩
      · simp only [] at hgood ⊢
        obtain ⟨t1, hb⟩ := IH f' (by omega) owner sn out env hsn hgood .none tmp [mkPass file via pl'] (insens_pass _ _ _ _)
        rw [List.cons_append, execList_block, hk_else, blockSem_else_live, hb, after_pass, thenK_afterK]
        exact ⟨t1, rfl⟩
  | cons a items ih =>
    intro f out env tmp hf hgood
    cases f with
    | zero => rw [interpFor_zero] at hgood; exact absurd rfl hgood.1
    | succ f' =>
      rw [interpFor_cons] at hgood ⊢
      rw [loopFor_cons]
      dsimp only
      have hg1 : Good (interp C f' owner main out (env.set x (.atom a))).sig := by
        cases hs : (interp C f' owner main out (env.set x (.atom a))).sig with
        | raise y => simp only [hs] at hgood; exact hgood
        | normal => exact ⟨by simp, by simp⟩
        | brk => exact ⟨by simp, by simp⟩
        | cont => exact ⟨by simp, by simp⟩
      obtain ⟨t1, hb⟩ := IH f' (by omega) owner main out (env.set x (.atom a)) hmain hg1 .none tmp [mkPass file via pl] (insens_pass _ _ _ _)
      rw [hb, after_pass]
      generalize interp C f' owner main out (env.set x (.atom a)) = r1 at hgood ⊢
      cases hs : r1.sig with
      | normal =>
        simp only [hs] at hgood
        simp only [afterK, hs]
        exact ih f' r1.out r1.env t1 (by omega) hgood
      | cont =>
        simp only [hs] at hgood
        simp only [afterK, hs]
        exact ih f' r1.out r1.env t1 (by omega) hgood
      | brk =>
        simp only [afterK, hs, forTail, after]
        refine ⟨t1, ?_⟩
        rcases hsecs with ⟨rfl, rfl⟩ | ⟨sn, m', pl', rfl, hsn, rfl⟩
        · exact hys _ _
        · rw [List.cons_append, execList_block, hk_else, blockSem_else_skip]; rfl
      | raise y =>
        simp only [afterK, hs, forTail, after]
        exact ⟨t1, rfl⟩

/-- one `{% if %}` / `{% for %}` directive -/
theorem exec_control (C : Ctx) (file : Str) (via : List (Str × Nat)) (owner : FileInfo) (G : Nat)
    (IH : ∀ g, g < G → P C file via g) (s : Str) (l : Nat) (body : List Node) (g0 : Nat) (hg0 : g0 ≤ G)
    (hfr : (if (partitionSp s).1 == (/-"if"-/ [105, 102] : List Nat) then frag .ifChain body
            else if (partitionSp s).1 == (/-"for"-/ [102, 111, 114] : List Nat) then frag .forMain body else false) = true)
    (out : List Nat) (env : Env) (tmp : Tmp) (mode : Mode) (K : List PStmt) (hK : Insens K)
    (hgood : Good (interpControl C g0 owner s body out env).sig) :
    ∃ t, execList mode (buildBlocks file via s l (emitBody file via owner.autoescape body).1
          (emitBody file via owner.autoescape body).2 l ++ K) ⟨out, env, tmp⟩
      = after K (interpControl C g0 owner s body out env) t := by
  cases g0 with
  | zero => rw [interpControl_zero] at hgood; exact absurd rfl hgood.1
  | succ f =>
    obtain ⟨he1, he2⟩ := emit_split file via owner.autoescape body
    by_cases hif : ((partitionSp s).1 == (/-"if"-/ [105, 102] : List Nat)) = true
    · simp only [hif, if_true] at hfr
      obtain ⟨hm, hsecs⟩ := frag_split body .ifChain hfr
      rw [interpControl_if _ _ _ _ _ _ _ hif] at hgood ⊢
      rw [he1]
      exact if_chain C file via owner G IH K hK _ _ s l _ f out env tmp mode l (by omega) he2 hm (.inl hif)
        (by simp only [if_not_else s hif, Bool.false_eq_true, if_false]; exact hsecs) hgood
    · simp only [Bool.not_eq_true] at hif
      simp only [hif, Bool.false_eq_true, if_false] at hfr
      have hfor : ((partitionSp s).1 == (/-"for"-/ [102, 111, 114] : List Nat)) = true := by
        split at hfr
        · assumption
        · cases hfr
      simp only [hfor, if_true] at hfr
      obtain ⟨hm, hsecs⟩ := frag_split body .forMain hfr
      rw [interpControl_for _ _ _ _ _ _ _ hif hfor] at hgood ⊢
      rw [buildBlocks_head, List.cons_append, execList_block, hk_for s hif hfor]
      cases hsp : splitIn (strip (partitionSp s).2) with
      | none => simp only [hsp, unsupported] at hgood; exact absurd rfl hgood.2
      | some p =>
        obtain ⟨x, e⟩ := p
        simp only [hsp] at hgood ⊢
        by_cases hid : isIdent (strip x) = true
        · simp only [hid, Bool.not_true, Bool.false_eq_true, if_false] at hgood ⊢
          cases hev : evalExpr env (strip e) with
          | error exc =>
            simp only [hev] at hgood ⊢
            rw [blockSem_for_err _ _ _ _ _ _ exc hid hev]
            exact ⟨tmp, rfl⟩
          | ok v =>
            cases v with
            | atom a => simp only [hev, unsupported] at hgood; exact absurd rfl hgood.2
            | list items =>
              simp only [hev] at hgood ⊢
              rw [blockSem_for _ _ _ _ _ _ items hid hev, he1]
              refine for_loop C file via owner G IH K hK (strip x) _ hm _ _ _ ?_ items f out env tmp (by omega) hgood
              generalize (splitInter body).2 = qs at he2 hsecs
              generalize (emitBody file via owner.autoescape body).2 = ps at he2
              cases qs with
              | nil => exact .inl ⟨rfl, by rw [secRel_nil_right he2]; rfl⟩
              | cons q more =>
                obtain ⟨sq, bq⟩ := q
                simp only [SecsOK] at hsecs
                obtain ⟨hsq, hbq, rfl⟩ := hsecs
                have e : sq = (/-"else"-/ [101, 108, 115, 101] : List Nat) := by simpa using hsq
                subst e
                cases ps with
                | nil => simp [SecRel] at he2
                | cons p ps' =>
                  obtain ⟨l', s'', b'⟩ := p
                  simp only [SecRel] at he2
                  obtain ⟨rfl, rfl, hrel'⟩ := he2
                  have := secRel_nil_right hrel'
                  subst this
                  exact .inr ⟨bq, _, _, rfl, hbq, rfl⟩
        · simp only [Bool.not_eq_true] at hid
          simp only [hid, Bool.not_false, if_true, unsupported] at hgood
          exact absurd rfl hgood.2

/-- `{% set x = e %}`, `{% break %}`, `{% continue %}` -/
theorem exec_stmt (C : Ctx) (g0 : Nat) (owner : FileInfo) (s : Str) (l : Nat) (h : stmtOK s = true)
    (file : Str) (via : List (Str × Nat)) (out : List Nat) (env : Env) (tmp : Tmp) (mode : Mode) (K : List PStmt) :
    ∃ t, execList mode (.simple s ⟨file, l, via⟩ :: K) ⟨out, env, tmp⟩ = after K (nodeR C g0 owner (.stmt s l) out env) t := by
  unfold stmtOK at h
  simp only [Bool.or_eq_true, Bool.and_eq_true] at h
  rcases h with (hb | hc) | ho
  · have e : s = (/-"break"-/ [98, 114, 101, 97, 107] : List Nat) := by simpa using hb
    subst e; refine ⟨tmp, ?_⟩; rw [execList_simple]; rfl
  · have e : s = (/-"continue"-/ [99, 111, 110, 116, 105, 110, 117, 101] : List Nat) := by simpa using hc
    subst e; refine ⟨tmp, ?_⟩; rw [execList_simple]; rfl
  · obtain ⟨⟨hcl, himp⟩, hsp⟩ := ho
    have hcl' : classify s = .other := by simpa using hcl
    have hb : (s == (/-"break"-/ [98, 114, 101, 97, 107] : List Nat)) = false := by
      cases hh : s == (/-"break"-/ [98, 114, 101, 97, 107] : List Nat) with
      | false => rfl
      | true =>
        have e : s = (/-"break"-/ [98, 114, 101, 97, 107] : List Nat) := by simpa using hh
        subst e; rw [show classify (/-"break"-/ [98, 114, 101, 97, 107] : List Nat) = .brk from rfl] at hcl'; cases hcl'
    have hc : (s == (/-"continue"-/ [99, 111, 110, 116, 105, 110, 117, 101] : List Nat)) = false := by
      cases hh : s == (/-"continue"-/ [99, 111, 110, 116, 105, 110, 117, 101] : List Nat) with
      | false => rfl
      | true =>
        have e : s = (/-"continue"-/ [99, 111, 110, 116, 105, 110, 117, 101] : List Nat) := by simpa using hh
        subst e; rw [show classify (/-"continue"-/ [99, 111, 110, 116, 105, 110, 117, 101] : List Nat) = .cont from rfl] at hcl'; cases hcl'
    have himp' : (startsWith (/-"import "-/ [105, 109, 112, 111, 114, 116, 32] : List Nat) s || startsWith (/-"from "-/ [102, 114, 111, 109, 32] : List Nat) s) = false := by
      simpa using himp
    cases hs : splitEq s with
    | none => simp [hs] at hsp
    | some p =>
      obtain ⟨x, e⟩ := p
      rw [execList_simple]; unfold execSimple; rw [hcl']
      simp only [nodeR, hb, hc, himp', hs, Bool.false_eq_true, if_false]
      cases hev : evalExpr env e with
      | ok v => exact ⟨tmp, rfl⟩
      | error exc => exact ⟨tmp, rfl⟩

/-- **the interpreter and the generated statements agree on every body of the fragment** -/
theorem exec_interp (C : Ctx) (file : Str) (via : List (Str × Nat)) : ∀ g, P C file via g := by
  intro g
  induction g using Nat.strongRecOn with
  | _ g IH =>
    intro owner nodes out env hfr hgood mode tmp ys hys
    cases g with
    | zero => rw [interp_zero] at hgood; exact absurd rfl hgood.1
    | succ g0 =>
      cases nodes with
      | nil =>
        rw [interp_nil]
        simp only [emitBody, List.nil_append]
        exact ⟨tmp, hys _ _⟩
      | cons n ns =>
        rw [interp_cons] at hgood ⊢
        have hn : ∀ s l, n ≠ .inter s l := by
          intro s l h; subst h; simp [frag] at hfr
        have key : frag .plain ns = true ∧ (Good (nodeR C g0 owner n out env).sig →
            ∃ t1, execList mode (emitNode file via owner.autoescape n ++ ((emitBody file via owner.autoescape ns).1 ++ ys)) ⟨out, env, tmp⟩
              = after ((emitBody file via owner.autoescape ns).1 ++ ys) (nodeR C g0 owner n out env) t1) := by
          cases n with
          | text v l ws =>
            simp only [frag] at hfr
            refine ⟨hfr, fun _ => ?_⟩
            have hK := insens_emit file via owner.autoescape ns ys hfr hys
            simp only [emitNode, emitBody, List.append_nil]
            by_cases hv : (textValue v ws).isEmpty = true
            · have e : textValue v ws = [] := by simpa using hv
              simp only [hv, if_true, List.nil_append]
              refine ⟨tmp, ?_⟩
              rw [hK _ _]
              simp [nodeR, after, e, utf8]
            · simp only [hv, if_false, Bool.false_eq_true, List.singleton_append]
              rw [execList_simple, execSimple_lit]
              exact ⟨tmp, rfl⟩
          | expr e l raw =>
            simp only [frag] at hfr
            refine ⟨hfr, fun hg => ?_⟩
            simp only [emitNode, emitBody, List.append_nil]
            rw [nodeR_expr] at hg ⊢
            exact exec_expr file via owner.autoescape e l raw out env tmp mode _ hg
          | control s l body =>
            simp only [frag, Bool.and_eq_true] at hfr
            refine ⟨hfr.2, fun hg => ?_⟩
            have hK := insens_emit file via owner.autoescape ns ys hfr.2 hys
            simp only [emitNode, emitBody, List.append_nil]
            exact exec_control C file via owner (g0 + 1) IH s l body g0 (by omega) hfr.1 out env tmp mode _ hK hg
          | inter s l => simp [frag] at hfr
          | stmt s l =>
            simp only [frag, Bool.and_eq_true] at hfr
            refine ⟨hfr.2, fun _ => ?_⟩
            simp only [emitNode, emitBody, List.singleton_append]
            exact exec_stmt C g0 owner s l hfr.1 file via out env tmp mode _
          | apply m l body => simp [frag] at hfr
          | block name l body => simp [frag] at hfr
          | «extends» name => simp [frag] at hfr
          | incl name l => simp [frag] at hfr
        obtain ⟨hns, hstep⟩ := key
        rw [emitBody_cons _ _ _ n ns hn, List.append_assoc]
        have hg1 : Good (nodeR C g0 owner n out env).sig := by
          cases hs : (nodeR C g0 owner n out env).sig with
          | raise y => simp only [hs] at hgood; exact hgood
          | normal => exact ⟨by simp, by simp⟩
          | brk => exact ⟨by simp, by simp⟩
          | cont => exact ⟨by simp, by simp⟩
        obtain ⟨t1, h1⟩ := hstep hg1
        rw [h1]
        generalize nodeR C g0 owner n out env = r1 at hgood ⊢
        cases hs : r1.sig with
        | normal =>
          simp only [hs] at hgood
          simp only [after, hs]
          exact IH g0 (Nat.lt_succ_self _) owner ns r1.out r1.env hns hgood .none t1 ys hys
        | brk => exact ⟨t1, by simp only [after, hs]⟩
        | cont => exact ⟨t1, by simp only [after, hs]⟩
        | raise y => exact ⟨t1, by simp only [after, hs]⟩

/-! ### the whole file -/
theorem extendsOf_frag : ∀ (nodes : List Node) (st : FSt), frag st nodes = true → extendsOf nodes = [] := by
  intro nodes
  induction nodes with
  | nil => intro _ _; rfl
  | cons n ns ih =>
    intro st h
    cases n with
    | text v l ws => simp only [frag] at h; simp only [extendsOf]; exact ih st h
    | expr e l raw => simp only [frag] at h; simp only [extendsOf]; exact ih st h
    | control s l body => simp only [frag, Bool.and_eq_true] at h; simp only [extendsOf]; exact ih st h.2
    | inter s l =>
      simp only [extendsOf]
      cases st with
      | ifChain =>
        simp only [frag] at h
        split at h
        · exact ih _ h
        · simp only [Bool.and_eq_true] at h; exact ih _ h.2
      | forMain => simp only [frag, Bool.and_eq_true] at h; exact ih _ h.2
      | plain => simp [frag] at h
      | last => simp [frag] at h
    | stmt s l => simp only [frag, Bool.and_eq_true] at h; simp only [extendsOf]; exact ih st h.2
    | apply m l body => simp [frag] at h
    | block name l body => simp [frag] at h
    | «extends» name => simp [frag] at h
    | incl name l => simp [frag] at h

/-- without `{% extends %}` the root of the plan is the template itself -/
theorem plan_root (L : Loader) (fuel : Nat) (t : FileInfo) (p : Plan) (h : extendsOf t.body = [])
    (hp : plan L fuel t = .ok p) : p.root = t := by
  cases fuel with
  | zero => simp [plan, ancestors, bind, Except.bind] at hp
  | succ f =>
    simp only [plan, ancestors, h, List.mapM_nil, bind, Except.bind, pure, Except.pure, List.flatten_nil,
      List.reverse_cons, List.reverse_nil, List.nil_append, List.mapM_cons] at hp
    split at hp
    · cases hp
    · cases hp; rfl

theorem hk_def : hdrKind (/-"def _tt_execute():"-/ [100, 101, 102, 32, 95, 116, 116, 95, 101, 120, 101, 99, 117, 116, 101, 40, 41, 58] : List Nat) = .defExec := by rfl

/-- the lines of a file of the fragment are the lines of one `def _tt_execute():` block -/
theorem generatePython_frag (L : Loader) (fuel : Nat) (t : FileInfo) (lines : List Line) (p : Plan)
    (hfrag : frag .plain t.body = true) (hp : plan L fuel t = .ok p) (hgen : generatePython L fuel t = .ok lines) :
    lines = flatList 0 [.block (/-"def _tt_execute():"-/ [100, 101, 102, 32, 95, 116, 116, 95, 101, 120, 101, 99, 117, 116, 101, 40, 41, 58] : List Nat) ⟨t.name, 0, []⟩
      (.simple (/-"_tt_buffer = []"-/ [95, 116, 116, 95, 98, 117, 102, 102, 101, 114, 32, 61, 32, 91, 93] : List Nat) ⟨t.name, 0, []⟩ ::
       .simple (/-"_tt_append = _tt_buffer.append"-/ [95, 116, 116, 95, 97, 112, 112, 101, 110, 100, 32, 61, 32, 95, 116, 116, 95, 98, 117, 102, 102, 101, 114, 46, 97, 112, 112, 101, 110, 100] : List Nat) ⟨t.name, 0, []⟩ ::
       ((emitBody t.name [] t.autoescape t.body).1 ++
        [.simple (/-"return _tt_utf8('').join(_tt_buffer)"-/ [114, 101, 116, 117, 114, 110, 32, 95, 116, 116, 95, 117, 116, 102, 56, 40, 39, 39, 41, 46, 106, 111, 105, 110, 40, 95, 116, 116, 95, 98, 117, 102, 102, 101, 114, 41] : List Nat) ⟨t.name, 0, []⟩]))] := by
  have hroot := plan_root L fuel t p (extendsOf_frag _ _ hfrag) hp
  have hsecs : (emitBody t.name [] t.autoescape t.body).2 = [] := by
    have h1 := (frag_split t.body .plain hfrag).2
    have h2 := (emit_split t.name [] t.autoescape t.body).2
    rw [secsOK_plain h1] at h2
    exact secRel_nil_right h2
  simp only [generatePython, hp, bind, Except.bind, hroot] at hgen
  split at hgen
  · cases hgen
  · rename_i herr
    simp only [pure, Except.pure, Except.ok.injEq] at hgen
    subst hgen
    simp only [fileLines] at herr ⊢
    have := gen_emit L p.named fuel .plain t.body _ hfrag herr
    rw [this]
    simp [W.app, W.write, W.writeAt, W.writeHdr, viaOf, bodyLines, hsecs, secLines, flatList, PStmt.flat,
      flatList_append, List.append_assoc]

/-- **on the fragment the generated Python, run under `pyRun`, gives what the interpreter defines** — the output
bytes, or the same exception type — whenever the interpreter's outcome is defined by the template language
(not `Fuel`: the interpreter's fuel ran out; not `Unsupported`: outside the expression pool of `Spec.lean`). -/
theorem pyRun_render (L : Loader) (t : FileInfo) (env : Env) (fuel : Nat) (lines : List Line)
    (hfrag : frag .plain t.body = true) (hgen : generatePython L fuel t = .ok lines)
    (hF : render L fuel t env ≠ .error (/-"Fuel"-/ [70, 117, 101, 108] : List Nat))
    (hU : render L fuel t env ≠ .error (/-"Unsupported"-/ [85, 110, 115, 117, 112, 112, 111, 114, 116, 101, 100] : List Nat)) :
    pyRun lines env = render L fuel t env := by
  cases hp : plan L fuel t with
  | error e => simp [generatePython, hp, bind, Except.bind] at hgen
  | ok p =>
    have hroot := plan_root L fuel t p (extendsOf_frag _ _ hfrag) hp
    have hlines := generatePython_frag L fuel t lines p hfrag hp hgen
    simp only [render, hp, hroot] at hF hU ⊢
    have hgood : Good (interp ⟨L, p.named⟩ fuel t t.body [] env).sig := by
      constructor
      · intro h; rw [h] at hF; exact hF rfl
      · intro h; rw [h] at hU; exact hU rfl
    obtain ⟨t1, hmain⟩ := exec_interp ⟨L, p.named⟩ t.name [] fuel t t.body [] env hfrag hgood .none .unset
      [.simple (/-"return _tt_utf8('').join(_tt_buffer)"-/ [114, 101, 116, 117, 114, 110, 32, 95, 116, 116, 95, 117, 116, 102, 56, 40, 39, 39, 41, 46, 106, 111, 105, 110, 40, 95, 116, 116, 95, 98, 117, 102, 102, 101, 114, 41] : List Nat) ⟨t.name, 0, []⟩]
      (insens_simple _ _ _ (by rw [classify_retJoin]; simp))
    unfold pyRun
    rw [hlines, parseLines_flat]
    simp only [hk_def]
    rw [execList_simple]; unfold execSimple; rw [classify_initBuf]; simp only []
    rw [execList_simple]; unfold execSimple; rw [classify_bindAppend]; simp only []
    rw [hmain]
    generalize interp ⟨L, p.named⟩ fuel t t.body [] env = r
    unfold after
    cases hs : r.sig with
    | normal =>
      simp only []
      rw [execList_simple]; unfold execSimple; rw [classify_retJoin]
    | brk => rfl
    | cont => rfl
    | raise x => rfl

/-! ### a concrete template of the fragment (non-vacuity examples in `Props.lean`) -/
def exT : FileInfo := ⟨[116], [.text [97, 10] 1 .all, .expr [120] 2 false,
  .control [105, 102, 32, 120] 2 [.text [98] 2 .all, .inter [101, 108, 115, 101] 2, .text [99] 2 .all],
  .control [102, 111, 114, 32, 121, 32, 105, 110, 32, 108] 3 [.expr [121] 3 true, .inter [101, 108, 115, 101] 3, .text [100] 3 .all]],
  some [120, 104, 116, 109, 108, 95, 101, 115, 99, 97, 112, 101]⟩
def exEnv : Env := [([120], .atom (.str [60])), ([108], .list [.int 1, .bytes [38]])]

end TornadoModel.C19
