/-
C19 — template names: `DictLoader.resolve_path` (`posixpath.dirname`, `posixpath.join`, `posixpath.normpath`)
over code points (core Lean only).

The template language resolves the name of an `{% include %}` / `{% extends %}` against the directory of the
template that *mentions* it; the loader's cache (`BaseLoader.templates`) is keyed by the **resolved** name.
A top-level `loader.load(name)` has no parent: the name is used as it is.
-/
import TornadoModel.C19.Base
namespace TornadoModel.C19

/-- `s.split("/")` -/
def splitSlash : Str → List Str
  | [] => [[]]
  | c :: cs =>
    if c == 47 then [] :: splitSlash cs
    else match splitSlash cs with
      | [] => [[c]]                -- unreachable: `splitSlash` never returns `[]`
      | x :: xs => (c :: x) :: xs

/-- `posixpath.dirname(p)`: everything up to the last `/`, trailing slashes removed unless it is all slashes -/
def dirname (p : Str) : Str :=
  let head := (p.reverse.dropWhile (· != 47)).reverse
  if head.all (· == 47) then head else (head.reverse.dropWhile (· == 47)).reverse

/-- `posixpath.join(a, b)` for one component -/
def pathJoin (a b : Str) : Str :=
  if startsWith [47] b then b
  else if a.isEmpty || endsWith [47] a then a ++ b
  else a ++ [47] ++ b

/-- the loop of `posixpath.normpath`: `acc` = `new_comps`, innermost last component first -/
def normComps (absolute : Bool) : List Str → List Str → List Str
  | [], acc => acc
  | c :: cs, acc =>
    if c.isEmpty || c == [46] then normComps absolute cs acc
    else if c != [46, 46] then normComps absolute cs (c :: acc)
    else match acc with
      | [] => if absolute then normComps absolute cs [] else normComps absolute cs [c]
      | top :: rest => if top == [46, 46] then normComps absolute cs (c :: acc) else normComps absolute cs rest

def joinSlash : List Str → Str
  | [] => []
  | [x] => x
  | x :: xs => x ++ [47] ++ joinSlash xs

/-- `posixpath.normpath(path)` -/
def normpath (path : Str) : Str :=
  if path.isEmpty then [46] else
  let slashes : Nat :=
    if startsWith [47, 47] path && !startsWith [47, 47, 47] path then 2
    else if startsWith [47] path then 1 else 0
  let comps := (normComps (slashes != 0) (splitSlash path) []).reverse
  let p := List.replicate slashes 47 ++ joinSlash comps
  if p.isEmpty then [46] else p

/-- `DictLoader.resolve_path(name, parent_path)` -/
def resolvePath (name : Str) (parent : Option Str) : Str :=
  match parent with
  | none => name
  | some par =>
    if !par.isEmpty && !startsWith [60] par && !startsWith [47] par && !startsWith [47] name then
      normpath (pathJoin (dirname par) name)
    else name

end TornadoModel.C19
