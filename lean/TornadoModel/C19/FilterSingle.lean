/- C19 — helper lemmas for the idempotence of `filter_whitespace` in mode `single`
(`re.sub(r"([\t ]+)", " ", …)` followed by `re.sub(r"(\s*\n\s*)", "\n", …)`).

Plan: the first pass leaves a text without tabs and without two adjacent spaces (`noBB`); the second pass keeps
that property (it only replaces whole whitespace runs by a newline); on such a text the first pass is the
identity; and the second pass is idempotent on every text. -/
import TornadoModel.C19.Base
namespace TornadoModel.C19

/-- no tab, no two adjacent blanks; `prev` = the previous character was a blank -/
def noBB : Bool → Str → Bool
  | _, [] => true
  | prev, c :: cs => if isBlank c then (c == 32 && !prev && noBB true cs) else noBB false cs

theorem isSpace_of_isBlank {c : Nat} (h : isBlank c = true) : isSpace c = true := by
  simp only [isBlank, Bool.or_eq_true, beq_iff_eq] at h
  rcases h with h | h <;> subst h <;> decide

theorem isBlank_of_not_isSpace {c : Nat} (h : isSpace c = false) : isBlank c = false := by
  cases hb : isBlank c with
  | false => rfl
  | true => rw [isSpace_of_isBlank hb] at h; cases h

/-- on a text without tabs and adjacent blanks the first pass changes nothing -/
theorem collapse_noBB (prev : Bool) (t : Str) (h : noBB prev t = true) : collapseRuns isBlank prev t = t := by
  induction t generalizing prev with
  | nil => rfl
  | cons c cs ih =>
    by_cases hc : isBlank c = true
    · simp only [noBB, hc, if_true, Bool.and_eq_true, beq_iff_eq, Bool.not_eq_true'] at h
      obtain ⟨⟨h1, h2⟩, h3⟩ := h
      subst h1 h2
      have h32 : isBlank 32 = true := by decide
      simp only [collapseRuns, h32, if_true, Bool.false_eq_true, if_false, ih true h3]
    · simp only [Bool.not_eq_true] at hc
      simp only [noBB, hc, Bool.false_eq_true, if_false] at h
      simp only [collapseRuns, hc, Bool.false_eq_true, if_false, ih false h]

/-- the output of the first pass has no tabs and no adjacent blanks -/
theorem noBB_collapse (prev : Bool) (s : Str) : noBB prev (collapseRuns isBlank prev s) = true := by
  induction s generalizing prev with
  | nil => rfl
  | cons c cs ih =>
    by_cases hc : isBlank c = true
    · cases prev with
      | true => simp only [collapseRuns, hc, if_true]; exact ih true
      | false =>
        simp only [collapseRuns, hc, if_true, Bool.false_eq_true, if_false]
        have h32 : isBlank 32 = true := by decide
        simp only [noBB, h32, if_true, ih true]; rfl
    · simp only [Bool.not_eq_true] at hc
      simp only [collapseRuns, hc, Bool.false_eq_true, if_false, noBB]
      exact ih false

/-- splitting at a non-blank character -/
theorem noBB_split (p : Bool) (a : Str) (c : Nat) (b : Str) (hc : isBlank c = false) :
    noBB p (a ++ c :: b) = (noBB p a && noBB false b) := by
  induction a generalizing p with
  | nil => simp [noBB, hc]
  | cons x xs ih =>
    by_cases hx : isBlank x = true
    · simp only [List.cons_append, noBB, hx, if_true, ih true, Bool.and_assoc]
    · simp only [Bool.not_eq_true] at hx
      simp only [List.cons_append, noBB, hx, Bool.false_eq_true, if_false, ih false]

/-- the second pass keeps the property -/
theorem noBB_nlRuns (run : Str) (h : Bool) (s : Str) (hs : noBB false (run.reverse ++ s) = true) :
    noBB false (nlRuns run h s) = true := by
  induction s generalizing run h with
  | nil =>
    simp only [nlRuns, flushRun]
    split
    · decide
    · simpa using hs
  | cons c cs ih =>
    by_cases hc : isSpace c = true
    · simp only [nlRuns, hc, if_true]
      apply ih
      simpa using hs
    · simp only [Bool.not_eq_true] at hc
      have hb := isBlank_of_not_isSpace hc
      simp only [nlRuns, hc, Bool.false_eq_true, if_false]
      rw [noBB_split false run.reverse c cs hb, Bool.and_eq_true] at hs
      rw [noBB_split false (flushRun run h) c (nlRuns [] false cs) hb, Bool.and_eq_true]
      refine ⟨?_, ih [] false (by simpa using hs.2)⟩
      unfold flushRun
      split
      · decide
      · exact hs.1

/-- a prefix of whitespace is absorbed into the pending run -/
theorem nlRuns_spaces (ws : Str) (hws : ∀ c ∈ ws, isSpace c = true) (run : Str) (h : Bool) (rest : Str) :
    nlRuns run h (ws ++ rest) = nlRuns (ws.reverse ++ run) (h || ws.contains 10) rest := by
  induction ws generalizing run h with
  | nil => simp
  | cons c cs ih =>
    have hc : isSpace c = true := hws c (by simp)
    simp only [List.cons_append, nlRuns, hc, if_true]
    rw [ih (fun x hx => hws x (by simp [hx]))]
    have e1 : (c :: cs).reverse ++ run = cs.reverse ++ c :: run := by simp
    have e2 : (h || (c :: cs).contains 10) = ((h || c == 10) || cs.contains 10) := by
      rw [List.contains_cons, BEq.comm (a := 10), Bool.or_assoc]
    rw [e1, e2]

/-- what a flushed run looks like: whitespace only, and flushing it again returns it -/
theorem flushRun_fix (run : Str) (h : Bool) (hrun : ∀ c ∈ run, isSpace c = true) (hh : h = run.contains 10) :
    (∀ c ∈ flushRun run h, isSpace c = true) ∧
    flushRun (flushRun run h).reverse ((flushRun run h).contains 10) = flushRun run h := by
  unfold flushRun
  cases h with
  | true => simp; decide
  | false =>
    simp only [Bool.false_eq_true, if_false, List.reverse_reverse, List.contains_reverse]
    refine ⟨fun c hc => hrun c (by simpa using hc), ?_⟩
    rw [← hh]; rfl

/-- the second pass is idempotent (for every text) -/
theorem nlRuns_idem (run : Str) (h : Bool) (s : Str) (hrun : ∀ c ∈ run, isSpace c = true)
    (hh : h = run.contains 10) : nlRuns [] false (nlRuns run h s) = nlRuns run h s := by
  induction s generalizing run h with
  | nil =>
    simp only [nlRuns]
    obtain ⟨h1, h2⟩ := flushRun_fix run h hrun hh
    have := nlRuns_spaces (flushRun run h) h1 [] false []
    simp only [List.append_nil, Bool.false_or] at this
    rw [this]; simpa [nlRuns] using h2
  | cons c cs ih =>
    by_cases hc : isSpace c = true
    · simp only [nlRuns, hc, if_true]
      apply ih
      · intro x hx
        rcases List.mem_cons.mp hx with rfl | hx
        · exact hc
        · exact hrun x hx
      · rw [hh, List.contains_cons, BEq.comm (a := 10), Bool.or_comm]
    · simp only [Bool.not_eq_true] at hc
      simp only [nlRuns, hc, Bool.false_eq_true, if_false]
      obtain ⟨h1, h2⟩ := flushRun_fix run h hrun hh
      rw [nlRuns_spaces (flushRun run h) h1 [] false]
      simp only [List.append_nil, Bool.false_or, nlRuns, hc, Bool.false_eq_true, if_false]
      rw [h2, ih [] false (by simp) (by simp)]

end TornadoModel.C19
