import TornadoModel.C33.Spec
namespace TornadoModel.C33

end TornadoModel.C33
