/-
C33 — property theorems.  Everything is about `run (init k n t0) ops` for ALL class kinds `k`, initial values
`n`, initial collector counters `t0` and ALL op sequences `ops` (acquire with/without deadline, release —
direct, through a context manager, or racing a timer —, fire-next-timer, cancel — direct or racing a timer).
-/
import TornadoModel.C33.Refine
namespace TornadoModel.C33

/-- the state after an arbitrary history -/
abbrev after (k : Kind) (n t0 : Nat) (ops : List Op) : St := (run (init k n t0) ops).1

theorem inv_after (k : Kind) (n t0 : Nat) (ops : List Op) : Inv (after k n t0 ops) :=
  inv_run (inv_init k n t0) ops

/-! ### never over-grant -/

/-- `value + granted − released = initial` along every history -/
theorem permits_conserved (k : Kind) (n t0 : Nat) (ops : List Op) :
    (after k n t0 ops).value + grantCount (run (init k n t0) ops).2
      = (init k n t0).value + relCount ops (run (init k n t0) ops).2 :=
  run_account _ ops

/-- granted-and-unreleased permits never exceed the initial value -/
theorem outstanding_le_initial (k : Kind) (n t0 : Nat) (ops : List Op) :
    grantCount (run (init k n t0) ops).2 ≤ (init k n t0).initial + relCount ops (run (init k n t0) ops).2 := by
  have := permits_conserved k n t0 ops
  have hi : (init k n t0).value = (init k n t0).initial := by simp [init]
  omega

example : grantCount (run (init .sem 1 0) [.acquire none, .acquire (some 3), .release, .fire]).2 = 2 ∧
    relCount [.acquire none, .acquire (some 3), .release, .fire]
      (run (init .sem 1 0) [.acquire none, .acquire (some 3), .release, .fire]).2 = 1 := by decide

/-- a bounded semaphore / lock never banks more than its initial value -/
theorem bounded_value_le (k : Kind) (n t0 : Nat) (ops : List Op) (hk : k ≠ .sem) :
    (after k n t0 ops).value ≤ (after k n t0 ops).initial := by
  apply (inv_after k n t0 ops).bounded
  rw [(frame_run (init k n t0) ops).1]
  exact hk

/-- … hence it cannot be released more often than it was granted -/
theorem bounded_releases_le_grants (k : Kind) (n t0 : Nat) (ops : List Op) (hk : k ≠ .sem) :
    relCount ops (run (init k n t0) ops).2 ≤ grantCount (run (init k n t0) ops).2 := by
  have h1 := permits_conserved k n t0 ops
  have h2 := bounded_value_le k n t0 ops hk
  have h3 : (after k n t0 ops).initial = (init k n t0).initial := (frame_run (init k n t0) ops).2
  have hi : (init k n t0).value = (init k n t0).initial := by simp [init]
  omega

/-! ### no idle permit, no lost wakeup -/

/-- a permit is never left unused while a live waiter waits: `value > 0` ⇒ no future is pending -/
theorem no_idle_permit (k : Kind) (n t0 : Nat) (ops : List Op) (w : Nat)
    (hv : (after k n t0 ops).value > 0) : isPend (after k n t0 ops).futs w = false := by
  have h := inv_after k n t0 ops
  by_cases hp : isPend (after k n t0 ops).futs w = true
  · have := h.idle hv w (h.pend_mem w hp); rw [this] at hp; simp at hp
  · simpa using hp

example : (after .sem 1 0 [.acquire none, .acquire (some 5), .fire, .release]).value = 1 := by decide

theorem release_some_eq {s s1 : St} {e : List Ev} {r : Res} {cm : Bool}
    (hr : release s cm = (some (s1, e), r)) : releaseCore s = (s1, e) := by
  unfold release at hr
  split at hr
  · simp at hr; exact hr.1
  · split at hr <;> simp at hr; exact hr.1
  · split at hr <;> simp at hr; exact hr.1

/-- a release that does not raise while some waiter is live grants a waiter (no lost wakeup) -/
theorem no_lost_wakeup (k : Kind) (n t0 : Nat) (ops : List Op) (w : Nat)
    (hp : isPend (after k n t0 ops).futs w = true)
    (hr : (step (after k n t0 ops) .release).2.res = .unit) :
    ∃ g, (g, FState.result 0) ∈ (step (after k n t0 ops) .release).2.evs := by
  have h := inv_after k n t0 ops
  generalize after k n t0 ops = s at *
  simp only [step] at hr ⊢
  split at hr
  · rename_i r hrel
    exact absurd (by simpa [mkOut] using hr) (release_none hrel)
  · rename_i s1 e1 r hrel
    have heq := release_some_eq hrel
    obtain ⟨g, hg⟩ := releaseCore_serves h hp
    rw [heq] at hg
    exact ⟨g, by simp [mkOut, hg]⟩

example : isPend (after .lock 0 0 [.acquire none, .acquire none]).futs 1 = true ∧
    (step (after .lock 0 0 [.acquire none, .acquire none]) .release).2.res = .unit := by decide

/-! ### FIFO among live waiters, nobody skips the queue -/

theorem grant_not_timeout {w : Nat} {e1 e2 : List Ev} (h2 : ∀ e ∈ e2, e.2 = .timeout)
    (hm : (w, FState.result 0) ∈ e1 ++ e2) : (w, FState.result 0) ∈ e1 := by
  rcases List.mem_append.mp hm with h | h
  · exact h
  · have := h2 _ h; simp at this

/-- whenever an op grants future `w`, no older future is still pending: waiters are served in arrival
order skipping only dead ones, and an `acquire` is granted at once only if nobody is waiting -/
theorem fifo_among_live (k : Kind) (n t0 : Nat) (ops : List Op) (op : Op) (w w' : Nat)
    (hg : (w, FState.result 0) ∈ (step (after k n t0 ops) op).2.evs) (hlt : w' < w) :
    isPend (after k n t0 ops).futs w' = false := by
  have h := inv_after k n t0 ops
  generalize after k n t0 ops = s at *
  cases op with
  | acquire d =>
    simp only [step, mkOut] at hg
    exact acquire_grant h (grant_not_timeout (settle_evs _) hg) w'
  | release =>
    simp only [step] at hg
    split at hg
    · simp [mkOut] at hg
    · rename_i s1 e1 r hrel
      simp only [mkOut] at hg
      have hm := grant_not_timeout (settle_evs _) hg
      have heq := release_some_eq hrel
      have : (w, FState.result 0) ∈ (releaseCore s).2 := by rw [heq]; exact hm
      exact (releaseCore_grant h this).2 w' hlt
  | releaseCm x =>
    simp only [step] at hg
    split at hg
    · simp [mkOut] at hg
    · rename_i s1 e1 r hrel
      simp only [mkOut] at hg
      have hm := grant_not_timeout (settle_evs _) hg
      have heq := release_some_eq hrel
      have : (w, FState.result 0) ∈ (releaseCore s).2 := by rw [heq]; exact hm
      exact (releaseCore_grant h this).2 w' hlt
  | fire =>
    simp only [step, mkOut] at hg
    have := settle_evs _ _ hg; simp at this
  | cancel x =>
    simp only [step, mkOut] at hg
    have hm := grant_not_timeout (settle_evs _) hg
    unfold cancel at hm; split at hm <;> simp at hm
  | raceRelease =>
    simp only [step] at hg
    split at hg
    · simp only [mkOut] at hg
      have := settleRace_evs _ _ hg; simp at this
    · rename_i s1 e1 r hrel
      simp only [mkOut] at hg
      have hm := grant_not_timeout (settleRace_evs _) hg
      have heq := release_some_eq hrel
      have : (w, FState.result 0) ∈ (releaseCore (advance s).1).2 := by rw [heq]; exact hm
      have := (releaseCore_grant (inv_advance h) this).2 w' hlt
      rwa [advance_futs] at this
  | raceCancel x =>
    simp only [step, mkOut] at hg
    have hm := grant_not_timeout (settleRace_evs _) hg
    unfold cancel at hm; split at hm <;> simp at hm

example : (1, FState.result 0) ∈
    (step (after .sem 1 0 [.acquire none, .acquire (some 2), .acquire none, .cancel 1]) .release).2.evs → False := by
  decide
example : (2, FState.result 0) ∈
    (step (after .sem 1 0 [.acquire none, .acquire (some 2), .acquire none, .cancel 1]) .release).2.evs := by
  decide

/-! ### dead waiters never obtain a permit -/

/-- once a future is settled (granted, timed out, cancelled) its state never changes again; in particular
a timed-out or cancelled waiter is never granted -/
theorem dead_never_granted (k : Kind) (n t0 : Nat) (ops ops' : List Op) (w : Nat) (f : FState)
    (hf : (after k n t0 ops).futs[w]? = some f) (hne : f ≠ .pending) :
    (after k n t0 (ops ++ ops')).futs[w]? = some f := by
  unfold after at *
  rw [run_append]
  exact (stable_run _ ops').2 w f hf hne

example : (after .sem 0 0 [.acquire (some 1), .fire]).futs[0]? = some .timeout := by decide

/-- a grant is only ever given to a future that was pending, or to the future the op itself created -/
theorem grant_only_live (k : Kind) (n t0 : Nat) (ops : List Op) (op : Op) (w : Nat) (f : FState)
    (hf : (after k n t0 ops).futs[w]? = some f) (hne : f ≠ .pending) :
    (step (after k n t0 ops) op).1.futs[w]? = some f :=
  (stable_step _ op).2 w f hf hne

/-! ### releasing too often raises -/

theorem bounded_release_raises (s : St) (hk : s.kind = .bounded) (hv : s.value ≥ s.initial) :
    step s .release = (s, mkOut s .valueError []) := by
  simp [step, release, hk, hv]

theorem lock_release_raises (s : St) (hk : s.kind = .lock) (hv : s.value ≥ s.initial) :
    step s .release = (s, mkOut s .runtimeError []) := by
  simp [step, release, hk, hv]

/-- at the level of histories: a fresh bounded semaphore / lock, or one whose every grant was released,
refuses the next release -/
theorem bounded_over_release_raises (k : Kind) (n t0 : Nat) (ops : List Op) (hk : k ≠ .sem)
    (hall : grantCount (run (init k n t0) ops).2 = relCount ops (run (init k n t0) ops).2) :
    (step (after k n t0 ops) .release).2.res ≠ .unit := by
  have h1 := permits_conserved k n t0 ops
  have h3 : (after k n t0 ops).initial = (init k n t0).initial := (frame_run (init k n t0) ops).2
  have hkk : (after k n t0 ops).kind = k := (frame_run (init k n t0) ops).1
  have hi : (init k n t0).value = (init k n t0).initial := by simp [init]
  have hv : (after k n t0 ops).value ≥ (after k n t0 ops).initial := by omega
  cases k with
  | sem => exact absurd rfl hk
  | bounded => rw [bounded_release_raises _ hkk hv]; simp [mkOut]
  | lock => rw [lock_release_raises _ hkk hv]; simp [mkOut]

example : (step (after .bounded 2 0 [.acquire none, .release]) .release).2.res = .valueError := by decide
example : (step (after .lock 0 0 []) .release).2.res = .runtimeError := by decide
example : (step (after .lock 0 0 [.acquire none, .release]) (.releaseCm 0)).2.res = .valueError := by decide

/-! ### the timeout garbage collector is invisible -/

/-- abstraction to the sequential specification: the live waiters in queue order -/
def abs (s : St) : Spec.St :=
  { kind := s.kind, initial := s.initial, permits := s.value, queue := s.waiters.filter (isPend s.futs),
    next := s.futs.length, timers := s.timers, now := s.now }

theorem gc_preserves_abs (s : St) : abs (gc s) = abs s := by
  unfold gc
  split <;> simp [abs, List.filter_filter]

/-! ### deadlines: a live waiter whose deadline is reached gets TimeoutError -/

theorem onTimeout_sets {s : St} {w : Nat} (hp : isPend s.futs w = true) :
    (onTimeout s w).1.futs[w]? = some .timeout := by
  unfold onTimeout
  simp only [hp, if_true, gc_futs]
  simp [isPend_lt hp]

theorem onTimeout_other {s : St} {w x : Nat} (hne : x ≠ w) :
    isPend (onTimeout s w).1.futs x = isPend s.futs x := by
  unfold onTimeout
  split
  · simp only [gc_futs]; exact isPend_set_ne hne
  · simp only [gc_futs]

theorem fireList_sets {s : St} {ts : List Timer} {t : Timer} (hm : t ∈ ts) (hp : isPend s.futs t.2 = true) :
    (fireList s ts).1.futs[t.2]? = some .timeout := by
  induction ts generalizing s with
  | nil => simp at hm
  | cons a ts ih =>
    simp only [fireList]
    by_cases e : a.2 = t.2
    · have h1 : (onTimeout s a.2).1.futs[t.2]? = some .timeout := by rw [e]; exact onTimeout_sets hp
      exact (stable_fireList _ ts).2 _ _ h1 (by simp)
    · have hm' : t ∈ ts := by
        rcases List.mem_cons.mp hm with rfl | h
        · exact absurd rfl e
        · exact h
      exact ih hm' (by rw [onTimeout_other (Ne.symm e)]; exact hp)

/-- `fire`: the waiter owning the earliest deadline, if still pending, fails with `TimeoutError` -/
theorem deadline_times_out (s : St) (t : Timer) (hm : minTimer s.timers = some t)
    (hp : isPend s.futs t.2 = true) : (step s .fire).1.futs[t.2]? = some .timeout := by
  have hmem := minTimer_mem hm
  simp only [step, advance, hm, settle]
  show (purge (fireDue (purge _)).1).futs[t.2]? = _
  simp only [purge, fireDue]
  apply fireList_sets
  · unfold dueTimers
    rw [mem_sortTimers]
    simp only [List.mem_filter]
    refine ⟨⟨hmem, by simpa using hp⟩, ?_⟩
    simp
    omega
  · exact hp

example : (step (after .sem 0 0 [.acquire (some 4), .acquire (some 2)]) .fire).1.futs[1]? = some .timeout := by
  decide

/-! ### refinement to the sequential specification -/

/-- every history produces the same results and the same resolutions, in the same order, as the sequential
semaphore of `Spec.lean` (`Res.vis` identifies the two exception kinds of a refused release: the property only
says that it *raises*).  Proof: forward simulation along `absF` (`Refine.lean`) under the invariants `Inv` and
`TInv` (every scheduled timer belongs to a pending future). -/
theorem refines_spec (k : Kind) (n t0 : Nat) (ops : List Op) :
    (run (init k n t0) ops).2.map (fun o => (Res.vis o.res, o.evs)) =
      (Spec.run (Spec.init k n) ops).2.map (fun o => (Res.vis o.res, o.evs)) := by
  have h := run_sim (inv_init k n t0) (TInv_init k n t0) ops
  rw [absF_init] at h
  exact h.symm

/-- after every history the specification's state is the abstraction of the model's state -/
theorem refines_spec_state (k : Kind) (n t0 : Nat) (ops : List Op) :
    (Spec.run (Spec.init k n) ops).1 = absF (after k n t0 ops) := by
  have h := run_sim_state (inv_init k n t0) (TInv_init k n t0) ops
  rw [absF_init] at h
  exact h

example : (run (init .lock 0 99) [.acquire none, .acquire (some 2), .acquire (some 1), .raceRelease, .release,
      .release]).2.map (fun o => (Res.vis o.res, o.evs)) =
    [(.unit, [(0, .result 0)]), (.unit, []), (.unit, []), (.unit, [(1, .result 0), (2, .timeout)]), (.unit, []),
     (.valueError, [])] := by decide

end TornadoModel.C33
