/-
C33 — the specification: a *sequential* counting semaphore.

State: a permit counter, the FIFO of live waiters (nothing dead is ever kept), the deadlines of the queued
waiters and a clock.  No done-flags, no garbage collection, no callbacks.
  acquire  : a free permit is taken at once, otherwise the caller joins the back of the queue
  release  : the waiter at the head of the queue is served; only if there is none the permit is banked;
             bounded semaphore / lock refuse (ValueError / RuntimeError) when every permit is already banked
  timeout/cancel : the waiter leaves the queue and never comes back
-/
import TornadoModel.C33.Model
namespace TornadoModel.C33.Spec
open TornadoModel.C33

structure St where
  kind : Kind
  initial : Nat
  permits : Nat
  queue : List Nat          -- live waiters in arrival order
  next : Nat                -- number of acquire calls so far (= id of the next future)
  timers : List Timer       -- deadlines of queued waiters
  now : Nat
  deriving Repr, DecidableEq

def init (k : Kind) (n : Nat) : St :=
  { kind := k, initial := (if k = .lock then 1 else n), permits := (if k = .lock then 1 else n),
    queue := [], next := 0, timers := [], now := 0 }

structure Out where
  res : Res
  evs : List Ev
  deriving Repr, DecidableEq

/-- waiter `w` leaves the queue (and its deadline is forgotten) -/
def drop (s : St) (w : Nat) : St :=
  { s with queue := s.queue.filter (· ≠ w), timers := s.timers.filter (fun t => t.2 ≠ w) }

def expireList (s : St) : List Timer → St × List Ev
  | [] => (s, [])
  | t :: ts =>
    if s.queue.contains t.2 then
      let (s2, e2) := expireList (drop s t.2) ts
      (s2, (t.2, .timeout) :: e2)
    else expireList s ts

/-- every queued waiter whose deadline has been reached times out, earliest deadline first -/
def expire (s : St) : St × List Ev :=
  let (s1, e) := expireList s (dueTimers s.now s.timers)
  ({ s1 with timers := s1.timers.filter (fun t => ¬ (t.1 ≤ s1.now)) }, e)

def acquire (s : St) (d : Option Nat) : St × List Ev :=
  let w := s.next
  if s.permits > 0 then ({ s with permits := s.permits - 1, next := w + 1 }, [(w, .result 0)])
  else ({ s with queue := s.queue ++ [w], next := w + 1,
                 timers := match d with | some d => s.timers ++ [(d, w)] | none => s.timers }, [])

def releaseCore (s : St) : St × List Ev :=
  match s.queue with
  | w :: _ => (drop s w, [(w, .result 0)])
  | [] => ({ s with permits := s.permits + 1 }, [])

def release (s : St) : Option (St × List Ev) × Res :=
  match s.kind with
  | .sem => (some (releaseCore s), .unit)
  | .bounded => if s.permits ≥ s.initial then (none, .valueError) else (some (releaseCore s), .unit)
  | .lock => if s.permits ≥ s.initial then (none, .runtimeError) else (some (releaseCore s), .unit)

def cancel (s : St) (w : Nat) : St × List Ev × Bool :=
  if s.queue.contains w then (drop s w, [(w, .cancelled)], true) else (s, [], false)

def advance (s : St) : St × Option Nat :=
  match minTimer s.timers with
  | none => (s, none)
  | some t => ({ s with now := max s.now t.1 }, some t.1)

def step (s : St) : Op → St × Out
  | .acquire d =>
    let (s1, e1) := acquire s d
    let (s2, e2) := expire s1
    (s2, ⟨.unit, e1 ++ e2⟩)
  | .release =>
    match release s with
    | (none, r) => (s, ⟨r, []⟩)
    | (some (s1, e1), r) =>
      let (s2, e2) := expire s1
      (s2, ⟨r, e1 ++ e2⟩)
  | .releaseCm _ =>          -- the specification does not care through which object the release arrives
    match release s with
    | (none, r) => (s, ⟨r, []⟩)
    | (some (s1, e1), r) =>
      let (s2, e2) := expire s1
      (s2, ⟨r, e1 ++ e2⟩)
  | .fire =>
    let (s1, d) := advance s
    let (s2, e2) := expire s1
    (s2, ⟨.fired d, e2⟩)
  | .cancel w =>
    let (s1, e1, b) := cancel s w
    let (s2, e2) := expire s1
    (s2, ⟨.bool b, e1 ++ e2⟩)
  | .raceRelease =>
    let (s0, _) := advance s
    match release s0 with
    | (none, r) =>
      let (s2, e2) := expire s0
      (s2, ⟨r, e2⟩)
    | (some (s1, e1), r) =>
      let (s2, e2) := expire s1
      (s2, ⟨r, e1 ++ e2⟩)
  | .raceCancel w =>
    let (s0, _) := advance s
    let (s1, e1, b) := cancel s0 w
    let (s2, e2) := expire s1
    (s2, ⟨.bool b, e1 ++ e2⟩)

def run (s : St) : List Op → St × List Out
  | [] => (s, [])
  | op :: ops =>
    let (s1, o) := step s op
    let (s2, os) := run s1 ops
    (s2, o :: os)

end TornadoModel.C33.Spec
