/-
C33 — the context-manager API of `tornado.locks.Semaphore / BoundedSemaphore / Lock`, driven by tasks that can be
cancelled at any point (core Lean only).

Anchors: `Semaphore.__aenter__` / `__aexit__`, `Lock.__aenter__` / `__aexit__` (the code AFTER the fix: a
`CancelledError` that arrives at `await waiter` when `release()` has already handed the permit to the waiter gives the
permit back), `_ReleasingContextManager.__exit__` (the legacy `with (yield lock.acquire(timeout)):` form inside a
`gen.coroutine`), and the asyncio `Task` protocol as far as these paths see it (`Task.cancel`: cancel the awaited
future if it is pending, otherwise `_must_cancel`; a woken task reads the state of the future *at wake-up time*).

A *worker* `t` is
  * `aw`     : an asyncio task running `async with obj: enter(t); await gate[t]`, or
  * `legacy` : a `gen.coroutine` running `with (yield obj.acquire(timeout)): enter(t); yield gate[t]`
    (first step synchronous inside the spawning call; never cancelled — see ASSUMPTIONS in c33.py).

Granularity: one `tstep` = ONE application call that performs a *list* of sub-calls synchronously (`call subs`),
followed by a full drain of the loop; `race subs` makes the call from a loop callback in the iteration in which the
earliest timer expires, before that timer's callback; `fire` jumps to the earliest timer.  Unlike `Model.step` the
drain is modelled with asyncio's iteration structure, because a task resumes one iteration after the future it awaits
is resolved: iteration = the callbacks that were ready when it started (FIFO: `remove_timeout` done-callbacks and task
wake-ups), then the timers that were due when it started; whatever they schedule runs in the next iteration.
All primitives (`acquire`, `release`, `cancel`, `purge`, `fireDue`, `fireList`, `advance`) are those of `Model.lean`.
-/
import TornadoModel.C33.Model
namespace TornadoModel.C33.Tasks
open TornadoModel.C33

inductive TKind where
  | aw | legacy
  deriving DecidableEq, Repr, Inhabited

/-- how a worker ended -/
inductive TOut where
  | ok | cancelled | timeout | valueError | runtimeError
  deriving DecidableEq, Repr, Inhabited

inductive Phase where
  | fresh                  -- task created, first step not yet run
  | waiting (w : Nat)      -- blocked in `__aenter__` / at the `yield` on acquire-future `w`
  | inside (w : Nat)       -- in the body (permit obtained through future `w`), blocked on its gate
  | finished (o : TOut)
  deriving DecidableEq, Repr, Inhabited

/-- the future the body of worker `t` awaits -/
inductive Gate where
  | pending | set | cancelled
  deriving DecidableEq, Repr, Inhabited

structure Task where
  kind : TKind
  phase : Phase := .fresh
  gate : Gate := .pending
  mustCancel : Bool := false        -- `Task._must_cancel`
  deriving DecidableEq, Repr, Inhabited

structure TSt where
  base : St
  tasks : List Task
  deriving Repr, DecidableEq

def tinit (k : Kind) (n t0 : Nat) : TSt := { base := init k n t0, tasks := [] }

inductive Sub where
  | acquire (d : Option Nat)
  | release
  | releaseCm (w : Nat)
  | cancel (w : Nat)
  | spawnAw
  | spawnLegacy (d : Option Nat)
  | exit (t : Nat)           -- resolve the gate of worker `t` (its body ends)
  | tcancel (t : Nat)        -- `Task.cancel()` of worker `t`
  | soonTcancel (t : Nat)    -- `loop.call_soon(task.cancel)`: the cancellation arrives in the next iteration, behind
                             -- whatever the earlier sub-calls scheduled
  deriving Repr, DecidableEq

/-- an entry of the loop's ready queue -/
inductive RItem where
  | wake (t : Nat)           -- first step / wake-up of worker `t`
  | tcancel (t : Nat)        -- a deferred `Task.cancel()`
  deriving Repr, DecidableEq

inductive TOp where
  | call (subs : List Sub)
  | fire
  | race (subs : List Sub)
  deriving Repr, DecidableEq

structure TOutp where
  res : List Res
  evs : List Ev             -- acquire futures resolved during the op, in resolution order
  enters : List Nat         -- workers that entered their body during the op, in order
  value : Nat
  nwaiters : Nat
  timeouts : Nat
  ntimers : Nat
  phases : List Phase       -- every worker's phase after the drain
  deriving Repr, DecidableEq

/-! ### helpers -/

def isWaitingOn (tk : Task) (w : Nat) : Bool :=
  match tk.phase with
  | .waiting x => x == w
  | _ => false

/-- the workers blocked on future `w` (at most one) -/
def waitersOf (tasks : List Task) (w : Nat) : List Nat :=
  (List.range tasks.length).filter (fun t => match tasks[t]? with
    | some tk => isWaitingOn tk w
    | none => false)

/-- wake-ups scheduled by the resolutions `evs`, in order -/
def wakes (tasks : List Task) (evs : List Ev) : List RItem :=
  evs.flatMap (fun e => (waitersOf tasks e.1).map .wake)

def setPhase (s : TSt) (t : Nat) (tk : Task) (ph : Phase) : TSt :=
  { s with tasks := s.tasks.set t { tk with phase := ph, mustCancel := false } }

def errOut (r : Res) : TOut := if r = .valueError then .valueError else .runtimeError

/-- end of the body: `__aexit__` (`self.release()`) or `_ReleasingContextManager.__exit__` (release of the inner
semaphore, `cm = true`); an exception of `release` replaces whatever was propagating -/
def exitBody (s : TSt) (t : Nat) (tk : Task) (cancelled : Bool) : TSt × List Ev :=
  match release s.base (decide (tk.kind = .legacy)) with
  | (none, r) => (setPhase s t tk (.finished (errOut r)), [])
  | (some (b1, e1), _) =>
    (setPhase { s with base := b1 } t tk (.finished (if cancelled then .cancelled else .ok)), e1)

/-- the permit has been obtained through future `w`: log `enter`, then await the gate (no suspension if the gate is
already resolved) -/
def enterBody (s : TSt) (t : Nat) (tk : Task) (w : Nat) : TSt × List Ev × List Nat :=
  match tk.gate with
  | .pending => (setPhase s t tk (.inside w), [], [t])
  | .set => let (s1, e) := exitBody s t tk false; (s1, e, [t])
  | .cancelled => let (s1, e) := exitBody s t tk true; (s1, e, [t])

/-- one step of worker `t` (first step of an `aw` task, or a wake-up) -/
def wakeStep (s : TSt) (t : Nat) : TSt × List Ev × List Nat :=
  match s.tasks[t]? with
  | none => (s, [], [])
  | some tk =>
    match tk.phase with
    | .finished _ => (s, [], [])
    | .fresh =>
      if tk.mustCancel then (setPhase s t tk (.finished .cancelled), [], [])   -- the coroutine never starts
      else
        let w := s.base.futs.length
        let (b1, e1) := acquire s.base none
        let s1 : TSt := { s with base := b1 }
        if e1.isEmpty then (setPhase s1 t tk (.waiting w), [], [])
        else
          let (s2, e2, en) := enterBody s1 t tk w
          (s2, e1 ++ e2, en)
    | .waiting w =>
      let f := s.base.futs[w]?
      if tk.mustCancel || f == some .cancelled then
        -- `CancelledError` at `await waiter`; `if waiter.done() and not waiter.cancelled(): self.release()`
        if f == some (.result 0) then
          match release s.base false with
          | (none, r) => (setPhase s t tk (.finished (errOut r)), [], [])
          | (some (b1, e1), _) => (setPhase { s with base := b1 } t tk (.finished .cancelled), e1, [])
        else (setPhase s t tk (.finished .cancelled), [], [])
      else
        match f with
        | some (.result _) => enterBody s t tk w
        | some .timeout => (setPhase s t tk (.finished .timeout), [], [])
        | _ => (s, [], [])
    | .inside _ =>
      let (s1, e) := exitBody s t tk (tk.mustCancel || tk.gate == .cancelled)
      (s1, e, [])

/-- `Task.cancel()` of worker `t`: cancel the future it awaits if that is still pending (the wake-up is scheduled by
the future's done-callbacks), otherwise remember `_must_cancel` for the step that is already scheduled -/
def taskCancel (s : TSt) (t : Nat) : TSt × Bool × List Ev × List RItem :=
  match s.tasks[t]? with
  | none => (s, false, [], [])
  | some tk =>
    if tk.kind = .legacy then (s, false, [], [])
    else
      let must : TSt := { s with tasks := s.tasks.set t { tk with mustCancel := true } }
      match tk.phase with
      | .finished _ => (s, false, [], [])
      | .fresh => (must, true, [], [])
      | .waiting w =>
        if isPend s.base.futs w then
          let (b1, e1, _) := cancel s.base w
          ({ s with base := b1 }, true, e1, [.wake t])
        else (must, true, [], [])           -- the wake-up is already scheduled
      | .inside _ =>
        if tk.gate = .pending then
          ({ s with tasks := s.tasks.set t { tk with gate := .cancelled } }, true, [], [.wake t])
        else (must, true, [], [])

/-- one loop iteration's worth of worker steps: `ready` in FIFO order; returns the wake-ups for the next iteration -/
def runReady (s : TSt) : List RItem → TSt × List Ev × List Nat × List RItem
  | [] => (s, [], [], [])
  | .wake t :: ts =>
    let (s1, e1, en1) := wakeStep s t
    let r1 := wakes s1.tasks e1
    let (s2, e2, en2, r2) := runReady s1 ts
    (s2, e1 ++ e2, en1 ++ en2, r1 ++ r2)
  | .tcancel t :: ts =>
    let (s1, _, e1, r1) := taskCancel s t
    let (s2, e2, en2, r2) := runReady s1 ts
    (s2, e1 ++ e2, en2, r1 ++ r2)

/-- iterations without timers (none can be due any more) until nothing is ready -/
def rounds : Nat → TSt → List RItem → TSt × List Ev × List Nat
  | 0, s, _ => (s, [], [])
  | fuel + 1, s, ready =>
    if ready.isEmpty then (s, [], [])
    else
      let (s1, e1, en1, r1) := runReady s ready
      let (s2, e2, en2) := rounds fuel s1 r1
      (s2, e1 ++ e2, en1 ++ en2)

/-- every worker makes at most three steps (start, obtain the permit, leave); deferred cancellations add one iteration -/
def fuelFor (s : TSt) : Nat := 4 * s.tasks.length + 4

/-- full drain after a call made from outside the loop.  First iteration: done-callbacks of the futures the call
resolved (`purge`) and the wake-ups it scheduled, then the timers that are already due; later iterations: wake-ups only -/
def drainCall (s : TSt) (ready : List RItem) : TSt × List Ev × List Nat :=
  let s0 : TSt := { s with base := purge s.base }
  let (s1, e1, en1, r1) := runReady s0 ready
  let (b2, e2) := fireDue s1.base
  let s2 : TSt := { s1 with base := b2 }
  let (s3, e3, en3) := rounds (fuelFor s2) s2 (r1 ++ wakes s2.tasks e2)
  ({ s3 with base := purge s3.base }, e1 ++ e2 ++ e3, en1 ++ en3)

/-! ### the synchronous sub-calls -/

def doSub (s : TSt) : Sub → TSt × Res × List Ev × List Nat × List RItem
  | .acquire d =>
    let (b1, e1) := acquire s.base d
    ({ s with base := b1 }, .unit, e1, [], [])
  | .release =>
    match release s.base with
    | (none, r) => (s, r, [], [], [])
    | (some (b1, e1), r) => ({ s with base := b1 }, r, e1, [], wakes s.tasks e1)
  | .releaseCm w =>
    match release s.base (s.base.futs[w]? == some (.result 0)) with
    | (none, r) => (s, r, [], [], [])
    | (some (b1, e1), r) => ({ s with base := b1 }, r, e1, [], wakes s.tasks e1)
  | .cancel w =>
    let (b1, e1, b) := cancel s.base w
    ({ s with base := b1 }, .bool b, e1, [], wakes s.tasks e1)
  | .spawnAw =>
    ({ s with tasks := s.tasks ++ [{ kind := .aw }] }, .unit, [], [], [.wake s.tasks.length])
  | .spawnLegacy d =>
    let t := s.tasks.length
    let w := s.base.futs.length
    let tk : Task := { kind := .legacy }
    let (b1, e1) := acquire s.base d
    let s1 : TSt := { base := b1, tasks := s.tasks ++ [tk] }
    if e1.isEmpty then (setPhase s1 t tk (.waiting w), .unit, [], [], [])
    else (setPhase s1 t tk (.inside w), .unit, e1, [t], [])
  | .exit t =>
    match s.tasks[t]? with
    | none => (s, .unit, [], [], [])
    | some tk =>
      if tk.gate = .pending then
        ({ s with tasks := s.tasks.set t { tk with gate := .set } }, .unit, [], [],
          match tk.phase with | .inside _ => [.wake t] | _ => [])
      else (s, .unit, [], [], [])
  | .tcancel t =>
    let (s1, b, e1, rd) := taskCancel s t
    (s1, .bool b, e1, [], rd)
  | .soonTcancel t => (s, .unit, [], [], [.tcancel t])

def doSubs (s : TSt) : List Sub → TSt × List Res × List Ev × List Nat × List RItem
  | [] => (s, [], [], [], [])
  | c :: cs =>
    let (s1, r, e1, en1, rd1) := doSub s c
    let (s2, rs, e2, en2, rd2) := doSubs s1 cs
    (s2, r :: rs, e1 ++ e2, en1 ++ en2, rd1 ++ rd2)

def mkOut (s : TSt) (rs : List Res) (e : List Ev) (en : List Nat) : TOutp :=
  { res := rs, evs := e, enters := en, value := s.base.value, nwaiters := s.base.waiters.length,
    timeouts := s.base.timeouts, ntimers := s.base.timers.length, phases := s.tasks.map (·.phase) }

def tstep (s : TSt) : TOp → TSt × TOutp
  | .call subs =>
    let (s1, rs, e1, en1, rd) := doSubs s subs
    let (s2, e2, en2) := drainCall s1 rd
    (s2, mkOut s2 rs (e1 ++ e2) (en1 ++ en2))
  | .fire =>
    let (b0, d) := advance s.base
    let (s2, e2, en2) := drainCall { s with base := b0 } []
    (s2, mkOut s2 [.fired d] e2 en2)
  | .race subs =>
    let (b0, _) := advance s.base
    -- the timers that expire in this iteration were collected before the call ran
    let old := dueTimers b0.now b0.timers
    let (s1, rs, e1, en1, rd) := doSubs { s with base := b0 } subs
    let (b2, e2) := fireList s1.base old
    let s3 : TSt := { s1 with base := { b2 with timers := b2.timers.filter (fun t => !(old.contains t)) } }
    let (s4, e4, en4) := drainCall s3 (rd ++ wakes s3.tasks e2)
    (s4, mkOut s4 rs (e1 ++ e2 ++ e4) (en1 ++ en4))

def trun (s : TSt) : List TOp → TSt × List TOutp
  | [] => (s, [])
  | op :: ops =>
    let (s1, o) := tstep s op
    let (s2, os) := trun s1 ops
    (s2, o :: os)

/-- the ops of `Model.lean` as single-sub-call ops of this layer -/
def liftOp : Op → TOp
  | .acquire d => .call [.acquire d]
  | .release => .call [.release]
  | .releaseCm w => .call [.releaseCm w]
  | .fire => .fire
  | .cancel w => .call [.cancel w]
  | .raceRelease => .race [.release]
  | .raceCancel w => .race [.cancel w]

end TornadoModel.C33.Tasks
