/-
C33 — forward simulation Model → Spec.

Abstraction `absF`: permits = `_value`, queue = the live entries of the deque, timers = the timers of live
futures.  Every primitive of the model is matched by the primitive of the specification *as an equation*
(`Spec.f (absF s) = (absF (f s).1, (f s).2)`).  The second invariant `TInv` (every scheduled timer belongs to a
pending future) holds at step boundaries (after the final `purge` of the drain) and is needed exactly where the
model looks at the raw schedule: `advance` (earliest timer) and `acquire` (a fresh future id is not yet in use).
-/
import TornadoModel.C33.Timers
namespace TornadoModel.C33

/-- the property only says that a refused release *raises*: both exception kinds are identified -/
def Res.vis : Res → Res
  | .runtimeError => .valueError
  | r => r

def absF (s : St) : Spec.St :=
  { kind := s.kind, initial := s.initial, permits := s.value, queue := s.waiters.filter (isPend s.futs),
    next := s.futs.length, timers := s.timers.filter (fun t => isPend s.futs t.2), now := s.now }

/-- every scheduled timer belongs to a pending future (true after every drain) -/
def TInv (s : St) : Prop := ∀ t ∈ s.timers, isPend s.futs t.2 = true

theorem isPend_set_eq {futs : List FState} {w x : Nat} {v : FState} (hv : v ≠ .pending) :
    isPend (futs.set w v) x = (decide (x ≠ w) && isPend futs x) := by
  by_cases h : x = w
  · subst h; rw [isPend_set_self hv]; simp
  · rw [isPend_set_ne h]; simp [h]

theorem isPend_append_dead {futs : List FState} {x : FState} (hx : x ≠ .pending) (w : Nat) :
    isPend (futs ++ [x]) w = isPend futs w := by
  by_cases h : isPend (futs ++ [x]) w = true
  · rw [h, isPend_append hx h]
  · have h' : isPend (futs ++ [x]) w = false := by simpa using h
    rw [h']
    by_cases hw : w < futs.length
    · rw [isPend_append_lt hw] at h'; exact h'.symm
    · unfold isPend; simp [List.getElem?_eq_none (Nat.le_of_not_lt hw)]

theorem absF_timers {s : St} (ht : TInv s) : (absF s).timers = s.timers := by
  simp only [absF]
  exact List.filter_eq_self.mpr (fun t h => ht t h)

theorem contains_queue {s : St} (h : Inv s) (w : Nat) : (absF s).queue.contains w = isPend s.futs w := by
  rw [Bool.eq_iff_iff]
  simp only [absF, List.contains_iff_mem, List.mem_filter]
  exact ⟨fun hh => hh.2, fun hh => ⟨h.pend_mem w hh, hh⟩⟩

theorem filter_drop (futs : List FState) (l : List Nat) (w : Nat) {v : FState} (hv : v ≠ .pending) :
    (l.filter (isPend futs)).filter (· ≠ w) = l.filter (isPend (futs.set w v)) := by
  rw [List.filter_filter]
  apply List.filter_congr
  intro x _
  rw [isPend_set_eq hv]

theorem filter_dropT (futs : List FState) (l : List Timer) (w : Nat) {v : FState} (hv : v ≠ .pending) :
    (l.filter (fun t => isPend futs t.2)).filter (fun t => t.2 ≠ w) =
      l.filter (fun t => isPend (futs.set w v) t.2) := by
  rw [List.filter_filter]
  apply List.filter_congr
  intro x _
  rw [isPend_set_eq hv]

/-- a waiter leaving the specification's queue = its future being settled in the model -/
theorem drop_absF (s : St) (w : Nat) {v : FState} (hv : v ≠ .pending) :
    Spec.drop (absF s) w = absF { s with futs := s.futs.set w v } := by
  simp only [Spec.drop, absF, filter_drop _ _ _ hv, filter_dropT _ _ _ hv, List.length_set]

theorem absF_gc (s : St) : absF (gc s) = absF s := by
  unfold gc
  split <;> simp [absF, List.filter_filter]

theorem absF_purge (s : St) : absF (purge s) = absF s := by
  simp [absF, purge, List.filter_filter]

theorem TInv_purge (s : St) : TInv (purge s) := by
  intro t ht
  simp only [purge, List.mem_filter] at ht
  exact ht.2

/-! ### primitives -/

theorem onTimeout_sim {s : St} (h : Inv s) (w : Nat) :
    (if (absF s).queue.contains w then (Spec.drop (absF s) w, [(w, FState.timeout)]) else (absF s, []))
      = (absF (onTimeout s w).1, (onTimeout s w).2) := by
  rw [contains_queue h]
  unfold onTimeout
  split
  · rw [absF_gc, drop_absF s w (v := .timeout) (by simp)]
  · rw [absF_gc]

theorem fireList_sim {s : St} (h : Inv s) (ts : List Timer) :
    Spec.expireList (absF s) ts = (absF (fireList s ts).1, (fireList s ts).2) := by
  induction ts generalizing s with
  | nil => rfl
  | cons t ts ih =>
    have h1 := onTimeout_sim h t.2
    have h2 := ih (inv_onTimeout h t.2)
    simp only [Spec.expireList, fireList]
    split at h1
    · rename_i hc
      simp only [Prod.mk.injEq] at h1
      rw [if_pos hc, h1.1, h2, ← h1.2]
      rfl
    · rename_i hc
      simp only [Prod.mk.injEq] at h1
      rw [if_neg hc, h1.1, h2, ← h1.2]
      rfl

theorem expireList_filter (p : Timer → Bool) (l : List Timer) (sp : Spec.St)
    (hp : ∀ t, p t = false → sp.queue.contains t.2 = false) :
    Spec.expireList sp (l.filter p) = Spec.expireList sp l := by
  induction l generalizing sp with
  | nil => rfl
  | cons t l ih =>
    have hdrop : ∀ w t, p t = false → (Spec.drop sp w).queue.contains t.2 = false := by
      intro w t ht
      have := hp t ht
      simp only [Spec.drop, List.contains_eq_mem, List.mem_filter, decide_eq_false_iff_not] at this ⊢
      exact fun hh => this hh.1
    by_cases ht : p t = true
    · rw [List.filter_cons, if_pos ht]
      simp only [Spec.expireList]
      split
      · rw [ih _ (hdrop t.2)]
      · exact ih _ hp
    · have ht : p t = false := by simpa using ht
      rw [List.filter_cons, if_neg (by simp [ht])]
      simp only [Spec.expireList, hp t ht]
      exact ih _ hp

theorem fireList_now (s : St) (ts : List Timer) : (fireList s ts).1.now = s.now := by
  induction ts generalizing s with
  | nil => rfl
  | cons t ts ih =>
    simp only [fireList]; rw [ih]
    unfold onTimeout gc; split <;> split <;> rfl

theorem fireDue_sim {s : St} (h : Inv s) :
    Spec.expire (absF s) = (absF (fireDue s).1, (fireDue s).2) := by
  have h1 : dueTimers (absF s).now (absF s).timers = (dueTimers s.now s.timers).filter (fun t => isPend s.futs t.2) := by
    simp only [absF]; exact dueTimers_filter _ _ _
  have h2 := fireList_sim h (dueTimers s.now s.timers)
  have h3 : Spec.expireList (absF s) (dueTimers (absF s).now (absF s).timers)
      = (absF (fireList s (dueTimers s.now s.timers)).1, (fireList s (dueTimers s.now s.timers)).2) := by
    rw [h1, expireList_filter _ _ _ (fun t ht => by rw [contains_queue h]; exact ht), h2]
  simp only [Spec.expire, fireDue, h3]
  simp only [absF, List.filter_filter, Prod.mk.injEq, and_true, Spec.St.mk.injEq, true_and]
  apply List.filter_congr
  intro x _
  exact Bool.and_comm _ _

theorem settleRace_sim {s : St} (h : Inv s) :
    Spec.expire (absF s) = (absF (settleRace s).1, (settleRace s).2) := by
  rw [fireDue_sim h]
  simp only [settleRace, absF_purge]

theorem settle_sim {s : St} (h : Inv s) :
    Spec.expire (absF s) = (absF (settle s).1, (settle s).2) := by
  rw [← absF_purge s, fireDue_sim (inv_purge h)]
  simp only [settle, absF_purge]

theorem TInv_settle (s : St) : TInv (settle s).1 := by
  simp only [settle]; exact TInv_purge _

theorem TInv_settleRace (s : St) : TInv (settleRace s).1 := by
  simp only [settleRace]; exact TInv_purge _

theorem acquire_sim {s : St} (h : Inv s) (ht : TInv s) (d : Option Nat) :
    Spec.acquire (absF s) d = (absF (acquire s d).1, (acquire s d).2) := by
  have hq : ∀ x : FState, s.waiters.filter (isPend (s.futs ++ [x])) = s.waiters.filter (isPend s.futs) := by
    intro x
    apply List.filter_congr
    intro w hw
    exact isPend_append_lt (h.lt w hw)
  have htm : ∀ x : FState, s.timers.filter (fun t => isPend (s.futs ++ [x]) t.2)
      = s.timers.filter (fun t => isPend s.futs t.2) := by
    intro x
    apply List.filter_congr
    intro t ht'
    exact isPend_append_lt (isPend_lt (ht t ht'))
  unfold Spec.acquire acquire
  by_cases hv : s.value > 0
  · have hv' : (absF s).permits > 0 := hv
    rw [if_pos hv, if_pos hv']
    simp only [absF, hq, htm, List.length_append, List.length_singleton]
  · have hv' : ¬ (absF s).permits > 0 := hv
    rw [if_neg hv, if_neg hv']
    cases d with
    | none =>
      simp only [absF, List.filter_append, hq, htm, List.length_append, List.length_singleton,
        Prod.mk.injEq, and_true, Spec.St.mk.injEq, true_and]
      simp [isPend_append_self]
    | some d =>
      simp only [absF, List.filter_append, hq, htm, List.length_append, List.length_singleton,
        Prod.mk.injEq, and_true, Spec.St.mk.injEq, true_and]
      simp [isPend_append_self]

theorem popLive_filter_some {futs : List FState} {ws rest : List Nat} {w : Nat}
    (h : popLive futs ws = (some w, rest)) :
    ws.filter (isPend futs) = w :: rest.filter (isPend futs) := by
  obtain ⟨pre, rfl, hw, hpre⟩ := popLive_some h
  rw [List.filter_append, List.filter_cons, if_pos hw]
  have : pre.filter (isPend futs) = [] := by
    rw [List.filter_eq_nil_iff]; intro a ha; simp [hpre a ha]
  rw [this]; rfl

theorem popLive_filter_none {futs : List FState} {ws rest : List Nat}
    (h : popLive futs ws = (none, rest)) : ws.filter (isPend futs) = [] ∧ rest = [] := by
  obtain ⟨h1, h2⟩ := popLive_none h
  refine ⟨?_, h1⟩
  rw [List.filter_eq_nil_iff]; intro a ha; simp [h2 a ha]

theorem releaseCore_sim (s : St) :
    Spec.releaseCore (absF s) = (absF (releaseCore s).1, (releaseCore s).2) := by
  unfold Spec.releaseCore releaseCore
  rcases hp : popLive s.futs s.waiters with ⟨_ | w, rest⟩
  · obtain ⟨hq, hr⟩ := popLive_filter_none hp
    have hq' : (absF s).queue = [] := hq
    subst hr
    simp only [hq']
    simp only [absF, hq, List.filter_nil]
  · have hq : (absF s).queue = w :: rest.filter (isPend s.futs) := popLive_filter_some hp
    have hd : Spec.drop (absF s) w = absF { s with waiters := rest, futs := s.futs.set w (.result 0) } := by
      have e1 : (absF s).queue.filter (· ≠ w) = rest.filter (isPend (s.futs.set w (.result 0))) := by
        rw [hq, ← filter_drop _ _ _ (v := FState.result 0) (by simp)]
        simp
      have e2 := filter_dropT s.futs s.timers w (v := FState.result 0) (by simp)
      simp only [Spec.drop, e1]
      simp only [absF, e2, List.length_set]
    simp only [hq, hd]

theorem release_sim (s : St) (cm : Bool) :
    (Spec.release (absF s)).1 = (release s cm).1.map (fun p => (absF p.1, p.2)) ∧
      Res.vis (Spec.release (absF s)).2 = Res.vis (release s cm).2 := by
  have hk : (absF s).kind = s.kind := rfl
  have hp : (absF s).permits = s.value := rfl
  have hi : (absF s).initial = s.initial := rfl
  unfold Spec.release release
  rw [hk, hp, hi]
  cases s.kind with
  | sem => simp [releaseCore_sim]
  | bounded => by_cases hv : s.value ≥ s.initial <;> simp [hv, releaseCore_sim]
  | lock => by_cases hv : s.value ≥ s.initial <;> cases cm <;> simp [hv, releaseCore_sim, Res.vis]

theorem cancel_sim {s : St} (h : Inv s) (w : Nat) :
    Spec.cancel (absF s) w = (absF (cancel s w).1, (cancel s w).2.1, (cancel s w).2.2) := by
  unfold Spec.cancel cancel
  rw [contains_queue h]
  split
  · rw [drop_absF s w (v := .cancelled) (by simp)]
  · rfl

theorem advance_sim {s : St} (ht : TInv s) :
    Spec.advance (absF s) = (absF (advance s).1, (advance s).2) := by
  have hm : minTimer (absF s).timers = minTimer s.timers := by rw [absF_timers ht]
  unfold Spec.advance advance
  rw [hm]
  cases minTimer s.timers <;> rfl

theorem TInv_advance {s : St} (ht : TInv s) : TInv (advance s).1 := by
  unfold advance; split
  · exact ht
  · exact ht

/-! ### one step, whole histories -/

/-- the visible part of an output -/
def Out.vis (o : Out) : Res × List Ev := (Res.vis o.res, o.evs)
def Spec.Out.vis (o : Spec.Out) : Res × List Ev := (Res.vis o.res, o.evs)

theorem TInv_step {s : St} (ht : TInv s) (op : Op) : TInv (step s op).1 := by
  cases op with
  | acquire d => exact TInv_settle _
  | release => simp only [step]; split; exact ht; exact TInv_settle _
  | releaseCm w => simp only [step]; split; exact ht; exact TInv_settle _
  | fire => exact TInv_settle _
  | cancel w => exact TInv_settle _
  | raceRelease => simp only [step]; split <;> exact TInv_settleRace _
  | raceCancel w => exact TInv_settleRace _

theorem step_sim {s : St} (h : Inv s) (ht : TInv s) (op : Op) :
    (Spec.step (absF s) op).1 = absF (step s op).1 ∧
      Spec.Out.vis (Spec.step (absF s) op).2 = Out.vis (step s op).2 := by
  cases op with
  | acquire d =>
    simp only [step, Spec.step, acquire_sim h ht, settle_sim (inv_acquire h d)]
    exact ⟨by first | trivial | rfl, by first | trivial | rfl⟩
  | release =>
    obtain ⟨h1, h2⟩ := release_sim s false
    simp only [step, Spec.step]
    rcases hm : release s false with ⟨_ | ⟨s1, e1⟩, r⟩ <;>
      rcases hsp : Spec.release (absF s) with ⟨_ | ⟨sp1, ep1⟩, r'⟩ <;>
      rw [hm, hsp] at h1 h2 <;> simp at h1
    · exact ⟨by first | trivial | rfl, by simpa [Spec.Out.vis, Out.vis, mkOut] using h2⟩
    · obtain ⟨rfl, rfl⟩ := h1
      simp only [settle_sim (release_some_inv h hm)]
      exact ⟨by first | trivial | rfl, by simpa [Spec.Out.vis, Out.vis, mkOut] using h2⟩
  | releaseCm w =>
    obtain ⟨h1, h2⟩ := release_sim s (s.futs[w]? == some (.result 0))
    simp only [step, Spec.step]
    rcases hm : release s (s.futs[w]? == some (.result 0)) with ⟨_ | ⟨s1, e1⟩, r⟩ <;>
      rcases hsp : Spec.release (absF s) with ⟨_ | ⟨sp1, ep1⟩, r'⟩ <;>
      rw [hm, hsp] at h1 h2 <;> simp at h1
    · exact ⟨by first | trivial | rfl, by simpa [Spec.Out.vis, Out.vis, mkOut] using h2⟩
    · obtain ⟨rfl, rfl⟩ := h1
      simp only [settle_sim (release_some_inv h hm)]
      exact ⟨by first | trivial | rfl, by simpa [Spec.Out.vis, Out.vis, mkOut] using h2⟩
  | fire =>
    simp only [step, Spec.step, advance_sim ht, settle_sim (inv_advance h)]
    exact ⟨by first | trivial | rfl, by first | trivial | rfl⟩
  | cancel w =>
    simp only [step, Spec.step, cancel_sim h, settle_sim (inv_cancel h w)]
    exact ⟨by first | trivial | rfl, by first | trivial | rfl⟩
  | raceRelease =>
    have h0 := inv_advance h
    obtain ⟨h1, h2⟩ := release_sim (advance s).1 false
    simp only [step, Spec.step, advance_sim ht]
    rcases hm : release (advance s).1 false with ⟨_ | ⟨s1, e1⟩, r⟩ <;>
      rcases hsp : Spec.release (absF (advance s).1) with ⟨_ | ⟨sp1, ep1⟩, r'⟩ <;>
      rw [hm, hsp] at h1 h2 <;> simp at h1
    · simp only [settleRace_sim h0]
      exact ⟨by first | trivial | rfl, by simpa [Spec.Out.vis, Out.vis, mkOut] using h2⟩
    · obtain ⟨rfl, rfl⟩ := h1
      simp only [settleRace_sim (release_some_inv h0 hm)]
      exact ⟨by first | trivial | rfl, by simpa [Spec.Out.vis, Out.vis, mkOut] using h2⟩
  | raceCancel w =>
    have h0 := inv_advance h
    simp only [step, Spec.step, advance_sim ht, cancel_sim h0, settleRace_sim (inv_cancel h0 w)]
    exact ⟨by first | trivial | rfl, by first | trivial | rfl⟩

theorem run_sim {s : St} (h : Inv s) (ht : TInv s) (ops : List Op) :
    (Spec.run (absF s) ops).2.map Spec.Out.vis = (run s ops).2.map Out.vis := by
  induction ops generalizing s with
  | nil => rfl
  | cons op ops ih =>
    obtain ⟨h1, h2⟩ := step_sim h ht op
    simp only [run, Spec.run, List.map_cons, h2, h1, ih (inv_step h op) (TInv_step ht op)]

theorem run_sim_state {s : St} (h : Inv s) (ht : TInv s) (ops : List Op) :
    (Spec.run (absF s) ops).1 = absF (run s ops).1 := by
  induction ops generalizing s with
  | nil => rfl
  | cons op ops ih =>
    obtain ⟨h1, _⟩ := step_sim h ht op
    simp only [run, Spec.run, h1, ih (inv_step h op) (TInv_step ht op)]

theorem absF_init (k : Kind) (n t0 : Nat) : absF (init k n t0) = Spec.init k n := by
  simp [absF, init, Spec.init]

theorem TInv_init (k : Kind) (n t0 : Nat) : TInv (init k n t0) := by
  intro t ht; simp [init] at ht

end TornadoModel.C33
