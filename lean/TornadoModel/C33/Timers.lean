/-
C33 — lemmas about the shared timer kernel (`insTimer`, `sortTimers`, `dueTimers`, `minTimer`): membership,
sortedness, and the fact that the stable insertion sort commutes with `filter` (used by the refinement proofs
of C33/C34/C35: the due timers of the purged schedule are the purged due timers).
-/
import TornadoModel.C33.Lemmas
namespace TornadoModel.C33

theorem mem_insTimer {t u : Timer} {l : List Timer} : t ∈ insTimer u l ↔ t = u ∨ t ∈ l := by
  induction l with
  | nil => simp [insTimer]
  | cons a l ih =>
    simp only [insTimer]
    split
    · simp
    · simp [ih]
      constructor
      · rintro (h | h | h) <;> simp [h]
      · rintro (h | h | h) <;> simp [h]

theorem mem_sortTimers {t : Timer} {l : List Timer} : t ∈ sortTimers l ↔ t ∈ l := by
  unfold sortTimers
  have key : ∀ (acc : List Timer), t ∈ l.foldl (fun acc t => insTimer t acc) acc ↔ t ∈ acc ∨ t ∈ l := by
    induction l with
    | nil => simp
    | cons a l ih =>
      intro acc
      simp only [List.foldl_cons, ih, mem_insTimer, List.mem_cons]
      constructor
      · rintro ((h | h) | h) <;> simp [h]
      · rintro (h | h | h) <;> simp [h]
  rw [key]; simp

theorem minTimer_mem {ts : List Timer} {t : Timer} (h : minTimer ts = some t) : t ∈ ts := by
  induction ts generalizing t with
  | nil => simp [minTimer] at h
  | cons a ts ih =>
    simp only [minTimer] at h
    split at h
    · simp at h; simp [h]
    · rename_i u hu
      split at h
      · simp at h; subst h; exact List.mem_cons_of_mem _ (ih hu)
      · simp at h; simp [h]

/-- sorted by deadline -/
def TSorted (l : List Timer) : Prop := l.Pairwise (fun a b => a.1 ≤ b.1)

theorem insTimer_sorted {t : Timer} {l : List Timer} (h : TSorted l) : TSorted (insTimer t l) := by
  induction l with
  | nil => simp [insTimer, TSorted]
  | cons u us ih =>
    unfold TSorted at h ih ⊢
    simp only [insTimer]
    split
    · rename_i hlt
      refine List.Pairwise.cons ?_ h
      intro x hx
      rcases List.mem_cons.mp hx with rfl | hx
      · omega
      · have := List.rel_of_pairwise_cons h hx; omega
    · rename_i hge
      refine List.Pairwise.cons ?_ (ih h.of_cons)
      intro x hx
      rcases mem_insTimer.mp hx with rfl | hx
      · omega
      · exact List.rel_of_pairwise_cons h hx

theorem insTimer_lt_all {t : Timer} {l : List Timer} (h : ∀ x ∈ l, t.1 < x.1) : insTimer t l = t :: l := by
  cases l with
  | nil => rfl
  | cons u us => simp [insTimer, h u (by simp)]

theorem insTimer_filter (p : Timer → Bool) (t : Timer) {l : List Timer} (h : TSorted l) :
    (insTimer t l).filter p = if p t then insTimer t (l.filter p) else l.filter p := by
  induction l with
  | nil => by_cases hp : p t <;> simp [insTimer, hp]
  | cons u us ih =>
    have ih := ih (List.Pairwise.of_cons h)
    simp only [insTimer]
    split
    · rename_i hlt
      have hall : ∀ x ∈ (u :: us).filter p, t.1 < x.1 := by
        intro x hx
        have hx := (List.mem_filter.mp hx).1
        rcases List.mem_cons.mp hx with rfl | hx
        · exact hlt
        · have := List.rel_of_pairwise_cons h hx; omega
      by_cases hp : p t
      · rw [if_pos hp, insTimer_lt_all hall, List.filter_cons, if_pos hp]
      · rw [if_neg hp, List.filter_cons, if_neg hp]
    · rename_i hge
      by_cases hu : p u
      · rw [List.filter_cons, if_pos hu, ih, List.filter_cons, if_pos hu]
        by_cases hp : p t
        · simp only [hp, if_true, insTimer, hge, if_false]
        · simp only [hp]; simp
      · rw [List.filter_cons, if_neg hu, ih, List.filter_cons, if_neg hu]

theorem foldl_insTimer_sorted (l acc : List Timer) (h : TSorted acc) :
    TSorted (l.foldl (fun acc t => insTimer t acc) acc) := by
  induction l generalizing acc with
  | nil => exact h
  | cons a l ih => exact ih _ (insTimer_sorted h)

theorem sortTimers_sorted (l : List Timer) : TSorted (sortTimers l) :=
  foldl_insTimer_sorted l [] (by simp [TSorted])

theorem sortTimers_filter (p : Timer → Bool) (l : List Timer) :
    sortTimers (l.filter p) = (sortTimers l).filter p := by
  unfold sortTimers
  have key : ∀ (acc : List Timer), TSorted acc →
      (l.foldl (fun acc t => insTimer t acc) acc).filter p =
        (l.filter p).foldl (fun acc t => insTimer t acc) (acc.filter p) := by
    induction l with
    | nil => intro acc _; rfl
    | cons a l ih =>
      intro acc hacc
      rw [List.foldl_cons, ih _ (insTimer_sorted hacc), insTimer_filter p a hacc, List.filter_cons]
      by_cases hp : p a <;> simp [hp]
  exact (key [] (by simp [TSorted])).symm

/-- the due timers of a filtered schedule are the filtered due timers (same firing order) -/
theorem dueTimers_filter (p : Timer → Bool) (now : Nat) (l : List Timer) :
    dueTimers now (l.filter p) = (dueTimers now l).filter p := by
  unfold dueTimers
  rw [← sortTimers_filter, List.filter_filter, List.filter_filter]
  congr 1
  apply List.filter_congr
  intro x _
  exact Bool.and_comm _ _

theorem mem_dueTimers {t : Timer} {now : Nat} {l : List Timer} : t ∈ dueTimers now l ↔ t ∈ l ∧ t.1 ≤ now := by
  unfold dueTimers
  rw [mem_sortTimers]
  simp

end TornadoModel.C33
