/-
C33 — theorems about the context-manager layer (`Tasks.lean`): the semaphore state reached by ANY history of
application calls over workers (`async with` tasks cancelled at any point — queued, granted-but-not-resumed, inside the
body, not yet started —, legacy `with (yield acquire())` coroutines, direct acquire/release/cancel, timers, same-iteration
races) satisfies the invariant `Inv` of `Lemmas.lean`; hence no permit is idle while a live waiter waits, a bounded
semaphore / lock never banks more than its initial value, and the deque stays in arrival order.
The worker-level permit accounting is stated as `*_goal` (not proved: tie + `audit_tasks` oracle only).
-/
import TornadoModel.C33.Tasks
import TornadoModel.C33.Lemmas
namespace TornadoModel.C33.Tasks
open TornadoModel.C33

/-- `b` satisfies the invariant and still has the class kind / initial value of `b0` -/
def Ok (b0 b : St) : Prop := Inv b ∧ Frame b0 b

variable {b0 : St}

theorem ok_release {b b1 : St} {e : List Ev} {r : Res} {cm : Bool} (h : Ok b0 b)
    (hr : release b cm = (some (b1, e), r)) : Ok b0 b1 :=
  ⟨release_some_inv h.1 hr, h.2.trans (frame_release hr)⟩

theorem ok_acquire' {b b1 : St} {e : List Ev} {d : Option Nat} (he : acquire b d = (b1, e)) (h : Ok b0 b) :
    Ok b0 b1 := by
  have : Ok b0 (acquire b d).1 := ⟨inv_acquire h.1 d, h.2.trans (frame_acquire b d)⟩
  rw [he] at this; exact this

theorem ok_cancel' {b b1 : St} {e : List Ev} {x : Bool} {w : Nat} (he : cancel b w = (b1, e, x)) (h : Ok b0 b) :
    Ok b0 b1 := by
  have : Ok b0 (cancel b w).1 := ⟨inv_cancel h.1 w, h.2.trans (frame_cancel b w)⟩
  rw [he] at this; exact this

theorem ok_purge {b : St} (h : Ok b0 b) : Ok b0 (purge b) := ⟨inv_purge h.1, h.2.trans (frame_purge b)⟩

theorem ok_timers {b : St} (h : Ok b0 b) (ts : List Timer) : Ok b0 { b with timers := ts } :=
  ⟨inv_timers h.1 ts, h.2⟩

theorem ok_fireDue' {b b1 : St} {e : List Ev} (he : fireDue b = (b1, e)) (h : Ok b0 b) : Ok b0 b1 := by
  have : Ok b0 (fireDue b).1 := ⟨inv_fireDue h.1, h.2.trans (frame_fireDue b)⟩
  rw [he] at this; exact this

theorem ok_fireList' {b b1 : St} {e : List Ev} {ts : List Timer} (he : fireList b ts = (b1, e)) (h : Ok b0 b) :
    Ok b0 b1 := by
  have : Ok b0 (fireList b ts).1 := ⟨inv_fireList h.1 ts, h.2.trans (frame_fireList b ts)⟩
  rw [he] at this; exact this

theorem ok_advance' {b b1 : St} {d : Option Nat} (he : advance b = (b1, d)) (h : Ok b0 b) : Ok b0 b1 := by
  have : Ok b0 (advance b).1 := ⟨inv_advance h.1, h.2.trans (frame_advance b)⟩
  rw [he] at this; exact this

/-! ### the worker steps -/

theorem ok_exitBody {s : TSt} (h : Ok b0 s.base) (t : Nat) (tk : Task) (c : Bool) :
    Ok b0 (exitBody s t tk c).1.base := by
  fun_cases exitBody s t tk c
  · exact h
  · exact ok_release h (by assumption)

theorem ok_exitBody' {s s1 : TSt} {t : Nat} {tk : Task} {c : Bool} {e : List Ev}
    (he : exitBody s t tk c = (s1, e)) (h : Ok b0 s.base) : Ok b0 s1.base := by
  have := ok_exitBody h t tk c; rw [he] at this; exact this

theorem ok_enterBody {s : TSt} (h : Ok b0 s.base) (t : Nat) (tk : Task) (w : Nat) :
    Ok b0 (enterBody s t tk w).1.base := by
  fun_cases enterBody s t tk w
  all_goals first
    | exact h
    | exact ok_exitBody' ‹exitBody _ _ _ _ = _› h

theorem ok_enterBody' {s s1 : TSt} {t : Nat} {tk : Task} {w : Nat} {e : List Ev} {en : List Nat}
    (he : enterBody s t tk w = (s1, e, en)) (h : Ok b0 s.base) : Ok b0 s1.base := by
  have := ok_enterBody h t tk w; rw [he] at this; exact this

theorem ok_wakeStep {s : TSt} (h : Ok b0 s.base) (t : Nat) : Ok b0 (wakeStep s t).1.base := by
  fun_cases wakeStep s t
  all_goals first
    | exact h
    | exact ok_release h (by assumption)
    | exact ok_acquire' ‹acquire _ _ = _› h
    | exact ok_enterBody h _ _ _
    | exact ok_exitBody' ‹exitBody _ _ _ _ = _› h
    | exact ok_enterBody' ‹enterBody _ _ _ _ = _› (ok_acquire' ‹acquire _ _ = _› h)

theorem ok_wakeStep' {s s1 : TSt} {t : Nat} {e : List Ev} {en : List Nat}
    (he : wakeStep s t = (s1, e, en)) (h : Ok b0 s.base) : Ok b0 s1.base := by
  have := ok_wakeStep h t; rw [he] at this; exact this

theorem ok_taskCancel {s : TSt} (h : Ok b0 s.base) (t : Nat) : Ok b0 (taskCancel s t).1.base := by
  fun_cases taskCancel s t
  all_goals first
    | exact h
    | exact ok_cancel' ‹cancel _ _ = _› h

theorem ok_taskCancel' {s s1 : TSt} {t : Nat} {x : Bool} {e : List Ev} {rd : List RItem}
    (he : taskCancel s t = (s1, x, e, rd)) (h : Ok b0 s.base) : Ok b0 s1.base := by
  have := ok_taskCancel h t; rw [he] at this; exact this

/-! ### the drain -/

theorem ok_runReady (rd : List RItem) : ∀ s : TSt, Ok b0 s.base → Ok b0 (runReady s rd).1.base := by
  induction rd with
  | nil => intro s h; exact h
  | cons it ts ih =>
    intro s h
    cases it with
    | wake t =>
      rcases hw : wakeStep s t with ⟨s1, e1, en1⟩
      rcases hr : runReady s1 ts with ⟨s2, e2, en2, r2⟩
      have h2 := ih s1 (ok_wakeStep' hw h)
      rw [hr] at h2
      simp only [runReady, hw, hr]
      exact h2
    | tcancel t =>
      rcases hw : taskCancel s t with ⟨s1, x, e1, r1⟩
      rcases hr : runReady s1 ts with ⟨s2, e2, en2, r2⟩
      have h2 := ih s1 (ok_taskCancel' hw h)
      rw [hr] at h2
      simp only [runReady, hw, hr]
      exact h2

theorem ok_runReady' {s s1 : TSt} {rd r : List RItem} {e : List Ev} {en : List Nat}
    (he : runReady s rd = (s1, e, en, r)) (h : Ok b0 s.base) : Ok b0 s1.base := by
  have := ok_runReady rd s h; rw [he] at this; exact this

theorem ok_rounds (fuel : Nat) : ∀ (s : TSt) (rd : List RItem), Ok b0 s.base → Ok b0 (rounds fuel s rd).1.base := by
  induction fuel with
  | zero => intro s rd h; exact h
  | succ n ih =>
    intro s rd h
    rcases hr : runReady s rd with ⟨s1, e1, en1, r1⟩
    rcases hq : rounds n s1 r1 with ⟨s2, e2, en2⟩
    have h2 := ih s1 r1 (ok_runReady' hr h)
    rw [hq] at h2
    simp only [rounds, hr, hq]
    split
    · exact h
    · exact h2

theorem ok_rounds' {fuel : Nat} {s s1 : TSt} {rd : List RItem} {e : List Ev} {en : List Nat}
    (he : rounds fuel s rd = (s1, e, en)) (h : Ok b0 s.base) : Ok b0 s1.base := by
  have := ok_rounds fuel s rd h; rw [he] at this; exact this

theorem ok_drainCall {s : TSt} (h : Ok b0 s.base) (rd : List RItem) : Ok b0 (drainCall s rd).1.base := by
  fun_cases drainCall s rd
  have h1 := ok_runReady' ‹runReady _ _ = _› (ok_purge h)
  have h2 := ok_fireDue' ‹fireDue _ = _› h1
  have h3 := ok_rounds' ‹rounds _ _ _ = _› h2
  exact ok_purge h3

theorem ok_drainCall' {s s1 : TSt} {rd : List RItem} {e : List Ev} {en : List Nat}
    (he : drainCall s rd = (s1, e, en)) (h : Ok b0 s.base) : Ok b0 s1.base := by
  have := ok_drainCall h rd; rw [he] at this; exact this

/-! ### the calls -/

theorem ok_doSub {s : TSt} (h : Ok b0 s.base) (c : Sub) : Ok b0 (doSub s c).1.base := by
  fun_cases doSub s c
  all_goals first
    | exact h
    | exact ok_release h (by assumption)
    | exact ok_acquire' ‹acquire _ _ = _› h
    | exact ok_cancel' ‹cancel _ _ = _› h
    | exact ok_taskCancel' ‹taskCancel _ _ = _› h

theorem ok_doSubs (cs : List Sub) : ∀ s : TSt, Ok b0 s.base → Ok b0 (doSubs s cs).1.base := by
  induction cs with
  | nil => intro s h; exact h
  | cons c cs ih =>
    intro s h
    rcases hd : doSub s c with ⟨s1, r, e1, en1, rd1⟩
    rcases hs : doSubs s1 cs with ⟨s2, rs, e2, en2, rd2⟩
    have h1 : Ok b0 s1.base := by have := ok_doSub h c; rw [hd] at this; exact this
    have h2 := ih s1 h1
    rw [hs] at h2
    simp only [doSubs, hd, hs]
    exact h2

theorem ok_doSubs' {s s1 : TSt} {cs : List Sub} {rs : List Res} {e : List Ev} {en : List Nat} {rd : List RItem}
    (he : doSubs s cs = (s1, rs, e, en, rd)) (h : Ok b0 s.base) : Ok b0 s1.base := by
  have := ok_doSubs cs s h; rw [he] at this; exact this

theorem ok_tstep {s : TSt} (h : Ok b0 s.base) (op : TOp) : Ok b0 (tstep s op).1.base := by
  fun_cases tstep s op
  · exact ok_drainCall' ‹drainCall _ _ = _› (ok_doSubs' ‹doSubs _ _ = _› h)
  · exact ok_drainCall' ‹drainCall _ _ = _› (ok_advance' ‹advance _ = _› h)
  · have ha := ok_advance' ‹advance _ = _› h
    have h1 := ok_doSubs' ‹doSubs _ _ = _› ha
    have h2 := ok_fireList' ‹fireList _ _ = _› h1
    exact ok_drainCall' ‹drainCall _ _ = _› (ok_timers h2 _)

theorem ok_trun (ops : List TOp) : ∀ s : TSt, Ok b0 s.base → Ok b0 (trun s ops).1.base := by
  induction ops with
  | nil => intro s h; exact h
  | cons op ops ih =>
    intro s h
    rcases hd : tstep s op with ⟨s1, o⟩
    rcases hs : trun s1 ops with ⟨s2, os⟩
    have h1 : Ok b0 s1.base := by have := ok_tstep h op; rw [hd] at this; exact this
    have h2 := ih s1 h1
    rw [hs] at h2
    simp only [trun, hd, hs]
    exact h2

/-! ### the property theorems of the context-manager layer (every kind, initial value, `t0`, every history) -/

/-- the state after an arbitrary history of application calls over workers -/
abbrev tafter (k : Kind) (n t0 : Nat) (ops : List TOp) : TSt := (trun (tinit k n t0) ops).1

theorem tasks_ok (k : Kind) (n t0 : Nat) (ops : List TOp) : Ok (init k n t0) (tafter k n t0 ops).base :=
  ok_trun ops (tinit k n t0) ⟨inv_init k n t0, Frame.refl _⟩

/-- the invariant of `Lemmas.lean` (deque in arrival order, every pending future queued, no live waiter while
`value > 0`, bounded value) holds after every history of the context-manager layer -/
theorem tasks_inv (k : Kind) (n t0 : Nat) (ops : List TOp) : Inv (tafter k n t0 ops).base :=
  (tasks_ok k n t0 ops).1

/-- a permit is never left unused while a live waiter waits — whatever was cancelled, and when -/
theorem tasks_no_idle_permit (k : Kind) (n t0 : Nat) (ops : List TOp) (w : Nat)
    (hv : (tafter k n t0 ops).base.value > 0) : isPend (tafter k n t0 ops).base.futs w = false := by
  have h := tasks_inv k n t0 ops
  by_cases hp : isPend (tafter k n t0 ops).base.futs w = true
  · have := h.idle hv w (h.pend_mem w hp); rw [this] at hp; simp at hp
  · simpa using hp

/-- a bounded semaphore / lock never banks more than its initial value: a permit given back by a cancelled
worker (or released on its behalf) is never given back twice -/
theorem tasks_bounded_value_le (k : Kind) (n t0 : Nat) (ops : List TOp) (hk : k ≠ .sem) :
    (tafter k n t0 ops).base.value ≤ (init k n t0).initial := by
  have h := tasks_ok k n t0 ops
  have hkind : (tafter k n t0 ops).base.kind = k := by rw [h.2.1]; simp [init]
  have := h.1.bounded (by rw [hkind]; exact hk)
  rw [h.2.2] at this
  exact this

/-- the deque of waiters stays in arrival order -/
theorem tasks_waiters_sorted (k : Kind) (n t0 : Nat) (ops : List TOp) :
    (tafter k n t0 ops).base.waiters.Pairwise (· < ·) := (tasks_inv k n t0 ops).sorted

/-- non-vacuity: the holder releases and the queued worker is cancelled before it resumes — the permit comes back -/
example : (tafter .sem 1 0 [.call [.acquire none], .call [.spawnAw], .call [.release, .tcancel 0]]).base.value = 1 ∧
    (tafter .sem 1 0 [.call [.acquire none], .call [.spawnAw], .call [.release, .tcancel 0]]).tasks.map (·.phase)
      = [.finished .cancelled] := by decide

/-- … and goes to the next live waiter when there is one (deferred cancellation behind the holder's exit) -/
example : (tafter .lock 0 0 [.call [.spawnAw], .call [.spawnAw], .call [.acquire none],
    .call [.exit 0, .soonTcancel 1]]).base.futs = [.result 0, .result 0, .result 0] := by decide

/-- a worker cancelled while still queued releases nothing -/
example : (tafter .sem 1 0 [.call [.spawnAw], .call [.spawnAw], .call [.tcancel 1]]).base.value = 0 := by decide

/-! ### stated, not proved (tie + oracle only) -/

/-- worker `tk` holds a permit: it is inside its body, or `release()` has resolved the future it awaits and it has
not resumed yet -/
def holds (futs : List FState) (tk : Task) : Bool :=
  match tk.phase with
  | .inside _ => true
  | .waiting w => futs[w]? == some (.result 0)
  | _ => false

def directRelease : Sub → Bool
  | .release => true
  | .releaseCm _ => true
  | _ => false

def subsOf : TOp → List Sub
  | .call cs => cs
  | .race cs => cs
  | .fire => []

/-- GOAL (tie-only): without direct releases, free permits + permits held by workers never exceed the initial value -/
def tasks_outstanding_goal : Prop :=
  ∀ (k : Kind) (n t0 : Nat) (ops : List TOp), (∀ op ∈ ops, ∀ c ∈ subsOf op, directRelease c = false) →
    (tafter k n t0 ops).base.value + (tafter k n t0 ops).tasks.countP (holds (tafter k n t0 ops).base.futs)
      ≤ (init k n t0).initial

/-- GOAL (tie-only; compared on every `Model` case by the harness, field `lift_agrees`): along every history of
`Model` ops from the initial state the layer produces the outputs of `Model.run` (for arbitrary, unreachable states the
two differ: a refused `release` is not followed by a drain in `Model.step`) -/
def lift_agrees_goal : Prop :=
  ∀ (k : Kind) (n t0 : Nat) (ops : List Op),
    (trun (tinit k n t0) (ops.map liftOp)).2.map
        (fun o => (o.res.head?, o.evs, o.value, o.nwaiters, o.timeouts, o.ntimers)) =
      (run (init k n t0) ops).2.map (fun o => (some o.res, o.evs, o.value, o.nwaiters, o.timeouts, o.ntimers))

end TornadoModel.C33.Tasks
