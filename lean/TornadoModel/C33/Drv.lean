/- C33 driver: `C33 run <kind> <initial> <t0> [op,…]` (Model), `C33 spec <kind> <initial> [op,…]` (Spec) -/
import TornadoModel.Base.Wire
import TornadoModel.C33.Spec
namespace TornadoModel.C33.Drv
open TornadoModel TornadoModel.Wire TornadoModel.C33

def decDeadline (v : V) : Option (Option Nat) :=
  if v.isNone then some none else (v.nat?).map some

def decOp (v : V) : Option Op := do
  let l ← v.list?
  match l with
  | [.atom "acq", d] => pure (.acquire (← decDeadline d))
  | [.atom "rel"] => pure .release
  | [.atom "relCm", w] => pure (.releaseCm (← w.nat?))
  | [.atom "fire"] => pure .fire
  | [.atom "cancel", w] => pure (.cancel (← w.nat?))
  | [.atom "raceRel"] => pure .raceRelease
  | [.atom "raceCancel", w] => pure (.raceCancel (← w.nat?))
  | _ => none

def decKind (v : V) : Option Kind :=
  match v with
  | .atom "sem" => some .sem
  | .atom "bounded" => some .bounded
  | .atom "lock" => some .lock
  | _ => none

def encF : FState → V
  | .pending => .atom "P"
  | .result v => .list [.atom "R", .int v]
  | .timeout => .atom "TO"
  | .cancelled => .atom "C"

def encEv (e : Ev) : V := .list [.int e.1, encF e.2]

def encRes : Res → V
  | .unit => .atom "U"
  | .valueError => .atom "ValueError"
  | .runtimeError => .atom "RuntimeError"
  | .bool b => V.ofBool b
  | .fired d => V.ofOpt (fun n => V.int (Int.ofNat n)) d

def encOut (o : Out) : V :=
  .list [encRes o.res, .list (o.evs.map encEv), .int o.value, .int o.nwaiters, .int o.timeouts, .int o.ntimers]

def encSpecOut (o : Spec.Out) : V := .list [encRes o.res, .list (o.evs.map encEv)]

def handle (toks : List String) : String :=
  match toks.mapM V.parse with
  | none => err "bad-arg"
  | some args =>
    match args with
    | [.atom "run", k, n, t0, ops] =>
      match decKind k, n.nat?, t0.nat?, ops.list? >>= (·.mapM decOp) with
      | some k, some n, some t0, some ops =>
        let (s, outs) := run (init k n t0) ops
        ok [.list (outs.map encOut), .list (s.futs.map encF)]
      | _, _, _, _ => err "bad-op"
    | [.atom "spec", k, n, ops] =>
      match decKind k, n.nat?, ops.list? >>= (·.mapM decOp) with
      | some k, some n, some ops => ok [.list ((Spec.run (Spec.init k n) ops).2.map encSpecOut)]
      | _, _, _ => err "bad-op"
    | _ => err "bad-cmd"

end TornadoModel.C33.Drv
