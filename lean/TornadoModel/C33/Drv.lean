/- C33 driver: `C33 run <kind> <initial> <t0> [op,…]` (Model), `C33 spec <kind> <initial> [op,…]` (Spec),
   `C33 trun <kind> <initial> <t0> [top,…]` (Tasks: context-manager paths; top = [call,[sub,…]] | [fire] | [race,[sub,…]]),
   `C33 lift <kind> <initial> <t0> [op,…]` (the Model ops run through the Tasks layer) -/
import TornadoModel.Base.Wire
import TornadoModel.C33.Spec
import TornadoModel.C33.Tasks
namespace TornadoModel.C33.Drv
open TornadoModel TornadoModel.Wire TornadoModel.C33

def decDeadline (v : V) : Option (Option Nat) :=
  if v.isNone then some none else (v.nat?).map some

def decOp (v : V) : Option Op := do
  let l ← v.list?
  match l with
  | [.atom "acq", d] => pure (.acquire (← decDeadline d))
  | [.atom "rel"] => pure .release
  | [.atom "relCm", w] => pure (.releaseCm (← w.nat?))
  | [.atom "fire"] => pure .fire
  | [.atom "cancel", w] => pure (.cancel (← w.nat?))
  | [.atom "raceRel"] => pure .raceRelease
  | [.atom "raceCancel", w] => pure (.raceCancel (← w.nat?))
  | _ => none

def decKind (v : V) : Option Kind :=
  match v with
  | .atom "sem" => some .sem
  | .atom "bounded" => some .bounded
  | .atom "lock" => some .lock
  | _ => none

def encF : FState → V
  | .pending => .atom "P"
  | .result v => .list [.atom "R", .int v]
  | .timeout => .atom "TO"
  | .cancelled => .atom "C"

def encEv (e : Ev) : V := .list [.int e.1, encF e.2]

def encRes : Res → V
  | .unit => .atom "U"
  | .valueError => .atom "ValueError"
  | .runtimeError => .atom "RuntimeError"
  | .bool b => V.ofBool b
  | .fired d => V.ofOpt (fun n => V.int (Int.ofNat n)) d

def encOut (o : Out) : V :=
  .list [encRes o.res, .list (o.evs.map encEv), .int o.value, .int o.nwaiters, .int o.timeouts, .int o.ntimers]

def encSpecOut (o : Spec.Out) : V := .list [encRes o.res, .list (o.evs.map encEv)]

open Tasks in
def decSub (v : V) : Option Sub := do
  let l ← v.list?
  match l with
  | [.atom "acq", d] => pure (.acquire (← decDeadline d))
  | [.atom "rel"] => pure .release
  | [.atom "relCm", w] => pure (.releaseCm (← w.nat?))
  | [.atom "cancel", w] => pure (.cancel (← w.nat?))
  | [.atom "spawnAw"] => pure .spawnAw
  | [.atom "spawnLg", d] => pure (.spawnLegacy (← decDeadline d))
  | [.atom "exit", t] => pure (.exit (← t.nat?))
  | [.atom "tcancel", t] => pure (.tcancel (← t.nat?))
  | [.atom "soonTcancel", t] => pure (.soonTcancel (← t.nat?))
  | _ => none

open Tasks in
def decTOp (v : V) : Option TOp := do
  let l ← v.list?
  match l with
  | [.atom "call", subs] => pure (.call (← (← subs.list?).mapM decSub))
  | [.atom "fire"] => pure .fire
  | [.atom "race", subs] => pure (.race (← (← subs.list?).mapM decSub))
  | _ => none

open Tasks in
def encPhase : Phase → V
  | .fresh => .atom "F"
  | .waiting _ => .atom "W"
  | .inside _ => .atom "I"
  | .finished .ok => .atom "OK"
  | .finished .cancelled => .atom "C"
  | .finished .timeout => .atom "TO"
  | .finished .valueError => .atom "VE"
  | .finished .runtimeError => .atom "RE"

open Tasks in
def encTOut (o : TOutp) : V :=
  .list [.list (o.res.map encRes), .list (o.evs.map encEv), .list (o.enters.map (fun t => V.int (Int.ofNat t))), .int o.value,
         .int o.nwaiters, .int o.timeouts, .int o.ntimers, .list (o.phases.map encPhase)]

def handle (toks : List String) : String :=
  match toks.mapM V.parse with
  | none => err "bad-arg"
  | some args =>
    match args with
    | [.atom "run", k, n, t0, ops] =>
      match decKind k, n.nat?, t0.nat?, ops.list? >>= (·.mapM decOp) with
      | some k, some n, some t0, some ops =>
        let (s, outs) := run (init k n t0) ops
        ok [.list (outs.map encOut), .list (s.futs.map encF)]
      | _, _, _, _ => err "bad-op"
    | [.atom "spec", k, n, ops] =>
      match decKind k, n.nat?, ops.list? >>= (·.mapM decOp) with
      | some k, some n, some ops => ok [.list ((Spec.run (Spec.init k n) ops).2.map encSpecOut)]
      | _, _, _ => err "bad-op"
    | [.atom "trun", k, n, t0, ops] =>
      match decKind k, n.nat?, t0.nat?, ops.list? >>= (·.mapM decTOp) with
      | some k, some n, some t0, some ops =>
        let (s, outs) := Tasks.trun (Tasks.tinit k n t0) ops
        ok [.list (outs.map encTOut), .list (s.base.futs.map encF)]
      | _, _, _, _ => err "bad-op"
    | [.atom "lift", k, n, t0, ops] =>
      match decKind k, n.nat?, t0.nat?, ops.list? >>= (·.mapM decOp) with
      | some k, some n, some t0, some ops =>
        let (s, outs) := Tasks.trun (Tasks.tinit k n t0) (ops.map Tasks.liftOp)
        ok [.list (outs.map encTOut), .list (s.base.futs.map encF)]
      | _, _, _, _ => err "bad-op"
    | _ => err "bad-cmd"

end TornadoModel.C33.Drv
