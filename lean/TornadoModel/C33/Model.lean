/-
C33 — model of `tornado.locks.Semaphore / BoundedSemaphore / Lock` (core Lean only).

Anchors: `_TimeoutGarbageCollector._garbage_collect`, `Semaphore.acquire` (incl. the inner `on_timeout`
and the `remove_timeout` done-callback), `Semaphore.release`, `BoundedSemaphore.release`, `Lock.release`.

Granularity: one `step` = one call from the application followed by a full drain of the event loop
(every ready callback runs, every timer that is already due fires).  Futures are numbered in creation
order; `futs[i]` is the state of the i-th future returned by `acquire`.  `timers` holds the timer handles
that are still scheduled `(deadline, future id)`; the done-callback `remove_timeout` runs during the
drain (`purge`).  Virtual time only moves in `fire` (and the `race…` ops): "jump to the earliest live
timer".  The `race…` ops model a call made from a loop callback in the *same* loop iteration in which the
earliest timer expires, just before that timer's callback (so `on_timeout` can meet a future that is
already done, which is the only way the `if not waiter.done()` guard is exercised).

This file also holds the small kernel shared with C34/C35: future states, timer lists, due-timer order.
-/
namespace TornadoModel.C33

/-- state of a future; `result v` carries a small natural (0 = the releasing context manager / None) -/
inductive FState where
  | pending
  | result (v : Nat)
  | timeout          -- `gen.TimeoutError` set as exception
  | cancelled
  deriving DecidableEq, Repr, Inhabited

abbrev Ev := Nat × FState          -- (future id, state it was resolved to), in resolution order
abbrev Timer := Nat × Nat          -- (deadline, future id)

def isPend (futs : List FState) (w : Nat) : Bool := futs[w]? == some FState.pending

/-- insertion of a timer into a list sorted by deadline (stable: after equal deadlines) -/
def insTimer (t : Timer) : List Timer → List Timer
  | [] => [t]
  | u :: us => if t.1 < u.1 then t :: u :: us else u :: insTimer t us

def sortTimers (ts : List Timer) : List Timer := ts.foldl (fun acc t => insTimer t acc) []

/-- the timers that are due at `now`, in firing order -/
def dueTimers (now : Nat) (ts : List Timer) : List Timer := sortTimers (ts.filter (fun t => t.1 ≤ now))

/-- earliest scheduled timer (first among equal deadlines) -/
def minTimer : List Timer → Option Timer
  | [] => none
  | t :: ts => match minTimer ts with
    | none => some t
    | some u => if u.1 < t.1 then some u else some t

inductive Kind where
  | sem | bounded | lock
  deriving DecidableEq, Repr, Inhabited

structure St where
  kind : Kind
  initial : Nat            -- `_initial_value` (bounded / lock); the constructor argument
  value : Nat              -- `_value`
  waiters : List Nat       -- `_waiters` (deque of futures, dead ones included until popped / collected)
  futs : List FState
  timers : List Timer
  timeouts : Nat           -- `_timeouts`
  now : Nat
  deriving Repr, DecidableEq

/-- `t0` = value of the `_timeouts` counter at the start (the harness presets it to reach the collector) -/
def init (k : Kind) (n t0 : Nat) : St :=
  { kind := k, initial := (if k = .lock then 1 else n), value := (if k = .lock then 1 else n),
    waiters := [], futs := [], timers := [], timeouts := t0, now := 0 }

inductive Op where
  | acquire (deadline : Option Nat)
  | release
  | releaseCm (w : Nat)      -- `release` through the context manager future `w` resolved to (`__exit__`);
                             -- a plain `release` when future `w` holds no context manager
  | fire
  | cancel (w : Nat)
  | raceRelease
  | raceCancel (w : Nat)
  deriving Repr, DecidableEq

inductive Res where
  | unit
  | valueError
  | runtimeError
  | bool (b : Bool)
  | fired (d : Option Nat)
  deriving Repr, DecidableEq

structure Out where
  res : Res
  evs : List Ev
  value : Nat
  nwaiters : Nat
  timeouts : Nat
  ntimers : Nat
  deriving Repr, DecidableEq

/-! ### primitives -/

/-- `_garbage_collect` -/
def gc (s : St) : St :=
  if s.timeouts + 1 > 100 then
    { s with timeouts := 0, waiters := s.waiters.filter (isPend s.futs) }
  else { s with timeouts := s.timeouts + 1 }

/-- `on_timeout` of future `w` -/
def onTimeout (s : St) (w : Nat) : St × List Ev :=
  if isPend s.futs w then (gc { s with futs := s.futs.set w .timeout }, [(w, .timeout)])
  else (gc s, [])

/-- the `while self._waiters` loop of `release`: pop until a live waiter is found -/
def popLive (futs : List FState) : List Nat → Option Nat × List Nat
  | [] => (none, [])
  | w :: ws => if isPend futs w then (some w, ws) else popLive futs ws

/-- `Semaphore.release` -/
def releaseCore (s : St) : St × List Ev :=
  match popLive s.futs s.waiters with
  | (some w, rest) => ({ s with waiters := rest, futs := s.futs.set w (.result 0) }, [(w, .result 0)])
  | (none, rest) => ({ s with waiters := rest, value := s.value + 1 }, [])

/-- `release` of the three classes: `none` = the call raised.  `cm` = the call goes through
`_ReleasingContextManager.__exit__`, whose `_obj` is the lock's inner `BoundedSemaphore`: the `ValueError`
is then not translated to `RuntimeError`. -/
def release (s : St) (cm : Bool := false) : Option (St × List Ev) × Res :=
  match s.kind with
  | .sem => (some (releaseCore s), .unit)
  | .bounded => if s.value ≥ s.initial then (none, .valueError) else (some (releaseCore s), .unit)
  | .lock => if s.value ≥ s.initial then (none, if cm then .valueError else .runtimeError)
             else (some (releaseCore s), .unit)

/-- `Semaphore.acquire` -/
def acquire (s : St) (d : Option Nat) : St × List Ev :=
  let w := s.futs.length
  if s.value > 0 then
    ({ s with value := s.value - 1, futs := s.futs ++ [.result 0] }, [(w, .result 0)])
  else
    ({ s with waiters := s.waiters ++ [w], futs := s.futs ++ [.pending],
              timers := match d with | some d => s.timers ++ [(d, w)] | none => s.timers }, [])

/-- `Future.cancel()` by the application -/
def cancel (s : St) (w : Nat) : St × List Ev × Bool :=
  if isPend s.futs w then ({ s with futs := s.futs.set w .cancelled }, [(w, .cancelled)], true)
  else (s, [], false)

/-! ### the drain -/

/-- done-callbacks `io_loop.remove_timeout(handle)` -/
def purge (s : St) : St := { s with timers := s.timers.filter (fun t => isPend s.futs t.2) }

def fireList (s : St) : List Timer → St × List Ev
  | [] => (s, [])
  | t :: ts =>
    let (s1, e1) := onTimeout s t.2
    let (s2, e2) := fireList s1 ts
    (s2, e1 ++ e2)

/-- all timers due at `now` fire, in deadline order, and leave the schedule -/
def fireDue (s : St) : St × List Ev :=
  let due := dueTimers s.now s.timers
  let (s1, e) := fireList s due
  ({ s1 with timers := s1.timers.filter (fun t => ¬ (t.1 ≤ s1.now)) }, e)

/-- drain after a direct call: done-callbacks first, then the timers that are due -/
def settle (s : St) : St × List Ev :=
  let (s1, e) := fireDue (purge s)
  (purge s1, e)

/-- drain when the call itself ran inside the iteration in which the timers expire -/
def settleRace (s : St) : St × List Ev :=
  let (s1, e) := fireDue s
  (purge s1, e)

def mkOut (s : St) (r : Res) (e : List Ev) : Out :=
  { res := r, evs := e, value := s.value, nwaiters := s.waiters.length, timeouts := s.timeouts,
    ntimers := s.timers.length }

def advance (s : St) : St × Option Nat :=
  match minTimer s.timers with
  | none => (s, none)
  | some t => ({ s with now := max s.now t.1 }, some t.1)

def step (s : St) : Op → St × Out
  | .acquire d =>
    let (s1, e1) := acquire s d
    let (s2, e2) := settle s1
    (s2, mkOut s2 .unit (e1 ++ e2))
  | .release =>
    match release s with
    | (none, r) => (s, mkOut s r [])
    | (some (s1, e1), r) =>
      let (s2, e2) := settle s1
      (s2, mkOut s2 r (e1 ++ e2))
  | .releaseCm w =>
    match release s (s.futs[w]? == some (.result 0)) with
    | (none, r) => (s, mkOut s r [])
    | (some (s1, e1), r) =>
      let (s2, e2) := settle s1
      (s2, mkOut s2 r (e1 ++ e2))
  | .fire =>
    let (s1, d) := advance s
    let (s2, e2) := settle s1
    (s2, mkOut s2 (.fired d) e2)
  | .cancel w =>
    let (s1, e1, b) := cancel s w
    let (s2, e2) := settle s1
    (s2, mkOut s2 (.bool b) (e1 ++ e2))
  | .raceRelease =>
    let (s0, _) := advance s
    match release s0 with
    | (none, r) =>
      let (s2, e2) := settleRace s0
      (s2, mkOut s2 r e2)
    | (some (s1, e1), r) =>
      let (s2, e2) := settleRace s1
      (s2, mkOut s2 r (e1 ++ e2))
  | .raceCancel w =>
    let (s0, _) := advance s
    let (s1, e1, b) := cancel s0 w
    let (s2, e2) := settleRace s1
    (s2, mkOut s2 (.bool b) (e1 ++ e2))

def run (s : St) : List Op → St × List Out
  | [] => (s, [])
  | op :: ops =>
    let (s1, o) := step s op
    let (s2, os) := run s1 ops
    (s2, o :: os)

end TornadoModel.C33
