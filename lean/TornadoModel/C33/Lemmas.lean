/-
C33 — invariants of the semaphore model and their preservation by every primitive and every step.
-/
import TornadoModel.C33.Spec
namespace TornadoModel.C33

/-! ### futures table -/

theorem isPend_set {futs : List FState} {w w' : Nat} {v : FState} (hv : v ≠ .pending)
    (h : isPend (futs.set w v) w' = true) : isPend futs w' = true ∧ w' ≠ w := by
  unfold isPend at *
  rw [List.getElem?_set] at h
  split at h
  · split at h
    · simp at h; exact absurd h hv
    · simp at h
  · rename_i hne
    exact ⟨h, fun e => hne e.symm⟩

theorem isPend_set_ne {futs : List FState} {w w' : Nat} {v : FState} (hne : w' ≠ w) :
    isPend (futs.set w v) w' = isPend futs w' := by
  unfold isPend
  rw [List.getElem?_set]
  simp [Ne.symm hne]

theorem isPend_set_self {futs : List FState} {w : Nat} {v : FState} (hv : v ≠ .pending) :
    isPend (futs.set w v) w = false := by
  unfold isPend
  rw [List.getElem?_set]
  simp only [if_true]
  split
  · simp; exact fun h => hv h
  · simp

theorem isPend_lt {futs : List FState} {w : Nat} (h : isPend futs w = true) : w < futs.length := by
  unfold isPend at h
  by_cases hw : w < futs.length
  · exact hw
  · simp [List.getElem?_eq_none (Nat.le_of_not_lt hw)] at h

theorem isPend_append_lt {futs : List FState} {w : Nat} {x : FState} (h : w < futs.length) :
    isPend (futs ++ [x]) w = isPend futs w := by
  unfold isPend
  rw [List.getElem?_append_left h]

theorem isPend_append_self {futs : List FState} {x : FState} :
    isPend (futs ++ [x]) futs.length = (x == .pending) := by
  unfold isPend
  simp

theorem isPend_append {futs : List FState} {w : Nat} {x : FState} (hx : x ≠ .pending)
    (h : isPend (futs ++ [x]) w = true) : isPend futs w = true := by
  have hl := isPend_lt h
  simp at hl
  by_cases hw : w < futs.length
  · rwa [isPend_append_lt hw] at h
  · have : w = futs.length := by omega
    subst this
    rw [isPend_append_self] at h
    simp at h
    exact absurd h hx

/-! ### the invariant -/

structure Inv (s : St) : Prop where
  lt : ∀ w ∈ s.waiters, w < s.futs.length
  sorted : s.waiters.Pairwise (· < ·)
  pend_mem : ∀ w, isPend s.futs w = true → w ∈ s.waiters
  idle : s.value > 0 → ∀ w ∈ s.waiters, isPend s.futs w = false
  bounded : s.kind ≠ .sem → s.value ≤ s.initial
  lockInit : s.kind = .lock → s.initial = 1

theorem inv_init (k : Kind) (n t0 : Nat) : Inv (init k n t0) := by
  constructor <;> simp [init, isPend]
  · intro h; simp [h]

/-- resolving a future (to anything but `pending`) keeps the invariant -/
theorem inv_resolve {s : St} (h : Inv s) (w : Nat) (v : FState) (hv : v ≠ .pending) :
    Inv { s with futs := s.futs.set w v } := by
  constructor
  · intro x hx; simpa using h.lt x hx
  · exact h.sorted
  · intro x hx; exact h.pend_mem x (isPend_set hv hx).1
  · intro hpos x hx
    have := h.idle hpos x hx
    by_cases hxw : x = w
    · subst hxw; exact isPend_set_self hv
    · rw [isPend_set_ne hxw]; exact this
  · exact h.bounded
  · exact h.lockInit

theorem inv_filter {s : St} (h : Inv s) :
    Inv { s with waiters := s.waiters.filter (isPend s.futs) } := by
  constructor
  · intro x hx; exact h.lt x (List.mem_filter.mp hx).1
  · exact h.sorted.sublist List.filter_sublist
  · intro x hx; exact List.mem_filter.mpr ⟨h.pend_mem x hx, hx⟩
  · intro hpos x hx; exact h.idle hpos x (List.mem_filter.mp hx).1
  · exact h.bounded
  · exact h.lockInit

theorem inv_gc {s : St} (h : Inv s) : Inv (gc s) := by
  unfold gc
  split
  · have := inv_filter h
    constructor
    · exact this.lt
    · exact this.sorted
    · exact this.pend_mem
    · exact this.idle
    · exact this.bounded
    · exact this.lockInit
  · constructor
    · exact h.lt
    · exact h.sorted
    · exact h.pend_mem
    · exact h.idle
    · exact h.bounded
    · exact h.lockInit

theorem inv_onTimeout {s : St} (h : Inv s) (w : Nat) : Inv (onTimeout s w).1 := by
  unfold onTimeout
  split
  · exact inv_gc (inv_resolve h w .timeout (by simp))
  · exact inv_gc h

theorem inv_timers {s : St} (h : Inv s) (ts : List Timer) : Inv { s with timers := ts } := by
  constructor
  · exact h.lt
  · exact h.sorted
  · exact h.pend_mem
  · exact h.idle
  · exact h.bounded
  · exact h.lockInit

theorem inv_now {s : St} (h : Inv s) (n : Nat) : Inv { s with now := n } := by
  constructor
  · exact h.lt
  · exact h.sorted
  · exact h.pend_mem
  · exact h.idle
  · exact h.bounded
  · exact h.lockInit

theorem inv_purge {s : St} (h : Inv s) : Inv (purge s) := inv_timers h _

theorem inv_fireList {s : St} (h : Inv s) (ts : List Timer) : Inv (fireList s ts).1 := by
  induction ts generalizing s with
  | nil => exact h
  | cons t ts ih =>
    simp only [fireList]
    exact ih (inv_onTimeout h t.2)

theorem inv_fireDue {s : St} (h : Inv s) : Inv (fireDue s).1 := by
  unfold fireDue
  exact inv_timers (inv_fireList h _) _

theorem inv_settle {s : St} (h : Inv s) : Inv (settle s).1 := by
  unfold settle
  exact inv_purge (inv_fireDue (inv_purge h))

theorem inv_settleRace {s : St} (h : Inv s) : Inv (settleRace s).1 := by
  unfold settleRace
  exact inv_purge (inv_fireDue h)

theorem inv_advance {s : St} (h : Inv s) : Inv (advance s).1 := by
  unfold advance
  split
  · exact h
  · exact inv_now h _

theorem inv_cancel {s : St} (h : Inv s) (w : Nat) : Inv (cancel s w).1 := by
  unfold cancel
  split
  · exact inv_resolve h w .cancelled (by simp)
  · exact h

/-! ### `popLive` -/

theorem popLive_none {futs : List FState} {ws rest : List Nat} (h : popLive futs ws = (none, rest)) :
    rest = [] ∧ ∀ w ∈ ws, isPend futs w = false := by
  induction ws with
  | nil => simp [popLive] at h; simp [h]
  | cons w ws ih =>
    simp only [popLive] at h
    split at h
    · simp at h
    · rename_i hw
      have := ih h
      refine ⟨this.1, ?_⟩
      intro x hx
      rcases List.mem_cons.mp hx with rfl | hx
      · simpa using hw
      · exact this.2 x hx

theorem popLive_some {futs : List FState} {ws rest : List Nat} {w : Nat}
    (h : popLive futs ws = (some w, rest)) :
    ∃ pre, ws = pre ++ w :: rest ∧ isPend futs w = true ∧ ∀ x ∈ pre, isPend futs x = false := by
  induction ws with
  | nil => simp [popLive] at h
  | cons a ws ih =>
    simp only [popLive] at h
    split at h
    · rename_i ha
      simp at h
      obtain ⟨rfl, rfl⟩ := h
      exact ⟨[], by simp, ha, by simp⟩
    · rename_i ha
      obtain ⟨pre, hpre, hw, hall⟩ := ih h
      refine ⟨a :: pre, by simp [hpre], hw, ?_⟩
      intro x hx
      rcases List.mem_cons.mp hx with rfl | hx
      · simpa using ha
      · exact hall x hx

theorem inv_releaseCore {s : St} (h : Inv s) (hb : s.kind ≠ .sem → s.value < s.initial) :
    Inv (releaseCore s).1 := by
  unfold releaseCore
  split
  · rename_i w rest hp
    obtain ⟨pre, hws, hw, hpre⟩ := popLive_some hp
    have hsorted := h.sorted
    rw [hws] at hsorted
    have hsub : ∀ x ∈ rest, x ∈ s.waiters := by
      intro x hx; rw [hws]; simp [hx]
    constructor
    · intro x hx; simpa using h.lt x (hsub x hx)
    · exact (List.pairwise_append.mp hsorted).2.1.of_cons
    · intro x hx
      have := isPend_set (w := w) (v := .result 0) (by simp) hx
      have hm := h.pend_mem x this.1
      rw [hws] at hm
      rcases List.mem_append.mp hm with hm | hm
      · rw [hpre x hm] at this; simp at this
      · rcases List.mem_cons.mp hm with rfl | hm
        · exact absurd rfl this.2
        · exact hm
    · intro hpos x hx
      have hxw : isPend s.futs x = false := h.idle hpos x (hsub x hx)
      by_cases hxe : x = w
      · subst hxe; exact isPend_set_self (by simp)
      · rw [isPend_set_ne hxe]; exact hxw
    · exact h.bounded
    · exact h.lockInit
  · rename_i rest hp
    obtain ⟨hrest, hall⟩ := popLive_none hp
    subst hrest
    constructor
    · simp
    · simp
    · intro x hx
      have := hall x (h.pend_mem x hx)
      rw [this] at hx; simp at hx
    · simp
    · intro hk; have := hb hk; simp; omega
    · exact h.lockInit

theorem inv_acquire {s : St} (h : Inv s) (d : Option Nat) : Inv (acquire s d).1 := by
  unfold acquire
  split
  · rename_i hpos
    constructor
    · intro x hx; have := h.lt x hx; simp; omega
    · exact h.sorted
    · intro x hx; exact h.pend_mem x (isPend_append (by simp) hx)
    · intro _ x hx
      have := h.lt x hx
      simp only
      rw [isPend_append_lt this]; exact h.idle hpos x hx
    · intro hk; have := h.bounded hk; simp; omega
    · exact h.lockInit
  · rename_i hz
    have hz : s.value = 0 := by omega
    constructor
    · intro x hx
      simp at hx ⊢
      rcases hx with hx | rfl
      · have := h.lt x hx; omega
      · omega
    · simp only
      rw [List.pairwise_append]
      refine ⟨h.sorted, by simp, ?_⟩
      intro a ha b hb
      simp at hb; subst hb
      exact h.lt a ha
    · intro x hx
      simp only at hx ⊢
      have hl := isPend_lt hx
      simp at hl
      by_cases hw : x < s.futs.length
      · rw [isPend_append_lt hw] at hx
        exact List.mem_append_left _ (h.pend_mem x hx)
      · have : x = s.futs.length := by omega
        simp [this]
    · intro hpos; simp [hz] at hpos
    · exact h.bounded
    · exact h.lockInit

theorem release_some_inv {s s1 : St} {e : List Ev} {r : Res} {cm : Bool} (h : Inv s)
    (hr : release s cm = (some (s1, e), r)) : Inv s1 := by
  unfold release at hr
  split at hr
  · simp at hr; have := inv_releaseCore h (by simp [*]); rwa [hr.1] at this
  · split at hr
    · simp at hr
    · rename_i hlt
      simp at hr; have := inv_releaseCore h (fun _ => by omega); rwa [hr.1] at this
  · split at hr
    · simp at hr
    · rename_i hlt
      simp at hr; have := inv_releaseCore h (fun _ => by omega); rwa [hr.1] at this

theorem inv_step {s : St} (h : Inv s) (op : Op) : Inv (step s op).1 := by
  cases op with
  | acquire d => simp only [step]; exact inv_settle (inv_acquire h d)
  | release =>
    simp only [step]
    split
    · exact h
    · rename_i hr; exact inv_settle (release_some_inv h hr)
  | releaseCm w =>
    simp only [step]
    split
    · exact h
    · rename_i hr; exact inv_settle (release_some_inv h hr)
  | fire => simp only [step]; exact inv_settle (inv_advance h)
  | cancel w => simp only [step]; exact inv_settle (inv_cancel h w)
  | raceRelease =>
    simp only [step]
    split
    · exact inv_settleRace (inv_advance h)
    · rename_i hr; exact inv_settleRace (release_some_inv (inv_advance h) hr)
  | raceCancel w => simp only [step]; exact inv_settleRace (inv_cancel (inv_advance h) w)

theorem inv_run {s : St} (h : Inv s) (ops : List Op) : Inv (run s ops).1 := by
  induction ops generalizing s with
  | nil => exact h
  | cons op ops ih => simp only [run]; exact ih (inv_step h op)

/-! ### accounting: permits, grants, releases -/

def isGrant (e : Ev) : Bool := e.2 == .result 0
def grants (es : List Ev) : Nat := es.countP isGrant

def isRel : Op → Bool
  | .release => true
  | .releaseCm _ => true
  | .raceRelease => true
  | _ => false

/-- 1 when the op is a release that did not raise -/
def okRel (op : Op) (o : Out) : Nat := if isRel op && o.res == .unit then 1 else 0

def grantCount : List Out → Nat
  | [] => 0
  | o :: os => grants o.evs + grantCount os

def relCount : List Op → List Out → Nat
  | op :: ops, o :: os => okRel op o + relCount ops os
  | _, _ => 0

theorem grants_append (a b : List Ev) : grants (a ++ b) = grants a + grants b := by
  simp [grants, List.countP_append]

theorem gc_value (s : St) : (gc s).value = s.value := by
  unfold gc; split <;> rfl
theorem gc_futs (s : St) : (gc s).futs = s.futs := by
  unfold gc; split <;> rfl

theorem onTimeout_value (s : St) (w : Nat) : (onTimeout s w).1.value = s.value := by
  unfold onTimeout; split <;> simp [gc_value]

theorem onTimeout_evs (s : St) (w : Nat) : ∀ e ∈ (onTimeout s w).2, e.2 = .timeout := by
  unfold onTimeout; split <;> simp

theorem fireList_value (s : St) (ts : List Timer) : (fireList s ts).1.value = s.value := by
  induction ts generalizing s with
  | nil => rfl
  | cons t ts ih => simp only [fireList]; rw [ih, onTimeout_value]

theorem fireList_evs (s : St) (ts : List Timer) : ∀ e ∈ (fireList s ts).2, e.2 = .timeout := by
  induction ts generalizing s with
  | nil => simp [fireList]
  | cons t ts ih =>
    simp only [fireList]
    intro e he
    rcases List.mem_append.mp he with he | he
    · exact onTimeout_evs s t.2 e he
    · exact ih _ e he

theorem grants_timeouts {es : List Ev} (h : ∀ e ∈ es, e.2 = .timeout) : grants es = 0 := by
  simp only [grants, List.countP_eq_zero]
  intro e he
  simp [isGrant, h e he]

theorem fireDue_value (s : St) : (fireDue s).1.value = s.value := by
  unfold fireDue; simp [fireList_value]
theorem fireDue_evs (s : St) : ∀ e ∈ (fireDue s).2, e.2 = .timeout := by
  unfold fireDue; exact fireList_evs _ _

theorem settle_value (s : St) : (settle s).1.value = s.value := by
  unfold settle; simp [purge, fireDue_value]
theorem settle_evs (s : St) : ∀ e ∈ (settle s).2, e.2 = .timeout := by
  unfold settle; exact fireDue_evs _
theorem settleRace_value (s : St) : (settleRace s).1.value = s.value := by
  unfold settleRace; simp [purge, fireDue_value]
theorem settleRace_evs (s : St) : ∀ e ∈ (settleRace s).2, e.2 = .timeout := by
  unfold settleRace; exact fireDue_evs _

theorem advance_value (s : St) : (advance s).1.value = s.value := by
  unfold advance; split <;> rfl
theorem advance_futs (s : St) : (advance s).1.futs = s.futs := by
  unfold advance; split <;> rfl
theorem advance_waiters (s : St) : (advance s).1.waiters = s.waiters := by
  unfold advance; split <;> rfl
theorem advance_kind (s : St) : (advance s).1.kind = s.kind := by
  unfold advance; split <;> rfl
theorem advance_initial (s : St) : (advance s).1.initial = s.initial := by
  unfold advance; split <;> rfl

theorem releaseCore_account (s : St) :
    (releaseCore s).1.value + grants (releaseCore s).2 = s.value + 1 := by
  unfold releaseCore
  split <;> simp [grants, isGrant]

theorem acquire_account (s : St) (d : Option Nat) :
    (acquire s d).1.value + grants (acquire s d).2 = s.value := by
  unfold acquire
  split
  · simp [grants, isGrant]; omega
  · simp [grants]

theorem cancel_value (s : St) (w : Nat) : (cancel s w).1.value = s.value := by
  unfold cancel; split <;> rfl
theorem cancel_grants (s : St) (w : Nat) : grants (cancel s w).2.1 = 0 := by
  unfold cancel; split <;> simp [grants, isGrant]

theorem release_account {s s1 : St} {e : List Ev} {r : Res} {cm : Bool}
    (hr : release s cm = (some (s1, e), r)) : s1.value + grants e = s.value + 1 ∧ r = .unit := by
  unfold release at hr
  have key : ∀ {r'}, (some (releaseCore s), r') = (some (s1, e), r) →
      s1.value + grants e = s.value + 1 ∧ r = r' := by
    intro r' h
    simp at h
    have := releaseCore_account s
    rw [h.1] at this
    exact ⟨this, h.2.symm⟩
  split at hr
  · exact key hr
  · split at hr
    · simp at hr
    · exact key hr
  · split at hr
    · simp at hr
    · exact key hr

theorem release_none {s : St} {r : Res} {cm : Bool} (hr : release s cm = (none, r)) : r ≠ .unit := by
  unfold release at hr
  split at hr
  · simp at hr
  · split at hr
    · simp at hr; rw [← hr]; simp
    · simp at hr
  · split at hr
    · simp at hr; rw [← hr]; split <;> simp
    · simp at hr

theorem step_account (s : St) (op : Op) :
    (step s op).1.value + grants (step s op).2.evs = s.value + okRel op (step s op).2 := by
  cases op with
  | acquire d =>
    simp only [step, mkOut, okRel, isRel, grants_append, settle_value, grants_timeouts (settle_evs _)]
    have := acquire_account s d
    simp; omega
  | release =>
    simp only [step]
    split
    · rename_i r hr
      have := release_none hr
      simp [mkOut, okRel, isRel, grants, this]
    · rename_i s1 e1 r hr
      obtain ⟨h1, h2⟩ := release_account hr
      subst h2
      simp only [mkOut, okRel, isRel, grants_append, settle_value, grants_timeouts (settle_evs _)]
      simp; omega
  | releaseCm w =>
    simp only [step]
    split
    · rename_i r hr
      have := release_none hr
      simp [mkOut, okRel, isRel, grants, this]
    · rename_i s1 e1 r hr
      obtain ⟨h1, h2⟩ := release_account hr
      subst h2
      simp only [mkOut, okRel, isRel, grants_append, settle_value, grants_timeouts (settle_evs _)]
      simp; omega
  | fire =>
    simp only [step, mkOut, okRel, isRel, settle_value, grants_timeouts (settle_evs _), advance_value]
    simp
  | cancel w =>
    simp only [step, mkOut, okRel, isRel, grants_append, settle_value, grants_timeouts (settle_evs _),
      cancel_value, cancel_grants]
    simp
  | raceRelease =>
    simp only [step]
    split
    · rename_i r hr
      have := release_none hr
      simp [mkOut, okRel, isRel, this, settleRace_value, grants_timeouts (settleRace_evs _), advance_value]
    · rename_i s1 e1 r hr
      obtain ⟨h1, h2⟩ := release_account hr
      subst h2
      simp only [mkOut, okRel, isRel, grants_append, settleRace_value, grants_timeouts (settleRace_evs _)]
      rw [advance_value] at h1
      simp; omega
  | raceCancel w =>
    simp only [step, mkOut, okRel, isRel, grants_append, settleRace_value, grants_timeouts (settleRace_evs _),
      cancel_value, cancel_grants, advance_value]
    simp

theorem run_account (s : St) (ops : List Op) :
    (run s ops).1.value + grantCount (run s ops).2 = s.value + relCount ops (run s ops).2 := by
  induction ops generalizing s with
  | nil => simp [run, grantCount, relCount]
  | cons op ops ih =>
    simp only [run, grantCount, relCount]
    have h1 := step_account s op
    have h2 := ih (step s op).1
    omega

/-! ### frame: the class kind and the initial value never change -/

def Frame (s s' : St) : Prop := s'.kind = s.kind ∧ s'.initial = s.initial

theorem Frame.refl (s : St) : Frame s s := ⟨rfl, rfl⟩
theorem Frame.trans {a b c : St} (h1 : Frame a b) (h2 : Frame b c) : Frame a c :=
  ⟨h2.1.trans h1.1, h2.2.trans h1.2⟩

theorem frame_gc (s : St) : Frame s (gc s) := by unfold gc; split <;> exact ⟨rfl, rfl⟩
theorem frame_onTimeout (s : St) (w : Nat) : Frame s (onTimeout s w).1 := by
  unfold onTimeout; split
  · exact Frame.trans ⟨rfl, rfl⟩ (frame_gc _)
  · exact frame_gc _
theorem frame_fireList (s : St) (ts : List Timer) : Frame s (fireList s ts).1 := by
  induction ts generalizing s with
  | nil => exact Frame.refl s
  | cons t ts ih => simp only [fireList]; exact Frame.trans (frame_onTimeout s t.2) (ih _)
theorem frame_fireDue (s : St) : Frame s (fireDue s).1 := by
  unfold fireDue; exact Frame.trans (frame_fireList s _) ⟨rfl, rfl⟩
theorem frame_purge (s : St) : Frame s (purge s) := ⟨rfl, rfl⟩
theorem frame_settle (s : St) : Frame s (settle s).1 := by
  unfold settle
  exact Frame.trans (Frame.trans (frame_purge s) (frame_fireDue _)) (frame_purge _)
theorem frame_settleRace (s : St) : Frame s (settleRace s).1 := by
  unfold settleRace
  exact Frame.trans (frame_fireDue _) (frame_purge _)
theorem frame_advance (s : St) : Frame s (advance s).1 := by unfold advance; split <;> exact ⟨rfl, rfl⟩
theorem frame_cancel (s : St) (w : Nat) : Frame s (cancel s w).1 := by unfold cancel; split <;> exact ⟨rfl, rfl⟩
theorem frame_acquire (s : St) (d : Option Nat) : Frame s (acquire s d).1 := by
  unfold acquire; split <;> exact ⟨rfl, rfl⟩
theorem frame_releaseCore (s : St) : Frame s (releaseCore s).1 := by
  unfold releaseCore; split <;> exact ⟨rfl, rfl⟩
theorem frame_release {s s1 : St} {e : List Ev} {r : Res} {cm : Bool}
    (hr : release s cm = (some (s1, e), r)) : Frame s s1 := by
  unfold release at hr
  have key : ∀ {r'}, (some (releaseCore s), r') = (some (s1, e), r) → Frame s s1 := by
    intro r' h
    simp at h
    have := frame_releaseCore s
    rwa [h.1] at this
  split at hr
  · exact key hr
  · split at hr
    · simp at hr
    · exact key hr
  · split at hr
    · simp at hr
    · exact key hr

theorem frame_step (s : St) (op : Op) : Frame s (step s op).1 := by
  cases op with
  | acquire d => simp only [step]; exact Frame.trans (frame_acquire s d) (frame_settle _)
  | release =>
    simp only [step]; split
    · exact Frame.refl s
    · rename_i hr; exact Frame.trans (frame_release hr) (frame_settle _)
  | releaseCm w =>
    simp only [step]; split
    · exact Frame.refl s
    · rename_i hr; exact Frame.trans (frame_release hr) (frame_settle _)
  | fire => simp only [step]; exact Frame.trans (frame_advance s) (frame_settle _)
  | cancel w => simp only [step]; exact Frame.trans (frame_cancel s w) (frame_settle _)
  | raceRelease =>
    simp only [step]; split
    · exact Frame.trans (frame_advance s) (frame_settleRace _)
    · rename_i hr
      exact Frame.trans (Frame.trans (frame_advance s) (frame_release hr)) (frame_settleRace _)
  | raceCancel w =>
    simp only [step]
    exact Frame.trans (Frame.trans (frame_advance s) (frame_cancel _ w)) (frame_settleRace _)

theorem frame_run (s : St) (ops : List Op) : Frame s (run s ops).1 := by
  induction ops generalizing s with
  | nil => exact Frame.refl s
  | cons op ops ih => simp only [run]; exact Frame.trans (frame_step s op) (ih _)

/-! ### settled futures are final -/

/-- every future that is settled in `s` has the same state in `s'`, and no future disappears -/
def Stable (s s' : St) : Prop :=
  s.futs.length ≤ s'.futs.length ∧
    ∀ (w : Nat) (f : FState), s.futs[w]? = some f → f ≠ FState.pending → s'.futs[w]? = some f

theorem Stable.refl (s : St) : Stable s s := ⟨Nat.le_refl _, fun _ _ h _ => h⟩
theorem Stable.trans {a b c : St} (h1 : Stable a b) (h2 : Stable b c) : Stable a c :=
  ⟨Nat.le_trans h1.1 h2.1, fun w f h hf => h2.2 w f (h1.2 w f h hf) hf⟩

theorem stable_of_futs {s s' : St} (h : s'.futs = s.futs) : Stable s s' := by
  unfold Stable; rw [h]; exact ⟨Nat.le_refl _, fun _ _ h _ => h⟩

theorem stable_set {s s' : St} {w : Nat} {v : FState} (hp : isPend s.futs w = true)
    (h : s'.futs = s.futs.set w v) : Stable s s' := by
  unfold Stable; rw [h]
  refine ⟨by simp, ?_⟩
  intro x f hx hf
  rw [List.getElem?_set]
  split
  · rename_i hwx
    subst hwx
    unfold isPend at hp
    rw [hx] at hp
    simp at hp
    exact absurd hp hf
  · exact hx

theorem stable_append {s s' : St} {x : FState} (h : s'.futs = s.futs ++ [x]) : Stable s s' := by
  unfold Stable; rw [h]
  refine ⟨by simp, ?_⟩
  intro w f hw _
  have : w < s.futs.length := by
    by_cases hlt : w < s.futs.length
    · exact hlt
    · simp [List.getElem?_eq_none (Nat.le_of_not_lt hlt)] at hw
  rw [List.getElem?_append_left this]; exact hw

theorem stable_gc (s : St) : Stable s (gc s) := stable_of_futs (gc_futs s)
theorem stable_onTimeout (s : St) (w : Nat) : Stable s (onTimeout s w).1 := by
  unfold onTimeout; split
  · rename_i hp
    exact Stable.trans (stable_set (s' := { s with futs := s.futs.set w .timeout }) hp rfl) (stable_gc _)
  · exact stable_gc _
theorem stable_fireList (s : St) (ts : List Timer) : Stable s (fireList s ts).1 := by
  induction ts generalizing s with
  | nil => exact Stable.refl s
  | cons t ts ih => simp only [fireList]; exact Stable.trans (stable_onTimeout s t.2) (ih _)
theorem stable_fireDue (s : St) : Stable s (fireDue s).1 := by
  unfold fireDue; exact Stable.trans (stable_fireList s _) (stable_of_futs rfl)
theorem stable_settle (s : St) : Stable s (settle s).1 := by
  unfold settle
  exact Stable.trans (Stable.trans (stable_of_futs (s' := purge s) rfl) (stable_fireDue _)) (stable_of_futs rfl)
theorem stable_settleRace (s : St) : Stable s (settleRace s).1 := by
  unfold settleRace
  exact Stable.trans (stable_fireDue _) (stable_of_futs rfl)
theorem stable_advance (s : St) : Stable s (advance s).1 := stable_of_futs (advance_futs s)
theorem stable_cancel (s : St) (w : Nat) : Stable s (cancel s w).1 := by
  unfold cancel; split
  · rename_i hp; exact stable_set hp rfl
  · exact Stable.refl s
theorem stable_acquire (s : St) (d : Option Nat) : Stable s (acquire s d).1 := by
  unfold acquire; split <;> exact stable_append rfl
theorem stable_releaseCore (s : St) : Stable s (releaseCore s).1 := by
  unfold releaseCore; split
  · rename_i w rest hp
    exact stable_set (popLive_some hp).choose_spec.2.1 rfl
  · exact stable_of_futs rfl
theorem stable_release {s s1 : St} {e : List Ev} {r : Res} {cm : Bool}
    (hr : release s cm = (some (s1, e), r)) : Stable s s1 := by
  unfold release at hr
  have key : ∀ {r'}, (some (releaseCore s), r') = (some (s1, e), r) → Stable s s1 := by
    intro r' h
    simp at h
    have := stable_releaseCore s
    rwa [h.1] at this
  split at hr
  · exact key hr
  · split at hr
    · simp at hr
    · exact key hr
  · split at hr
    · simp at hr
    · exact key hr

theorem stable_step (s : St) (op : Op) : Stable s (step s op).1 := by
  cases op with
  | acquire d => simp only [step]; exact Stable.trans (stable_acquire s d) (stable_settle _)
  | release =>
    simp only [step]; split
    · exact Stable.refl s
    · rename_i hr; exact Stable.trans (stable_release hr) (stable_settle _)
  | releaseCm w =>
    simp only [step]; split
    · exact Stable.refl s
    · rename_i hr; exact Stable.trans (stable_release hr) (stable_settle _)
  | fire => simp only [step]; exact Stable.trans (stable_advance s) (stable_settle _)
  | cancel w => simp only [step]; exact Stable.trans (stable_cancel s w) (stable_settle _)
  | raceRelease =>
    simp only [step]; split
    · exact Stable.trans (stable_advance s) (stable_settleRace _)
    · rename_i hr
      exact Stable.trans (Stable.trans (stable_advance s) (stable_release hr)) (stable_settleRace _)
  | raceCancel w =>
    simp only [step]
    exact Stable.trans (Stable.trans (stable_advance s) (stable_cancel _ w)) (stable_settleRace _)

theorem stable_run (s : St) (ops : List Op) : Stable s (run s ops).1 := by
  induction ops generalizing s with
  | nil => exact Stable.refl s
  | cons op ops ih => simp only [run]; exact Stable.trans (stable_step s op) (ih _)

theorem run_append (s : St) (a b : List Op) : (run s (a ++ b)).1 = (run (run s a).1 b).1 := by
  induction a generalizing s with
  | nil => rfl
  | cons op a ih => simp only [List.cons_append, run]; exact ih _

/-! ### who is granted -/

theorem releaseCore_grant {s : St} (h : Inv s) {w : Nat} {v : FState} (hm : (w, v) ∈ (releaseCore s).2) :
    isPend s.futs w = true ∧ ∀ w', w' < w → isPend s.futs w' = false := by
  unfold releaseCore at hm
  split at hm
  · rename_i w0 rest hp
    simp at hm
    obtain ⟨rfl, _⟩ := hm
    obtain ⟨pre, hws, hw, hpre⟩ := popLive_some hp
    refine ⟨hw, ?_⟩
    intro w' hlt
    by_cases hp' : isPend s.futs w' = true
    · have hm := h.pend_mem w' hp'
      have hsorted := h.sorted
      rw [hws] at hm hsorted
      rcases List.mem_append.mp hm with hm | hm
      · exact hpre w' hm
      · rcases List.mem_cons.mp hm with rfl | hm
        · omega
        · have := (List.pairwise_append.mp hsorted).2.1
          have := List.rel_of_pairwise_cons this hm
          omega
    · simpa using hp'
  · simp at hm

theorem releaseCore_serves {s : St} (h : Inv s) {w : Nat} (hp : isPend s.futs w = true) :
    ∃ g, (g, FState.result 0) ∈ (releaseCore s).2 := by
  unfold releaseCore
  split
  · rename_i w0 rest _; exact ⟨w0, by simp⟩
  · rename_i rest hpop
    have := (popLive_none hpop).2 w (h.pend_mem w hp)
    rw [this] at hp; simp at hp

theorem acquire_grant {s : St} (h : Inv s) {d : Option Nat} {w : Nat} {v : FState}
    (hm : (w, v) ∈ (acquire s d).2) : ∀ w', isPend s.futs w' = false := by
  unfold acquire at hm
  split at hm
  · rename_i hpos
    intro w'
    by_cases hp' : isPend s.futs w' = true
    · have := h.idle hpos w' (h.pend_mem w' hp'); rw [this] at hp'; simp at hp'
    · simpa using hp'
  · simp at hm

end TornadoModel.C33
