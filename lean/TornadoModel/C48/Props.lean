/-
C48 — property theorems: the (key, base string) Tornado hands to HMAC-SHA1 equals RFC 5849's, hence so does the
signature, for *every* HMAC.  Statements quantify over all methods, URLs, parameter lists and secrets (lists of
code points); nothing is assumed about the URL shape — where the model's `splitUrl` is faithful to `urlparse`
is the business of the correspondence check, not of these theorems.
-/
import TornadoModel.C48.Lemmas
namespace TornadoModel.C48
open Spec

/-- `_oauth_escape` is the percent-encoding function of the specification: `quote`'s range test for the safe bytes is the
literal RFC 3986 unreserved list (`isUnreserved_eq_spec`), its `%02X` is "digits `0`–`9`, then `A`–`F`" (`hexUp_eq_spec`) -/
theorem escape_eq_spec (s : Str) : escape s = pctEncode s := by
  unfold escape pctEncode pctEncodeOctets
  congr 1
  funext b
  exact pctByte_eq_spec b

/-- text as Python holds it: a sequence of code points -/
def IsText (s : Str) : Prop := ∀ c ∈ s, c < 0x110000

theorem utf8_octets (s : Str) (hs : IsText s) : ∀ b ∈ utf8 s, b < 256 := by
  intro b hb
  unfold utf8 at hb
  obtain ⟨c, hc, hb⟩ := List.mem_flatMap.mp hb
  exact utf8Cp_lt c (hs c hc) b hb

/-- **escape_conforms**: `_oauth_escape(s)` satisfies RFC 5849 §3.6 clause by clause (`Spec.PctEncoded`, a relation written
without any of the model's definitions): every unreserved octet of the UTF-8 form stands for itself, every other octet is
`%` + its two upper-case hexadecimal digits -/
theorem escape_conforms (s : Str) (hs : IsText s) : PctEncoded (utf8 s) (escape s) := by
  rw [escape_eq_spec]
  exact pctEncodeOctets_conforms _ (utf8_octets s hs)

/-- **escape_unique**: and it is the only text that does: §3.6 leaves no freedom (no lower-case hex, no optional escaping) -/
theorem escape_unique (s : Str) (hs : IsText s) (out : Bytes) (h : PctEncoded (utf8 s) out) : out = escape s :=
  PctEncoded_unique h (escape_conforms s hs)

/-- **escape_decodes**: the escaped text stands for the UTF-8 octets of `s` and for no other octet string -/
theorem escape_decodes (s : Str) (hs : IsText s) (bs : Bytes) (h : PctEncoded bs (escape s)) : bs = utf8 s :=
  PctEncoded_decode_unique h (escape_conforms s hs)

example : IsText [97, 32, 233, 0x1D11E] := by intro c hc; simp at hc; omega
example : ¬ PctEncoded [126] [37, 55, 69] := by
  intro h
  cases h with
  | esc _ _ _ _ _ hu _ _ _ _ => revert hu; decide
example : ¬ PctEncoded [47] [37, 50, 102] := by
  intro h
  cases h with
  | esc _ _ _ _ _ _ _ _ hlo _ => revert hlo; decide

/-- escaped text consists of unreserved characters and `%` only — in particular it contains neither `&` nor `=`,
so the separators of the base string cannot be forged by data -/
theorem escape_chars (s : Str) (hs : ∀ c ∈ s, c < 0x110000) :
    ∀ c ∈ escape s, (isUnreserved c = true ∨ c = cPct) ∧ c ≠ cAmp ∧ c ≠ cEq := by
  intro c hc
  unfold escape utf8 at hc
  simp only [List.mem_flatMap] at hc
  obtain ⟨b, ⟨cp, hcp, hb⟩, hc⟩ := hc
  have hb256 := utf8Cp_lt cp (hs cp hcp) b hb
  have h := pctByte_chars b hb256 c hc
  refine ⟨h, ?_, ?_⟩
  · rcases h with h | h
    · intro e; subst e; simp [isUnreserved, cAmp] at h
    · subst h; simp [cPct, cAmp]
  · rcases h with h | h
    · intro e; subst e; simp [isUnreserved, cEq] at h
    · subst h; simp [cPct, cEq]

example : escape [97, 32, 233] = [97, 37, 50, 48, 37, 67, 51, 37, 65, 57] := by decide

/-- text made of unreserved characters is left alone -/
theorem escape_unreserved_id (s : Str) (h : ∀ b ∈ utf8 s, isUnreserved b = true) : escape s = utf8 s := by
  unfold escape
  generalize utf8 s = bs at h
  induction bs with
  | nil => rfl
  | cons b bs ih =>
    have hb := h b (by simp)
    simp only [List.flatMap_cons, pctByte, hb, if_true, List.singleton_append, List.cons.injEq, true_and]
    exact ih (fun x hx => h x (by simp [hx]))

/-- Python's `<` on `(name, value)` tuples of (ASCII) strings is RFC 5849's "by name, then by value, in
ascending byte value order" -/
theorem tupleLt_eq_pairLt (a b : Bytes × Bytes) : tupleLt a b = pairLt a b := by
  unfold tupleLt pairLt
  by_cases h : a.1 = b.1
  · simp [h, strLt_eq_bytesLt, bytesLt_irrefl]
  · simp [h, strLt_eq_bytesLt]

/-- `_oauth_normalized_parameters` = §3.4.1.3.2 -/
theorem normParams_eq_spec (params : List (Str × Str)) : normParams params = normalizedParameters params := by
  unfold normParams normalizedParameters
  simp only [escape_eq_spec]
  rw [sortBy_congr tupleLt pairLt tupleLt_eq_pairLt]

/-- the sorted list is a rearrangement of the input: no parameter is dropped, duplicated or altered -/
theorem sortBy_perm (params : List (Bytes × Bytes)) : (sortBy tupleLt params).Perm params :=
  sortBy_perm' tupleLt params

/-- `sortBy` really sorts, for every comparison that is asymmetric and transitive -/
theorem sortBy_sorted {α} (lt : α → α → Bool) (hasymm : ∀ a b, lt a b = true → lt b a = false)
    (htrans : ∀ a b c, lt a b = true → lt b c = true → lt a c = true) (l : List α) :
    (sortBy lt l).Pairwise (fun a b => lt b a = false) := by
  induction l with
  | nil => simp [sortBy]
  | cons x xs ih => exact insertBy_sorted lt hasymm htrans x _ ih

example : (∀ a b : Nat, decide (a < b) = true → decide (b < a) = false) ∧
    (∀ a b c : Nat, decide (a < b) = true → decide (b < c) = true → decide (a < c) = true) := by
  constructor
  · intro a b h; simp at h ⊢; omega
  · intro a b c h1 h2; simp at h1 h2 ⊢; omega

/-- the encoded pairs Tornado joins are in RFC 5849 order: no later pair is smaller (by name, then value) than an
earlier one -/
theorem normParams_sorted (pairs : List (Bytes × Bytes)) :
    (sortBy tupleLt pairs).Pairwise (fun a b => pairLt b a = false) := by
  rw [sortBy_congr tupleLt pairLt tupleLt_eq_pairLt]
  exact sortBy_sorted pairLt pairLt_asymm pairLt_trans pairs

example : sortBy tupleLt [([97, 47], [50]), ([97, 45], [49]), ([97], [51])] = [([97], [51]), ([97, 45], [49]), ([97, 47], [50])] := by decide

/-- `_oauth_base_string_uri` (strip a textual `:80` / `:443` suffix of the lower-cased authority) = §3.4.1.2
(split the authority at its port, keep the port unless it is the default one) — for every URL text -/
theorem base_uri_eq_spec (url : Str) : baseUri url = baseStringUri url := by
  unfold baseUri baseStringUri
  generalize splitUrl url = t
  obtain ⟨scheme, netloc, path⟩ := t
  simp only [baseStringUriOf]
  generalize netloc.map lowerA = n
  generalize scheme.map lowerA = s
  have hre := splitPort_reassemble n
  have h80 := stripSuffix_splitPort [56, 48] n (by decide)
  have h443 := stripSuffix_splitPort [52, 52, 51] n (by decide)
  have e80 : sPort80 = cColon :: [56, 48] := rfl
  have e443 : sPort443 = cColon :: [52, 52, 51] := rfl
  congr 1
  simp only [List.append_assoc]
  congr 1
  cases hp : (splitPort n).2 with
  | none =>
    rw [hp] at hre h80 h443
    simp only [List.append_nil] at hre
    by_cases hs1 : s = sHttp
    · simp [hs1, e80, h80, hre]
    · by_cases hs2 : s = sHttps
      · have hne : ¬ (sHttps = sHttp) := by decide
        subst hs2
        simp [hne, e443, h443, hre]
      · simp [hs1, hs2, hre]
  | some p =>
    rw [hp] at hre h80 h443
    simp only at hre
    by_cases hs1 : s = sHttp
    · subst hs1
      by_cases hp80 : p = [56, 48]
      · subst hp80; simp [e80, h80, isDefaultPort]
      · have : ¬ (some p = some [56, 48]) := by simpa using hp80
        simp [e80, h80, this, isDefaultPort, hp80, hre, sHttp, sHttps]
    · by_cases hs2 : s = sHttps
      · subst hs2
        by_cases hp443 : p = [52, 52, 51]
        · subst hp443; simp [e443, h443, isDefaultPort, sHttp, sHttps]
        · have : ¬ (some p = some [52, 52, 51]) := by simpa using hp443
          simp [e443, h443, this, isDefaultPort, hp443, hre, sHttp, sHttps]
      · simp [hs1, hs2, isDefaultPort, hre]

example : baseUri ("HTTP://Example.com:80/p".toList.map Char.toNat) = "http://example.com/p".toList.map Char.toNat := by decide
example : baseUri ("https://h:80".toList.map Char.toNat) = "https://h:80/".toList.map Char.toNat := by decide

/-- the shared `splitUrl` characterised by its inverse: a text put together as scheme `://` authority path (scheme without
`:`, authority without `/`, path empty or starting with `/`) is split into exactly those three parts -/
theorem splitUrl_assemble (scheme authority path : Str) (hs : cColon ∉ scheme) (ha : cSlash ∉ authority)
    (hp : path = [] ∨ path.head? = some cSlash) :
    splitUrl (assembleUrl scheme authority path) = (scheme, authority, path) := by
  have e : assembleUrl scheme authority path = scheme ++ 58 :: 47 :: 47 :: (authority ++ path) := by
    simp [assembleUrl]
  have h1 : ∀ x ∈ scheme, decide (x = cColon) = false := fun x hx => decide_eq_false (fun e => hs (e ▸ hx))
  have h2 : ∀ x ∈ authority, decide (x = cSlash) = false := fun x hx => decide_eq_false (fun e => ha (e ▸ hx))
  rw [e]
  unfold splitUrl
  rw [takeUntil_stop _ 58 _ (by decide) scheme h1]
  simp only
  rcases hp with hp | hp
  · subst hp
    rw [List.append_nil, takeUntil_all _ authority h2]
  · cases path with
    | nil => simp at hp
    | cons c p' =>
      simp only [List.head?_cons, Option.some.injEq] at hp
      subst hp
      rw [takeUntil_stop _ cSlash _ (by decide) authority h2]

/-- **base_uri_of_parts**: on a URL given by its components, `_oauth_base_string_uri` computes §3.4.1.2 of those components
(no parsing function of the model on the specification side) -/
theorem base_uri_of_parts (scheme authority path : Str) (hs : cColon ∉ scheme) (ha : cSlash ∉ authority)
    (hp : path = [] ∨ path.head? = some cSlash) :
    baseUri (assembleUrl scheme authority path) = baseStringUriOf scheme authority path := by
  rw [base_uri_eq_spec]
  unfold baseStringUri
  rw [splitUrl_assemble scheme authority path hs ha hp]

example : cColon ∉ ("HTTP".toList.map Char.toNat) ∧ cSlash ∉ ("Example.com:80".toList.map Char.toNat) ∧
    (("/p".toList.map Char.toNat) = [] ∨ ("/p".toList.map Char.toNat).head? = some cSlash) := by decide
example : baseStringUriOf ("HTTP".toList.map Char.toNat) ("Example.com:80".toList.map Char.toNat) ("/p".toList.map Char.toNat)
    = "http://example.com/p".toList.map Char.toNat := by decide

/-- **base_string_eq_spec**: for every method, URL and parameter list the signature base string of
`_oauth_signature` / `_oauth10a_signature` is the one RFC 5849 §3.4.1 defines -/
theorem base_string_eq_spec (method url : Str) (params : List (Str × Str)) :
    baseString method url params = Spec.baseString method url params := by
  unfold baseString Spec.baseString asStr
  simp only [joinWith, escape_eq_spec, base_uri_eq_spec, normParams_eq_spec, List.append_assoc]

/-- **key_eq_spec** (OAuth 1.0a function): the HMAC key is `enc(consumer secret) & enc(token secret)` -/
theorem key10a_eq_spec (cs : Str) (ts : Option Str) : key10a cs ts = Spec.key cs ts := by
  unfold key10a Spec.key
  cases ts with
  | none => simp [escape_eq_spec, pctEncode, pctEncodeOctets, utf8]
  | some t => simp [escape_eq_spec]

/-- full statement for `_oauth_signature` (OAuth 1.0 function) — false: the secrets are not encoded -/
def key10_eq_spec_full : Prop := ∀ (cs : Str) (ts : Option Str), key10 cs ts = Spec.key cs ts

/-- `_oauth_signature` uses the RFC key whenever both secrets consist of unreserved characters -/
theorem key10_eq_spec_partial (cs : Str) (ts : Option Str) (h1 : ∀ b ∈ utf8 cs, isUnreserved b = true)
    (h2 : ∀ b ∈ utf8 (ts.getD []), isUnreserved b = true) : key10 cs ts = Spec.key cs ts := by
  unfold key10 Spec.key
  rw [← escape_eq_spec, ← escape_eq_spec, escape_unreserved_id cs h1, escape_unreserved_id _ h2]

example : ∀ b ∈ utf8 [107, 100, 57, 52], isUnreserved b = true := by decide

/-- consumer secret `"a b"`: Tornado's 1.0 key is `a b&`, RFC 5849's is `a%20b&` -/
theorem key10_eq_spec_refuted : ¬ key10_eq_spec_full := by
  intro h
  have := h [97, 32, 98] none
  revert this
  decide

/-- hence equal signatures, whatever the keyed hash is (OAuth 1.0a function; for the 1.0 function under the
side condition of `key10_eq_spec_partial`) -/
theorem signature_eq_spec (hmac : Bytes → Bytes → Bytes) (method url : Str) (params : List (Str × Str))
    (cs : Str) (ts : Option Str) :
    hmac (key10a cs ts) (baseString method url params) = hmac (Spec.key cs ts) (Spec.baseString method url params) := by
  rw [key10a_eq_spec, base_string_eq_spec]

end TornadoModel.C48
