/-
C48 — specification: RFC 5849 §3.4.1 (signature base string) and §3.4.2 (HMAC-SHA1 key).

§3.4.1.1  base string = METHOD & enc(base string URI) & enc(normalized parameters)   (method in upper case, encoded)
§3.4.1.2  base string URI = lower-case scheme "://" lower-case host [":" port unless it is the default port of the
          scheme: 80 for http, 443 for https] path (an empty path is "/"), no query, no fragment
§3.4.1.3.2 parameters: encode every name and value (§3.6), sort by encoded name in ascending byte order, ties
          by encoded value, join name "=" value with "&"
§3.4.2    key = enc(client shared-secret) "&" enc(token shared-secret)   (the latter empty when there is no token)
§3.6      percent-encoding: unreserved characters (ALPHA DIGIT - . _ ~) stay, every other byte of the UTF-8 form
          becomes %XX with upper-case hex
-/
import TornadoModel.C48.Model
namespace TornadoModel.C48.Spec
open TornadoModel.C48

/-- §3.6 -/
def pctEncode (s : Str) : Bytes :=
  (utf8 s).flatMap (fun b => if isUnreserved b then [b] else [cPct, hexUp (b / 16), hexUp (b % 16)])

def isDigit (c : Nat) : Bool := 48 ≤ c && c ≤ 57

/-- authority = host [":" port]: the port is the all-digit text after the last colon -/
def splitPort : Str → Str × Option Str
  | [] => ([], none)
  | c :: cs =>
    if c = cColon ∧ cs.all isDigit then ([], some cs)
    else let (h, p) := splitPort cs; (c :: h, p)

def isDefaultPort (scheme port : Str) : Bool :=
  (scheme == sHttp && port == [56, 48]) || (scheme == sHttps && port == [52, 52, 51])

/-- §3.4.1.2 -/
def baseStringUri (url : Str) : Str :=
  let (scheme, authority, path) := splitUrl url
  let scheme := scheme.map lowerA
  let (host, port) := splitPort (authority.map lowerA)
  let portPart := match port with
    | some p => if isDefaultPort scheme p then [] else cColon :: p
    | none => []
  scheme ++ [58, 47, 47] ++ host ++ portPart ++ (if path.isEmpty then [cSlash] else path)

/-- ascending byte value ordering -/
def bytesLt : Bytes → Bytes → Bool
  | [], [] => false
  | [], _ :: _ => true
  | _ :: _, [] => false
  | a :: as, b :: bs => a < b || (a == b && bytesLt as bs)

/-- by name, then by value -/
def pairLt (a b : Bytes × Bytes) : Bool := bytesLt a.1 b.1 || (a.1 == b.1 && bytesLt a.2 b.2)

/-- §3.4.1.3.2 -/
def normalizedParameters (params : List (Str × Str)) : Bytes :=
  let enc := params.map (fun p => (pctEncode p.1, pctEncode p.2))
  joinWith [cAmp] ((sortBy pairLt enc).map (fun p => p.1 ++ [cEq] ++ p.2))

/-- §3.4.1.1 -/
def baseString (method url : Str) (params : List (Str × Str)) : Bytes :=
  pctEncode (method.map upperA) ++ [cAmp] ++ pctEncode (baseStringUri url) ++ [cAmp]
    ++ pctEncode (normalizedParameters params)

/-- §3.4.2 -/
def key (consumerSecret : Str) (tokenSecret : Option Str) : Bytes :=
  pctEncode consumerSecret ++ [cAmp] ++ pctEncode (tokenSecret.getD [])

end TornadoModel.C48.Spec
