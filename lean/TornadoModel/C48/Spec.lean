/-
C48 — specification: RFC 5849 §3.4.1 (signature base string) and §3.4.2 (HMAC-SHA1 key).

§3.4.1.1  base string = METHOD & enc(base string URI) & enc(normalized parameters)   (method in upper case, encoded)
§3.4.1.2  base string URI = lower-case scheme "://" lower-case host [":" port unless it is the default port of the
          scheme: 80 for http, 443 for https] path (an empty path is "/"), no query, no fragment
§3.4.1.3.2 parameters: encode every name and value (§3.6), sort by encoded name in ascending byte order, ties
          by encoded value, join name "=" value with "&"
§3.4.2    key = enc(client shared-secret) "&" enc(token shared-secret)   (the latter empty when there is no token)
§3.6      percent-encoding: unreserved characters (ALPHA DIGIT - . _ ~) stay, every other byte of the UTF-8 form
          becomes %XX with upper-case hex

What is written here WITHOUT the model's definitions: the percent-encoding of octets (§3.6: the unreserved set as a
literal character list, the hex digits as a literal table, the encoding as a relation `PctEncoded` with a
uniqueness theorem, and the function `pctEncodeOctets`), the host/port split and default-port rule (§3.4.1.2),
the byte order of pairs (§3.4.1.3.2), and the way the pieces are put together (§3.4.1.1, §3.4.2).
What is SHARED with the model (`open TornadoModel.C48`): the UTF-8 encoder `utf8`, the split of a URL text into
scheme / authority / path (`splitUrl`; characterised by `splitUrl_assemble` in Props), ASCII case mapping
`lowerA`/`upperA`, `joinWith`, and the sorting function `sortBy` (characterised by `sortBy_perm` + `sortBy_sorted`
for every strict order).  These shared parts are tied to Python (`str.encode`, `urlparse`, `lower/upper`,
`sorted`) by the correspondence check only.
-/
import TornadoModel.C48.Model
namespace TornadoModel.C48.Spec
open TornadoModel.C48

/-! ### §3.6 percent-encoding, independent of the model -/

/-- RFC 3986 §2.3: unreserved = ALPHA / DIGIT / "-" / "." / "_" / "~", listed literally -/
def unreservedSet : List Nat :=
  "ABCDEFGHIJKLMNOPQRSTUVWXYZabcdefghijklmnopqrstuvwxyz0123456789-._~".toList.map Char.toNat

def unreserved (b : Nat) : Bool := unreservedSet.contains b

/-- the sixteen upper-case hexadecimal digits, in order of value -/
def hexDigits : List Nat := "0123456789ABCDEF".toList.map Char.toNat

def indexIn (c : Nat) : List Nat → Option Nat
  | [] => none
  | x :: xs => if x = c then some 0 else (indexIn c xs).map (· + 1)

/-- the value of an upper-case hexadecimal digit (none for anything else, lower-case letters included) -/
def hexVal (c : Nat) : Option Nat := indexIn c hexDigits

/-- §3.6 as a relation, clause by clause: `PctEncoded octets text` —
    "characters in the unreserved character set MUST NOT be encoded" (`keep`),
    "all other characters MUST be encoded" as `%` followed by the two hexadecimal digits of the octet value, and
    "the two hexadecimal characters used to represent encoded characters MUST be uppercase" (`esc`, through `hexVal`). -/
inductive PctEncoded : Bytes → Bytes → Prop
  | nil : PctEncoded [] []
  | keep (b : Nat) (bs out : Bytes) : unreserved b = true → PctEncoded bs out → PctEncoded (b :: bs) (b :: out)
  | esc (b hi lo : Nat) (bs out : Bytes) : unreserved b = false → b < 256 →
      hexVal hi = some (b / 16) → hexVal lo = some (b % 16) → PctEncoded bs out →
      PctEncoded (b :: bs) (37 :: hi :: lo :: out)

/-- digit of a value below sixteen: `0`–`9`, then `A`–`F` -/
def hexDigit (n : Nat) : Nat := if n < 10 then 48 + n else 65 + (n - 10)

/-- the encoding of one octet -/
def pctEncodeOctet (b : Nat) : Bytes := if unreserved b then [b] else [37, hexDigit (b / 16), hexDigit (b % 16)]

def pctEncodeOctets (bs : Bytes) : Bytes := bs.flatMap pctEncodeOctet

/-- §3.6: text is first encoded as UTF-8 octets, then percent-encoded -/
def pctEncode (s : Str) : Bytes := pctEncodeOctets (utf8 s)

def isDigit (c : Nat) : Bool := 48 ≤ c && c ≤ 57

/-- authority = host [":" port]: the port is the all-digit text after the last colon -/
def splitPort : Str → Str × Option Str
  | [] => ([], none)
  | c :: cs =>
    if c = cColon ∧ cs.all isDigit then ([], some cs)
    else let (h, p) := splitPort cs; (c :: h, p)

def isDefaultPort (scheme port : Str) : Bool :=
  (scheme == sHttp && port == [56, 48]) || (scheme == sHttps && port == [52, 52, 51])

/-- §3.4.1.2 on the components of the URL -/
def baseStringUriOf (scheme authority path : Str) : Str :=
  let scheme := scheme.map lowerA
  let (host, port) := splitPort (authority.map lowerA)
  let portPart := match port with
    | some p => if isDefaultPort scheme p then [] else cColon :: p
    | none => []
  scheme ++ [58, 47, 47] ++ host ++ portPart ++ (if path.isEmpty then [cSlash] else path)

/-- the URL text `scheme "://" authority path` -/
def assembleUrl (scheme authority path : Str) : Str := scheme ++ [58, 47, 47] ++ authority ++ path

/-- §3.4.1.2 on the URL text (components taken with the shared `splitUrl`, see `splitUrl_assemble`) -/
def baseStringUri (url : Str) : Str :=
  let (scheme, authority, path) := splitUrl url
  baseStringUriOf scheme authority path

/-- ascending byte value ordering -/
def bytesLt : Bytes → Bytes → Bool
  | [], [] => false
  | [], _ :: _ => true
  | _ :: _, [] => false
  | a :: as, b :: bs => a < b || (a == b && bytesLt as bs)

/-- by name, then by value -/
def pairLt (a b : Bytes × Bytes) : Bool := bytesLt a.1 b.1 || (a.1 == b.1 && bytesLt a.2 b.2)

/-- §3.4.1.3.2 -/
def normalizedParameters (params : List (Str × Str)) : Bytes :=
  let enc := params.map (fun p => (pctEncode p.1, pctEncode p.2))
  joinWith [cAmp] ((sortBy pairLt enc).map (fun p => p.1 ++ [cEq] ++ p.2))

/-- §3.4.1.1 -/
def baseString (method url : Str) (params : List (Str × Str)) : Bytes :=
  pctEncode (method.map upperA) ++ [cAmp] ++ pctEncode (baseStringUri url) ++ [cAmp]
    ++ pctEncode (normalizedParameters params)

/-- §3.4.2 -/
def key (consumerSecret : Str) (tokenSecret : Option Str) : Bytes :=
  pctEncode consumerSecret ++ [cAmp] ++ pctEncode (tokenSecret.getD [])

end TornadoModel.C48.Spec
