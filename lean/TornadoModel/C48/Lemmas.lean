/- C48 — helper lemmas -/
import TornadoModel.C48.Spec
namespace TornadoModel.C48
open Spec

theorem strLt_eq_bytesLt (a b : Bytes) : strLt a b = bytesLt a b := by
  induction a generalizing b with
  | nil => cases b <;> rfl
  | cons x xs ih =>
    cases b with
    | nil => rfl
    | cons y ys =>
      simp only [strLt, bytesLt, ih]
      by_cases h1 : x < y
      · simp [h1]
      · by_cases h2 : y < x
        · have : ¬ x = y := by omega
          simp [h1, h2, this]
        · have : x = y := by omega
          simp [this]

theorem bytesLt_irrefl (a : Bytes) : bytesLt a a = false := by
  induction a with
  | nil => rfl
  | cons x xs ih => simp [bytesLt, ih]

theorem sortBy_congr {α} (lt1 lt2 : α → α → Bool) (h : ∀ a b, lt1 a b = lt2 a b) (l : List α) :
    sortBy lt1 l = sortBy lt2 l := by
  have : lt1 = lt2 := by funext a b; exact h a b
  rw [this]

/-! ### sorting -/

theorem insertBy_perm {α} (lt : α → α → Bool) (x : α) (l : List α) : (insertBy lt x l).Perm (x :: l) := by
  induction l with
  | nil => exact List.Perm.refl _
  | cons y ys ih =>
    unfold insertBy
    split
    · exact List.Perm.refl _
    · exact (List.Perm.cons y ih).trans (List.Perm.swap x y ys)

theorem sortBy_perm' {α} (lt : α → α → Bool) (l : List α) : (sortBy lt l).Perm l := by
  induction l with
  | nil => exact List.Perm.refl _
  | cons x xs ih => exact (insertBy_perm lt x _).trans (List.Perm.cons x ih)

theorem insertBy_sorted {α} (lt : α → α → Bool)
    (hasymm : ∀ a b, lt a b = true → lt b a = false)
    (htrans : ∀ a b c, lt a b = true → lt b c = true → lt a c = true)
    (x : α) (l : List α) (hs : l.Pairwise (fun a b => lt b a = false)) :
    (insertBy lt x l).Pairwise (fun a b => lt b a = false) := by
  induction l with
  | nil => simp [insertBy]
  | cons y ys ih =>
    rw [List.pairwise_cons] at hs
    unfold insertBy
    split
    · rename_i hxy
      rw [List.pairwise_cons]
      refine ⟨?_, List.pairwise_cons.mpr hs⟩
      intro z hz
      rcases List.mem_cons.mp hz with rfl | hz
      · exact hasymm _ _ hxy
      · have := hs.1 z hz
        cases hzx : lt z x with
        | false => rfl
        | true => rw [htrans z x y hzx hxy] at this; exact absurd this (by simp)
    · rename_i hxy
      rw [List.pairwise_cons]
      refine ⟨?_, ih hs.2⟩
      intro z hz
      have hz' := (insertBy_perm lt x ys).subset hz
      rcases List.mem_cons.mp hz' with rfl | hz'
      · simpa using hxy
      · exact hs.1 z hz'

/-! ### percent-encoding -/

theorem hexUp_unreserved (n : Nat) (h : n < 16) : isUnreserved (hexUp n) = true := by
  unfold hexUp isUnreserved
  split <;> simp <;> omega

theorem pctByte_chars (b : Nat) (hb : b < 256) : ∀ c ∈ pctByte b, isUnreserved c = true ∨ c = cPct := by
  intro c hc
  unfold pctByte at hc
  split at hc
  · simp at hc; subst hc; left; assumption
  · simp at hc
    rcases hc with rfl | rfl | rfl
    · right; rfl
    · left; exact hexUp_unreserved _ (by omega)
    · left; exact hexUp_unreserved _ (by omega)

theorem utf8Cp_lt (c : Nat) (hc : c < 0x110000) : ∀ b ∈ utf8Cp c, b < 256 := by
  intro b hb
  unfold utf8Cp at hb
  split at hb
  · simp at hb; omega
  · split at hb
    · simp at hb; omega
    · split at hb
      · simp at hb; omega
      · simp at hb; omega

/-! ### the independent §3.6 specification (`Spec.unreserved`, `Spec.hexDigit`, `Spec.PctEncoded`) -/

theorem unreserved_lt (b : Nat) (h : unreserved b = true) : b < 128 := by
  have hall : unreservedSet.all (fun x => decide (x < 128)) = true := by decide
  have hm : b ∈ unreservedSet := by
    unfold unreserved at h
    exact List.contains_iff_mem.mp h
  simpa using List.all_eq_true.mp hall b hm

set_option maxRecDepth 20000 in
/-- the range test of the code (`_ALWAYS_SAFE` + `~`) is the literal RFC 3986 list -/
theorem isUnreserved_eq_spec (b : Nat) : isUnreserved b = unreserved b := by
  by_cases hb : b < 128
  · have hfin : ∀ b < 128, isUnreserved b = unreserved b := by decide
    exact hfin b hb
  · have h1 : unreserved b = false := by
      cases h : unreserved b with
      | false => rfl
      | true => exact absurd (unreserved_lt b h) hb
    rw [h1]
    unfold isUnreserved
    simp
    omega

theorem hexUp_eq_spec (n : Nat) : hexUp n = hexDigit n := by
  unfold hexUp hexDigit
  split <;> omega

theorem pctByte_eq_spec (b : Nat) : pctByte b = pctEncodeOctet b := by
  unfold pctByte pctEncodeOctet
  rw [isUnreserved_eq_spec, hexUp_eq_spec, hexUp_eq_spec]
  rfl

theorem hexVal_hexDigit (n : Nat) (h : n < 16) : hexVal (hexDigit n) = some n := by
  have hfin : ∀ n < 16, hexVal (hexDigit n) = some n := by decide
  exact hfin n h

theorem indexIn_inj (a b : Nat) : ∀ (l : List Nat) (i : Nat), indexIn a l = some i → indexIn b l = some i → a = b
  | [], _, h, _ => by simp [indexIn] at h
  | x :: xs, i, ha, hb => by
    unfold indexIn at ha hb
    by_cases h1 : x = a
    · by_cases h2 : x = b
      · exact h1.symm.trans h2
      · rw [if_pos h1] at ha; rw [if_neg h2] at hb
        cases hj : indexIn b xs with
        | none => rw [hj] at hb; simp at hb
        | some j => rw [hj] at hb; simp at hb ha; omega
    · by_cases h2 : x = b
      · rw [if_neg h1] at ha; rw [if_pos h2] at hb
        cases hj : indexIn a xs with
        | none => rw [hj] at ha; simp at ha
        | some j => rw [hj] at ha; simp at hb ha; omega
      · rw [if_neg h1] at ha; rw [if_neg h2] at hb
        cases hi : indexIn a xs with
        | none => rw [hi] at ha; simp at ha
        | some i' =>
          cases hj : indexIn b xs with
          | none => rw [hj] at hb; simp at hb
          | some j' =>
            rw [hi] at ha; rw [hj] at hb
            simp at ha hb
            exact indexIn_inj a b xs i' hi (by rw [hj]; congr 1; omega)

theorem pctEncodeOctets_conforms (bs : Bytes) (h : ∀ b ∈ bs, b < 256) : PctEncoded bs (pctEncodeOctets bs) := by
  induction bs with
  | nil => exact .nil
  | cons b bs ih =>
    have ih' := ih (fun x hx => h x (by simp [hx]))
    have hb := h b (by simp)
    unfold pctEncodeOctets at ih' ⊢
    rw [List.flatMap_cons]
    by_cases hu : unreserved b = true
    · have e : pctEncodeOctet b = [b] := by simp [pctEncodeOctet, hu]
      rw [e]
      exact .keep b bs _ hu ih'
    · have hu' : unreserved b = false := by simpa using hu
      have e : pctEncodeOctet b = [37, hexDigit (b / 16), hexDigit (b % 16)] := by simp [pctEncodeOctet, hu']
      rw [e]
      exact .esc b _ _ bs _ hu' hb (hexVal_hexDigit _ (by omega)) (hexVal_hexDigit _ (by omega)) ih'

/-- §3.6 determines the encoded text: two texts that both conform for the same octets are equal -/
theorem PctEncoded_unique {bs o1 o2 : Bytes} (h1 : PctEncoded bs o1) (h2 : PctEncoded bs o2) : o1 = o2 := by
  induction h1 generalizing o2 with
  | nil => cases h2; rfl
  | keep b bs out hu _ ih =>
    cases h2 with
    | keep _ _ out2 _ h2' => rw [ih h2']
    | esc _ hi lo _ out2 hu2 _ _ _ _ => rw [hu] at hu2; cases hu2
  | esc b hi lo bs out hu hb hhi hlo _ ih =>
    cases h2 with
    | keep _ _ out2 hu2 _ => rw [hu] at hu2; cases hu2
    | esc _ hi2 lo2 _ out2 _ _ hhi2 hlo2 h2' =>
      rw [ih h2', indexIn_inj hi hi2 hexDigits _ hhi hhi2, indexIn_inj lo lo2 hexDigits _ hlo hlo2]

/-- and the encoded text determines the octets (it decodes back to them and to nothing else) -/
theorem PctEncoded_decode_unique {b1 b2 out : Bytes} (h1 : PctEncoded b1 out) (h2 : PctEncoded b2 out) : b1 = b2 := by
  have h37 : unreserved 37 = false := by decide
  induction h1 generalizing b2 with
  | nil => cases h2; rfl
  | keep b bs out hu _ ih =>
    cases h2 with
    | keep _ bs2 _ _ h2' => rw [ih h2']
    | esc b' _ _ bs2 _ _ _ _ _ _ => rw [h37] at hu; cases hu
  | esc b hi lo bs out hu hb hhi hlo _ ih =>
    cases h2 with
    | keep _ bs2 _ hu2 _ => rw [h37] at hu2; cases hu2
    | esc b' _ _ bs2 _ _ hb' hhi2 hlo2 h2' =>
      rw [hhi] at hhi2; rw [hlo] at hlo2
      simp only [Option.some.injEq] at hhi2 hlo2
      have : b = b' := by omega
      rw [ih h2', this]

/-! ### URL text = scheme "://" authority path -/

theorem takeUntil_stop (p : Nat → Bool) (c : Nat) (r : Str) (hc : p c = true) : ∀ (a : Str),
    (∀ x ∈ a, p x = false) → takeUntil p (a ++ c :: r) = (a, c :: r)
  | [], _ => by simp [takeUntil, hc]
  | x :: a, h => by
    have hx : p x = false := h x (by simp)
    simp [takeUntil, hx, takeUntil_stop p c r hc a (fun y hy => h y (by simp [hy]))]

theorem takeUntil_all (p : Nat → Bool) : ∀ (a : Str), (∀ x ∈ a, p x = false) → takeUntil p a = (a, [])
  | [], _ => rfl
  | x :: a, h => by
    have hx : p x = false := h x (by simp)
    simp [takeUntil, hx, takeUntil_all p a (fun y hy => h y (by simp [hy]))]

/-! ### authority = host [: port] -/

theorem stripSuffix_none_of_not_mem (d l : Str) (h : cColon ∉ l) : stripSuffix? (cColon :: d) l = none := by
  induction l with
  | nil => simp [stripSuffix?]
  | cons c cs ih =>
    have hc : c ≠ cColon := fun e => h (by simp [e])
    have hcs : cColon ∉ cs := fun e => h (by simp [e])
    simp [stripSuffix?, hc, ih hcs]

theorem colon_not_mem_of_digits (l : Str) (h : l.all Spec.isDigit = true) : cColon ∉ l := by
  intro hm
  have := List.all_eq_true.mp h _ hm
  simp [Spec.isDigit, cColon] at this

theorem splitPort_reassemble (n : Str) :
    (splitPort n).1 ++ (match (splitPort n).2 with | some p => cColon :: p | none => []) = n := by
  induction n with
  | nil => simp [splitPort]
  | cons c cs ih =>
    unfold splitPort
    split
    · rename_i h; simp [h.1]
    · simp only [List.cons_append]
      rw [ih]

theorem stripSuffix_splitPort (d n : Str) (hd : d.all Spec.isDigit = true) :
    stripSuffix? (cColon :: d) n = if (splitPort n).2 = some d then some (splitPort n).1 else none := by
  induction n with
  | nil => simp [stripSuffix?, splitPort]
  | cons c cs ih =>
    unfold splitPort
    split
    · rename_i h
      obtain ⟨hc, hcs⟩ := h
      subst hc
      by_cases e : cs = d
      · subst e; simp [stripSuffix?]
      · have hn := stripSuffix_none_of_not_mem d cs (colon_not_mem_of_digits cs hcs)
        simp [stripSuffix?, e, hn]
    · rename_i h
      have hne : ¬ (c :: cs = cColon :: d) := by
        intro e
        simp only [List.cons.injEq] at e
        exact h ⟨e.1, e.2 ▸ hd⟩
      simp only [stripSuffix?, hne, if_false, ih]
      split <;> simp

/-! ### the RFC ordering is a strict order -/

theorem bytesLt_asymm (a b : Bytes) (h : bytesLt a b = true) : bytesLt b a = false := by
  induction a generalizing b with
  | nil => cases b <;> simp_all [bytesLt]
  | cons x xs ih =>
    cases b with
    | nil => simp [bytesLt] at h
    | cons y ys =>
      simp only [bytesLt, Bool.or_eq_true, decide_eq_true_eq, Bool.and_eq_true, beq_iff_eq] at h
      simp only [bytesLt, Bool.or_eq_false_iff, decide_eq_false_iff_not, Bool.and_eq_false_imp, beq_iff_eq]
      rcases h with h | ⟨h1, h2⟩
      · exact ⟨by omega, fun e => by omega⟩
      · exact ⟨by omega, fun _ => ih ys h2⟩

theorem bytesLt_trans (a b c : Bytes) (h1 : bytesLt a b = true) (h2 : bytesLt b c = true) : bytesLt a c = true := by
  induction a generalizing b c with
  | nil =>
    cases b with
    | nil => simp [bytesLt] at h1
    | cons y ys => cases c with
      | nil => simp [bytesLt] at h2
      | cons z zs => rfl
  | cons x xs ih =>
    cases b with
    | nil => simp [bytesLt] at h1
    | cons y ys =>
      cases c with
      | nil => simp [bytesLt] at h2
      | cons z zs =>
        simp only [bytesLt, Bool.or_eq_true, decide_eq_true_eq, Bool.and_eq_true, beq_iff_eq] at h1 h2 ⊢
        rcases h1 with h1 | ⟨e1, h1⟩
        · rcases h2 with h2 | ⟨e2, h2⟩
          · left; omega
          · left; omega
        · rcases h2 with h2 | ⟨e2, h2⟩
          · left; omega
          · right; exact ⟨by omega, ih ys zs h1 h2⟩

theorem pairLt_asymm (a b : Bytes × Bytes) (h : pairLt a b = true) : pairLt b a = false := by
  simp only [pairLt, Bool.or_eq_true, Bool.and_eq_true, beq_iff_eq] at h
  simp only [pairLt, Bool.or_eq_false_iff, Bool.and_eq_false_imp, beq_iff_eq]
  rcases h with h | ⟨e, h⟩
  · refine ⟨bytesLt_asymm _ _ h, fun e => ?_⟩
    rw [e, bytesLt_irrefl] at h; exact absurd h (by simp)
  · refine ⟨by rw [e, bytesLt_irrefl], fun _ => bytesLt_asymm _ _ h⟩

theorem pairLt_trans (a b c : Bytes × Bytes) (h1 : pairLt a b = true) (h2 : pairLt b c = true) : pairLt a c = true := by
  simp only [pairLt, Bool.or_eq_true, Bool.and_eq_true, beq_iff_eq] at h1 h2 ⊢
  rcases h1 with h1 | ⟨e1, h1⟩
  · rcases h2 with h2 | ⟨e2, h2⟩
    · left; exact bytesLt_trans _ _ _ h1 h2
    · left; rw [← e2]; exact h1
  · rcases h2 with h2 | ⟨e2, h2⟩
    · left; rw [e1]; exact h2
    · right; exact ⟨e1.trans e2, bytesLt_trans _ _ _ h1 h2⟩

end TornadoModel.C48
