/- C48 — helper lemmas -/
import TornadoModel.C48.Spec
namespace TornadoModel.C48
open Spec

theorem strLt_eq_bytesLt (a b : Bytes) : strLt a b = bytesLt a b := by
  induction a generalizing b with
  | nil => cases b <;> rfl
  | cons x xs ih =>
    cases b with
    | nil => rfl
    | cons y ys =>
      simp only [strLt, bytesLt, ih]
      by_cases h1 : x < y
      · simp [h1]
      · by_cases h2 : y < x
        · have : ¬ x = y := by omega
          simp [h1, h2, this]
        · have : x = y := by omega
          simp [this]

theorem bytesLt_irrefl (a : Bytes) : bytesLt a a = false := by
  induction a with
  | nil => rfl
  | cons x xs ih => simp [bytesLt, ih]

theorem sortBy_congr {α} (lt1 lt2 : α → α → Bool) (h : ∀ a b, lt1 a b = lt2 a b) (l : List α) :
    sortBy lt1 l = sortBy lt2 l := by
  have : lt1 = lt2 := by funext a b; exact h a b
  rw [this]

/-! ### sorting -/

theorem insertBy_perm {α} (lt : α → α → Bool) (x : α) (l : List α) : (insertBy lt x l).Perm (x :: l) := by
  induction l with
  | nil => exact List.Perm.refl _
  | cons y ys ih =>
    unfold insertBy
    split
    · exact List.Perm.refl _
    · exact (List.Perm.cons y ih).trans (List.Perm.swap x y ys)

theorem sortBy_perm' {α} (lt : α → α → Bool) (l : List α) : (sortBy lt l).Perm l := by
  induction l with
  | nil => exact List.Perm.refl _
  | cons x xs ih => exact (insertBy_perm lt x _).trans (List.Perm.cons x ih)

theorem insertBy_sorted {α} (lt : α → α → Bool)
    (hasymm : ∀ a b, lt a b = true → lt b a = false)
    (htrans : ∀ a b c, lt a b = true → lt b c = true → lt a c = true)
    (x : α) (l : List α) (hs : l.Pairwise (fun a b => lt b a = false)) :
    (insertBy lt x l).Pairwise (fun a b => lt b a = false) := by
  induction l with
  | nil => simp [insertBy]
  | cons y ys ih =>
    rw [List.pairwise_cons] at hs
    unfold insertBy
    split
    · rename_i hxy
      rw [List.pairwise_cons]
      refine ⟨?_, List.pairwise_cons.mpr hs⟩
      intro z hz
      rcases List.mem_cons.mp hz with rfl | hz
      · exact hasymm _ _ hxy
      · have := hs.1 z hz
        cases hzx : lt z x with
        | false => rfl
        | true => rw [htrans z x y hzx hxy] at this; exact absurd this (by simp)
    · rename_i hxy
      rw [List.pairwise_cons]
      refine ⟨?_, ih hs.2⟩
      intro z hz
      have hz' := (insertBy_perm lt x ys).subset hz
      rcases List.mem_cons.mp hz' with rfl | hz'
      · simpa using hxy
      · exact hs.1 z hz'

/-! ### percent-encoding -/

theorem hexUp_unreserved (n : Nat) (h : n < 16) : isUnreserved (hexUp n) = true := by
  unfold hexUp isUnreserved
  split <;> simp <;> omega

theorem pctByte_chars (b : Nat) (hb : b < 256) : ∀ c ∈ pctByte b, isUnreserved c = true ∨ c = cPct := by
  intro c hc
  unfold pctByte at hc
  split at hc
  · simp at hc; subst hc; left; assumption
  · simp at hc
    rcases hc with rfl | rfl | rfl
    · right; rfl
    · left; exact hexUp_unreserved _ (by omega)
    · left; exact hexUp_unreserved _ (by omega)

theorem utf8Cp_lt (c : Nat) (hc : c < 0x110000) : ∀ b ∈ utf8Cp c, b < 256 := by
  intro b hb
  unfold utf8Cp at hb
  split at hb
  · simp at hb; omega
  · split at hb
    · simp at hb; omega
    · split at hb
      · simp at hb; omega
      · simp at hb; omega

/-! ### authority = host [: port] -/

theorem stripSuffix_none_of_not_mem (d l : Str) (h : cColon ∉ l) : stripSuffix? (cColon :: d) l = none := by
  induction l with
  | nil => simp [stripSuffix?]
  | cons c cs ih =>
    have hc : c ≠ cColon := fun e => h (by simp [e])
    have hcs : cColon ∉ cs := fun e => h (by simp [e])
    simp [stripSuffix?, hc, ih hcs]

theorem colon_not_mem_of_digits (l : Str) (h : l.all Spec.isDigit = true) : cColon ∉ l := by
  intro hm
  have := List.all_eq_true.mp h _ hm
  simp [Spec.isDigit, cColon] at this

theorem splitPort_reassemble (n : Str) :
    (splitPort n).1 ++ (match (splitPort n).2 with | some p => cColon :: p | none => []) = n := by
  induction n with
  | nil => simp [splitPort]
  | cons c cs ih =>
    unfold splitPort
    split
    · rename_i h; simp [h.1]
    · simp only [List.cons_append]
      rw [ih]

theorem stripSuffix_splitPort (d n : Str) (hd : d.all Spec.isDigit = true) :
    stripSuffix? (cColon :: d) n = if (splitPort n).2 = some d then some (splitPort n).1 else none := by
  induction n with
  | nil => simp [stripSuffix?, splitPort]
  | cons c cs ih =>
    unfold splitPort
    split
    · rename_i h
      obtain ⟨hc, hcs⟩ := h
      subst hc
      by_cases e : cs = d
      · subst e; simp [stripSuffix?]
      · have hn := stripSuffix_none_of_not_mem d cs (colon_not_mem_of_digits cs hcs)
        simp [stripSuffix?, e, hn]
    · rename_i h
      have hne : ¬ (c :: cs = cColon :: d) := by
        intro e
        simp only [List.cons.injEq] at e
        exact h ⟨e.1, e.2 ▸ hd⟩
      simp only [stripSuffix?, hne, if_false, ih]
      split <;> simp

/-! ### the RFC ordering is a strict order -/

theorem bytesLt_asymm (a b : Bytes) (h : bytesLt a b = true) : bytesLt b a = false := by
  induction a generalizing b with
  | nil => cases b <;> simp_all [bytesLt]
  | cons x xs ih =>
    cases b with
    | nil => simp [bytesLt] at h
    | cons y ys =>
      simp only [bytesLt, Bool.or_eq_true, decide_eq_true_eq, Bool.and_eq_true, beq_iff_eq] at h
      simp only [bytesLt, Bool.or_eq_false_iff, decide_eq_false_iff_not, Bool.and_eq_false_imp, beq_iff_eq]
      rcases h with h | ⟨h1, h2⟩
      · exact ⟨by omega, fun e => by omega⟩
      · exact ⟨by omega, fun _ => ih ys h2⟩

theorem bytesLt_trans (a b c : Bytes) (h1 : bytesLt a b = true) (h2 : bytesLt b c = true) : bytesLt a c = true := by
  induction a generalizing b c with
  | nil =>
    cases b with
    | nil => simp [bytesLt] at h1
    | cons y ys => cases c with
      | nil => simp [bytesLt] at h2
      | cons z zs => rfl
  | cons x xs ih =>
    cases b with
    | nil => simp [bytesLt] at h1
    | cons y ys =>
      cases c with
      | nil => simp [bytesLt] at h2
      | cons z zs =>
        simp only [bytesLt, Bool.or_eq_true, decide_eq_true_eq, Bool.and_eq_true, beq_iff_eq] at h1 h2 ⊢
        rcases h1 with h1 | ⟨e1, h1⟩
        · rcases h2 with h2 | ⟨e2, h2⟩
          · left; omega
          · left; omega
        · rcases h2 with h2 | ⟨e2, h2⟩
          · left; omega
          · right; exact ⟨by omega, ih ys zs h1 h2⟩

theorem pairLt_asymm (a b : Bytes × Bytes) (h : pairLt a b = true) : pairLt b a = false := by
  simp only [pairLt, Bool.or_eq_true, Bool.and_eq_true, beq_iff_eq] at h
  simp only [pairLt, Bool.or_eq_false_iff, Bool.and_eq_false_imp, beq_iff_eq]
  rcases h with h | ⟨e, h⟩
  · refine ⟨bytesLt_asymm _ _ h, fun e => ?_⟩
    rw [e, bytesLt_irrefl] at h; exact absurd h (by simp)
  · refine ⟨by rw [e, bytesLt_irrefl], fun _ => bytesLt_asymm _ _ h⟩

theorem pairLt_trans (a b c : Bytes × Bytes) (h1 : pairLt a b = true) (h2 : pairLt b c = true) : pairLt a c = true := by
  simp only [pairLt, Bool.or_eq_true, Bool.and_eq_true, beq_iff_eq] at h1 h2 ⊢
  rcases h1 with h1 | ⟨e1, h1⟩
  · rcases h2 with h2 | ⟨e2, h2⟩
    · left; exact bytesLt_trans _ _ _ h1 h2
    · left; rw [← e2]; exact h1
  · rcases h2 with h2 | ⟨e2, h2⟩
    · left; rw [e1]; exact h2
    · right; exact ⟨e1.trans e2, bytesLt_trans _ _ _ h1 h2⟩

end TornadoModel.C48
