/- C48 driver.
  C48 sign <fn: f10|f10a> <method> <url> <params> <consumerSecret> <tokenSecret|~>  → ok <key> <baseString>   (Model)
  C48 spec <method> <url> <params> <consumerSecret> <tokenSecret|~>                 → ok <key> <baseString>   (RFC 5849)
  C48 escape <text>      C48 baseuri <url>      C48 specuri <url>
  <params> = [[name, value], …] (text)
-/
import TornadoModel.Base.Wire
import TornadoModel.C48.Spec
namespace TornadoModel.C48.Drv
open TornadoModel TornadoModel.Wire TornadoModel.C48

def decParam (v : V) : Option (Str × Str) := do
  let l ← v.list?
  match l with
  | [k, x] => pure (← k.cps?, ← x.cps?)
  | _ => none

def decParams (v : V) : Option (List (Str × Str)) := do
  let l ← v.list?
  l.mapM decParam

def decOptStr (v : V) : Option (Option Str) :=
  if v.isNone then some none else v.cps?.map some

def handle (toks : List String) : String :=
  match toks with
  | cmd :: args =>
    match parseArgs args with
    | none => err "bad-arg"
    | some vs =>
      match cmd, vs with
      | "sign", [fn, m, u, ps, cs, ts] =>
        match fn.atom?, m.cps?, u.cps?, decParams ps, cs.cps?, decOptStr ts with
        | some fn, some m, some u, some ps, some cs, some ts =>
          let key := if fn == "f10" then key10 cs ts else key10a cs ts
          ok [V.ofByteNats key, V.ofByteNats (baseString m u ps)]
        | _, _, _, _, _, _ => err "bad-arg"
      | "spec", [m, u, ps, cs, ts] =>
        match m.cps?, u.cps?, decParams ps, cs.cps?, decOptStr ts with
        | some m, some u, some ps, some cs, some ts =>
          ok [V.ofByteNats (Spec.key cs ts), V.ofByteNats (Spec.baseString m u ps)]
        | _, _, _, _, _ => err "bad-arg"
      | "escape", [s] =>
        match s.cps? with
        | some s => ok [V.ofByteNats (escape s)]
        | none => err "bad-arg"
      | "baseuri", [s] =>
        match s.cps? with
        | some s => ok [V.ofCps (baseUri s)]
        | none => err "bad-arg"
      | "specuri", [s] =>
        match s.cps? with
        | some s => ok [V.ofCps (Spec.baseStringUri s)]
        | none => err "bad-arg"
      | _, _ => err "bad-cmd"
  | _ => err "bad-line"

end TornadoModel.C48.Drv
