/-
C27 — the `partition` / `strip` parser of `_parse_request_range` against the grammar recogniser
`Spec.validRange`: string-level lemmas.

* `strip_decomp`, `partition_cases`: what `strip(HTTP_WHITESPACE)` and `partition(sep)` do to a text.
* `scan`: one `OWS *DIGIT OWS` step of the recogniser on a text of that shape.
* `validRange_of_fields`: a header whose unit strips to `bytes`, whose value contains a `-`, and whose two
  fields strip to digit strings (not both empty) is accepted by the grammar.
-/
import TornadoModel.C27.Spec
namespace TornadoModel.C27
open Spec

/-! ### strip and partition -/

theorem mem_takeWhile_true (p : Nat → Bool) (l : Str) : ∀ c ∈ l.takeWhile p, p c = true := by
  induction l with
  | nil => intro c hc; simp at hc
  | cons x t ih =>
    intro c hc
    rw [List.takeWhile_cons] at hc
    split at hc
    · rename_i hx
      simp only [List.mem_cons] at hc
      rcases hc with hc | hc
      · rw [hc]; exact hx
      · exact ih c hc
    · simp at hc

theorem lstrip_decomp (s : Str) : ∃ w, s = w ++ lstripWs s ∧ ∀ c ∈ w, isWs c = true :=
  ⟨s.takeWhile isWs, (List.takeWhile_append_dropWhile).symm, mem_takeWhile_true isWs s⟩

theorem rstrip_decomp (s : Str) : ∃ w, s = rstripWs s ++ w ∧ ∀ c ∈ w, isWs c = true := by
  refine ⟨(s.reverse.takeWhile isWs).reverse, ?_, ?_⟩
  · unfold rstripWs
    rw [← List.reverse_append, List.takeWhile_append_dropWhile, List.reverse_reverse]
  · intro c hc
    rw [List.mem_reverse] at hc
    exact mem_takeWhile_true isWs _ c hc

/-- `s.strip(" \t")` removes a run of SP/HTAB at each end -/
theorem strip_decomp (s : Str) :
    ∃ w1 w2, s = w1 ++ stripWs s ++ w2 ∧ (∀ c ∈ w1, isWs c = true) ∧ (∀ c ∈ w2, isWs c = true) := by
  obtain ⟨w1, h1, hw1⟩ := lstrip_decomp s
  obtain ⟨w2, h2, hw2⟩ := rstrip_decomp (lstripWs s)
  refine ⟨w1, w2, ?_, hw1, hw2⟩
  unfold stripWs
  rw [List.append_assoc, ← h2, ← h1]

/-- `s.partition(sep)`: either the text splits at a separator, or there is none and `after` is empty -/
theorem partition_cases (sep : Nat) (s : Str) :
    s = (partition sep s).1 ++ sep :: (partition sep s).2 ∨ ((partition sep s).2 = [] ∧ sep ∉ s) := by
  induction s with
  | nil => right; simp [partition]
  | cons c cs ih =>
    by_cases hc : c = sep
    · left; simp [partition, hc]
    · rcases ih with ih | ih
      · left
        simp only [partition, if_neg hc, List.cons_append]
        rw [← ih]
      · right
        simp only [partition, if_neg hc]
        refine ⟨ih.1, ?_⟩
        simp only [List.mem_cons, not_or]
        exact ⟨fun h => hc h.symm, ih.2⟩

/-! ### the recogniser on texts of the right shape -/

theorem ws_not_digit (c : Nat) (h : isOWS c = true) : isDIGIT c = false := by
  unfold isOWS at h
  unfold isDIGIT
  simp only [Bool.or_eq_true, beq_iff_eq] at h
  rcases h with h | h <;> subst h <;> decide

theorem digit_not_ws (c : Nat) (h : isDIGIT c = true) : isOWS c = false := by
  cases hw : isOWS c with
  | false => rfl
  | true => rw [ws_not_digit c hw] at h; cases h

theorem skipOWS_ws_append (w r : Str) (hw : ∀ c ∈ w, isOWS c = true) : skipOWS (w ++ r) = skipOWS r := by
  induction w with
  | nil => rfl
  | cons c w' ih =>
    have hc := hw c (by simp)
    have := ih (fun c hc => hw c (by simp [hc]))
    unfold skipOWS at this ⊢
    simp only [List.cons_append, List.dropWhile_cons, hc, if_true]
    exact this

theorem skipOWS_cons (c : Nat) (r : Str) (hc : isOWS c = false) : skipOWS (c :: r) = c :: r := by
  unfold skipOWS
  simp [hc]

theorem takeWhile_digits_append (d r : Str) (hd : ∀ c ∈ d, isDIGIT c = true) :
    (d ++ r).takeWhile isDIGIT = d ++ r.takeWhile isDIGIT ∧ (d ++ r).dropWhile isDIGIT = r.dropWhile isDIGIT := by
  induction d with
  | nil => exact ⟨rfl, rfl⟩
  | cons c d' ih =>
    have hc := hd c (by simp)
    have := ih (fun c hc => hd c (by simp [hc]))
    simp only [List.cons_append, List.takeWhile_cons, List.dropWhile_cons, hc, if_true]
    exact ⟨by rw [this.1], this.2⟩

/-- a text that is empty or starts with `-` -/
def DashOrEnd (t : Str) : Prop := t = [] ∨ ∃ r, t = 45 :: r

theorem dashOrEnd_fix (t : Str) (ht : DashOrEnd t) :
    t.takeWhile isDIGIT = [] ∧ t.dropWhile isDIGIT = t ∧ skipOWS t = t := by
  rcases ht with rfl | ⟨r, rfl⟩
  · exact ⟨rfl, rfl, rfl⟩
  · have h1 : isDIGIT 45 = false := by decide
    have h2 : isOWS 45 = false := by decide
    exact ⟨by simp [h1], by simp [h1], skipOWS_cons 45 r h2⟩

theorem ws_then_nodigit (b t : Str) (hb : ∀ c ∈ b, isOWS c = true) (ht : DashOrEnd t) :
    (b ++ t).takeWhile isDIGIT = [] ∧ (b ++ t).dropWhile isDIGIT = b ++ t := by
  cases b with
  | nil => exact ⟨(dashOrEnd_fix t ht).1, (dashOrEnd_fix t ht).2.1⟩
  | cons c b' =>
    have hc := ws_not_digit c (hb c (by simp))
    simp [hc]

/-- one `OWS *DIGIT OWS` step of the recogniser: on `d ++ b ++ t` (digits, whitespace, then `-` or the end)
it reads exactly `d` and stops at `t` -/
theorem scan (d b t : Str) (hd : ∀ c ∈ d, isDIGIT c = true) (hb : ∀ c ∈ b, isOWS c = true) (ht : DashOrEnd t) :
    (skipOWS (d ++ (b ++ t))).takeWhile isDIGIT = d
    ∧ skipOWS ((skipOWS (d ++ (b ++ t))).dropWhile isDIGIT) = t := by
  have hfix := dashOrEnd_fix t ht
  cases d with
  | nil =>
    have h0 : skipOWS ([] ++ (b ++ t)) = t := by
      rw [List.nil_append, skipOWS_ws_append b t hb]; exact hfix.2.2
    rw [h0]
    exact ⟨hfix.1, by rw [hfix.2.1]; exact hfix.2.2⟩
  | cons x d' =>
    have hx := digit_not_ws x (hd x (by simp))
    have h0 : skipOWS (x :: d' ++ (b ++ t)) = x :: d' ++ (b ++ t) := skipOWS_cons x _ hx
    have h1 := takeWhile_digits_append (x :: d') (b ++ t) hd
    have h2 := ws_then_nodigit b t hb ht
    rw [h0, h1.1, h1.2, h2.1, h2.2, skipOWS_ws_append b t hb]
    exact ⟨by simp, hfix.2.2⟩

/-- the part of `validRange` after the `=` -/
def tailOk (r0 : Str) : Bool :=
  let r := skipOWS r0
  let d1 := r.takeWhile isDIGIT
  match skipOWS (r.dropWhile isDIGIT) with
  | 45 :: r =>
    let r := skipOWS r
    let d2 := r.takeWhile isDIGIT
    skipOWS (r.dropWhile isDIGIT) == [] && !(d1 == [] && d2 == [])
  | _ => false

theorem validRange_shape (w1 w2 V : Str) (hw1 : ∀ c ∈ w1, isOWS c = true) (hw2 : ∀ c ∈ w2, isOWS c = true) :
    validRange (w1 ++ bytesUnit ++ w2 ++ 61 :: V) = tailOk V := by
  have e1 : skipOWS (w1 ++ bytesUnit ++ w2 ++ 61 :: V) = 98 :: 121 :: 116 :: 101 :: 115 :: (w2 ++ 61 :: V) := by
    rw [List.append_assoc, List.append_assoc, skipOWS_ws_append w1 _ hw1]
    exact skipOWS_cons 98 _ (by decide)
  have e2 : eatUnit (98 :: 121 :: 116 :: 101 :: 115 :: (w2 ++ 61 :: V)) = some (w2 ++ 61 :: V) := by
    simp [eatUnit, lowerC]
  have e3 : skipOWS (w2 ++ 61 :: V) = 61 :: V := by
    rw [skipOWS_ws_append w2 _ hw2]
    exact skipOWS_cons 61 _ (by decide)
  unfold validRange
  simp only [e1, e2, e3]
  rfl

theorem tailOk_true (a d1 b c d2 e : Str)
    (ha : ∀ x ∈ a, isOWS x = true) (hb : ∀ x ∈ b, isOWS x = true)
    (hc : ∀ x ∈ c, isOWS x = true) (he : ∀ x ∈ e, isOWS x = true)
    (hd1 : ∀ x ∈ d1, isDIGIT x = true) (hd2 : ∀ x ∈ d2, isDIGIT x = true)
    (hnb : ¬ (d1 = [] ∧ d2 = [])) :
    tailOk (a ++ (d1 ++ (b ++ 45 :: (c ++ (d2 ++ (e ++ [])))))) = true := by
  have s1 := skipOWS_ws_append a (d1 ++ (b ++ 45 :: (c ++ (d2 ++ (e ++ []))))) ha
  obtain ⟨t1, t2⟩ := scan d1 b (45 :: (c ++ (d2 ++ (e ++ [])))) hd1 hb (Or.inr ⟨_, rfl⟩)
  have s2 := skipOWS_ws_append c (d2 ++ (e ++ [])) hc
  obtain ⟨u1, u2⟩ := scan d2 e [] hd2 he (Or.inl rfl)
  unfold tailOk
  simp only [s1, t1, t2, s2, u1, u2]
  by_cases h1 : d1 = []
  · have h2 : d2 ≠ [] := fun h2 => hnb ⟨h1, h2⟩
    simp [h1, h2]
  · simp [h1]

/-- A header whose unit strips to `bytes`, whose value contains a `-`, and whose fields before / after the
first `-` strip to digit strings, not both empty, is a valid single byte-range of the grammar. -/
theorem validRange_of_fields (h : Str)
    (hu : stripWs (partition 61 h).1 = bytesUnit)
    (hdash : 45 ∈ (partition 61 h).2)
    (hd1 : ∀ x ∈ stripWs (partition 45 (stripWs (partition 61 h).2)).1, isDIGIT x = true)
    (hd2 : ∀ x ∈ stripWs (partition 45 (stripWs (partition 61 h).2)).2, isDIGIT x = true)
    (hnb : ¬ (stripWs (partition 45 (stripWs (partition 61 h).2)).1 = []
              ∧ stripWs (partition 45 (stripWs (partition 61 h).2)).2 = [])) :
    validRange h = true := by
  have hws : ∀ c, isWs c = true → isOWS c = true := fun _ hc => hc
  have h45 : isWs 45 = false := by decide
  -- the header splits at `=`
  have hh : h = (partition 61 h).1 ++ 61 :: (partition 61 h).2 := by
    rcases partition_cases 61 h with hc | hc
    · exact hc
    · rw [hc.1] at hdash; cases hdash
  obtain ⟨w1, w2, hU, hw1, hw2⟩ := strip_decomp (partition 61 h).1
  obtain ⟨w3, w6, hV, hw3, hw6⟩ := strip_decomp (partition 61 h).2
  -- the stripped value still contains the `-` and splits there
  have hdash' : 45 ∈ stripWs (partition 61 h).2 := by
    rw [hV] at hdash
    simp only [List.mem_append] at hdash
    rcases hdash with (hd | hd) | hd
    · have := hw3 45 hd; rw [h45] at this; cases this
    · exact hd
    · have := hw6 45 hd; rw [h45] at this; cases this
  have hv : stripWs (partition 61 h).2
      = (partition 45 (stripWs (partition 61 h).2)).1 ++ 45 :: (partition 45 (stripWs (partition 61 h).2)).2 := by
    rcases partition_cases 45 (stripWs (partition 61 h).2) with hc | hc
    · exact hc
    · exact absurd hdash' hc.2
  obtain ⟨wa, wb, hS, hwa, hwb⟩ := strip_decomp (partition 45 (stripWs (partition 61 h).2)).1
  obtain ⟨wc, wd, hE, hwc, hwd⟩ := strip_decomp (partition 45 (stripWs (partition 61 h).2)).2
  generalize stripWs (partition 45 (stripWs (partition 61 h).2)).1 = d1 at *
  generalize stripWs (partition 45 (stripWs (partition 61 h).2)).2 = d2 at *
  generalize (partition 45 (stripWs (partition 61 h).2)).1 = sb at *
  generalize (partition 45 (stripWs (partition 61 h).2)).2 = eb at *
  generalize stripWs (partition 61 h).2 = v at *
  generalize (partition 61 h).2 = v0 at *
  rw [hu] at hU
  generalize (partition 61 h).1 = u at *
  have hbig : h = w1 ++ bytesUnit ++ w2 ++ 61 :: ((w3 ++ wa) ++ (d1 ++ (wb ++ 45 :: (wc ++ (d2 ++ ((wd ++ w6) ++ [])))))) := by
    rw [hh, hU, hV, hv, hS, hE]
    simp only [List.append_assoc, List.cons_append, List.append_nil]
  rw [hbig, validRange_shape w1 w2 _ (fun c hc => hws c (hw1 c hc)) (fun c hc => hws c (hw2 c hc))]
  apply tailOk_true
  · intro x hx
    rcases List.mem_append.mp hx with hx | hx
    · exact hw3 x hx
    · exact hwa x hx
  · exact hwb
  · exact hwc
  · intro x hx
    rcases List.mem_append.mp hx with hx | hx
    · exact hwd x hx
    · exact hw6 x hx
  · exact hd1
  · exact hd2
  · exact hnb

end TornadoModel.C27
