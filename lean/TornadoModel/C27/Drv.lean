/- C27 driver:
   `C27 respond <contentbytes> <etag> <lastmod> <ctype> <head T|F> <range|~> <inm|~> <ims|~> <mtime>` → `ok <status> [[name,value],…] <body>`
   `C27 ims <mtime> <ims|~>` → `ok <absent|unparseable|before|notBefore> <instant|~>`   (model of parsedate_to_datetime + comparison)
   `C27 parse <h>` → `ok ~ | [start|~, end|~]`      `C27 valid <h>` → `ok T|F`     `C27 etags <inm>` -/
import TornadoModel.Base.Wire
import TornadoModel.C27.Spec
namespace TornadoModel.C27.Drv
open TornadoModel TornadoModel.Wire TornadoModel.C27

def optStr (v : V) : Option (Option Str) :=
  if v.isNone then some none else v.cps?.map some

def encIms : Ims → V
  | .absent => .atom "absent"
  | .unparseable => .atom "unparseable"
  | .before => .atom "before"
  | .notBefore => .atom "notBefore"

/-- integers as hexadecimal text (CPython limits decimal conversions to 4300 digits) -/
def hexI (i : Int) : Str :=
  let d := (Nat.toDigits 16 i.natAbs).map Char.toNat
  if i < 0 then 45 :: d else d

def encOptInt : Option Int → V
  | some i => V.ofCps (hexI i)
  | none => .none

def handle (toks : List String) : String :=
  match toks.tail.mapM V.parse, toks.head? with
  | some args, some cmd =>
    match cmd, args with
    | "respond", [content, etag, lm, ct, head, range, inm, ims, mtime] =>
      match content.byteNats?, etag.cps?, lm.cps?, ct.cps?, head.bool?, optStr range, optStr inm, optStr ims, mtime.int? with
      | some c, some etag, some lm, some ct, some head, some range, some inm, some ims, some mtime =>
        let r := respond { content := c, etag := etag, lastModified := lm, ctype := ct, mtime := mtime }
                         { head := head, range := range, inm := inm, ims := ims }
        ok [.int r.status, .list (r.headers.map (fun (k, v) => .list [V.ofCps k, V.ofCps v])), V.ofByteNats r.body]
      | _, _, _, _, _, _, _, _, _ => err "bad-arg"
    | "ims", [mtime, v] => match mtime.int?, optStr v with
      | some mtime, some v =>
        ok [encIms (imsClass mtime v), V.ofOpt (fun (t : Int) => V.int t) (v.bind Date.parseInstant)]
      | _, _ => err "bad-arg"
    | "parse", [h] => match h.cps? with
      | some h => match parseRange h with
        | some (s, e) => ok [.list [encOptInt s, encOptInt e]]
        | none => ok [.none]
      | none => err "bad-arg"
    | "valid", [h] => match h.cps? with
      | some h => ok [V.ofBool (Spec.validRange h)]
      | none => err "bad-arg"
    | "etags", [h] => match h.cps? with
      | some h => ok [.list ((findEtags h).map V.ofCps)]
      | none => err "bad-arg"
    | _, _ => err "bad-cmd"
  | _, _ => err "bad-line"

end TornadoModel.C27.Drv
