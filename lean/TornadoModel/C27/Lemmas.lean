/- C27 — helper lemmas: the range arithmetic, slicing, header lookup. -/
import TornadoModel.C27.Spec
namespace TornadoModel.C27

macro "fin_omega" : tactic =>
  `(tactic| first | omega | (split <;> first | omega | (split <;> first | omega | (split <;> omega))))

theorem decI_ofNat (n : Nat) : decI (n : Int) = decN n := by
  simp [decI]

theorem plan_some_ok (size : Int) (s e : Option Int) (part : Bool) (s' e' : Option Int)
    (h : plan size (some (s, e)) = .ok part s' e') :
    ¬ unsatisfiable size (adjStart size s) e ∧ s' = adjStart size s ∧ e' = clampEnd size e
      ∧ part = decide (size ≠ orElse e' size - orElse s' 0) := by
  unfold plan at h
  simp only [] at h
  split at h
  · cases h
  · injection h with h1 h2 h3
    subst h2 h3
    exact ⟨by assumption, rfl, rfl, h1.symm⟩

/-- What `plan` guarantees when it does not answer 416, for every size, start and end
(`end`, when present, is not negative — true of everything `parseRange` produces):
with `A = start or 0`, `B = end or size` the byte window `[A, B)` lies inside the file, the
Content-Length computed by the four-way case split is `B - A`, and 206 is chosen exactly when
the window is not the whole file. -/
theorem plan_window (size : Int) (hsz : 0 ≤ size) (s e : Option Int)
    (he : ∀ ev, e = some ev → 0 ≤ ev) (part : Bool) (s' e' : Option Int)
    (h : plan size (some (s, e)) = .ok part s' e') :
    ∃ A B : Int, 0 ≤ A ∧ A ≤ B ∧ B ≤ size ∧ (part = true → A < B)
      ∧ (part = true ↔ B - A ≠ size)
      ∧ contentLength size s' e' = B - A
      ∧ (∀ v, s' = some v → v = A) ∧ (s' = none → A = 0)
      ∧ (∀ v, e' = some v → v = B) ∧ (e' = none → B = size)
      ∧ orElse s' 0 = A ∧ orElse e' size = B := by
  obtain ⟨hu, hs', he', hp⟩ := plan_some_ok size s e part s' e' h
  clear h
  subst hs' he'
  cases s with
  | none =>
    cases e with
    | none =>
      subst hp
      refine ⟨0, size, ?_⟩
      simp [adjStart, clampEnd, orElse, contentLength]
      omega
    | some ev =>
      have hev := he ev rfl
      have hne : ev ≠ 0 := by
        intro h0; apply hu; simp [unsatisfiable, h0]
      subst hp
      by_cases hgt : ev > size
      · refine ⟨0, size, ?_⟩
        simp [adjStart, clampEnd, orElse, contentLength, if_pos hgt]
        fin_omega
      · refine ⟨0, ev, ?_⟩
        simp [adjStart, clampEnd, orElse, contentLength, if_neg hgt, hne]
        omega
  | some sv =>
    -- the adjusted start
    obtain ⟨a, ha, ha0⟩ : ∃ a, adjStart size (some sv) = some a ∧ 0 ≤ a ∧ (0 ≤ sv → a = sv) := by
      unfold adjStart
      by_cases h1 : sv < 0
      · by_cases h2 : sv + size < 0
        · exact ⟨0, by simp [h1, h2], by omega, by intro; omega⟩
        · exact ⟨sv + size, by simp [h1, h2], by omega, by intro; omega⟩
      · exact ⟨sv, by simp [h1], by omega, fun _ => rfl⟩
    rw [ha] at hu hp ⊢
    have hlt : a < size := by
      apply Classical.byContradiction; intro hc; apply hu; simp [unsatisfiable]; left; left; omega
    cases e with
    | none =>
      subst hp
      refine ⟨a, size, ?_⟩
      rcases Decidable.em (a = 0) with h0 | h0 <;> simp [clampEnd, orElse, contentLength, h0] <;> omega
    | some ev =>
      have hlt2 : a < ev := by
        apply Classical.byContradiction; intro hc; apply hu; simp [unsatisfiable]; left; right; omega
      subst hp
      have hne : ev ≠ 0 := by omega
      by_cases hgt : ev > size
      · refine ⟨a, size, ?_⟩
        rcases Decidable.em (a = 0) with h0 | h0 <;>
          simp [clampEnd, orElse, contentLength, if_pos hgt, h0] <;> (try split) <;> omega
      · refine ⟨a, ev, ?_⟩
        rcases Decidable.em (a = 0) with h0 | h0 <;>
          simp [clampEnd, orElse, contentLength, if_neg hgt, hne, h0] <;> omega

end TornadoModel.C27

namespace TornadoModel.C27

theorem parse_end_nonneg (h : Str) (s e : Option Int) (hp : parseRange h = some (s, e)) :
    ∀ ev, e = some ev → 0 ≤ ev := by
  unfold parseRange at hp
  simp only [] at hp
  split at hp
  · cases hp
  · split at hp
    · rename_i s0 e0 _ _
      cases e0 with
      | none => simp at hp; intro ev hev; rw [← hp.2] at hev; cases hev
      | some e' =>
        cases s0 with
        | none =>
          simp only [] at hp
          split at hp <;> (injection hp with hp; injection hp with h1 h2; intro ev hev; subst h2; first | (cases hev; done) | (injection hev with hev; omega) | (cases hev; omega))
        | some s' =>
          simp only [] at hp
          injection hp with hp; injection hp with h1 h2; intro ev hev; subst h2; injection hev with hev; omega
    · cases hp

/-- header lookups in the responses built by `respond` -/
theorem find_base_cr (f : File) : (baseHeaders f).find? (fun p => p.1 == hContentRange) = none := by
  simp [baseHeaders, hAcceptRanges, hEtag, hLastModified, hContentRange]
theorem find_base_cl (f : File) : (baseHeaders f).find? (fun p => p.1 == hContentLength) = none := by
  simp [baseHeaders, hAcceptRanges, hEtag, hLastModified, hContentLength]

end TornadoModel.C27
