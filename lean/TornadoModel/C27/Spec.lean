/-
C27 — specification side.

`validRange h`: `h` is a syntactically valid single byte-range specification, RFC 9110 §14.1.2

    ranges-specifier = "bytes" "=" ( first-pos "-" [ last-pos ] / "-" suffix-length )      (all 1*DIGIT)

read leniently: the unit is case-insensitive and optional whitespace (SP / HTAB) is allowed around the unit,
`=`, the numbers and `-` (DESIGN §6: the code strips deliberately; this is not a finding).  Everything else —
signs, underscores, non-ASCII digits or whitespace, several ranges, other units — is invalid.

`Shape`: the four response shapes of the property statement.
-/
import TornadoModel.C27.Model
namespace TornadoModel.C27.Spec
open TornadoModel.C27

def isOWS (c : Nat) : Bool := c == 32 || c == 9
def isDIGIT (c : Nat) : Bool := 48 ≤ c && c ≤ 57
def skipOWS (s : Str) : Str := s.dropWhile isOWS
def lowerC (c : Nat) : Nat := if 65 ≤ c ∧ c ≤ 90 then c + 32 else c

/-- consume a case-insensitive `bytes` -/
def eatUnit : Str → Option Str
  | b :: y :: t :: e :: s :: r =>
    if [lowerC b, lowerC y, lowerC t, lowerC e, lowerC s] = [98, 121, 116, 101, 115] then some r else none
  | _ => none

def validRange (h : Str) : Bool :=
  match eatUnit (skipOWS h) with
  | none => false
  | some r =>
    match skipOWS r with
    | 61 :: r =>
      let r := skipOWS r
      let d1 := r.takeWhile isDIGIT
      match skipOWS (r.dropWhile isDIGIT) with
      | 45 :: r =>
        let r := skipOWS r
        let d2 := r.takeWhile isDIGIT
        skipOWS (r.dropWhile isDIGIT) == [] && !(d1 == [] && d2 == [])
      | _ => false
    | _ => false

/-- bytes `a..b` (inclusive) of the file -/
def slice (content : List Nat) (a b : Nat) : List Nat := (content.drop a).take (b + 1 - a)

def crText (a b size : Nat) : Str := sBytesSp ++ decN a ++ [45] ++ decN b ++ [47] ++ decN size
def crUnsat (size : Nat) : Str := sBytesStar ++ decN size

/-- the response shapes allowed by the property (for a GET, or a HEAD when `head`) -/
def Shape (content : List Nat) (head : Bool) (r : Resp) : Prop :=
  let size := content.length
  (r.status = 200 ∧ hdr hContentRange r = none ∧ hdr hContentLength r = some (decN size)
      ∧ r.body = (if head then [] else content))
  ∨ (r.status = 206 ∧ ∃ a b, a ≤ b ∧ b < size ∧ hdr hContentRange r = some (crText a b size)
      ∧ hdr hContentLength r = some (decN (b + 1 - a))
      ∧ r.body = (if head then [] else slice content a b) ∧ (slice content a b).length = b + 1 - a)
  ∨ (r.status = 416 ∧ hdr hContentRange r = some (crUnsat size) ∧ hdr hContentLength r = some (decN 0) ∧ r.body = [])
  ∨ (r.status = 304 ∧ hdr hContentLength r = none ∧ r.body = [])

end TornadoModel.C27.Spec
