/-
C27 — model of the range / conditional logic of `tornado.web.StaticFileHandler.get` (core Lean only).

Anchors: `httputil._parse_request_range`, `_int_or_none`, `_get_content_range`;
`StaticFileHandler.get` (304 decision, range arithmetic, Content-Length cases, body loop),
`get_content`, `should_return_304`, `RequestHandler.check_etag_header`, `set_headers`,
`RequestHandler.finish` (304 → `_clear_representation_headers`, Content-Length of an empty 416).

Text is a list of code points, file content a list of byte values (`List Nat`).  Parameters (external
functions): the file's ETag (SHA-512 of the content, quoted), the formatted Last-Modified date and the
Content-Type guessed from the name.  The `If-Modified-Since` decision is NOT a parameter: the header text is
parsed by the model of `email.utils.parsedate_to_datetime` in `Date.lean` and the instant it denotes is
compared with the file's mtime (whole seconds since the epoch).

The model follows the tree with the D6 fix: `_int_or_none` accepts ASCII digits only and strips
`HTTP_WHITESPACE` (space, tab) only.
-/
import TornadoModel.C27.Date
namespace TornadoModel.C27

abbrev Str := List Nat

def ofString (s : String) : Str := s.toList.map Char.toNat

/-! ### Python string primitives -/

def isWs (c : Nat) : Bool := c == 32 || c == 9
def lstripWs (s : Str) : Str := s.dropWhile isWs
def rstripWs (s : Str) : Str := (s.reverse.dropWhile isWs).reverse
/-- `s.strip(HTTP_WHITESPACE)` -/
def stripWs (s : Str) : Str := rstripWs (lstripWs s)

/-- `s.partition(sep)` for a one-character separator: (before, after); after a missing separator
both Python's `sep` and `after` are empty, which is all the callers look at -/
def partition (sep : Nat) : Str → Str × Str
  | [] => ([], [])
  | c :: cs => if c = sep then ([], cs) else let (a, b) := partition sep cs; (c :: a, b)

def isDigit (c : Nat) : Bool := 48 ≤ c && c ≤ 57

/-- value of a string of ASCII digits -/
def decVal (s : Str) : Nat := s.foldl (fun acc c => 10 * acc + (c - 48)) 0

/-- `sys.int_info.default_max_str_digits`: longer digit strings make `int()` raise ValueError -/
def maxStrDigits : Nat := 4300

/-- `_int_or_none`: outer `none` = ValueError -/
def intOrNone (s : Str) : Option (Option Nat) :=
  let v := stripWs s
  if v = [] then some none
  else if v.all isDigit && v.length ≤ maxStrDigits then some (some (decVal v))
  else none

def bytesUnit : Str := [98, 121, 116, 101, 115]   -- "bytes"
def sBytesSp : Str := [98, 121, 116, 101, 115, 32]   -- "bytes "
def sBytesStar : Str := [98, 121, 116, 101, 115, 32, 42, 47]   -- "bytes */"
def sTextPlain : Str := [116, 101, 120, 116, 47, 112, 108, 97, 105, 110]   -- "text/plain"

/-- `_parse_request_range`: `none` = header ignored; the pair is (start, end) for slicing -/
def parseRange (h : Str) : Option (Option Int × Option Int) :=
  let (u, v) := partition 61 h
  if stripWs u ≠ bytesUnit then none
  else
    let (sb, eb) := partition 45 (stripWs v)
    match intOrNone sb, intOrNone eb with
    | some s, some e =>
      match e with
      | some e' =>
        match s with
        | none => if e' ≠ 0 then some (some (-(e' : Int)), none) else some (none, some 0)
        | some s' => some (some (s' : Int), some ((e' : Int) + 1))
      | none => some (s.map Int.ofNat, none)
    | _, _ => none

/-! ### decimal rendering (opaque to the proofs) -/

def decN (n : Nat) : Str := ofString (Nat.repr n)
def decI (i : Int) : Str := if i < 0 then 45 :: decN i.natAbs else decN i.toNat

/-- `_get_content_range(start, end, total)` -/
def getContentRange (start end_ : Option Int) (total : Int) : Str :=
  let s : Int := match start with | some s => if s = 0 then 0 else s | none => 0
  let e : Int := (match end_ with | some e => if e = 0 then total else e | none => total) - 1
  sBytesSp ++ decI s ++ [45] ++ decI e ++ [47] ++ decI total

/-! ### the range arithmetic of `get` -/

inductive Plan where
  | unsat                                        -- 416
  | ok (partial_ : Bool) (start end_ : Option Int) -- 206 if `partial_` else 200
  deriving Repr, BEq, DecidableEq

/-- Python's `x or d` for an optional int -/
def orElse (x : Option Int) (d : Int) : Int :=
  match x with | some v => if v = 0 then d else v | none => d

/-- `if start is not None and start < 0: start += size; if start < 0: start = 0` -/
def adjStart (size : Int) : Option Int → Option Int
  | some s => if s < 0 then (if s + size < 0 then some 0 else some (s + size)) else some s
  | none => none

/-- the 416 condition: `(start is not None and (start >= size or (end is not None and start >= end))) or end == 0` -/
def unsatisfiable (size : Int) (start end_ : Option Int) : Prop :=
  (match start with
    | some s => s ≥ size ∨ (match end_ with | some e => s ≥ e | none => False)
    | none => False) ∨ end_ = some 0

instance (size : Int) (start end_ : Option Int) : Decidable (unsatisfiable size start end_) := by
  unfold unsatisfiable
  cases start <;> cases end_ <;> infer_instance

/-- `if end is not None and end > size: end = size` -/
def clampEnd (size : Int) : Option Int → Option Int
  | some e => if e > size then some size else some e
  | none => none

def plan (size : Int) (rr : Option (Option Int × Option Int)) : Plan :=
  match rr with
  | none => .ok false none none
  | some (start, end_) =>
    let start := adjStart size start
    if unsatisfiable size start end_ then .unsat
    else
      let end_ := clampEnd size end_
      .ok (decide (size ≠ orElse end_ size - orElse start 0)) start end_

/-- the four-way `content_length` computation -/
def contentLength (size : Int) (start end_ : Option Int) : Int :=
  match start, end_ with
  | some s, some e => e - s
  | none, some e => e
  | some s, none => size - s
  | none, none => size

/-- `get_content(abspath, start, end)` joined; `none` = the generator raises (negative seek, or the
final `assert remaining == 0` fails because the file ended early) -/
def getContent (content : List Nat) (start end_ : Option Int) : Option (List Nat) :=
  let s : Int := match start with | some s => s | none => 0
  if s < 0 then none
  else
    let data := content.drop s.toNat
    match end_ with
    | none => some data
    | some e =>
      let remaining : Int := e - s
      if remaining < 0 ∨ (data.length : Int) < remaining then none
      else some (data.take remaining.toNat)

/-! ### conditional requests -/

/-- match `"[^"]*"` at the front: (token, rest) -/
def matchQuoted : Str → Option (Str × Str)
  | 34 :: r =>
    match r.dropWhile (· != 34) with
    | 34 :: rest => some (34 :: r.takeWhile (· != 34) ++ [34], rest)
    | _ => none
  | _ => none

/-- one regex attempt of `\*|(?:W/)?"[^"]*"` at the front -/
def matchEtagAt (s : Str) : Option (Str × Str) :=
  match s with
  | 42 :: r => some ([42], r)
  | 87 :: 47 :: r =>
    match matchQuoted r with
    | some (t, rest) => some (87 :: 47 :: t, rest)
    | none => none
  | _ => matchQuoted s

/-- `re.findall(rb'\*|(?:W/)?"[^"]*"', …)` -/
def findEtagsF : Nat → Str → List Str
  | 0, _ => []
  | _ + 1, [] => []
  | f + 1, c :: r =>
    match matchEtagAt (c :: r) with
    | some (t, rest) => t :: findEtagsF f rest
    | none => findEtagsF f r

def findEtags (s : Str) : List Str := findEtagsF (s.length + 1) s

/-- `val` in `check_etag_header`: drop a leading `W/` -/
def weakVal (x : Str) : Str := match x with | 87 :: 47 :: r => r | _ => x

/-- `check_etag_header` given the computed Etag header and the If-None-Match value -/
def checkEtag (computed inm : Str) : Bool :=
  let etags := findEtags inm
  if computed = [] ∨ etags = [] then false
  else if etags.head? = some [42] then true
  else etags.any (fun e => weakVal e == weakVal computed)

/-- outcome of `parsedate_to_datetime(If-Modified-Since) >= modified` -/
inductive Ims where
  | absent | unparseable | before | notBefore
  deriving Repr, BEq, DecidableEq

/-- the `If-Modified-Since` part of `should_return_304`: header absent; `parsedate_to_datetime` raised;
otherwise the parsed datetime (a naive one taken as UTC) is compared, as an instant, with `self.modified`
(`fromtimestamp(int(st_mtime), utc)`) -/
def imsClass (mtime : Int) : Option Str → Ims
  | none => .absent
  | some v =>
    match Date.parseInstant v with
    | none => .unparseable
    | some t => if t ≥ mtime then .notBefore else .before

/-- `should_return_304` -/
def shouldReturn304 (etag : Str) (inm : Option Str) (ims : Ims) : Bool :=
  match inm with
  | some v => if v ≠ [] then checkEtag etag v else ims == .notBefore
  | none => ims == .notBefore

/-! ### the response -/

structure File where
  content : List Nat
  etag : Str            -- `compute_etag()`: `"` + sha512 hex + `"`
  lastModified : Str    -- formatted mtime
  ctype : Str           -- `get_content_type()`
  mtime : Int := 0      -- `int(st_mtime)`: seconds since the epoch
  deriving Repr

structure Req where
  head : Bool := false
  range : Option Str := none
  inm : Option Str := none
  ims : Option Str := none   -- the If-Modified-Since header text
  deriving Repr

structure Resp where
  status : Nat
  headers : List (Str × Str)
  body : List Nat
  deriving Repr, BEq, DecidableEq

def hAcceptRanges : Str := [65, 99, 99, 101, 112, 116, 45, 82, 97, 110, 103, 101, 115]   -- "Accept-Ranges"
def hEtag : Str := [69, 116, 97, 103]   -- "Etag"
def hLastModified : Str := [76, 97, 115, 116, 45, 77, 111, 100, 105, 102, 105, 101, 100]   -- "Last-Modified"
def hContentType : Str := [67, 111, 110, 116, 101, 110, 116, 45, 84, 121, 112, 101]   -- "Content-Type"
def hContentRange : Str := [67, 111, 110, 116, 101, 110, 116, 45, 82, 97, 110, 103, 101]   -- "Content-Range"
def hContentLength : Str := [67, 111, 110, 116, 101, 110, 116, 45, 76, 101, 110, 103, 116, 104]   -- "Content-Length"

/-- `set_headers()` without the Content-Type (which a 304 drops again) -/
def baseHeaders (f : File) : List (Str × Str) :=
  [(hAcceptRanges, bytesUnit), (hEtag, f.etag), (hLastModified, f.lastModified)]

/-- the request's Range header as `get` uses it: an empty value is falsy -/
def requestRange (req : Req) : Option (Option Int × Option Int) :=
  match req.range with
  | some h => if h = [] then none else parseRange h
  | none => none

/-- `StaticFileHandler.get` (+ `finish`) for an existing file; status 500 = uncaught exception -/
def respond (f : File) (req : Req) : Resp :=
  let size : Int := f.content.length
  if shouldReturn304 f.etag req.inm (imsClass f.mtime req.ims) then
    { status := 304, headers := baseHeaders f, body := [] }
  else
    match plan size (requestRange req) with
    | .unsat =>
      { status := 416,
        headers := baseHeaders f ++ [(hContentType, sTextPlain),
                    (hContentRange, sBytesStar ++ decI size), (hContentLength, decN 0)],
        body := [] }
    | .ok part start end_ =>
      let hs := baseHeaders f ++ [(hContentType, f.ctype)]
        ++ (if part then [(hContentRange, getContentRange start end_ size)] else [])
        ++ [(hContentLength, decI (contentLength size start end_))]
      let status := if part then 206 else 200
      if req.head then { status := status, headers := hs, body := [] }
      else
        match getContent f.content start end_ with
        | some b => { status := status, headers := hs, body := b }
        | none => { status := 500, headers := [], body := [] }

def hdr (name : Str) (r : Resp) : Option Str := (r.headers.find? (fun p => p.1 == name)).map (·.2)

end TornadoModel.C27
