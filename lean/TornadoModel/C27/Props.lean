/-
C27 — property theorems.
-/
import TornadoModel.C27.Lemmas
import TornadoModel.C27.Inv2
namespace TornadoModel.C27
open Spec

/-- `get_content` on the window computed by `plan` returns exactly that window (and never raises). -/
theorem getContent_window (content : List Nat) (s' e' : Option Int) (A B : Int)
    (hA : 0 ≤ A) (hAB : A ≤ B) (hB : B ≤ content.length)
    (hs1 : ∀ v, s' = some v → v = A) (hs2 : s' = none → A = 0)
    (he1 : ∀ v, e' = some v → v = B) (he2 : e' = none → B = content.length) :
    getContent content s' e' = some ((content.drop A.toNat).take (B - A).toNat) := by
  have key : ∀ (s0 : Int), s0 = A →
      (if s0 < 0 then none
       else match e' with
        | none => some (content.drop s0.toNat)
        | some e => if e - s0 < 0 ∨ ((content.drop s0.toNat).length : Int) < e - s0 then none
                    else some ((content.drop s0.toNat).take (e - s0).toNat))
      = some ((content.drop A.toNat).take (B - A).toNat) := by
    intro s0 hs0
    subst hs0
    rw [if_neg (by omega)]
    cases e' with
    | none =>
      have := he2 rfl
      simp only []
      rw [List.take_of_length_le]
      simp only [List.length_drop]
      omega
    | some v =>
      have := he1 v rfl
      subst this
      simp only []
      rw [if_neg]
      simp only [List.length_drop]
      omega
  cases s' with
  | none => exact key 0 (hs2 rfl).symm
  | some v => exact key v (hs1 v rfl)

theorem getContentRange_eq (s' e' : Option Int) (total : Int) :
    getContentRange s' e' total
      = sBytesSp ++ decI (orElse s' 0) ++ [45] ++ decI (orElse e' total - 1) ++ [47] ++ decI total := by
  cases s' <;> cases e' <;> rfl

macro "hdr_simp" : tactic =>
  `(tactic| simp [hdr, baseHeaders, hAcceptRanges, hEtag, hLastModified, hContentType, hContentRange, hContentLength])

theorem requestRange_some (req : Req) (rr) (h : requestRange req = some rr) :
    ∃ hd, req.range = some hd ∧ hd ≠ [] ∧ parseRange hd = some rr := by
  unfold requestRange at h
  split at h
  · rename_i hd hreq
    split at h
    · cases h
    · exact ⟨hd, hreq, by assumption, h⟩
  · cases h

/-- **response_shape.**  For every file and every request (any Range / If-None-Match text, any outcome of the
date comparison, GET or HEAD) the response of `StaticFileHandler.get` has one of the four shapes of the
property: 200 with the whole file, 206 with `bytes a-b/size` (`a ≤ b < size`), body = bytes `a..b` and
Content-Length `b-a+1`, 416 with `bytes */size`, or 304 without body; in particular never the 500 of the model
(an exception in `get_content`). -/
theorem response_shape (f : File) (req : Req) : Shape f.content req.head (respond f req) := by
  unfold respond
  simp only []
  split
  · -- 304
    right; right; right
    exact ⟨rfl, by hdr_simp, rfl⟩
  · cases hr : requestRange req with
    | none =>
      simp only [plan, contentLength, Bool.false_eq_true, if_false]
      left
      have hg : getContent f.content none none = some f.content := by simp [getContent]
      rw [hg, decI_ofNat]
      cases hh : req.head <;> simp <;> hdr_simp
    | some rr =>
      obtain ⟨s, e⟩ := rr
      obtain ⟨hd, _, _, hparse⟩ := requestRange_some req (s, e) hr
      have he := parse_end_nonneg hd s e hparse
      cases hp : plan (f.content.length : Int) (some (s, e)) with
      | unsat =>
        simp only []
        right; right; left
        rw [decI_ofNat]
        refine ⟨rfl, ?_, ?_, rfl⟩ <;> (try unfold crUnsat) <;> hdr_simp
      | ok part s' e' =>
        obtain ⟨A, B, hA, hAB, hB, hpl, hpi, hcl, hs1, hs2, he1, he2, ho1, ho2⟩ :=
          plan_window (f.content.length : Int) (by omega) s e he part s' e' hp
        have hg := getContent_window f.content s' e' A B hA hAB hB hs1 hs2 he1 he2
        simp only [hg, hcl]
        cases part with
        | false =>
          have hfull : B - A = f.content.length := by
            apply Classical.byContradiction
            intro hc
            have := hpi.2 hc
            cases this
          have hA0 : A = 0 := by omega
          have hBs : B = f.content.length := by omega
          subst hA0
          left
          simp only [Bool.false_eq_true, if_false, hfull, decI_ofNat]
          cases req.head <;> simp [hBs] <;> hdr_simp
        | true =>
          have hlt := hpl rfl
          right; left
          simp only [if_true]
          obtain ⟨a, ha⟩ := Int.eq_ofNat_of_zero_le hA
          obtain ⟨b, hb⟩ := Int.eq_ofNat_of_zero_le (show 0 ≤ B - 1 by omega)
          refine ⟨by cases req.head <;> rfl, a, b, by omega, by omega, ?_⟩
          have hcr : getContentRange s' e' (f.content.length : Int) = crText a b f.content.length := by
            rw [getContentRange_eq, ho1, ho2, ha, hb, decI_ofNat, decI_ofNat, decI_ofNat]
            rfl
          have hclen : decI (B - A) = decN (b + 1 - a) := by
            have : B - A = ((b + 1 - a : Nat) : Int) := by omega
            rw [this, decI_ofNat]
          have hsl : (f.content.drop A.toNat).take (B - A).toNat = slice f.content a b := by
            unfold slice
            have h1 : A.toNat = a := by omega
            have h2 : (B - A).toNat = b + 1 - a := by omega
            rw [h1, h2]
          have hlen : (slice f.content a b).length = b + 1 - a := by
            unfold slice
            simp only [List.length_take, List.length_drop]
            omega
          rw [hcr, hclen, hsl]
          cases req.head <;> simp [hlen] <;> hdr_simp


theorem respond_ne_500 (f : File) (req : Req) : (respond f req).status ≠ 500 := by
  have h := response_shape f req
  unfold Shape at h
  rcases h with h | h | h | h <;> (have := h.1; omega)

/-- **head_same_headers.**  A HEAD request gets the status and exactly the headers of the corresponding GET,
and no body. -/
theorem head_same_headers (f : File) (req : Req) :
    (respond f { req with head := true }).status = (respond f { req with head := false }).status
    ∧ (respond f { req with head := true }).headers = (respond f { req with head := false }).headers
    ∧ (respond f { req with head := true }).body = [] := by
  have h500 := respond_ne_500 f { req with head := false }
  revert h500
  unfold respond requestRange
  simp only []
  split
  · intro _; simp
  · split
    · intro _; simp
    · simp only [Bool.false_eq_true, if_false, if_true]
      split
      · intro _; simp
      · intro h; exact absurd rfl h

/-! ### invalid Range headers -/

/-- the two parse results that leave the response untouched -/
def Ignored (h : Str) : Prop := parseRange h = none ∨ parseRange h = some (none, none)

/-- A header that `_parse_request_range` rejects, or parses to `(None, None)`, changes nothing:
the response is the one without a Range header. -/
theorem unparsed_range_ignored (f : File) (req : Req) (h : Str) (hr : req.range = some h) (hi : Ignored h) :
    respond f req = respond f { req with range := none } := by
  have h1 : plan (f.content.length : Int) (requestRange req) = .ok false none none := by
    unfold requestRange
    rw [hr]
    simp only []
    split
    · rfl
    · rcases hi with hi | hi <;> rw [hi]
      · rfl
      · simp [plan, adjStart, unsatisfiable, clampEnd, orElse]
  have h2 : plan (f.content.length : Int) (requestRange { req with range := none }) = .ok false none none := rfl
  unfold respond
  simp only [h1, h2]

/-- what `_int_or_none` accepts (D6 fix): optional SP/HTAB around at most 4300 ASCII digits — no sign,
no underscore, no non-ASCII digit or whitespace -/
theorem intOrNone_digits (x : Str) (n : Nat) (h : intOrNone x = some (some n)) :
    (stripWs x).all isDigit = true ∧ stripWs x ≠ [] ∧ (stripWs x).length ≤ 4300 ∧ n = decVal (stripWs x) := by
  unfold intOrNone at h
  simp only [] at h
  split at h
  · cases h
  · split at h
    · rename_i hne hok
      simp only [Bool.and_eq_true, decide_eq_true_eq] at hok
      injection h with h; injection h with h
      exact ⟨hok.1, hne, hok.2, h.symm⟩
    · cases h

theorem intOrNone_none (x : Str) (h : intOrNone x = some none) : stripWs x = [] := by
  unfold intOrNone at h
  simp only [] at h
  split at h
  · assumption
  · split at h <;> cases h

/-- A header that is honoured (parsed to something other than `(None, None)`) has the unit `bytes` and its two
fields — the text before and after the first `-` of the value — are, after stripping SP/HTAB, empty or made of
ASCII digits only, not both empty. -/
theorem honoured_fields_digits (h : Str) (s e : Option Int) (hp : parseRange h = some (s, e))
    (hne : ¬ (s = none ∧ e = none)) :
    let v := stripWs (partition 61 h).2
    stripWs (partition 61 h).1 = bytesUnit
    ∧ (stripWs (partition 45 v).1).all isDigit = true ∧ (stripWs (partition 45 v).2).all isDigit = true
    ∧ ¬ (stripWs (partition 45 v).1 = [] ∧ stripWs (partition 45 v).2 = []) := by
  unfold parseRange at hp
  simp only [] at hp
  split at hp
  · cases hp
  · rename_i hu
    simp only [ne_eq, Decidable.not_not] at hu
    refine ⟨hu, ?_⟩
    split at hp
    · rename_i s0 e0 hs0 he0
      cases s0 with
      | none =>
        have h1 := intOrNone_none _ hs0
        cases e0 with
        | none =>
          simp at hp
          exact absurd ⟨hp.1.symm, hp.2.symm⟩ hne
        | some en =>
          have h2 := intOrNone_digits _ _ he0
          exact ⟨by rw [h1]; rfl, h2.1, fun hc => h2.2.1 hc.2⟩
      | some sn =>
        have h1 := intOrNone_digits _ _ hs0
        cases e0 with
        | none =>
          have h2 := intOrNone_none _ he0
          exact ⟨h1.1, by rw [h2]; rfl, fun hc => h1.2.1 hc.1⟩
        | some en =>
          have h2 := intOrNone_digits _ _ he0
          exact ⟨h1.1, h2.1, fun hc => h1.2.1 hc.1⟩
    · cases hp

/-- the value part (after `=`) contains a `-` -/
def hasDash (h : Str) : Bool := (partition 61 h).2.contains 45

/-- The clause of the property at full strength: every header that is not a syntactically valid single
byte-range is ignored.  FALSE of the current code (see `invalid_range_ignored_refuted`). -/
def invalid_range_ignored_full : Prop :=
  ∀ (f : File) (req : Req) (h : Str), req.range = some h → validRange h = false →
    respond f req = respond f { req with range := none }

/-- An honoured header (parsed to something other than `(None, None)`) whose value contains a `-` is a valid
single byte-range of the RFC 9110 grammar `Spec.validRange`: on headers with a dash the `partition`/`strip`
parser accepts nothing the grammar rejects. -/
theorem honoured_dash_valid (h : Str) (s e : Option Int) (hp : parseRange h = some (s, e))
    (hne : ¬ (s = none ∧ e = none)) (hd : hasDash h = true) : validRange h = true := by
  obtain ⟨hu, h1, h2, hnb⟩ := honoured_fields_digits h s e hp hne
  have hdash : 45 ∈ (partition 61 h).2 := by
    unfold hasDash at hd
    exact List.contains_iff_mem.mp hd
  exact validRange_of_fields h hu hdash (fun x hx => List.all_eq_true.mp h1 x hx)
    (fun x hx => List.all_eq_true.mp h2 x hx) hnb

/-- **invalid_range_ignored.**  The clause under the side condition that excludes the known finding (`bytes=N`
without `-`): every Range header whose value contains a `-` and that is not a syntactically valid single
byte-range (`Spec.validRange`) leaves the response exactly as it is without a Range header. -/
theorem invalid_range_ignored (f : File) (req : Req) (h : Str) (hr : req.range = some h)
    (hd : hasDash h = true) (hv : validRange h = false) :
    respond f req = respond f { req with range := none } := by
  apply unparsed_range_ignored f req h hr
  cases hp : parseRange h with
  | none => exact Or.inl hp
  | some se =>
    obtain ⟨s, e⟩ := se
    by_cases hne : s = none ∧ e = none
    · right; rw [hp, hne.1, hne.2]
    · have := honoured_dash_valid h s e hp hne hd
      rw [hv] at this; cases this

def witnessFile : File := { content := [10, 20, 30], etag := [34, 34], lastModified := [], ctype := [] }
def witnessHeader : Str := [98, 121, 116, 101, 115, 61, 49]   -- "bytes=1"

/-- `Range: bytes=1` is not a byte-range-spec, yet it is honoured as `bytes=1-` (206 instead of 200). -/
theorem invalid_range_ignored_refuted : ¬ invalid_range_ignored_full := by
  intro hfull
  have h := hfull witnessFile { range := some witnessHeader } witnessHeader rfl (by decide)
  have h2 := congrArg Resp.status h
  revert h2
  decide

/-- non-vacuity: an invalid header with a dash that is ignored, a valid one that is honoured -/
example : Ignored [98, 121, 116, 101, 115, 61, 43, 49, 45, 50] := by left; decide   -- "bytes=+1-2"
example : validRange [98, 121, 116, 101, 115, 61, 43, 49, 45, 50] = false := by decide
example : hasDash [98, 121, 116, 101, 115, 61, 43, 49, 45, 50] = true := by decide
example : hasDash [32, 98, 121, 116, 101, 115, 9, 61, 32, 49, 32, 45, 9, 50, 32] = true := by decide   -- " bytes\t= 1 -\t2 "
example : parseRange [32, 98, 121, 116, 101, 115, 9, 61, 32, 49, 32, 45, 9, 50, 32] = some (some 1, some 3) := by decide
example : validRange [32, 98, 121, 116, 101, 115, 9, 61, 32, 49, 32, 45, 9, 50, 32] = true := by decide
example : parseRange [98, 121, 116, 101, 115, 61, 49, 45, 50] = some (some 1, some 3) := by decide   -- "bytes=1-2"
example : validRange [98, 121, 116, 101, 115, 61, 49, 45, 50] = true := by decide
example : (respond witnessFile { range := some [98, 121, 116, 101, 115, 61, 49, 45, 49] }).status = 206 := by decide
example : (respond witnessFile { range := some [98, 121, 116, 101, 115, 61, 49, 45, 49] }).body = [20] := by decide
example : (respond witnessFile { range := some [98, 121, 116, 101, 115, 61, 53, 45] }).status = 416 := by decide
example : (respond witnessFile { inm := some [42] }).status = 304 := by decide

/-! ### the 304 decision -/

/-- 304 is answered exactly when `should_return_304` says so (no other path of `get` produces it). -/
theorem status_304_iff (f : File) (req : Req) :
    (respond f req).status = 304 ↔ shouldReturn304 f.etag req.inm (imsClass f.mtime req.ims) = true := by
  unfold respond
  simp only []
  split
  · rename_i h; simp [h]
  · rename_i h
    constructor
    · intro hst
      exfalso
      revert hst
      split
      · simp
      · rename_i part _ _ _
        split
        · cases part <;> simp
        · split <;> cases part <;> simp
    · intro h'; exact absurd h' h

theorem beq_notBefore (c : Ims) : (c == Ims.notBefore) = true ↔ c = .notBefore := by
  cases c <;> decide

/-- **ims_304_iff_instant.**  Without an If-None-Match value, the response is 304 exactly when an
If-Modified-Since header is present, `parsedate_to_datetime` accepts it, and the INSTANT it denotes (wall-clock
fields minus the zone offset, see `parseInstant_eq`) is not before the file's mtime. -/
theorem ims_304_iff_instant (f : File) (req : Req) (hinm : req.inm = none ∨ req.inm = some []) :
    (respond f req).status = 304 ↔
      ∃ v t, req.ims = some v ∧ Date.parseInstant v = some t ∧ f.mtime ≤ t := by
  rw [status_304_iff]
  have hs : shouldReturn304 f.etag req.inm (imsClass f.mtime req.ims) = true
      ↔ imsClass f.mtime req.ims = .notBefore := by
    rcases hinm with h | h <;> rw [h] <;> simp [shouldReturn304, beq_notBefore]
  rw [hs]
  cases hv : req.ims with
  | none =>
    constructor
    · intro h; cases h
    · rintro ⟨_, _, h, _⟩; cases h
  | some v =>
    simp only [imsClass]
    cases ht : Date.parseInstant v with
    | none =>
      constructor
      · intro h; cases h
      · rintro ⟨v', t', hv', ht', _⟩
        cases hv'; rw [ht] at ht'; cases ht'
    | some t =>
      by_cases hle : t ≥ f.mtime
      · simp only [hle, if_true]
        exact ⟨fun _ => ⟨v, t, rfl, ht, hle⟩, fun _ => by first | rfl | trivial⟩
      · simp only [hle, if_false]
        constructor
        · intro h; cases h
        · rintro ⟨v', t', hv', ht', hle'⟩
          cases hv'; rw [ht] at ht'; cases ht'; exact absurd hle' hle

/-- what `parseInstant` returns: the fields `_parsedate_tz` extracts, accepted by the constructors, as
wall-clock seconds minus the zone offset (a date without a usable zone is read as UTC). -/
theorem parseInstant_eq (v : Str) (t : Int) (h : Date.parseInstant v = some t) :
    ∃ fl, Date.parseDateTz v = some fl ∧ Date.fieldsOk fl = true
      ∧ t = Date.wallSeconds fl - (match fl.tz with | some o => o | none => 0) := by
  unfold Date.parseInstant at h
  split at h
  · rename_i fl hfl
    split at h
    · rename_i hok
      injection h with h
      refine ⟨fl, hfl, hok, ?_⟩
      rw [← h]
      unfold Date.instantOf
      cases fl.tz <;> rfl
    · cases h
  · cases h

/-- a non-empty If-None-Match decides alone: If-Modified-Since is not consulted -/
theorem inm_precedence (f : File) (req : Req) (v : Str) (hv : req.inm = some v) (hne : v ≠ []) :
    (respond f req).status = 304 ↔ checkEtag f.etag v = true := by
  rw [status_304_iff, hv]
  simp [shouldReturn304, hne]

/-- no conditional header, no 304 -/
theorem unconditional_not_304 (f : File) (req : Req) (h1 : req.inm = none) (h2 : req.ims = none) :
    (respond f req).status ≠ 304 := by
  intro h
  obtain ⟨v, _, hv, _⟩ := (ims_304_iff_instant f req (Or.inl h1)).mp h
  rw [h2] at hv; cases hv

/-- the witness of the seeded change C27-3: file modified 2022-06-01 12:00:00 UTC -/
def imsFile : File := { content := [1, 2, 3], etag := [34, 34], lastModified := [], ctype := [], mtime := 1654084800 }
def imsPlus2 : Str := Date.lit "Wed, 01 Jun 2022 13:00:00 +0200"    -- 11:00:00 UTC: the client's copy is stale
def imsGmt : Str := Date.lit "Wed, 01 Jun 2022 12:00:00 GMT"

set_option maxRecDepth 8000 in
example : Date.parseInstant imsPlus2 = some 1654081200 := by decide
set_option maxRecDepth 8000 in
example : (respond imsFile { ims := some imsPlus2 }).status = 200 := by decide
set_option maxRecDepth 8000 in
example : (respond imsFile { ims := some imsGmt }).status = 304 := by decide
set_option maxRecDepth 8000 in
example : (respond imsFile { ims := some (Date.lit "Sunday, 06-Nov-94 08:49:37 GMT") }).status = 200 := by decide
set_option maxRecDepth 8000 in
example : (respond imsFile { ims := some (Date.lit "Wed Jun  1 12:00:00 2022") }).status = 304 := by decide
set_option maxRecDepth 8000 in
example : (respond imsFile { ims := some (Date.lit "1 Jun 22 07:00 EST") }).status = 304 := by decide

end TornadoModel.C27
