import TornadoModel.C27.Spec
namespace TornadoModel.C27
end TornadoModel.C27
