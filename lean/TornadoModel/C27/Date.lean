/-
C27 — model of `email.utils.parsedate_to_datetime` (CPython 3.12 `email._parseaddr._parsedate_tz` + the
`datetime` / `timezone` constructors) and of the instant a parsed date denotes (core Lean only).

Text is a list of code points of a latin-1 string without control characters other than HTAB (what an HTTP
header value can carry).  On that alphabet
* `str.split()` separates on HTAB, LF, VT, FF, CR, FS–US, SP, NEL (0x85) and NBSP (0xA0);
* `int(tok)` of a token without whitespace accepts `[+-]?DIGIT(_?DIGIT)*` with ASCII digits only
  (latin-1 has no other `Nd` character; `²³¹` are `No`);
* `str.isdigit()` is true for ASCII digits and for `²`, `³`, `¹`;
* `lower()` / `upper()` matter only for comparisons with ASCII names, so ASCII case mapping is exact.
`none` stands for "`parsedate_to_datetime` raised" (`_parsedate_tz` returned `None`, or the `datetime` /
`timezone` constructor rejected a field): `should_return_304` catches every exception and answers `False`.
-/
namespace TornadoModel.C27.Date

abbrev S := List Nat

def lit (s : String) : S := s.toList.map Char.toNat

/-! ### Python string primitives -/

def isPyWs (c : Nat) : Bool := (9 ≤ c && c ≤ 13) || (28 ≤ c && c ≤ 32) || c == 0x85 || c == 0xa0

def splitWsAux : S → S → List S
  | [], cur => if cur.isEmpty then [] else [cur.reverse]
  | c :: cs, cur =>
    if isPyWs c then (if cur.isEmpty then splitWsAux cs [] else cur.reverse :: splitWsAux cs [])
    else splitWsAux cs (c :: cur)

/-- `s.split()` -/
def splitWs (s : S) : List S := splitWsAux s []

/-- `s.split(sep)` for a one-character separator (never empty, keeps empty pieces) -/
def splitOn (sep : Nat) : S → List S
  | [] => [[]]
  | c :: cs =>
    if c == sep then [] :: splitOn sep cs
    else match splitOn sep cs with
      | p :: ps => (c :: p) :: ps
      | [] => [[c]]

def lowerA (c : Nat) : Nat := if 65 ≤ c ∧ c ≤ 90 then c + 32 else c
def upperA (c : Nat) : Nat := if 97 ≤ c ∧ c ≤ 122 then c - 32 else c
def lower (s : S) : S := s.map lowerA
def upper (s : S) : S := s.map upperA

def isDigit (c : Nat) : Bool := 48 ≤ c && c ≤ 57
/-- `ch.isdigit()` on latin-1 -/
def pyIsDigit (c : Nat) : Bool := isDigit c || c == 0xb2 || c == 0xb3 || c == 0xb9

/-- digits with single underscores between digits; `prev` = the previous character was a digit -/
def intBody : S → Nat → Bool → Option Nat
  | [], acc, prev => if prev then some acc else none
  | c :: cs, acc, prev =>
    if isDigit c then intBody cs (10 * acc + (c - 48)) true
    else if c == 95 && prev then
      (match cs with
        | d :: _ => if isDigit d then intBody cs acc false else none
        | [] => none)
    else none

/-- `int(tok)` for a token without whitespace; `none` = ValueError -/
def pyInt (s : S) : Option Int :=
  match s with
  | 43 :: r => (intBody r 0 false).map Int.ofNat
  | 45 :: r => (intBody r 0 false).map (fun n => -(n : Int))
  | _ => (intBody s 0 false).map Int.ofNat

/-- `s[:-1]` if `s` ends with a comma -/
def dropTrailingComma (s : S) : S := if s.getLast? == some 44 then s.dropLast else s

/-- `s.find(ch)` -/
def find (ch : Nat) (s : S) : Option Nat := s.findIdx? (· == ch)

/-! ### `_parsedate_tz` -/

def dayNames : List S := ["mon", "tue", "wed", "thu", "fri", "sat", "sun"].map lit
def monthNames : List S :=
  ["jan", "feb", "mar", "apr", "may", "jun", "jul", "aug", "sep", "oct", "nov", "dec", "january", "february", "march",
   "april", "may", "june", "july", "august", "september", "october", "november", "december"].map lit
def timezones : List (S × Int) :=
  [("UT", 0), ("UTC", 0), ("GMT", 0), ("Z", 0), ("AST", -400), ("ADT", -300), ("EST", -500), ("EDT", -400),
   ("CST", -600), ("CDT", -500), ("MST", -700), ("MDT", -600), ("PST", -800), ("PDT", -700)].map (fun p => (lit p.1, p.2))

/-- `_monthnames.index(mm) + 1`, minus 12 for the long names -/
def monthNumber (mm : S) : Option Nat :=
  (monthNames.findIdx? (· == mm)).map (fun i => if i + 1 > 12 then i + 1 - 12 else i + 1)

/-- the fields `_parsedate_tz` returns: year, month (1–12), day, hour, minute, second, zone offset in
seconds (`none` = naive: no / unknown zone or `-0000`) -/
structure Fields where
  y : Int
  mo : Nat
  d : Int
  hh : Int
  mi : Int
  ss : Int
  tz : Option Int
  deriving Repr, BEq, DecidableEq

/-- step 1: drop a day name, or everything up to the last comma of the first token -/
def dropDayName : List S → List S
  | [] => []
  | d0 :: rest =>
    if d0.getLast? == some 44 || dayNames.contains (lower d0) then rest
    else (splitOn 44 d0).getLastD d0 :: rest

/-- step 2: `dd-mon-yy` (RFC 850) as the first of three tokens -/
def splitRfc850 (data : List S) : List S :=
  match data with
  | [a, b, c] =>
    let stuff := splitOn 45 a
    if stuff.length == 3 then stuff ++ [b, c] else data
  | _ => data

/-- step 3: with four tokens, cut a `+`/`-` zone off the fourth, or append a dummy zone -/
def splitZone (data : List S) : List S :=
  match data with
  | [a, b, c, s] =>
    let i := match find 43 s with | some i => some i | none => find 45 s
    match i with
    | some (i + 1) => [a, b, c, s.take (i + 1), s.drop (i + 1)]
    | _ => [a, b, c, s, []]
  | _ => data

/-- the `thh, tmm, tss` split (`tss = 0` of the dotted two-field form is `int(0)`) -/
def splitTime (tm : S) : Option (S × S × S) :=
  match splitOn 58 tm with
  | [h, m] => some (h, m, [48])
  | [h, m, s] => some (h, m, s)
  | [one] =>
    if one.contains 46 then
      match splitOn 46 one with
      | [h, m] => some (h, m, [48])
      | [h, m, s] => some (h, m, s)
      | _ => none
    else none
  | _ => none

/-- the zone: table lookup, else `int()`, `-0…` = unknown; then hhmm → seconds -/
def zoneSeconds (tz : S) : Option Int :=
  let tz := upper tz
  let off : Option Int :=
    match timezones.find? (·.1 == tz) with
    | some p => some p.2
    | none =>
      match pyInt tz with
      | some v => if v == 0 && tz.head? == some 45 then none else some v
      | none => none
  off.map (fun v =>
    if v < 0 then -(((-v) / 100) * 3600 + ((-v) % 100) * 60) else (v / 100) * 3600 + (v % 100) * 60)

def parseDateTz (s : S) : Option Fields :=
  let data := splitZone (splitRfc850 (dropDayName (splitWs s)))
  if data.length < 5 then none
  else
    match data.take 5 with
    | [dd, mm, yy, tm, tz] =>
      if dd.isEmpty || mm.isEmpty || yy.isEmpty then none
      else
        let mm := lower mm
        let dm : Option (S × Nat) :=
          match monthNumber mm with
          | some n => some (dd, n)
          | none => (monthNumber (lower dd)).map (fun n => (mm, n))
        match dm with
        | none => none
        | some (dd, mo) =>
          let dd := dropTrailingComma dd
          let (yy, tm) := match find 58 yy with | some (_ + 1) => (tm, yy) | _ => (yy, tm)
          let yyc := dropTrailingComma yy
          if yyc.isEmpty then none
          else
            let (yy, tz) := if (yyc.head?.map pyIsDigit) == some true then (yyc, tz) else (tz, yyc)
            let tm := dropTrailingComma tm
            match splitTime tm with
            | none => none
            | some (thh, tmm, tss) =>
              match pyInt yy, pyInt dd, pyInt thh, pyInt tmm, pyInt tss with
              | some y, some d, some hh, some mi, some ss =>
                let y := if y < 100 then (if y > 68 then y + 1900 else y + 2000) else y
                some { y := y, mo := mo, d := d, hh := hh, mi := mi, ss := ss, tz := zoneSeconds tz }
              | _, _, _, _, _ => none
    | _ => none

/-! ### `datetime(...)`, `timezone(timedelta(seconds=tz))`, and the instant -/

def isLeap (y : Int) : Bool := y % 4 == 0 && (y % 100 != 0 || y % 400 == 0)

def daysInMonth (y : Int) (m : Nat) : Int :=
  match m with
  | 2 => if isLeap y then 29 else 28
  | 4 | 6 | 9 | 11 => 30
  | _ => 31

def daysBeforeMonth (y : Int) (m : Nat) : Int :=
  ((List.range (m - 1)).map (fun i => daysInMonth y (i + 1))).foldl (· + ·) 0

/-- proleptic Gregorian ordinal (`date.toordinal()`), for `y ≥ 1` -/
def ordinal (y : Int) (m : Nat) (d : Int) : Int :=
  let y1 := y - 1
  365 * y1 + y1 / 4 - y1 / 100 + y1 / 400 + daysBeforeMonth y m + d

/-- seconds since 1970-01-01T00:00:00 of the wall-clock fields read as UTC -/
def wallSeconds (f : Fields) : Int :=
  (ordinal f.y f.mo f.d - 719163) * 86400 + f.hh * 3600 + f.mi * 60 + f.ss

/-- the constructors accept the fields -/
def fieldsOk (f : Fields) : Bool :=
  1 ≤ f.y && f.y ≤ 9999 && 1 ≤ f.mo && f.mo ≤ 12 && 1 ≤ f.d && f.d ≤ daysInMonth f.y f.mo
  && 0 ≤ f.hh && f.hh ≤ 23 && 0 ≤ f.mi && f.mi ≤ 59 && 0 ≤ f.ss && f.ss ≤ 59
  && (match f.tz with | some o => -86400 < o && o < 86400 | none => true)

/-- the instant (seconds since the epoch) `should_return_304` compares with the mtime: an aware datetime
denotes wall clock minus offset, a naive one is taken as UTC -/
def instantOf (f : Fields) : Int := wallSeconds f - f.tz.getD 0

/-- `parsedate_to_datetime(v)` as an instant; `none` = it raised -/
def parseInstant (v : S) : Option Int :=
  match parseDateTz v with
  | some f => if fieldsOk f then some (instantOf f) else none
  | none => none

end TornadoModel.C27.Date
