/- C40 helper lemmas: reachability and invariant induction. -/
import TornadoModel.C40.Spec
namespace TornadoModel.C40

/-- `s` is reachable: some interleaving of atomic steps of the two threads (and the environment) leads to it -/
def Reach (s : St) : Prop := ∃ evs, run init evs = some s

theorem run_inv (P : St → Prop) (hstep : ∀ s ev s', P s → step s ev = some s' → P s') :
    ∀ evs s s', P s → run s evs = some s' → P s' := by
  intro evs
  induction evs with
  | nil => intro s s' hp h; simp only [run, Option.some.injEq] at h; exact h ▸ hp
  | cons e es ih =>
    intro s s' hp h
    simp only [run] at h
    cases hs : step s e with
    | none => simp [hs] at h
    | some s1 => rw [hs] at h; exact ih s1 s' (hstep s e s1 hp hs) h

theorem reach_inv (P : St → Prop) (h0 : P init) (hstep : ∀ s ev s', P s → step s ev = some s' → P s')
    (s : St) (hr : Reach s) : P s := by
  obtain ⟨evs, h⟩ := hr
  exact run_inv P hstep evs init s h0 h

theorem reach_step {s s' : St} {ev : Ev} (hr : Reach s) (h : step s ev = some s') : Reach s' := by
  obtain ⟨evs, he⟩ := hr
  refine ⟨evs ++ [ev], ?_⟩
  have : ∀ (es : List Ev) (a : St), run a es = some s → run a (es ++ [ev]) = some s' := by
    intro es
    induction es with
    | nil => intro a ha; simp only [run, Option.some.injEq] at ha; subst ha; simp [run, h]
    | cons e es ih =>
      intro a ha
      simp only [run, List.cons_append] at ha ⊢
      cases hs : step a e with
      | none => simp [hs] at ha
      | some a1 => rw [hs] at ha; simp only []; exact ih a1 ha
  exact this evs init he

theorem mem_insertKey (l : List Fd) (fd x : Fd) (h : x ∈ l) : x ∈ insertKey l fd := by
  unfold insertKey; split <;> simp [h]

theorem mem_filter_ne (l : List Fd) (fd x : Fd) (h : x ∈ l) (hne : x ≠ fd) : x ∈ l.filter (· != fd) := by
  simp [List.mem_filter, h, hne]

theorem filter_absent (l : List Fd) (fd : Fd) (h : l.contains fd = false) : l.filter (· != fd) = l := by
  induction l with
  | nil => rfl
  | cons a l ih =>
    simp only [List.contains_cons, Bool.or_eq_false_iff] at h
    have h1 : (a != fd) = true := by
      have := h.1
      simp only [beq_eq_false_iff_ne, ne_eq] at this
      simp [bne, Ne.symm this]
    simp only [List.filter_cons, h1, ↓reduceIte]
    rw [ih h.2]

end TornadoModel.C40
