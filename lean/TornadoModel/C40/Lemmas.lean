/- C40 helper lemmas: reachability and invariant induction. -/
import TornadoModel.C40.Spec
namespace TornadoModel.C40

/-- `s` is reachable: some interleaving of atomic steps of the two threads (and the environment) leads to it -/
def Reach (s : St) : Prop := ∃ evs, run init evs = some s

theorem run_inv (P : St → Prop) (hstep : ∀ s ev s', P s → step s ev = some s' → P s') :
    ∀ evs s s', P s → run s evs = some s' → P s' := by
  intro evs
  induction evs with
  | nil => intro s s' hp h; simp only [run, Option.some.injEq] at h; exact h ▸ hp
  | cons e es ih =>
    intro s s' hp h
    simp only [run] at h
    cases hs : step s e with
    | none => simp [hs] at h
    | some s1 => rw [hs] at h; exact ih s1 s' (hstep s e s1 hp hs) h

theorem reach_inv (P : St → Prop) (h0 : P init) (hstep : ∀ s ev s', P s → step s ev = some s' → P s')
    (s : St) (hr : Reach s) : P s := by
  obtain ⟨evs, h⟩ := hr
  exact run_inv P hstep evs init s h0 h

theorem reach_step {s s' : St} {ev : Ev} (hr : Reach s) (h : step s ev = some s') : Reach s' := by
  obtain ⟨evs, he⟩ := hr
  refine ⟨evs ++ [ev], ?_⟩
  have : ∀ (es : List Ev) (a : St), run a es = some s → run a (es ++ [ev]) = some s' := by
    intro es
    induction es with
    | nil => intro a ha; simp only [run, Option.some.injEq] at ha; subst ha; simp [run, h]
    | cons e es ih =>
      intro a ha
      simp only [run, List.cons_append] at ha ⊢
      cases hs : step a e with
      | none => simp [hs] at ha
      | some a1 => rw [hs] at ha; simp only []; exact ih a1 ha
  exact this evs init he

theorem mem_insertKey (l : List Fd) (fd x : Fd) (h : x ∈ l) : x ∈ insertKey l fd := by
  unfold insertKey; split <;> simp [h]

theorem mem_filter_ne (l : List Fd) (fd x : Fd) (h : x ∈ l) (hne : x ≠ fd) : x ∈ l.filter (· != fd) := by
  simp [List.mem_filter, h, hne]

theorem filter_absent (l : List Fd) (fd : Fd) (h : l.contains fd = false) : l.filter (· != fd) = l := by
  induction l with
  | nil => rfl
  | cons a l ih =>
    simp only [List.contains_cons, Bool.or_eq_false_iff] at h
    have h1 : (a != fd) = true := by
      have := h.1
      simp only [beq_eq_false_iff_ne, ne_eq] at this
      simp [bne, Ne.symm this]
    simp only [List.filter_cons, h1, ↓reduceIte]
    rw [ih h.2]

/-! ### token uniqueness -/
def tokA : Option Sets → Nat | some _ => 1 | none => 0
def tokS : SPc → Nat | .selecting _ => 1 | .selected _ => 1 | _ => 0
def tokL : LPc → Nat | .handling _ _ => 1 | _ => 0

@[simp] theorem tokA_some (a : Sets) : tokA (some a) = 1 := rfl
@[simp] theorem tokA_none : tokA none = 0 := rfl
@[simp] theorem tokS_idle : tokS .idle = 0 := rfl
@[simp] theorem tokS_exited : tokS .exited = 0 := rfl
@[simp] theorem tokS_selecting (a : Sets) : tokS (.selecting a) = 1 := rfl
@[simp] theorem tokS_selected (a : Sets) : tokS (.selected a) = 1 := rfl
@[simp] theorem tokL_fresh : tokL .fresh = 0 := rfl
@[simp] theorem tokL_running : tokL .running = 0 := rfl
@[simp] theorem tokL_handling (a b : List Fd) : tokL (.handling a b) = 1 := rfl
@[simp] theorem tokL_closing : tokL .closing = 0 := rfl
@[simp] theorem tokL_joining : tokL .joining = 0 := rfl
@[simp] theorem tokL_joined : tokL .joined = 0 := rfl
@[simp] theorem tokL_closed : tokL .closed = 0 := rfl

theorem tokA_zero {a : Option Sets} (h : tokA a = 0) : a = none := by
  cases a <;> simp_all

/-- number of places that currently hold "the right to run one select": arguments posted in `_select_args`, the
selector thread between taking them and reporting, a `_handle_select` callback queued on the loop, the loop thread
inside `_handle_select`. -/
def tokens (s : St) : Nat := tokA s.args + tokS s.spc + s.queue.length + tokL s.lpc

end TornadoModel.C40
