/-
C40 — two-thread transition system for `tornado.platform.asyncio.SelectorThread`.

Threads: L = the event-loop thread (add/remove reader/writer + wake, the `_handle_select` callback with its
dispatch loop and the closing `_start_select`, `close`), S = the selector thread (`_run_select`).
Shared: `_select_args` (guarded by `_select_cond`), `_closing_selector`, the waker socket's byte count, the
loop's callback queue (`call_soon_threadsafe`).  Every event below is one atomic step: it is either done while
holding `_select_cond`, or is a single thread-safe primitive (socket send/recv, select returning,
call_soon_threadsafe), or touches state only its own thread reads.

`step : St → Ev → Option St` is an *acceptor*: `none` means "this event cannot happen here" (for events that
carry results — what was captured, taken, selected, consumed — the result must be the one the model computes).
The only place where the code itself can fail, `assert self._select_args is None`, sets `failed`.
-/
namespace TornadoModel.C40

abbrev Fd := Nat
/-- the read end of the waker socketpair -/
def waker : Fd := 0

structure Sets where
  r : List Fd
  w : List Fd
  deriving DecidableEq, Repr

/-- program counter of the selector thread -/
inductive SPc
  | idle                      -- at the top of the loop / inside `_select_cond.wait()`
  | selecting (a : Sets)      -- took `a`, released the lock: about to call / inside `select.select`
  | selected (res : Sets)     -- select returned `res`, `call_soon_threadsafe` not yet done
  | exited
  deriving DecidableEq, Repr

/-- program counter of the loop thread -/
inductive LPc
  | fresh                                 -- selector thread not started yet
  | running                               -- between callbacks
  | handling (todoR todoW : List Fd)      -- inside `_handle_select`, these fds still to be looked at
  | closing                               -- `close`: flag set + notified, wake not yet sent
  | joining                               -- `close`: inside `thread.join()`
  | joined                                -- `close`: join returned
  | closed
  deriving DecidableEq, Repr

structure St where
  readers : List Fd           -- keys of `_readers` (dict order)
  writers : List Fd
  args : Option Sets          -- `_select_args`
  closingFlag : Bool          -- `_closing_selector`
  bytes : Nat                 -- unread bytes in the waker socket
  queue : List Sets           -- `_handle_select(rs, ws)` callbacks queued on the loop, FIFO
  spc : SPc
  lpc : LPc
  pendingWake : Bool          -- L has changed a registration and is about to call `_wake_selector`
  readyR : List Fd            -- environment: fds readable / writable right now
  readyW : List Fd
  failed : Bool               -- `assert self._select_args is None` failed
  deriving DecidableEq, Repr

def init : St :=
  { readers := [waker], writers := [], args := none, closingFlag := false, bytes := 1, queue := [],
    spc := .idle, lpc := .fresh, pendingWake := false, readyR := [], readyW := [], failed := false }
-- `__init__` ends with `add_reader(self._waker_r, …)`, which also wakes: one byte is in the waker from the start.

inductive Ev
  | start (a : Sets)                      -- L: thread started and first `_start_select()` posted `a`
  | addReader (fd : Fd) | addWriter (fd : Fd)
  | removeReader (fd : Fd) (found : Bool) | removeWriter (fd : Fd) (found : Bool)
  | wake                                  -- L: `_waker_w.send(b"a")`
  | handleBegin (res : Sets)              -- L: the loop runs the queued `_handle_select(res)`
  | dispatch (isW : Bool) (fd : Fd)       -- L: the registered callback of `fd` is called
  | consume (n : Nat)                     -- L: `_consume_waker` read `n` bytes
  | raised                                -- L: the callback just called raised: reported to the loop's exception
                                          --    handler by `_handle_event`; the round goes on with the next fd
  | post (a : Sets)                       -- L: `_start_select()` at the end of `_handle_select`
  | setClosing | joined | closed          -- L: stages of `close()`
  | ready (isW : Bool) (fd : Fd) | unready (isW : Bool) (fd : Fd)    -- environment
  | take (a : Sets) | sexit | selected (res : Sets) | report (res : Sets)   -- S
  | ebadf                                 -- S: `select` raised EBADF/WSAENOTSOCK (a captured fd was closed after it
                                          --    had been unregistered) and the poll of the waker alone found it readable:
                                          --    the recovery branch of `_run_select` goes on to report `([waker fileno], [])`
  deriving DecidableEq, Repr

def Ev.isS : Ev → Bool
  | .take _ | .sexit | .selected _ | .report _ => true
  | _ => false

def insertKey (l : List Fd) (fd : Fd) : List Fd := if l.contains fd then l else l ++ [fd]
def current (s : St) : Sets := { r := s.readers, w := s.writers }

/-- what `select.select(a.r, a.w, a.w)` returns right now (input order is preserved) -/
def selectResult (s : St) (a : Sets) : Sets :=
  { r := a.r.filter (fun fd => if fd = waker then s.bytes > 0 else s.readyR.contains fd),
    w := a.w.filter (fun fd => s.readyW.contains fd) }

def Sets.isEmpty (a : Sets) : Bool := a.r.isEmpty && a.w.isEmpty

/-- some captured fd is no longer registered.  Only such an fd can have been closed (closing an fd that is still
registered is a caller error outside the property), so only then can `select` fail with EBADF. -/
def stale (s : St) (a : Sets) : Bool :=
  a.r.any (fun fd => !s.readers.contains fd) || a.w.any (fun fd => !s.writers.contains fd)

/-- what the EBADF recovery branch reports: `rs = [self._waker_r.fileno()]`, `ws = []`.  The bare descriptor number is
not a key of `_readers` (the waker is registered as the socket *object*), so `_handle_event` finds no callback for
it: as far as `_handle_select` is concerned the round is empty — it dispatches nothing, does not even consume the
waker, and only posts the next select with the updated sets. -/
def recovered : Sets := { r := [], w := [] }

/-- L may start something new only between callbacks and with no wake owed -/
def lFree (s : St) : Bool := s.lpc == .running && !s.pendingWake
/-- registrations may be changed between callbacks or from inside a callback -/
def lMayMutate (s : St) : Bool :=
  !s.pendingWake && (match s.lpc with | .running => true | .handling _ _ => true | _ => false)

def skipUnreg (reg : List Fd) (todo : List Fd) : List Fd := todo.dropWhile (fun fd => !reg.contains fd)

def step (s : St) : Ev → Option St
  | .start a =>
    if s.lpc == .fresh && !s.pendingWake && a == current s then
      some { s with lpc := .running, args := some a, failed := s.failed || s.args.isSome }
    else none
  | .addReader fd =>
    if lMayMutate s && fd != waker then some { s with readers := insertKey s.readers fd, pendingWake := true } else none
  | .addWriter fd =>
    if lMayMutate s then some { s with writers := insertKey s.writers fd, pendingWake := true } else none
  | .removeReader fd found =>
    if s.lpc == .joined && fd == waker && found && !s.pendingWake then
      some { s with readers := s.readers.filter (· != fd), pendingWake := true }
    else if lMayMutate s && fd != waker && found == s.readers.contains fd then
      some { s with readers := s.readers.filter (· != fd), pendingWake := found }
    else none
  | .removeWriter fd found =>
    if lMayMutate s && found == s.writers.contains fd then
      some { s with writers := s.writers.filter (· != fd), pendingWake := found }
    else none
  | .wake =>
    if s.pendingWake then some { s with bytes := s.bytes + 1, pendingWake := false }
    else if s.lpc == .closing then some { s with bytes := s.bytes + 1, lpc := .joining }
    else none
  | .handleBegin res =>
    match s.queue with
    | q :: rest => if lFree s && q == res then some { s with queue := rest, lpc := .handling res.r res.w } else none
    | [] => none
  | .dispatch isW fd =>
    if s.pendingWake then none else
    match s.lpc with
    | .handling todoR todoW =>
      if isW then
        match skipUnreg s.readers todoR, skipUnreg s.writers todoW with
        | [], x :: rest => if x == fd then some { s with lpc := .handling [] rest } else none
        | _, _ => none
      else
        match skipUnreg s.readers todoR with
        | x :: rest => if x == fd && fd != waker then some { s with lpc := .handling rest todoW } else none
        | [] => none
    | _ => none
  | .consume n =>
    if s.pendingWake then none else
    match s.lpc with
    | .handling todoR todoW =>
      match skipUnreg s.readers todoR with
      | x :: rest =>
        if x == waker && n == min s.bytes 1024 then some { s with lpc := .handling rest todoW, bytes := s.bytes - n }
        else none
      | [] => none
    | _ => none
  | .raised =>
    if s.pendingWake then none else
    match s.lpc with
    | .handling _ _ => some s
    | _ => none
  | .post a =>
    if s.pendingWake then none else
    match s.lpc with
    | .handling todoR todoW =>
      if (skipUnreg s.readers todoR).isEmpty && (skipUnreg s.writers todoW).isEmpty && a == current s then
        some { s with lpc := .running, args := some a, failed := s.failed || s.args.isSome }
      else none
    | _ => none
  | .setClosing => if lFree s then some { s with lpc := .closing, closingFlag := true } else none
  | .joined => if s.lpc == .joining && s.spc == .exited then some { s with lpc := .joined } else none
  | .closed => if s.lpc == .joined && !s.pendingWake && !s.readers.contains waker then some { s with lpc := .closed } else none
  | .ready isW fd =>
    if fd == waker then none
    else if isW then some { s with readyW := insertKey s.readyW fd } else some { s with readyR := insertKey s.readyR fd }
  | .unready isW fd =>
    if isW then some { s with readyW := s.readyW.filter (· != fd) } else some { s with readyR := s.readyR.filter (· != fd) }
  | .take a =>
    if s.spc == .idle && s.lpc != .fresh && !s.closingFlag && s.args == some a then
      some { s with args := none, spc := .selecting a }
    else none
  | .sexit =>
    if s.spc == .idle && s.lpc != .fresh && s.closingFlag then some { s with spc := .exited } else none
  | .selected res =>
    match s.spc with
    | .selecting a =>
      if res == selectResult s a && !res.isEmpty then some { s with spc := .selected res } else none
    | _ => none
  | .report res =>
    match s.spc with
    | .selected r => if r == res then some { s with spc := .idle, queue := s.queue ++ [res] } else none
    | _ => none
  | .ebadf =>
    -- `except OSError`: `select([waker], [], [], 0)` finds the waker readable → `ws = []`, fall through to the report
    -- (waker not readable → the error is re-raised and the thread dies: not a transition, see `ebadf_recovers`)
    match s.spc with
    | .selecting a => if stale s a && s.bytes > 0 then some { s with spc := .selected recovered } else none
    | _ => none

def run : St → List Ev → Option St
  | s, [] => some s
  | s, e :: es => match step s e with | some s' => run s' es | none => none

/-- index of the first event the model does not accept (for diagnostics), with the state before it -/
def firstReject : St → List Ev → Nat → Option (Nat × St)
  | _, [], _ => none
  | s, e :: es, i => match step s e with | some s' => firstReject s' es (i + 1) | none => some (i, s)

end TornadoModel.C40
