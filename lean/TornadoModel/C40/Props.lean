/-
C40 — property theorems for the two-thread model of `SelectorThread` (C40/Model.lean).
All theorems are about every reachable state: any number of fds, any interleaving of the atomic steps of the loop
thread, the selector thread and the environment (invariant induction over `step`).
-/
import TornadoModel.C40.Lemmas
namespace TornadoModel.C40

/-! ### token uniqueness -/
def tokA : Option Sets → Nat | some _ => 1 | none => 0
def tokS : SPc → Nat | .selecting _ => 1 | .selected _ => 1 | _ => 0
def tokL : LPc → Nat | .handling _ _ => 1 | _ => 0

@[simp] theorem tokA_some (a : Sets) : tokA (some a) = 1 := rfl
@[simp] theorem tokA_none : tokA none = 0 := rfl
@[simp] theorem tokS_idle : tokS .idle = 0 := rfl
@[simp] theorem tokS_exited : tokS .exited = 0 := rfl
@[simp] theorem tokS_selecting (a : Sets) : tokS (.selecting a) = 1 := rfl
@[simp] theorem tokS_selected (a : Sets) : tokS (.selected a) = 1 := rfl
@[simp] theorem tokL_fresh : tokL .fresh = 0 := rfl
@[simp] theorem tokL_running : tokL .running = 0 := rfl
@[simp] theorem tokL_handling (a b : List Fd) : tokL (.handling a b) = 1 := rfl
@[simp] theorem tokL_closing : tokL .closing = 0 := rfl
@[simp] theorem tokL_joining : tokL .joining = 0 := rfl
@[simp] theorem tokL_joined : tokL .joined = 0 := rfl
@[simp] theorem tokL_closed : tokL .closed = 0 := rfl

theorem tokA_zero {a : Option Sets} (h : tokA a = 0) : a = none := by
  cases a <;> simp_all

/-- number of places that currently hold "the right to run one select": arguments posted in `_select_args`, the
selector thread between taking them and reporting, a `_handle_select` callback queued on the loop, the loop thread
inside `_handle_select`. -/
def tokens (s : St) : Nat := tokA s.args + tokS s.spc + s.queue.length + tokL s.lpc

def InvTok (s : St) : Prop := s.failed = false ∧ tokens s = (if s.lpc = .fresh then 0 else 1)

theorem invTok_init : InvTok init := by simp [InvTok, tokens, init]

/-- guards of `step`, as propositions -/
theorem lFree_iff (s : St) : lFree s = true ↔ s.lpc = .running ∧ s.pendingWake = false := by
  simp [lFree]

theorem lMayMutate_iff (s : St) :
    lMayMutate s = true ↔ s.pendingWake = false ∧ (s.lpc = .running ∨ ∃ a b, s.lpc = .handling a b) := by
  unfold lMayMutate
  cases s.lpc <;> simp

theorem invTok_step (s : St) (ev : Ev) (s' : St) (hi : InvTok s) (h : step s ev = some s') : InvTok s' := by
  obtain ⟨hf, ht⟩ := hi
  unfold tokens at ht
  cases ev with
  | start a =>
    simp only [step] at h
    split at h
    · rename_i hc
      simp only [Option.some.injEq] at h; subst h
      simp only [Bool.and_eq_true, beq_iff_eq] at hc
      obtain ⟨⟨hl, -⟩, -⟩ := hc
      simp only [hl, ↓reduceIte, tokL_fresh] at ht
      have ha : s.args = none := tokA_zero (by omega)
      have hq : s.queue.length = 0 := by omega
      have hs : tokS s.spc = 0 := by omega
      simp [InvTok, tokens, hf, ha, hq, hs]
    · simp at h
  | addReader fd =>
    simp only [step] at h
    split at h
    · simp only [Option.some.injEq] at h; subst h; exact ⟨hf, ht⟩
    · simp at h
  | addWriter fd =>
    simp only [step] at h
    split at h
    · simp only [Option.some.injEq] at h; subst h; exact ⟨hf, ht⟩
    · simp at h
  | removeReader fd found =>
    simp only [step] at h
    split at h
    · simp only [Option.some.injEq] at h; subst h; exact ⟨hf, ht⟩
    · split at h
      · simp only [Option.some.injEq] at h; subst h; exact ⟨hf, ht⟩
      · simp at h
  | removeWriter fd found =>
    simp only [step] at h
    split at h
    · simp only [Option.some.injEq] at h; subst h; exact ⟨hf, ht⟩
    · simp at h
  | wake =>
    simp only [step] at h
    split at h
    · simp only [Option.some.injEq] at h; subst h; exact ⟨hf, ht⟩
    · split at h
      · rename_i hc
        simp only [beq_iff_eq] at hc
        simp only [Option.some.injEq] at h; subst h
        simp_all [InvTok, tokens]
      · simp at h
  | handleBegin res =>
    simp only [step] at h
    split at h
    · rename_i q rest hq
      split at h
      · rename_i hc
        simp only [Bool.and_eq_true, lFree_iff] at hc
        obtain ⟨⟨hl, -⟩, -⟩ := hc
        simp only [Option.some.injEq] at h; subst h
        simp only [hl, hq, List.length_cons, tokL_running] at ht
        have hne : ¬ (LPc.running = LPc.fresh) := by simp
        simp only [hne, ↓reduceIte] at ht
        refine ⟨hf, ?_⟩
        simp only [tokens, tokL_handling]
        have hne2 : ¬ (LPc.handling res.r res.w = LPc.fresh) := by simp
        simp only [hne2, ↓reduceIte]
        omega
      · simp at h
    · simp at h
  | dispatch isW fd =>
    simp only [step] at h
    split at h
    · simp at h
    · split at h
      · rename_i todoR todoW hl
        split at h
        · split at h
          · split at h
            · simp only [Option.some.injEq] at h; subst h
              simp_all [InvTok, tokens]
            · simp at h
          · simp at h
        · split at h
          · split at h
            · simp only [Option.some.injEq] at h; subst h
              simp_all [InvTok, tokens]
            · simp at h
          · simp at h
      · simp at h
  | consume n =>
    simp only [step] at h
    split at h
    · simp at h
    · split at h
      · split at h
        · split at h
          · simp only [Option.some.injEq] at h; subst h
            simp_all [InvTok, tokens]
          · simp at h
        · simp at h
      · simp at h
  | raised =>
    simp only [step] at h
    split at h
    · simp at h
    · split at h
      · simp only [Option.some.injEq] at h; subst h
        exact ⟨hf, ht⟩
      · simp at h
  | post a =>
    simp only [step] at h
    split at h
    · simp at h
    · split at h
      · rename_i todoR todoW hl
        split at h
        · simp only [Option.some.injEq] at h; subst h
          simp only [hl, tokL_handling] at ht
          have hne : ¬ (LPc.handling todoR todoW = LPc.fresh) := by simp
          simp only [hne, ↓reduceIte] at ht
          have ha : s.args = none := tokA_zero (by omega)
          have hq : s.queue.length = 0 := by omega
          have hs : tokS s.spc = 0 := by omega
          simp [InvTok, tokens, hf, ha, hq, hs]
        · simp at h
      · simp at h
  | setClosing =>
    simp only [step] at h
    split at h
    · rename_i hc
      simp only [lFree_iff] at hc
      simp only [Option.some.injEq] at h; subst h
      simp_all [InvTok, tokens]
    · simp at h
  | joined =>
    simp only [step] at h
    split at h
    · rename_i hc
      simp only [Bool.and_eq_true, beq_iff_eq] at hc
      simp only [Option.some.injEq] at h; subst h
      simp_all [InvTok, tokens]
    · simp at h
  | closed =>
    simp only [step] at h
    split at h
    · rename_i hc
      simp only [Bool.and_eq_true, beq_iff_eq] at hc
      simp only [Option.some.injEq] at h; subst h
      simp_all [InvTok, tokens]
    · simp at h
  | ready isW fd =>
    simp only [step] at h
    split at h
    · simp at h
    · split at h <;> (simp only [Option.some.injEq] at h; subst h; exact ⟨hf, ht⟩)
  | unready isW fd =>
    simp only [step] at h
    split at h <;> (simp only [Option.some.injEq] at h; subst h; exact ⟨hf, ht⟩)
  | take a =>
    simp only [step] at h
    split at h
    · rename_i hc
      simp only [Bool.and_eq_true, beq_iff_eq, bne_iff_ne, ne_eq, Bool.not_eq_true'] at hc
      obtain ⟨⟨⟨h1, h2⟩, h3⟩, h4⟩ := hc
      simp only [Option.some.injEq] at h; subst h
      simp_all [InvTok, tokens]
    · simp at h
  | sexit =>
    simp only [step] at h
    split at h
    · rename_i hc
      simp only [Bool.and_eq_true, beq_iff_eq, bne_iff_ne, ne_eq] at hc
      simp only [Option.some.injEq] at h; subst h
      simp_all [InvTok, tokens]
    · simp at h
  | selected res =>
    simp only [step] at h
    split at h
    · split at h
      · simp only [Option.some.injEq] at h; subst h
        simp_all [InvTok, tokens]
      · simp at h
    · simp at h
  | report res =>
    simp only [step] at h
    split at h
    · split at h
      · simp only [Option.some.injEq] at h; subst h
        simp_all [InvTok, tokens]
        omega
      · simp at h
    · simp at h

/-! ### the wake invariant -/

/-- (1) the waker stays registered until `close` removes it; (2) every captured fd set (posted, or being selected
on) contains the waker, and if it differs from the current registrations then a wake-up byte is in the waker — or
the loop thread is just about to send one. -/
def InvWake (s : St) : Prop :=
  (s.lpc ≠ .joined → s.lpc ≠ .closed → waker ∈ s.readers) ∧
  (∀ a, (s.args = some a ∨ s.spc = .selecting a) →
      waker ∈ a.r ∧ (a ≠ current s → s.bytes > 0 ∨ s.pendingWake = true))

theorem invWake_init : InvWake init := by
  refine ⟨fun _ _ => by simp [init], ?_⟩
  intro a h
  simp [init] at h

/-- in a state that holds the token on the loop side (or has none yet), nothing is captured -/
theorem no_capture_of_tok (s : St) (ht : tokens s = tokL s.lpc) (a : Sets) :
    ¬ (s.args = some a ∨ s.spc = .selecting a) := by
  unfold tokens at ht
  rintro (h | h)
  · simp [h] at ht
  · simp [h] at ht

theorem invWake_step (s : St) (ev : Ev) (s' : St) (hi : InvTok s) (hw : InvWake s)
    (h : step s ev = some s') : InvWake s' := by
  obtain ⟨hf, ht⟩ := hi
  obtain ⟨hw1, hw2⟩ := hw
  cases ev with
  | start a =>
    simp only [step] at h
    split at h
    · rename_i hc
      simp only [Option.some.injEq] at h; subst h
      simp only [Bool.and_eq_true, beq_iff_eq, Bool.not_eq_true'] at hc
      obtain ⟨⟨hl, hp⟩, ha⟩ := hc
      have hnc := no_capture_of_tok s (by rw [ht, hl]; simp)
      have hwk : waker ∈ s.readers := hw1 (by simp [hl]) (by simp [hl])
      refine ⟨fun _ _ => hwk, ?_⟩
      intro b hb
      simp only [Option.some.injEq] at hb
      rcases hb with hb | hb
      · subst hb
        subst ha
        exact ⟨hwk, fun hne => absurd rfl hne⟩
      · exact absurd (Or.inr hb) (hnc b)
    · simp at h
  | addReader fd =>
    simp only [step] at h
    split at h
    · simp only [Option.some.injEq] at h; subst h
      refine ⟨fun h1 h2 => mem_insertKey _ _ _ (hw1 h1 h2), fun a ha => ⟨(hw2 a ha).1, fun _ => Or.inr rfl⟩⟩
    · simp at h
  | addWriter fd =>
    simp only [step] at h
    split at h
    · simp only [Option.some.injEq] at h; subst h
      refine ⟨hw1, fun a ha => ⟨(hw2 a ha).1, fun _ => Or.inr rfl⟩⟩
    · simp at h
  | removeReader fd found =>
    simp only [step] at h
    split at h
    · rename_i hc
      simp only [Bool.and_eq_true, beq_iff_eq] at hc
      simp only [Option.some.injEq] at h; subst h
      refine ⟨fun h1 => absurd hc.1.1.1 h1, fun a ha => ⟨(hw2 a ha).1, fun _ => Or.inr rfl⟩⟩
    · split at h
      · rename_i hc
        simp only [Bool.and_eq_true, lMayMutate_iff, bne_iff_ne, ne_eq, beq_iff_eq] at hc
        obtain ⟨⟨⟨hp, hl⟩, hne⟩, hfound⟩ := hc
        simp only [Option.some.injEq] at h; subst h
        refine ⟨fun h1 h2 => mem_filter_ne _ _ _ (hw1 h1 h2) (fun x => hne x.symm), ?_⟩
        intro a ha
        refine ⟨(hw2 a ha).1, fun hne2 => ?_⟩
        cases hfd : found with
        | true => exact Or.inr rfl
        | false =>
          left
          have hab : s.readers.contains fd = false := by rw [← hfound, hfd]
          have : a ≠ current s := by
            intro heq
            apply hne2
            simp only [current, filter_absent _ _ hab]
            exact heq
          rcases (hw2 a ha).2 this with hb | hb
          · exact hb
          · rw [hp] at hb; exact absurd hb (by simp)
      · simp at h
  | removeWriter fd found =>
    simp only [step] at h
    split at h
    · rename_i hc
      simp only [Bool.and_eq_true, lMayMutate_iff, beq_iff_eq] at hc
      obtain ⟨⟨hp, hl⟩, hfound⟩ := hc
      simp only [Option.some.injEq] at h; subst h
      refine ⟨hw1, ?_⟩
      intro a ha
      refine ⟨(hw2 a ha).1, fun hne2 => ?_⟩
      cases hfd : found with
      | true => exact Or.inr rfl
      | false =>
        left
        have hab : s.writers.contains fd = false := by rw [← hfound, hfd]
        have : a ≠ current s := by
          intro heq
          apply hne2
          simp only [current, filter_absent _ _ hab]
          exact heq
        rcases (hw2 a ha).2 this with hb | hb
        · exact hb
        · rw [hp] at hb; exact absurd hb (by simp)
    · simp at h
  | wake =>
    simp only [step] at h
    split at h
    · simp only [Option.some.injEq] at h; subst h
      exact ⟨hw1, fun a ha => ⟨(hw2 a ha).1, fun _ => Or.inl (Nat.succ_pos _)⟩⟩
    · split at h
      · rename_i hc
        simp only [beq_iff_eq] at hc
        simp only [Option.some.injEq] at h; subst h
        exact ⟨fun _ _ => hw1 (by simp [hc]) (by simp [hc]), fun a ha => ⟨(hw2 a ha).1, fun _ => Or.inl (Nat.succ_pos _)⟩⟩
      · simp at h
  | handleBegin res =>
    simp only [step] at h
    split at h
    · split at h
      · rename_i hc
        simp only [Bool.and_eq_true, lFree_iff] at hc
        simp only [Option.some.injEq] at h; subst h
        exact ⟨fun _ _ => hw1 (by simp [hc.1.1]) (by simp [hc.1.1]), fun a ha => hw2 a ha⟩
      · simp at h
    · simp at h
  | dispatch isW fd =>
    simp only [step] at h
    split at h
    · simp at h
    · split at h
      · rename_i todoR todoW hl
        have hwk : waker ∈ s.readers := hw1 (by simp [hl]) (by simp [hl])
        split at h
        · split at h
          · split at h
            · simp only [Option.some.injEq] at h; subst h
              exact ⟨fun _ _ => hwk, fun a ha => hw2 a ha⟩
            · simp at h
          · simp at h
        · split at h
          · split at h
            · simp only [Option.some.injEq] at h; subst h
              exact ⟨fun _ _ => hwk, fun a ha => hw2 a ha⟩
            · simp at h
          · simp at h
      · simp at h
  | consume n =>
    simp only [step] at h
    split at h
    · simp at h
    · split at h
      · rename_i todoR todoW hl
        have hwk : waker ∈ s.readers := hw1 (by simp [hl]) (by simp [hl])
        have hnc := no_capture_of_tok s (by
          rw [ht, hl]; simp)
        split at h
        · split at h
          · simp only [Option.some.injEq] at h; subst h
            exact ⟨fun _ _ => hwk, fun a ha => absurd ha (hnc a)⟩
          · simp at h
        · simp at h
      · simp at h
  | raised =>
    simp only [step] at h
    split at h
    · simp at h
    · split at h
      · simp only [Option.some.injEq] at h; subst h
        exact ⟨hw1, hw2⟩
      · simp at h
  | post a =>
    simp only [step] at h
    split at h
    · simp at h
    · split at h
      · rename_i todoR todoW hl
        have hwk : waker ∈ s.readers := hw1 (by simp [hl]) (by simp [hl])
        have hnc := no_capture_of_tok s (by
          rw [ht, hl]; simp)
        split at h
        · rename_i hc
          simp only [Bool.and_eq_true, beq_iff_eq] at hc
          simp only [Option.some.injEq] at h; subst h
          refine ⟨fun _ _ => hwk, ?_⟩
          intro b hb
          simp only [Option.some.injEq] at hb
          rcases hb with hb | hb
          · subst hb
            rw [hc.2]
            exact ⟨hwk, fun hne => absurd rfl hne⟩
          · exact absurd (Or.inr hb) (hnc b)
        · simp at h
      · simp at h
  | setClosing =>
    simp only [step] at h
    split at h
    · rename_i hc
      simp only [lFree_iff] at hc
      simp only [Option.some.injEq] at h; subst h
      exact ⟨fun _ _ => hw1 (by simp [hc.1]) (by simp [hc.1]), fun a ha => hw2 a ha⟩
    · simp at h
  | joined =>
    simp only [step] at h
    split at h
    · simp only [Option.some.injEq] at h; subst h
      exact ⟨fun h1 => absurd rfl h1, fun a ha => hw2 a ha⟩
    · simp at h
  | closed =>
    simp only [step] at h
    split at h
    · simp only [Option.some.injEq] at h; subst h
      exact ⟨fun _ h2 => absurd rfl h2, fun a ha => hw2 a ha⟩
    · simp at h
  | ready isW fd =>
    simp only [step] at h
    split at h
    · simp at h
    · split at h <;> (simp only [Option.some.injEq] at h; subst h; exact ⟨hw1, fun a ha => hw2 a ha⟩)
  | unready isW fd =>
    simp only [step] at h
    split at h <;> (simp only [Option.some.injEq] at h; subst h; exact ⟨hw1, fun a ha => hw2 a ha⟩)
  | take a =>
    simp only [step] at h
    split at h
    · rename_i hc
      simp only [Bool.and_eq_true, beq_iff_eq, bne_iff_ne, ne_eq, Bool.not_eq_true'] at hc
      obtain ⟨⟨⟨h1, h2⟩, h3⟩, h4⟩ := hc
      simp only [Option.some.injEq] at h; subst h
      refine ⟨hw1, ?_⟩
      intro b hb
      simp only [SPc.selecting.injEq, reduceCtorEq, false_or] at hb
      subst hb
      exact hw2 a (Or.inl h4)
    · simp at h
  | sexit =>
    simp only [step] at h
    split at h
    · simp only [Option.some.injEq] at h; subst h
      refine ⟨hw1, ?_⟩
      intro b hb
      simp only [reduceCtorEq, or_false] at hb
      exact hw2 b (Or.inl hb)
    · simp at h
  | selected res =>
    simp only [step] at h
    split at h
    · split at h
      · simp only [Option.some.injEq] at h; subst h
        refine ⟨hw1, ?_⟩
        intro b hb
        simp only [reduceCtorEq, or_false] at hb
        exact hw2 b (Or.inl hb)
      · simp at h
    · simp at h
  | report res =>
    simp only [step] at h
    split at h
    · split at h
      · simp only [Option.some.injEq] at h; subst h
        refine ⟨hw1, ?_⟩
        intro b hb
        simp only [reduceCtorEq, or_false] at hb
        exact hw2 b (Or.inl hb)
      · simp at h
    · simp at h

/-! ### close -/

/-- while `close()` waits in `join`, the closing flag is set and a wake-up byte is in the waker -/
def InvClose (s : St) : Prop :=
  (s.lpc = .joining → s.closingFlag = true ∧ s.bytes > 0) ∧ (s.lpc = .closing → s.closingFlag = true)

theorem invClose_init : InvClose init := by simp [InvClose, init]

theorem invClose_step (s : St) (ev : Ev) (s' : St) (hi : InvClose s) (h : step s ev = some s') : InvClose s' := by
  cases ev with
  | start a =>
    simp only [step] at h
    split at h
    · simp only [Option.some.injEq] at h; subst h; simp [InvClose]
    · simp at h
  | addReader fd =>
    simp only [step] at h
    split at h
    · simp only [Option.some.injEq] at h; subst h; exact hi
    · simp at h
  | addWriter fd =>
    simp only [step] at h
    split at h
    · simp only [Option.some.injEq] at h; subst h; exact hi
    · simp at h
  | removeReader fd found =>
    simp only [step] at h
    split at h
    · simp only [Option.some.injEq] at h; subst h; exact hi
    · split at h
      · simp only [Option.some.injEq] at h; subst h; exact hi
      · simp at h
  | removeWriter fd found =>
    simp only [step] at h
    split at h
    · simp only [Option.some.injEq] at h; subst h; exact hi
    · simp at h
  | wake =>
    simp only [step] at h
    split at h
    · simp only [Option.some.injEq] at h; subst h
      exact ⟨fun hl => ⟨(hi.1 hl).1, Nat.succ_pos _⟩, hi.2⟩
    · split at h
      · rename_i hc
        simp only [beq_iff_eq] at hc
        simp only [Option.some.injEq] at h; subst h
        exact ⟨fun _ => ⟨hi.2 hc, Nat.succ_pos _⟩, by simp⟩
      · simp at h
  | handleBegin res =>
    simp only [step] at h
    split at h
    · split at h
      · simp only [Option.some.injEq] at h; subst h; simp [InvClose]
      · simp at h
    · simp at h
  | dispatch isW fd =>
    simp only [step] at h
    split at h
    · simp at h
    · split at h
      · split at h
        · split at h
          · split at h
            · simp only [Option.some.injEq] at h; subst h; simp [InvClose]
            · simp at h
          · simp at h
        · split at h
          · split at h
            · simp only [Option.some.injEq] at h; subst h; simp [InvClose]
            · simp at h
          · simp at h
      · simp at h
  | consume n =>
    simp only [step] at h
    split at h
    · simp at h
    · split at h
      · split at h
        · split at h
          · simp only [Option.some.injEq] at h; subst h; simp [InvClose]
          · simp at h
        · simp at h
      · simp at h
  | raised =>
    simp only [step] at h
    split at h
    · simp at h
    · split at h
      · simp only [Option.some.injEq] at h; subst h; exact hi
      · simp at h
  | post a =>
    simp only [step] at h
    split at h
    · simp at h
    · split at h
      · split at h
        · simp only [Option.some.injEq] at h; subst h; simp [InvClose]
        · simp at h
      · simp at h
  | setClosing =>
    simp only [step] at h
    split at h
    · simp only [Option.some.injEq] at h; subst h; simp [InvClose]
    · simp at h
  | joined =>
    simp only [step] at h
    split at h
    · simp only [Option.some.injEq] at h; subst h; simp [InvClose]
    · simp at h
  | closed =>
    simp only [step] at h
    split at h
    · simp only [Option.some.injEq] at h; subst h; simp [InvClose]
    · simp at h
  | ready isW fd =>
    simp only [step] at h
    split at h
    · simp at h
    · split at h <;> (simp only [Option.some.injEq] at h; subst h; exact hi)
  | unready isW fd =>
    simp only [step] at h
    split at h <;> (simp only [Option.some.injEq] at h; subst h; exact hi)
  | take a =>
    simp only [step] at h
    split at h
    · simp only [Option.some.injEq] at h; subst h; exact hi
    · simp at h
  | sexit =>
    simp only [step] at h
    split at h
    · simp only [Option.some.injEq] at h; subst h; exact hi
    · simp at h
  | selected res =>
    simp only [step] at h
    split at h
    · split at h
      · simp only [Option.some.injEq] at h; subst h; exact hi
      · simp at h
    · simp at h
  | report res =>
    simp only [step] at h
    split at h
    · split at h
      · simp only [Option.some.injEq] at h; subst h; exact hi
      · simp at h
    · simp at h

/-- the selector thread exits only after `close()` has set the flag -/
def InvExit (s : St) : Prop := s.spc = .exited → s.closingFlag = true

theorem invExit_step (s : St) (ev : Ev) (s' : St) (hi : InvExit s) (h : step s ev = some s') : InvExit s' := by
  cases ev with
  | start a =>
    simp only [step] at h
    split at h
    · simp only [Option.some.injEq] at h; subst h; exact hi
    · simp at h
  | addReader fd =>
    simp only [step] at h
    split at h
    · simp only [Option.some.injEq] at h; subst h; exact hi
    · simp at h
  | addWriter fd =>
    simp only [step] at h
    split at h
    · simp only [Option.some.injEq] at h; subst h; exact hi
    · simp at h
  | removeReader fd found =>
    simp only [step] at h
    split at h
    · simp only [Option.some.injEq] at h; subst h; exact hi
    · split at h
      · simp only [Option.some.injEq] at h; subst h; exact hi
      · simp at h
  | removeWriter fd found =>
    simp only [step] at h
    split at h
    · simp only [Option.some.injEq] at h; subst h; exact hi
    · simp at h
  | wake =>
    simp only [step] at h
    split at h
    · simp only [Option.some.injEq] at h; subst h; exact hi
    · split at h
      · simp only [Option.some.injEq] at h; subst h; exact hi
      · simp at h
  | handleBegin res =>
    simp only [step] at h
    split at h
    · split at h
      · simp only [Option.some.injEq] at h; subst h; exact hi
      · simp at h
    · simp at h
  | dispatch isW fd =>
    simp only [step] at h
    split at h
    · simp at h
    · split at h
      · split at h
        · split at h
          · split at h
            · simp only [Option.some.injEq] at h; subst h; exact hi
            · simp at h
          · simp at h
        · split at h
          · split at h
            · simp only [Option.some.injEq] at h; subst h; exact hi
            · simp at h
          · simp at h
      · simp at h
  | consume n =>
    simp only [step] at h
    split at h
    · simp at h
    · split at h
      · split at h
        · split at h
          · simp only [Option.some.injEq] at h; subst h; exact hi
          · simp at h
        · simp at h
      · simp at h
  | raised =>
    simp only [step] at h
    split at h
    · simp at h
    · split at h
      · simp only [Option.some.injEq] at h; subst h; exact hi
      · simp at h
  | post a =>
    simp only [step] at h
    split at h
    · simp at h
    · split at h
      · split at h
        · simp only [Option.some.injEq] at h; subst h; exact hi
        · simp at h
      · simp at h
  | setClosing =>
    simp only [step] at h
    split at h
    · simp only [Option.some.injEq] at h; subst h; exact fun _ => rfl
    · simp at h
  | joined =>
    simp only [step] at h
    split at h
    · simp only [Option.some.injEq] at h; subst h; exact hi
    · simp at h
  | closed =>
    simp only [step] at h
    split at h
    · simp only [Option.some.injEq] at h; subst h; exact hi
    · simp at h
  | ready isW fd =>
    simp only [step] at h
    split at h
    · simp at h
    · split at h <;> (simp only [Option.some.injEq] at h; subst h; exact hi)
  | unready isW fd =>
    simp only [step] at h
    split at h <;> (simp only [Option.some.injEq] at h; subst h; exact hi)
  | take a =>
    simp only [step] at h
    split at h
    · simp only [Option.some.injEq] at h; subst h; intro hx; simp at hx
    · simp at h
  | sexit =>
    simp only [step] at h
    split at h
    · rename_i hc
      simp only [Bool.and_eq_true] at hc
      simp only [Option.some.injEq] at h; subst h; exact fun _ => hc.2
    · simp at h
  | selected res =>
    simp only [step] at h
    split at h
    · split at h
      · simp only [Option.some.injEq] at h; subst h; intro hx; simp at hx
      · simp at h
    · simp at h
  | report res =>
    simp only [step] at h
    split at h
    · split at h
      · simp only [Option.some.injEq] at h; subst h; intro hx; simp at hx
      · simp at h
    · simp at h

theorem exit_only_after_closing (s : St) (hr : Reach s) : s.spc = .exited → s.closingFlag = true :=
  reach_inv InvExit (by simp [InvExit, init]) invExit_step s hr

/-! ### all invariants hold in every reachable state -/
def Inv (s : St) : Prop := InvTok s ∧ InvWake s ∧ InvClose s

theorem inv_reach (s : St) (hr : Reach s) : Inv s :=
  reach_inv Inv ⟨invTok_init, invWake_init, invClose_init⟩
    (fun s ev s' hi h => ⟨invTok_step s ev s' hi.1 h, invWake_step s ev s' hi.1 hi.2.1 h, invClose_step s ev s' hi.2.2 h⟩)
    s hr

/-- **token_unique**: in every reachable state exactly one of {arguments posted, selector thread between take and
report, report queued on the loop, loop thread inside `_handle_select`} holds (none before the thread is started) -/
theorem token_unique (s : St) (hr : Reach s) : tokens s = (if s.lpc = .fresh then 0 else 1) :=
  (inv_reach s hr).1.2

/-- **the assert cannot fail**: `assert self._select_args is None` in `_start_select` holds in every interleaving -/
theorem assert_never_fails (s : St) (hr : Reach s) : s.failed = false := (inv_reach s hr).1.1

/-- … because whenever the loop thread is about to post (it is inside `_handle_select`, or has not started the
thread yet), nothing is posted, the selector thread is not in a select, and nothing else is queued -/
theorem post_finds_args_empty (s : St) (hr : Reach s) (a b : List Fd) (hl : s.lpc = .handling a b) :
    s.args = none ∧ s.queue = [] ∧ tokS s.spc = 0 := by
  have ht := token_unique s hr
  unfold tokens at ht
  simp only [hl, tokL_handling] at ht
  have hne : ¬ (LPc.handling a b = LPc.fresh) := by simp
  simp only [hne, ↓reduceIte] at ht
  refine ⟨tokA_zero (by omega), List.eq_nil_of_length_eq_zero (by omega), by omega⟩

/-- **at most one select in progress**: while the selector thread is inside `select` (or about to report), no
other select arguments are posted, no result is queued and the loop thread is not inside `_handle_select` — nobody
can start a second select. -/
theorem at_most_one_select (s : St) (hr : Reach s) (h : tokS s.spc = 1) :
    s.args = none ∧ s.queue = [] ∧ tokL s.lpc = 0 := by
  have ht := token_unique s hr
  unfold tokens at ht
  have : (if s.lpc = .fresh then 0 else 1) ≤ 1 := by split <;> omega
  refine ⟨tokA_zero (by omega), List.eq_nil_of_length_eq_zero (by omega), by omega⟩

/-- **wake_invariant**: if the fd sets captured by the posted / running select differ from the registered ones,
the waker holds a byte (so that select returns at once) or the loop thread is at the instruction that sends it -/
theorem wake_invariant (s : St) (hr : Reach s) (a : Sets) (h : s.args = some a ∨ s.spc = .selecting a)
    (hstale : a ≠ current s) : s.bytes > 0 ∨ s.pendingWake = true :=
  ((inv_reach s hr).2.1.2 a h).2 hstale

theorem waker_always_captured (s : St) (hr : Reach s) (a : Sets) (h : s.args = some a ∨ s.spc = .selecting a) :
    waker ∈ a.r := ((inv_reach s hr).2.1.2 a h).1

/-- consequence: a select running on stale fd sets is never blocked once the wake-up has been sent -/
theorem stale_select_returns (s : St) (hr : Reach s) (a : Sets) (h : s.spc = .selecting a)
    (hstale : a ≠ current s) (hp : s.pendingWake = false) :
    ∃ s', step s (.selected (selectResult s a)) = some s' := by
  have hb : s.bytes > 0 := by
    rcases wake_invariant s hr a (Or.inr h) hstale with hb | hb
    · exact hb
    · rw [hp] at hb; exact absurd hb (by simp)
  have hw := waker_always_captured s hr a (Or.inr h)
  have hne : (selectResult s a).isEmpty = false := by
    have : waker ∈ (selectResult s a).r := by
      simp only [selectResult, List.mem_filter]
      exact ⟨hw, by simp [hb]⟩
    cases hr' : (selectResult s a).r with
    | nil => rw [hr'] at this; simp at this
    | cons x xs => simp [Sets.isEmpty, hr']
  refine ⟨{ s with spc := .selected (selectResult s a) }, ?_⟩
  simp [step, h, hne]

/-- **callbacks_on_loop_thread** (structural): user callbacks (`dispatch`) and `_consume_waker` are steps of the
loop thread only, taken from inside `_handle_select` -/
theorem callbacks_on_loop_thread (s s' : St) (isW : Bool) (fd : Fd) (h : step s (.dispatch isW fd) = some s') :
    (Ev.dispatch isW fd).isS = false ∧ ∃ a b, s.lpc = .handling a b := by
  refine ⟨rfl, ?_⟩
  simp only [step] at h
  split at h
  · simp at h
  · split at h
    · rename_i a b hl; exact ⟨a, b, hl⟩
    · simp at h

/-- a raising callback neither loses the token nor skips the rest of the round: `_handle_event` reports it to the
loop's exception handler and `_handle_select` carries on exactly where it was (models the fix) -/
theorem raise_keeps_round (s : St) (a b : List Fd) (hl : s.lpc = .handling a b) (hp : s.pendingWake = false) :
    step s .raised = some s := by
  simp [step, hl, hp]

/-! ### close terminates -/
def sRank : SPc → Nat
  | .selecting _ => 3 | .selected _ => 2 | .idle => 1 | .exited => 0

/-- **close_terminates (progress)**: while `close()` waits in `join`, the selector thread always has a step -/
theorem close_progress (s : St) (hr : Reach s) (hl : s.lpc = .joining) (hs : s.spc ≠ .exited) :
    ∃ ev s', ev.isS = true ∧ step s ev = some s' := by
  obtain ⟨-, hw, hc⟩ := inv_reach s hr
  obtain ⟨hflag, hb⟩ := hc.1 hl
  cases hspc : s.spc with
  | exited => exact absurd hspc hs
  | idle =>
    refine ⟨.sexit, { s with spc := .exited }, rfl, ?_⟩
    simp [step, hspc, hl, hflag]
  | selected r =>
    refine ⟨.report r, { s with spc := .idle, queue := s.queue ++ [r] }, rfl, ?_⟩
    simp [step, hspc]
  | selecting a =>
    have hwk : waker ∈ a.r := (hw.2 a (Or.inr hspc)).1
    have hne : (selectResult s a).isEmpty = false := by
      have : waker ∈ (selectResult s a).r := by
        simp only [selectResult, List.mem_filter]
        exact ⟨hwk, by simp [hb]⟩
      cases hr' : (selectResult s a).r with
      | nil => rw [hr'] at this; simp at this
      | cons x xs => simp [Sets.isEmpty, hr']
    refine ⟨.selected (selectResult s a), { s with spc := .selected (selectResult s a) }, rfl, ?_⟩
    simp [step, hspc, hne]

/-- **close_terminates (bound)**: every step the selector thread takes while `close()` waits brings it strictly
closer to its exit (at most 3 steps: select returns, report, exit), and leaves `close()` waiting -/
theorem close_rank_decreases (s : St) (hr : Reach s) (hl : s.lpc = .joining) (ev : Ev) (s' : St)
    (hev : ev.isS = true) (h : step s ev = some s') : sRank s'.spc < sRank s.spc ∧ s'.lpc = .joining := by
  obtain ⟨-, -, hc⟩ := inv_reach s hr
  obtain ⟨hflag, -⟩ := hc.1 hl
  cases ev with
  | take a =>
    simp only [step] at h
    split at h
    · rename_i hcnd
      simp [hflag] at hcnd
    · simp at h
  | sexit =>
    simp only [step] at h
    split at h
    · rename_i hcnd
      simp only [Bool.and_eq_true, beq_iff_eq] at hcnd
      simp only [Option.some.injEq] at h; subst h
      simp [sRank, hcnd.1.1, hl]
    · simp at h
  | selected res =>
    simp only [step] at h
    split at h
    · rename_i a hsp
      split at h
      · simp only [Option.some.injEq] at h; subst h
        simp [sRank, hsp, hl]
      · simp at h
    · simp at h
  | report res =>
    simp only [step] at h
    split at h
    · rename_i r hsp
      split at h
      · simp only [Option.some.injEq] at h; subst h
        simp [sRank, hsp, hl]
      · simp at h
    · simp at h
  | _ => simp [Ev.isS] at hev

/-- **close returns**: once the selector thread has exited, `join` returns -/
theorem join_returns (s : St) (hl : s.lpc = .joining) (hs : s.spc = .exited) :
    step s .joined = some { s with lpc := .joined } := by
  simp [step, hl, hs]

/-- `close()` can always send its wake-up -/
theorem close_can_wake (s : St) (hr : Reach s) (hl : s.lpc = .closing) : ∃ s', step s .wake = some s' := by
  cases hp : s.pendingWake with
  | true => exact ⟨{ s with bytes := s.bytes + 1, pendingWake := false }, by simp [step, hp]⟩
  | false => exact ⟨{ s with bytes := s.bytes + 1, lpc := .joining }, by simp [step, hp, hl]⟩

/-! ### readiness is reported and dispatched -/

/-- a select that returns reports every captured fd that is ready at that moment -/
theorem selected_reports_ready (s s' : St) (a res : Sets) (hs : s.spc = .selecting a)
    (h : step s (.selected res) = some s') (fd : Fd) (hfd : fd ∈ a.r) (hne : fd ≠ waker)
    (hready : s.readyR.contains fd = true) : fd ∈ res.r := by
  simp only [step, hs] at h
  split at h
  · rename_i hc
    simp only [Bool.and_eq_true, beq_iff_eq] at hc
    rw [hc.1]
    simp only [selectResult, List.mem_filter]
    have hm : fd ∈ s.readyR := by simpa using hready
    exact ⟨hfd, by simp [hne, hm]⟩
  · simp at h

/-- **no lost event, safety form** (what the harness's settle phase observes): take a reachable state in which the
loop thread is between callbacks, owes no wake-up and has not begun to close.  If the system is *quiescent* — the
selector thread has no enabled step and no `_handle_select` callback is queued — then no registered user fd is
readable and no registered fd is writable: every readiness of a registered fd forces further steps, it cannot be
slept on. -/
theorem quiescent_nothing_ready (s : St) (hr : Reach s) (hl : s.lpc = .running) (hp : s.pendingWake = false)
    (hc : s.closingFlag = false)
    (hS : ∀ ev, ev.isS = true → step s ev = none) (hQ : s.queue = []) :
    (∀ fd ∈ s.readers, fd ≠ waker → s.readyR.contains fd = false) ∧
    (∀ fd ∈ s.writers, s.readyW.contains fd = false) := by
  have ht := token_unique s hr
  unfold tokens at ht
  have hne : ¬ (LPc.running = LPc.fresh) := by simp
  simp only [hl, hQ, hne, ↓reduceIte, List.length_nil, tokL_running] at ht
  cases hspc : s.spc with
  | exited =>
    have := exit_only_after_closing s hr hspc
    rw [hc] at this; exact absurd this (by simp)
  | idle =>
    -- then the token is in `_select_args`, and `take` is enabled
    simp only [hspc, tokS_idle] at ht
    cases hargs : s.args with
    | none => simp [hargs] at ht
    | some a =>
      have := hS (.take a) rfl
      simp [step, hspc, hl, hc, hargs] at this
  | selected r =>
    have := hS (.report r) rfl
    simp [step, hspc] at this
  | selecting a =>
    have hblocked := hS (.selected (selectResult s a)) rfl
    have hempty : (selectResult s a).isEmpty = true := by
      cases he : (selectResult s a).isEmpty with
      | true => rfl
      | false => simp [step, hspc, he] at hblocked
    have hcur : a = current s := by
      by_cases hcur : a = current s
      · exact hcur
      · obtain ⟨s', hs'⟩ := stale_select_returns s hr a hspc hcur hp
        rw [hblocked] at hs'; exact absurd hs' (by simp)
    simp only [Sets.isEmpty, Bool.and_eq_true, List.isEmpty_iff] at hempty
    obtain ⟨her, hew⟩ := hempty
    subst hcur
    constructor
    · intro fd hfd hnw
      cases hrd : s.readyR.contains fd with
      | false => rfl
      | true =>
        have : fd ∈ (selectResult s (current s)).r := by
          simp only [selectResult, current, List.mem_filter]
          refine ⟨hfd, ?_⟩
          have hm : fd ∈ s.readyR := by simpa using hrd
          simp [hnw, hm]
        rw [her] at this; simp at this
    · intro fd hfd
      cases hrd : s.readyW.contains fd with
      | false => rfl
      | true =>
        have : fd ∈ (selectResult s (current s)).w := by
          simp only [selectResult, current, List.mem_filter]
          exact ⟨hfd, hrd⟩
        rw [hew] at this; simp at this

/-- **never deadlocks with work to do**: in a reachable state with the loop thread between callbacks (no wake owed,
not closing), a registered readable user fd (or a registered writable fd) always leaves some step enabled — a step of
the selector thread, or the loop running the queued `_handle_select`. -/
theorem ready_fd_forces_progress (s : St) (hr : Reach s) (hl : s.lpc = .running) (hp : s.pendingWake = false)
    (hc : s.closingFlag = false)
    (hready : (∃ fd ∈ s.readers, fd ≠ waker ∧ s.readyR.contains fd = true) ∨
              (∃ fd ∈ s.writers, s.readyW.contains fd = true)) :
    (∃ ev s', ev.isS = true ∧ step s ev = some s') ∨ (∃ res s', step s (.handleBegin res) = some s') := by
  cases hq : s.queue with
  | cons q rest =>
    right
    exact ⟨q, { s with queue := rest, lpc := .handling q.r q.w }, by simp [step, hq, lFree, hl, hp]⟩
  | nil =>
    left
    apply Classical.byContradiction
    intro hno
    have hS : ∀ ev, ev.isS = true → step s ev = none := by
      intro ev hev
      cases hst : step s ev with
      | none => rfl
      | some s' => exact absurd ⟨ev, s', hev, hst⟩ hno
    obtain ⟨hR, hW⟩ := quiescent_nothing_ready s hr hl hp hc hS hq
    rcases hready with ⟨fd, hfd, hne, hrd⟩ | ⟨fd, hfd, hrd⟩
    · rw [hR fd hfd hne] at hrd; exact absurd hrd (by simp)
    · rw [hW fd hfd] at hrd; exact absurd hrd (by simp)

/-- stretch goal (not proved; covered by the tie's settle-phase oracle): under weak fairness of both threads an fd
that stays registered and ready is dispatched within two token rounds. -/
def no_lost_event_goal : Prop :=
  ∀ (s : St), Reach s → ∀ fd, fd ≠ waker → fd ∈ s.readers → s.readyR.contains fd = true →
    s.lpc = .running → s.closingFlag = false →
    ∃ evs s', run s evs = some s' ∧ evs.length ≤ 16 ∧ Ev.dispatch false fd ∈ evs ∧
      (∀ e ∈ evs, e.isS = true ∨ (match e with | .handleBegin _ | .dispatch _ _ | .consume _ | .post _ | .wake => true | _ => false) = true)

example : Reach init := ⟨[], rfl⟩

/-- non-vacuity: a reachable state in which the selector thread is inside `select` on stale sets -/
example : ∃ s, Reach s ∧ s.spc = .selecting ⟨[0], []⟩ ∧ (⟨[0], []⟩ : Sets) ≠ current s ∧ s.bytes > 0 :=
  ⟨_, ⟨[.start ⟨[0], []⟩, .take ⟨[0], []⟩, .addReader 3, .wake], rfl⟩, rfl, by decide, by decide⟩

/-- non-vacuity: a reachable state in which `close()` waits in `join` while the selector thread is in `select` -/
example : ∃ s, Reach s ∧ s.lpc = .joining ∧ s.spc = .selecting ⟨[0], []⟩ :=
  ⟨_, ⟨[.start ⟨[0], []⟩, .take ⟨[0], []⟩, .selected ⟨[0], []⟩, .report ⟨[0], []⟩, .handleBegin ⟨[0], []⟩,
        .consume 1, .post ⟨[0], []⟩, .take ⟨[0], []⟩, .setClosing, .wake], rfl⟩, rfl, rfl⟩

end TornadoModel.C40
