import TornadoModel.C40.Spec
namespace TornadoModel.C40
end TornadoModel.C40
