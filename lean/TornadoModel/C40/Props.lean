/-
C40 — property theorems for the two-thread model of `SelectorThread` (C40/Model.lean).
All theorems are about every reachable state: any number of fds, any interleaving of the atomic steps of the loop
thread, the selector thread and the environment (invariant induction over `step`).
-/
import TornadoModel.C40.Live
import TornadoModel.C40.Refute
namespace TornadoModel.C40

/-! ### token uniqueness (`tokens` is defined in Lemmas.lean) -/
def InvTok (s : St) : Prop := s.failed = false ∧ tokens s = (if s.lpc = .fresh then 0 else 1)

theorem invTok_init : InvTok init := by simp [InvTok, tokens, init]

/-- guards of `step`, as propositions -/
theorem lFree_iff (s : St) : lFree s = true ↔ s.lpc = .running ∧ s.pendingWake = false := by
  simp [lFree]

theorem lMayMutate_iff (s : St) :
    lMayMutate s = true ↔ s.pendingWake = false ∧ (s.lpc = .running ∨ ∃ a b, s.lpc = .handling a b) := by
  unfold lMayMutate
  cases s.lpc <;> simp

theorem invTok_step (s : St) (ev : Ev) (s' : St) (hi : InvTok s) (h : step s ev = some s') : InvTok s' := by
  obtain ⟨hf, ht⟩ := hi
  unfold tokens at ht
  cases ev with
  | start a =>
    simp only [step] at h
    split at h
    · rename_i hc
      simp only [Option.some.injEq] at h; subst h
      simp only [Bool.and_eq_true, beq_iff_eq] at hc
      obtain ⟨⟨hl, -⟩, -⟩ := hc
      simp only [hl, ↓reduceIte, tokL_fresh] at ht
      have ha : s.args = none := tokA_zero (by omega)
      have hq : s.queue.length = 0 := by omega
      have hs : tokS s.spc = 0 := by omega
      simp [InvTok, tokens, hf, ha, hq, hs]
    · simp at h
  | addReader fd =>
    simp only [step] at h
    split at h
    · simp only [Option.some.injEq] at h; subst h; exact ⟨hf, ht⟩
    · simp at h
  | addWriter fd =>
    simp only [step] at h
    split at h
    · simp only [Option.some.injEq] at h; subst h; exact ⟨hf, ht⟩
    · simp at h
  | removeReader fd found =>
    simp only [step] at h
    split at h
    · simp only [Option.some.injEq] at h; subst h; exact ⟨hf, ht⟩
    · split at h
      · simp only [Option.some.injEq] at h; subst h; exact ⟨hf, ht⟩
      · simp at h
  | removeWriter fd found =>
    simp only [step] at h
    split at h
    · simp only [Option.some.injEq] at h; subst h; exact ⟨hf, ht⟩
    · simp at h
  | wake =>
    simp only [step] at h
    split at h
    · simp only [Option.some.injEq] at h; subst h; exact ⟨hf, ht⟩
    · split at h
      · rename_i hc
        simp only [beq_iff_eq] at hc
        simp only [Option.some.injEq] at h; subst h
        simp_all [InvTok, tokens]
      · simp at h
  | handleBegin res =>
    simp only [step] at h
    split at h
    · rename_i q rest hq
      split at h
      · rename_i hc
        simp only [Bool.and_eq_true, lFree_iff] at hc
        obtain ⟨⟨hl, -⟩, -⟩ := hc
        simp only [Option.some.injEq] at h; subst h
        simp only [hl, hq, List.length_cons, tokL_running] at ht
        have hne : ¬ (LPc.running = LPc.fresh) := by simp
        simp only [hne, ↓reduceIte] at ht
        refine ⟨hf, ?_⟩
        simp only [tokens, tokL_handling]
        have hne2 : ¬ (LPc.handling res.r res.w = LPc.fresh) := by simp
        simp only [hne2, ↓reduceIte]
        omega
      · simp at h
    · simp at h
  | dispatch isW fd =>
    simp only [step] at h
    split at h
    · simp at h
    · split at h
      · rename_i todoR todoW hl
        split at h
        · split at h
          · split at h
            · simp only [Option.some.injEq] at h; subst h
              simp_all [InvTok, tokens]
            · simp at h
          · simp at h
        · split at h
          · split at h
            · simp only [Option.some.injEq] at h; subst h
              simp_all [InvTok, tokens]
            · simp at h
          · simp at h
      · simp at h
  | consume n =>
    simp only [step] at h
    split at h
    · simp at h
    · split at h
      · split at h
        · split at h
          · simp only [Option.some.injEq] at h; subst h
            simp_all [InvTok, tokens]
          · simp at h
        · simp at h
      · simp at h
  | raised =>
    simp only [step] at h
    split at h
    · simp at h
    · split at h
      · simp only [Option.some.injEq] at h; subst h
        exact ⟨hf, ht⟩
      · simp at h
  | post a =>
    simp only [step] at h
    split at h
    · simp at h
    · split at h
      · rename_i todoR todoW hl
        split at h
        · simp only [Option.some.injEq] at h; subst h
          simp only [hl, tokL_handling] at ht
          have hne : ¬ (LPc.handling todoR todoW = LPc.fresh) := by simp
          simp only [hne, ↓reduceIte] at ht
          have ha : s.args = none := tokA_zero (by omega)
          have hq : s.queue.length = 0 := by omega
          have hs : tokS s.spc = 0 := by omega
          simp [InvTok, tokens, hf, ha, hq, hs]
        · simp at h
      · simp at h
  | setClosing =>
    simp only [step] at h
    split at h
    · rename_i hc
      simp only [lFree_iff] at hc
      simp only [Option.some.injEq] at h; subst h
      simp_all [InvTok, tokens]
    · simp at h
  | joined =>
    simp only [step] at h
    split at h
    · rename_i hc
      simp only [Bool.and_eq_true, beq_iff_eq] at hc
      simp only [Option.some.injEq] at h; subst h
      simp_all [InvTok, tokens]
    · simp at h
  | closed =>
    simp only [step] at h
    split at h
    · rename_i hc
      simp only [Bool.and_eq_true, beq_iff_eq] at hc
      simp only [Option.some.injEq] at h; subst h
      simp_all [InvTok, tokens]
    · simp at h
  | ready isW fd =>
    simp only [step] at h
    split at h
    · simp at h
    · split at h <;> (simp only [Option.some.injEq] at h; subst h; exact ⟨hf, ht⟩)
  | unready isW fd =>
    simp only [step] at h
    split at h <;> (simp only [Option.some.injEq] at h; subst h; exact ⟨hf, ht⟩)
  | take a =>
    simp only [step] at h
    split at h
    · rename_i hc
      simp only [Bool.and_eq_true, beq_iff_eq, bne_iff_ne, ne_eq, Bool.not_eq_true'] at hc
      obtain ⟨⟨⟨h1, h2⟩, h3⟩, h4⟩ := hc
      simp only [Option.some.injEq] at h; subst h
      simp_all [InvTok, tokens]
    · simp at h
  | sexit =>
    simp only [step] at h
    split at h
    · rename_i hc
      simp only [Bool.and_eq_true, beq_iff_eq, bne_iff_ne, ne_eq] at hc
      simp only [Option.some.injEq] at h; subst h
      simp_all [InvTok, tokens]
    · simp at h
  | selected res =>
    simp only [step] at h
    split at h
    · split at h
      · simp only [Option.some.injEq] at h; subst h
        simp_all [InvTok, tokens]
      · simp at h
    · simp at h
  | ebadf =>
    simp only [step] at h
    split at h
    · split at h
      · simp only [Option.some.injEq] at h; subst h
        simp_all [InvTok, tokens]
      · simp at h
    · simp at h
  | report res =>
    simp only [step] at h
    split at h
    · split at h
      · simp only [Option.some.injEq] at h; subst h
        simp_all [InvTok, tokens]
        omega
      · simp at h
    · simp at h

/-! ### the wake invariant -/

/-- (1) the waker stays registered until `close` removes it; (2) every captured fd set (posted, or being selected
on) contains the waker, and if it differs from the current registrations then a wake-up byte is in the waker — or
the loop thread is just about to send one. -/
def InvWake (s : St) : Prop :=
  (s.lpc ≠ .joined → s.lpc ≠ .closed → waker ∈ s.readers) ∧
  (∀ a, (s.args = some a ∨ s.spc = .selecting a) →
      waker ∈ a.r ∧ (a ≠ current s → s.bytes > 0 ∨ s.pendingWake = true))

theorem invWake_init : InvWake init := by
  refine ⟨fun _ _ => by simp [init], ?_⟩
  intro a h
  simp [init] at h

/-- in a state that holds the token on the loop side (or has none yet), nothing is captured -/
theorem no_capture_of_tok (s : St) (ht : tokens s = tokL s.lpc) (a : Sets) :
    ¬ (s.args = some a ∨ s.spc = .selecting a) := by
  unfold tokens at ht
  rintro (h | h)
  · simp [h] at ht
  · simp [h] at ht

theorem invWake_step (s : St) (ev : Ev) (s' : St) (hi : InvTok s) (hw : InvWake s)
    (h : step s ev = some s') : InvWake s' := by
  obtain ⟨hf, ht⟩ := hi
  obtain ⟨hw1, hw2⟩ := hw
  cases ev with
  | start a =>
    simp only [step] at h
    split at h
    · rename_i hc
      simp only [Option.some.injEq] at h; subst h
      simp only [Bool.and_eq_true, beq_iff_eq, Bool.not_eq_true'] at hc
      obtain ⟨⟨hl, hp⟩, ha⟩ := hc
      have hnc := no_capture_of_tok s (by rw [ht, hl]; simp)
      have hwk : waker ∈ s.readers := hw1 (by simp [hl]) (by simp [hl])
      refine ⟨fun _ _ => hwk, ?_⟩
      intro b hb
      simp only [Option.some.injEq] at hb
      rcases hb with hb | hb
      · subst hb
        subst ha
        exact ⟨hwk, fun hne => absurd rfl hne⟩
      · exact absurd (Or.inr hb) (hnc b)
    · simp at h
  | addReader fd =>
    simp only [step] at h
    split at h
    · simp only [Option.some.injEq] at h; subst h
      refine ⟨fun h1 h2 => mem_insertKey _ _ _ (hw1 h1 h2), fun a ha => ⟨(hw2 a ha).1, fun _ => Or.inr rfl⟩⟩
    · simp at h
  | addWriter fd =>
    simp only [step] at h
    split at h
    · simp only [Option.some.injEq] at h; subst h
      refine ⟨hw1, fun a ha => ⟨(hw2 a ha).1, fun _ => Or.inr rfl⟩⟩
    · simp at h
  | removeReader fd found =>
    simp only [step] at h
    split at h
    · rename_i hc
      simp only [Bool.and_eq_true, beq_iff_eq] at hc
      simp only [Option.some.injEq] at h; subst h
      refine ⟨fun h1 => absurd hc.1.1.1 h1, fun a ha => ⟨(hw2 a ha).1, fun _ => Or.inr rfl⟩⟩
    · split at h
      · rename_i hc
        simp only [Bool.and_eq_true, lMayMutate_iff, bne_iff_ne, ne_eq, beq_iff_eq] at hc
        obtain ⟨⟨⟨hp, hl⟩, hne⟩, hfound⟩ := hc
        simp only [Option.some.injEq] at h; subst h
        refine ⟨fun h1 h2 => mem_filter_ne _ _ _ (hw1 h1 h2) (fun x => hne x.symm), ?_⟩
        intro a ha
        refine ⟨(hw2 a ha).1, fun hne2 => ?_⟩
        cases hfd : found with
        | true => exact Or.inr rfl
        | false =>
          left
          have hab : s.readers.contains fd = false := by rw [← hfound, hfd]
          have : a ≠ current s := by
            intro heq
            apply hne2
            simp only [current, filter_absent _ _ hab]
            exact heq
          rcases (hw2 a ha).2 this with hb | hb
          · exact hb
          · rw [hp] at hb; exact absurd hb (by simp)
      · simp at h
  | removeWriter fd found =>
    simp only [step] at h
    split at h
    · rename_i hc
      simp only [Bool.and_eq_true, lMayMutate_iff, beq_iff_eq] at hc
      obtain ⟨⟨hp, hl⟩, hfound⟩ := hc
      simp only [Option.some.injEq] at h; subst h
      refine ⟨hw1, ?_⟩
      intro a ha
      refine ⟨(hw2 a ha).1, fun hne2 => ?_⟩
      cases hfd : found with
      | true => exact Or.inr rfl
      | false =>
        left
        have hab : s.writers.contains fd = false := by rw [← hfound, hfd]
        have : a ≠ current s := by
          intro heq
          apply hne2
          simp only [current, filter_absent _ _ hab]
          exact heq
        rcases (hw2 a ha).2 this with hb | hb
        · exact hb
        · rw [hp] at hb; exact absurd hb (by simp)
    · simp at h
  | wake =>
    simp only [step] at h
    split at h
    · simp only [Option.some.injEq] at h; subst h
      exact ⟨hw1, fun a ha => ⟨(hw2 a ha).1, fun _ => Or.inl (Nat.succ_pos _)⟩⟩
    · split at h
      · rename_i hc
        simp only [beq_iff_eq] at hc
        simp only [Option.some.injEq] at h; subst h
        exact ⟨fun _ _ => hw1 (by simp [hc]) (by simp [hc]), fun a ha => ⟨(hw2 a ha).1, fun _ => Or.inl (Nat.succ_pos _)⟩⟩
      · simp at h
  | handleBegin res =>
    simp only [step] at h
    split at h
    · split at h
      · rename_i hc
        simp only [Bool.and_eq_true, lFree_iff] at hc
        simp only [Option.some.injEq] at h; subst h
        exact ⟨fun _ _ => hw1 (by simp [hc.1.1]) (by simp [hc.1.1]), fun a ha => hw2 a ha⟩
      · simp at h
    · simp at h
  | dispatch isW fd =>
    simp only [step] at h
    split at h
    · simp at h
    · split at h
      · rename_i todoR todoW hl
        have hwk : waker ∈ s.readers := hw1 (by simp [hl]) (by simp [hl])
        split at h
        · split at h
          · split at h
            · simp only [Option.some.injEq] at h; subst h
              exact ⟨fun _ _ => hwk, fun a ha => hw2 a ha⟩
            · simp at h
          · simp at h
        · split at h
          · split at h
            · simp only [Option.some.injEq] at h; subst h
              exact ⟨fun _ _ => hwk, fun a ha => hw2 a ha⟩
            · simp at h
          · simp at h
      · simp at h
  | consume n =>
    simp only [step] at h
    split at h
    · simp at h
    · split at h
      · rename_i todoR todoW hl
        have hwk : waker ∈ s.readers := hw1 (by simp [hl]) (by simp [hl])
        have hnc := no_capture_of_tok s (by
          rw [ht, hl]; simp)
        split at h
        · split at h
          · simp only [Option.some.injEq] at h; subst h
            exact ⟨fun _ _ => hwk, fun a ha => absurd ha (hnc a)⟩
          · simp at h
        · simp at h
      · simp at h
  | raised =>
    simp only [step] at h
    split at h
    · simp at h
    · split at h
      · simp only [Option.some.injEq] at h; subst h
        exact ⟨hw1, hw2⟩
      · simp at h
  | post a =>
    simp only [step] at h
    split at h
    · simp at h
    · split at h
      · rename_i todoR todoW hl
        have hwk : waker ∈ s.readers := hw1 (by simp [hl]) (by simp [hl])
        have hnc := no_capture_of_tok s (by
          rw [ht, hl]; simp)
        split at h
        · rename_i hc
          simp only [Bool.and_eq_true, beq_iff_eq] at hc
          simp only [Option.some.injEq] at h; subst h
          refine ⟨fun _ _ => hwk, ?_⟩
          intro b hb
          simp only [Option.some.injEq] at hb
          rcases hb with hb | hb
          · subst hb
            rw [hc.2]
            exact ⟨hwk, fun hne => absurd rfl hne⟩
          · exact absurd (Or.inr hb) (hnc b)
        · simp at h
      · simp at h
  | setClosing =>
    simp only [step] at h
    split at h
    · rename_i hc
      simp only [lFree_iff] at hc
      simp only [Option.some.injEq] at h; subst h
      exact ⟨fun _ _ => hw1 (by simp [hc.1]) (by simp [hc.1]), fun a ha => hw2 a ha⟩
    · simp at h
  | joined =>
    simp only [step] at h
    split at h
    · simp only [Option.some.injEq] at h; subst h
      exact ⟨fun h1 => absurd rfl h1, fun a ha => hw2 a ha⟩
    · simp at h
  | closed =>
    simp only [step] at h
    split at h
    · simp only [Option.some.injEq] at h; subst h
      exact ⟨fun _ h2 => absurd rfl h2, fun a ha => hw2 a ha⟩
    · simp at h
  | ready isW fd =>
    simp only [step] at h
    split at h
    · simp at h
    · split at h <;> (simp only [Option.some.injEq] at h; subst h; exact ⟨hw1, fun a ha => hw2 a ha⟩)
  | unready isW fd =>
    simp only [step] at h
    split at h <;> (simp only [Option.some.injEq] at h; subst h; exact ⟨hw1, fun a ha => hw2 a ha⟩)
  | take a =>
    simp only [step] at h
    split at h
    · rename_i hc
      simp only [Bool.and_eq_true, beq_iff_eq, bne_iff_ne, ne_eq, Bool.not_eq_true'] at hc
      obtain ⟨⟨⟨h1, h2⟩, h3⟩, h4⟩ := hc
      simp only [Option.some.injEq] at h; subst h
      refine ⟨hw1, ?_⟩
      intro b hb
      simp only [SPc.selecting.injEq, reduceCtorEq, false_or] at hb
      subst hb
      exact hw2 a (Or.inl h4)
    · simp at h
  | sexit =>
    simp only [step] at h
    split at h
    · simp only [Option.some.injEq] at h; subst h
      refine ⟨hw1, ?_⟩
      intro b hb
      simp only [reduceCtorEq, or_false] at hb
      exact hw2 b (Or.inl hb)
    · simp at h
  | selected res =>
    simp only [step] at h
    split at h
    · split at h
      · simp only [Option.some.injEq] at h; subst h
        refine ⟨hw1, ?_⟩
        intro b hb
        simp only [reduceCtorEq, or_false] at hb
        exact hw2 b (Or.inl hb)
      · simp at h
    · simp at h
  | ebadf =>
    simp only [step] at h
    split at h
    · split at h
      · simp only [Option.some.injEq] at h; subst h
        refine ⟨hw1, ?_⟩
        intro b hb
        simp only [reduceCtorEq, or_false] at hb
        exact hw2 b (Or.inl hb)
      · simp at h
    · simp at h
  | report res =>
    simp only [step] at h
    split at h
    · split at h
      · simp only [Option.some.injEq] at h; subst h
        refine ⟨hw1, ?_⟩
        intro b hb
        simp only [reduceCtorEq, or_false] at hb
        exact hw2 b (Or.inl hb)
      · simp at h
    · simp at h

/-! ### close -/

/-- while `close()` waits in `join`, the closing flag is set and a wake-up byte is in the waker -/
def InvClose (s : St) : Prop :=
  (s.lpc = .joining → s.closingFlag = true ∧ s.bytes > 0) ∧ (s.lpc = .closing → s.closingFlag = true)

theorem invClose_init : InvClose init := by simp [InvClose, init]

theorem invClose_step (s : St) (ev : Ev) (s' : St) (hi : InvClose s) (h : step s ev = some s') : InvClose s' := by
  cases ev with
  | start a =>
    simp only [step] at h
    split at h
    · simp only [Option.some.injEq] at h; subst h; simp [InvClose]
    · simp at h
  | addReader fd =>
    simp only [step] at h
    split at h
    · simp only [Option.some.injEq] at h; subst h; exact hi
    · simp at h
  | addWriter fd =>
    simp only [step] at h
    split at h
    · simp only [Option.some.injEq] at h; subst h; exact hi
    · simp at h
  | removeReader fd found =>
    simp only [step] at h
    split at h
    · simp only [Option.some.injEq] at h; subst h; exact hi
    · split at h
      · simp only [Option.some.injEq] at h; subst h; exact hi
      · simp at h
  | removeWriter fd found =>
    simp only [step] at h
    split at h
    · simp only [Option.some.injEq] at h; subst h; exact hi
    · simp at h
  | wake =>
    simp only [step] at h
    split at h
    · simp only [Option.some.injEq] at h; subst h
      exact ⟨fun hl => ⟨(hi.1 hl).1, Nat.succ_pos _⟩, hi.2⟩
    · split at h
      · rename_i hc
        simp only [beq_iff_eq] at hc
        simp only [Option.some.injEq] at h; subst h
        exact ⟨fun _ => ⟨hi.2 hc, Nat.succ_pos _⟩, by simp⟩
      · simp at h
  | handleBegin res =>
    simp only [step] at h
    split at h
    · split at h
      · simp only [Option.some.injEq] at h; subst h; simp [InvClose]
      · simp at h
    · simp at h
  | dispatch isW fd =>
    simp only [step] at h
    split at h
    · simp at h
    · split at h
      · split at h
        · split at h
          · split at h
            · simp only [Option.some.injEq] at h; subst h; simp [InvClose]
            · simp at h
          · simp at h
        · split at h
          · split at h
            · simp only [Option.some.injEq] at h; subst h; simp [InvClose]
            · simp at h
          · simp at h
      · simp at h
  | consume n =>
    simp only [step] at h
    split at h
    · simp at h
    · split at h
      · split at h
        · split at h
          · simp only [Option.some.injEq] at h; subst h; simp [InvClose]
          · simp at h
        · simp at h
      · simp at h
  | raised =>
    simp only [step] at h
    split at h
    · simp at h
    · split at h
      · simp only [Option.some.injEq] at h; subst h; exact hi
      · simp at h
  | post a =>
    simp only [step] at h
    split at h
    · simp at h
    · split at h
      · split at h
        · simp only [Option.some.injEq] at h; subst h; simp [InvClose]
        · simp at h
      · simp at h
  | setClosing =>
    simp only [step] at h
    split at h
    · simp only [Option.some.injEq] at h; subst h; simp [InvClose]
    · simp at h
  | joined =>
    simp only [step] at h
    split at h
    · simp only [Option.some.injEq] at h; subst h; simp [InvClose]
    · simp at h
  | closed =>
    simp only [step] at h
    split at h
    · simp only [Option.some.injEq] at h; subst h; simp [InvClose]
    · simp at h
  | ready isW fd =>
    simp only [step] at h
    split at h
    · simp at h
    · split at h <;> (simp only [Option.some.injEq] at h; subst h; exact hi)
  | unready isW fd =>
    simp only [step] at h
    split at h <;> (simp only [Option.some.injEq] at h; subst h; exact hi)
  | take a =>
    simp only [step] at h
    split at h
    · simp only [Option.some.injEq] at h; subst h; exact hi
    · simp at h
  | sexit =>
    simp only [step] at h
    split at h
    · simp only [Option.some.injEq] at h; subst h; exact hi
    · simp at h
  | selected res =>
    simp only [step] at h
    split at h
    · split at h
      · simp only [Option.some.injEq] at h; subst h; exact hi
      · simp at h
    · simp at h
  | ebadf =>
    simp only [step] at h
    split at h
    · split at h
      · simp only [Option.some.injEq] at h; subst h; exact hi
      · simp at h
    · simp at h
  | report res =>
    simp only [step] at h
    split at h
    · split at h
      · simp only [Option.some.injEq] at h; subst h; exact hi
      · simp at h
    · simp at h

/-- the selector thread exits only after `close()` has set the flag -/
def InvExit (s : St) : Prop := s.spc = .exited → s.closingFlag = true

theorem invExit_step (s : St) (ev : Ev) (s' : St) (hi : InvExit s) (h : step s ev = some s') : InvExit s' := by
  cases ev with
  | start a =>
    simp only [step] at h
    split at h
    · simp only [Option.some.injEq] at h; subst h; exact hi
    · simp at h
  | addReader fd =>
    simp only [step] at h
    split at h
    · simp only [Option.some.injEq] at h; subst h; exact hi
    · simp at h
  | addWriter fd =>
    simp only [step] at h
    split at h
    · simp only [Option.some.injEq] at h; subst h; exact hi
    · simp at h
  | removeReader fd found =>
    simp only [step] at h
    split at h
    · simp only [Option.some.injEq] at h; subst h; exact hi
    · split at h
      · simp only [Option.some.injEq] at h; subst h; exact hi
      · simp at h
  | removeWriter fd found =>
    simp only [step] at h
    split at h
    · simp only [Option.some.injEq] at h; subst h; exact hi
    · simp at h
  | wake =>
    simp only [step] at h
    split at h
    · simp only [Option.some.injEq] at h; subst h; exact hi
    · split at h
      · simp only [Option.some.injEq] at h; subst h; exact hi
      · simp at h
  | handleBegin res =>
    simp only [step] at h
    split at h
    · split at h
      · simp only [Option.some.injEq] at h; subst h; exact hi
      · simp at h
    · simp at h
  | dispatch isW fd =>
    simp only [step] at h
    split at h
    · simp at h
    · split at h
      · split at h
        · split at h
          · split at h
            · simp only [Option.some.injEq] at h; subst h; exact hi
            · simp at h
          · simp at h
        · split at h
          · split at h
            · simp only [Option.some.injEq] at h; subst h; exact hi
            · simp at h
          · simp at h
      · simp at h
  | consume n =>
    simp only [step] at h
    split at h
    · simp at h
    · split at h
      · split at h
        · split at h
          · simp only [Option.some.injEq] at h; subst h; exact hi
          · simp at h
        · simp at h
      · simp at h
  | raised =>
    simp only [step] at h
    split at h
    · simp at h
    · split at h
      · simp only [Option.some.injEq] at h; subst h; exact hi
      · simp at h
  | post a =>
    simp only [step] at h
    split at h
    · simp at h
    · split at h
      · split at h
        · simp only [Option.some.injEq] at h; subst h; exact hi
        · simp at h
      · simp at h
  | setClosing =>
    simp only [step] at h
    split at h
    · simp only [Option.some.injEq] at h; subst h; exact fun _ => rfl
    · simp at h
  | joined =>
    simp only [step] at h
    split at h
    · simp only [Option.some.injEq] at h; subst h; exact hi
    · simp at h
  | closed =>
    simp only [step] at h
    split at h
    · simp only [Option.some.injEq] at h; subst h; exact hi
    · simp at h
  | ready isW fd =>
    simp only [step] at h
    split at h
    · simp at h
    · split at h <;> (simp only [Option.some.injEq] at h; subst h; exact hi)
  | unready isW fd =>
    simp only [step] at h
    split at h <;> (simp only [Option.some.injEq] at h; subst h; exact hi)
  | take a =>
    simp only [step] at h
    split at h
    · simp only [Option.some.injEq] at h; subst h; intro hx; simp at hx
    · simp at h
  | sexit =>
    simp only [step] at h
    split at h
    · rename_i hc
      simp only [Bool.and_eq_true] at hc
      simp only [Option.some.injEq] at h; subst h; exact fun _ => hc.2
    · simp at h
  | selected res =>
    simp only [step] at h
    split at h
    · split at h
      · simp only [Option.some.injEq] at h; subst h; intro hx; simp at hx
      · simp at h
    · simp at h
  | ebadf =>
    simp only [step] at h
    split at h
    · split at h
      · simp only [Option.some.injEq] at h; subst h; intro hx; simp at hx
      · simp at h
    · simp at h
  | report res =>
    simp only [step] at h
    split at h
    · split at h
      · simp only [Option.some.injEq] at h; subst h; intro hx; simp at hx
      · simp at h
    · simp at h

theorem exit_only_after_closing (s : St) (hr : Reach s) : s.spc = .exited → s.closingFlag = true :=
  reach_inv InvExit (by simp [InvExit, init]) invExit_step s hr

/-! ### all invariants hold in every reachable state -/
def Inv (s : St) : Prop := InvTok s ∧ InvWake s ∧ InvClose s

theorem inv_reach (s : St) (hr : Reach s) : Inv s :=
  reach_inv Inv ⟨invTok_init, invWake_init, invClose_init⟩
    (fun s ev s' hi h => ⟨invTok_step s ev s' hi.1 h, invWake_step s ev s' hi.1 hi.2.1 h, invClose_step s ev s' hi.2.2 h⟩)
    s hr

/-- **token_unique**: in every reachable state exactly one of {arguments posted, selector thread between take and
report, report queued on the loop, loop thread inside `_handle_select`} holds (none before the thread is started) -/
theorem token_unique (s : St) (hr : Reach s) : tokens s = (if s.lpc = .fresh then 0 else 1) :=
  (inv_reach s hr).1.2

/-- **the assert cannot fail**: `assert self._select_args is None` in `_start_select` holds in every interleaving -/
theorem assert_never_fails (s : St) (hr : Reach s) : s.failed = false := (inv_reach s hr).1.1

/-- … because whenever the loop thread is about to post (it is inside `_handle_select`, or has not started the
thread yet), nothing is posted, the selector thread is not in a select, and nothing else is queued -/
theorem post_finds_args_empty (s : St) (hr : Reach s) (a b : List Fd) (hl : s.lpc = .handling a b) :
    s.args = none ∧ s.queue = [] ∧ tokS s.spc = 0 := by
  have ht := token_unique s hr
  unfold tokens at ht
  simp only [hl, tokL_handling] at ht
  have hne : ¬ (LPc.handling a b = LPc.fresh) := by simp
  simp only [hne, ↓reduceIte] at ht
  refine ⟨tokA_zero (by omega), List.eq_nil_of_length_eq_zero (by omega), by omega⟩

/-- **at most one select in progress**: while the selector thread is inside `select` (or about to report), no
other select arguments are posted, no result is queued and the loop thread is not inside `_handle_select` — nobody
can start a second select. -/
theorem at_most_one_select (s : St) (hr : Reach s) (h : tokS s.spc = 1) :
    s.args = none ∧ s.queue = [] ∧ tokL s.lpc = 0 := by
  have ht := token_unique s hr
  unfold tokens at ht
  have : (if s.lpc = .fresh then 0 else 1) ≤ 1 := by split <;> omega
  refine ⟨tokA_zero (by omega), List.eq_nil_of_length_eq_zero (by omega), by omega⟩

/-- **wake_invariant**: if the fd sets captured by the posted / running select differ from the registered ones,
the waker holds a byte (so that select returns at once) or the loop thread is at the instruction that sends it -/
theorem wake_invariant (s : St) (hr : Reach s) (a : Sets) (h : s.args = some a ∨ s.spc = .selecting a)
    (hstale : a ≠ current s) : s.bytes > 0 ∨ s.pendingWake = true :=
  ((inv_reach s hr).2.1.2 a h).2 hstale

theorem waker_always_captured (s : St) (hr : Reach s) (a : Sets) (h : s.args = some a ∨ s.spc = .selecting a) :
    waker ∈ a.r := ((inv_reach s hr).2.1.2 a h).1

/-- consequence: a select running on stale fd sets is never blocked once the wake-up has been sent -/
theorem stale_select_returns (s : St) (hr : Reach s) (a : Sets) (h : s.spc = .selecting a)
    (hstale : a ≠ current s) (hp : s.pendingWake = false) :
    ∃ s', step s (.selected (selectResult s a)) = some s' := by
  have hb : s.bytes > 0 := by
    rcases wake_invariant s hr a (Or.inr h) hstale with hb | hb
    · exact hb
    · rw [hp] at hb; exact absurd hb (by simp)
  have hw := waker_always_captured s hr a (Or.inr h)
  have hne : (selectResult s a).isEmpty = false := by
    have : waker ∈ (selectResult s a).r := by
      simp only [selectResult, List.mem_filter]
      exact ⟨hw, by simp [hb]⟩
    cases hr' : (selectResult s a).r with
    | nil => rw [hr'] at this; simp at this
    | cons x xs => simp [Sets.isEmpty, hr']
  refine ⟨{ s with spc := .selected (selectResult s a) }, ?_⟩
  simp [step, h, hne]

/-! ### the EBADF / WSAENOTSOCK recovery branch of `_run_select` -/

theorem stale_ne_current (s : St) (a : Sets) (h : stale s a = true) : a ≠ current s := by
  intro heq
  subst heq
  simp [stale, current] at h

/-- **ebadf_recovers**: when `select` fails because a captured fd has been closed — such an fd is no longer registered,
and `remove_reader/remove_writer` had returned, i.e. its wake-up had been sent, before it was closed — the poll of the
waker alone finds it readable: the recovery branch is taken, the `raise` branch (selector thread dies) is not. -/
theorem ebadf_recovers (s : St) (hr : Reach s) (a : Sets) (h : s.spc = .selecting a) (hst : stale s a = true)
    (hp : s.pendingWake = false) : ∃ s', step s .ebadf = some s' ∧ s'.spc = .selected recovered := by
  have hb : s.bytes > 0 := by
    rcases wake_invariant s hr a (Or.inr h) (stale_ne_current s a hst) with hb | hb
    · exact hb
    · rw [hp] at hb; exact absurd hb (by simp)
  exact ⟨{ s with spc := .selected recovered }, by simp [step, h, hst, hb], rfl⟩

/-- **ebadf_round**: the recovery must *return to the event loop*: with the loop thread between callbacks, the
recovered (empty) result is reported, `_handle_select` runs over it without dispatching anything and posts the next
select with the current registrations — the token is back in `_select_args`, the selector thread can take it.
(A recovery that went back to waiting on the condition instead would leave `_select_args` empty for ever: only
`_handle_select` calls `_start_select`.) -/
theorem ebadf_round (s : St) (hr : Reach s) (a : Sets) (h : s.spc = .selecting a) (hst : stale s a = true)
    (hl : s.lpc = .running) (hp : s.pendingWake = false) :
    ∃ s', run s [.ebadf, .report recovered, .handleBegin recovered, .post (current s)] = some s' ∧
      s'.args = some (current s) ∧ s'.spc = .idle ∧ s'.lpc = .running ∧ s'.failed = false := by
  have hb : s.bytes > 0 := by
    rcases wake_invariant s hr a (Or.inr h) (stale_ne_current s a hst) with hb | hb
    · exact hb
    · rw [hp] at hb; exact absurd hb (by simp)
  obtain ⟨ha, hq, -⟩ := at_most_one_select s hr (by simp [h])
  have hf := assert_never_fails s hr
  refine ⟨{ s with spc := .idle, args := some (current s) }, ?_, rfl, rfl, hl, hf⟩
  simp [run, step, h, hst, hb, hq, hl, hp, ha, hf, lFree, recovered, skipUnreg, current]

/-- **callbacks_on_loop_thread** (structural): user callbacks (`dispatch`) and `_consume_waker` are steps of the
loop thread only, taken from inside `_handle_select` -/
theorem callbacks_on_loop_thread (s s' : St) (isW : Bool) (fd : Fd) (h : step s (.dispatch isW fd) = some s') :
    (Ev.dispatch isW fd).isS = false ∧ ∃ a b, s.lpc = .handling a b := by
  refine ⟨rfl, ?_⟩
  simp only [step] at h
  split at h
  · simp at h
  · split at h
    · rename_i a b hl; exact ⟨a, b, hl⟩
    · simp at h

/-- a raising callback neither loses the token nor skips the rest of the round: `_handle_event` reports it to the
loop's exception handler and `_handle_select` carries on exactly where it was (models the fix) -/
theorem raise_keeps_round (s : St) (a b : List Fd) (hl : s.lpc = .handling a b) (hp : s.pendingWake = false) :
    step s .raised = some s := by
  simp [step, hl, hp]

/-! ### close terminates -/
def sRank : SPc → Nat
  | .selecting _ => 3 | .selected _ => 2 | .idle => 1 | .exited => 0

/-- **close_terminates (progress)**: while `close()` waits in `join`, the selector thread always has a step -/
theorem close_progress (s : St) (hr : Reach s) (hl : s.lpc = .joining) (hs : s.spc ≠ .exited) :
    ∃ ev s', ev.isS = true ∧ step s ev = some s' := by
  obtain ⟨-, hw, hc⟩ := inv_reach s hr
  obtain ⟨hflag, hb⟩ := hc.1 hl
  cases hspc : s.spc with
  | exited => exact absurd hspc hs
  | idle =>
    refine ⟨.sexit, { s with spc := .exited }, rfl, ?_⟩
    simp [step, hspc, hl, hflag]
  | selected r =>
    refine ⟨.report r, { s with spc := .idle, queue := s.queue ++ [r] }, rfl, ?_⟩
    simp [step, hspc]
  | selecting a =>
    have hwk : waker ∈ a.r := (hw.2 a (Or.inr hspc)).1
    have hne : (selectResult s a).isEmpty = false := by
      have : waker ∈ (selectResult s a).r := by
        simp only [selectResult, List.mem_filter]
        exact ⟨hwk, by simp [hb]⟩
      cases hr' : (selectResult s a).r with
      | nil => rw [hr'] at this; simp at this
      | cons x xs => simp [Sets.isEmpty, hr']
    refine ⟨.selected (selectResult s a), { s with spc := .selected (selectResult s a) }, rfl, ?_⟩
    simp [step, hspc, hne]

/-- **close_terminates (bound)**: every step the selector thread takes while `close()` waits brings it strictly
closer to its exit (at most 3 steps: select returns, report, exit), and leaves `close()` waiting -/
theorem close_rank_decreases (s : St) (hr : Reach s) (hl : s.lpc = .joining) (ev : Ev) (s' : St)
    (hev : ev.isS = true) (h : step s ev = some s') : sRank s'.spc < sRank s.spc ∧ s'.lpc = .joining := by
  obtain ⟨-, -, hc⟩ := inv_reach s hr
  obtain ⟨hflag, -⟩ := hc.1 hl
  cases ev with
  | take a =>
    simp only [step] at h
    split at h
    · rename_i hcnd
      simp [hflag] at hcnd
    · simp at h
  | sexit =>
    simp only [step] at h
    split at h
    · rename_i hcnd
      simp only [Bool.and_eq_true, beq_iff_eq] at hcnd
      simp only [Option.some.injEq] at h; subst h
      simp [sRank, hcnd.1.1, hl]
    · simp at h
  | selected res =>
    simp only [step] at h
    split at h
    · rename_i a hsp
      split at h
      · simp only [Option.some.injEq] at h; subst h
        simp [sRank, hsp, hl]
      · simp at h
    · simp at h
  | report res =>
    simp only [step] at h
    split at h
    · rename_i r hsp
      split at h
      · simp only [Option.some.injEq] at h; subst h
        simp [sRank, hsp, hl]
      · simp at h
    · simp at h
  | _ => simp [Ev.isS] at hev

/-- **close returns**: once the selector thread has exited, `join` returns -/
theorem join_returns (s : St) (hl : s.lpc = .joining) (hs : s.spc = .exited) :
    step s .joined = some { s with lpc := .joined } := by
  simp [step, hl, hs]

/-- `close()` can always send its wake-up -/
theorem close_can_wake (s : St) (_hr : Reach s) (hl : s.lpc = .closing) : ∃ s', step s .wake = some s' := by
  cases hp : s.pendingWake with
  | true => exact ⟨{ s with bytes := s.bytes + 1, pendingWake := false }, by simp [step, hp]⟩
  | false => exact ⟨{ s with bytes := s.bytes + 1, lpc := .joining }, by simp [step, hp, hl]⟩

/-! ### readiness is reported and dispatched -/

/-- a select that returns reports every captured fd that is ready at that moment -/
theorem selected_reports_ready (s s' : St) (a res : Sets) (hs : s.spc = .selecting a)
    (h : step s (.selected res) = some s') (fd : Fd) (hfd : fd ∈ a.r) (hne : fd ≠ waker)
    (hready : s.readyR.contains fd = true) : fd ∈ res.r := by
  simp only [step, hs] at h
  split at h
  · rename_i hc
    simp only [Bool.and_eq_true, beq_iff_eq] at hc
    rw [hc.1]
    simp only [selectResult, List.mem_filter]
    have hm : fd ∈ s.readyR := by simpa using hready
    exact ⟨hfd, by simp [hne, hm]⟩
  · simp at h

/-- **quiescent_select_in_progress** (the rest-state clause of the harness oracle): in a reachable state where the loop
thread is between callbacks, `close()` has not begun, no `_handle_select` is queued and the selector thread has no enabled
step, the selector thread is inside `select`.  A rest with no select in progress cannot happen: it would mean that the
select token is gone and no readiness could ever be dispatched again. -/
theorem quiescent_select_in_progress (s : St) (hr : Reach s) (hl : s.lpc = .running) (hc : s.closingFlag = false)
    (hS : ∀ ev, ev.isS = true → step s ev = none) (hQ : s.queue = []) : ∃ a, s.spc = .selecting a := by
  have ht := token_unique s hr
  unfold tokens at ht
  have hne : ¬ (LPc.running = LPc.fresh) := by simp
  simp only [hl, hQ, hne, ↓reduceIte, List.length_nil, tokL_running] at ht
  cases hspc : s.spc with
  | exited =>
    have := exit_only_after_closing s hr hspc
    rw [hc] at this; exact absurd this (by simp)
  | selecting a => exact ⟨a, rfl⟩
  | selected r =>
    have := hS (.report r) rfl
    simp [step, hspc] at this
  | idle =>
    rw [hspc] at ht
    cases ha : s.args with
    | none => rw [ha] at ht; simp at ht
    | some a =>
      have := hS (.take a) rfl
      simp [step, hspc, hl, hc, ha] at this

/-- **no lost event, safety form** (what the harness's settle phase observes): take a reachable state in which the
loop thread is between callbacks, owes no wake-up and has not begun to close.  If the system is *quiescent* — the
selector thread has no enabled step and no `_handle_select` callback is queued — then no registered user fd is
readable and no registered fd is writable: every readiness of a registered fd forces further steps, it cannot be
slept on. -/
theorem quiescent_nothing_ready (s : St) (hr : Reach s) (hl : s.lpc = .running) (hp : s.pendingWake = false)
    (hc : s.closingFlag = false)
    (hS : ∀ ev, ev.isS = true → step s ev = none) (hQ : s.queue = []) :
    (∀ fd ∈ s.readers, fd ≠ waker → s.readyR.contains fd = false) ∧
    (∀ fd ∈ s.writers, s.readyW.contains fd = false) := by
  have ht := token_unique s hr
  unfold tokens at ht
  have hne : ¬ (LPc.running = LPc.fresh) := by simp
  simp only [hl, hQ, hne, ↓reduceIte, List.length_nil, tokL_running] at ht
  cases hspc : s.spc with
  | exited =>
    have := exit_only_after_closing s hr hspc
    rw [hc] at this; exact absurd this (by simp)
  | idle =>
    -- then the token is in `_select_args`, and `take` is enabled
    simp only [hspc, tokS_idle] at ht
    cases hargs : s.args with
    | none => simp [hargs] at ht
    | some a =>
      have := hS (.take a) rfl
      simp [step, hspc, hl, hc, hargs] at this
  | selected r =>
    have := hS (.report r) rfl
    simp [step, hspc] at this
  | selecting a =>
    have hblocked := hS (.selected (selectResult s a)) rfl
    have hempty : (selectResult s a).isEmpty = true := by
      cases he : (selectResult s a).isEmpty with
      | true => rfl
      | false => simp [step, hspc, he] at hblocked
    have hcur : a = current s := by
      by_cases hcur : a = current s
      · exact hcur
      · obtain ⟨s', hs'⟩ := stale_select_returns s hr a hspc hcur hp
        rw [hblocked] at hs'; exact absurd hs' (by simp)
    simp only [Sets.isEmpty, Bool.and_eq_true, List.isEmpty_iff] at hempty
    obtain ⟨her, hew⟩ := hempty
    subst hcur
    constructor
    · intro fd hfd hnw
      cases hrd : s.readyR.contains fd with
      | false => rfl
      | true =>
        have : fd ∈ (selectResult s (current s)).r := by
          simp only [selectResult, current, List.mem_filter]
          refine ⟨hfd, ?_⟩
          have hm : fd ∈ s.readyR := by simpa using hrd
          simp [hnw, hm]
        rw [her] at this; simp at this
    · intro fd hfd
      cases hrd : s.readyW.contains fd with
      | false => rfl
      | true =>
        have : fd ∈ (selectResult s (current s)).w := by
          simp only [selectResult, current, List.mem_filter]
          exact ⟨hfd, hrd⟩
        rw [hew] at this; simp at this

/-- **never deadlocks with work to do**: in a reachable state with the loop thread between callbacks (no wake owed,
not closing), a registered readable user fd (or a registered writable fd) always leaves some step enabled — a step of
the selector thread, or the loop running the queued `_handle_select`. -/
theorem ready_fd_forces_progress (s : St) (hr : Reach s) (hl : s.lpc = .running) (hp : s.pendingWake = false)
    (hc : s.closingFlag = false)
    (hready : (∃ fd ∈ s.readers, fd ≠ waker ∧ s.readyR.contains fd = true) ∨
              (∃ fd ∈ s.writers, s.readyW.contains fd = true)) :
    (∃ ev s', ev.isS = true ∧ step s ev = some s') ∨ (∃ res s', step s (.handleBegin res) = some s') := by
  cases hq : s.queue with
  | cons q rest =>
    right
    exact ⟨q, { s with queue := rest, lpc := .handling q.r q.w }, by simp [step, hq, lFree, hl, hp]⟩
  | nil =>
    left
    apply Classical.byContradiction
    intro hno
    have hS : ∀ ev, ev.isS = true → step s ev = none := by
      intro ev hev
      cases hst : step s ev with
      | none => rfl
      | some s' => exact absurd ⟨ev, s', hev, hst⟩ hno
    obtain ⟨hR, hW⟩ := quiescent_nothing_ready s hr hl hp hc hS hq
    rcases hready with ⟨fd, hfd, hne, hrd⟩ | ⟨fd, hfd, hrd⟩
    · rw [hR fd hfd hne] at hrd; exact absurd hrd (by simp)
    · rw [hW fd hfd] at hrd; exact absurd hrd (by simp)

/-! ### liveness: no lost event -/

/-- **some thread can always move**: in every reachable state in which a registered user fd is readable (loop thread
between callbacks or inside `_handle_select`, `close()` not begun), a progress step of the selector thread or of the
loop thread is enabled — the selector/loop pair never deadlocks while there is work to do. -/
theorem watched_can_move (fd : Fd) (s : St) (hr : Reach s) (hw : Watch fd s) :
    ∃ ev s', ev.isSys = true ∧ step s ev = some s' := by
  cases hp : s.pendingWake with
  | true => exact ⟨.wake, { s with bytes := s.bytes + 1, pendingWake := false }, rfl, by simp [step, hp]⟩
  | false =>
    rcases hw.lpc with hl | ⟨tR, tW, hl⟩
    · rcases ready_fd_forces_progress s hr hl hp hw.op (Or.inl ⟨fd, hw.reg, hw.ne, hw.rdy⟩) with
        ⟨ev, s', hS, hst⟩ | ⟨res, s', hst⟩
      · exact ⟨ev, s', isSys_of_isS ev hS, hst⟩
      · exact ⟨.handleBegin res, s', rfl, hst⟩
    · cases hsr : skipUnreg s.readers tR with
      | cons x rest =>
        by_cases hx : x = waker
        · exact ⟨.consume (min s.bytes 1024), { s with lpc := .handling rest tW, bytes := s.bytes - min s.bytes 1024 },
            rfl, by simp [step, hp, hl, hsr, hx]⟩
        · exact ⟨.dispatch false x, { s with lpc := .handling rest tW }, rfl, by simp [step, hp, hl, hsr, hx]⟩
      | nil =>
        cases hsw : skipUnreg s.writers tW with
        | cons x rest =>
          exact ⟨.dispatch true x, { s with lpc := .handling [] rest }, rfl, by simp [step, hp, hl, hsr, hsw]⟩
        | nil =>
          exact ⟨.post (current s),
            { s with lpc := .running, args := some (current s), failed := (s.failed || s.args.isSome) },
            rfl, by simp [step, hp, hl, hsr, hsw]⟩

/-- **no lost event (bounded progress)**: from every reachable state in which `fd` is a registered readable user fd
(loop thread between callbacks or inside `_handle_select`, not closing) there is a schedule of at most `rank fd s`
progress steps of the two threads — no help from the environment or from user calls — that runs `fd`'s callback. -/
theorem no_lost_event (s : St) (hr : Reach s) (fd : Fd) (hw : Watch fd s) :
    ∃ evs s', run s evs = some s' ∧ evs.length ≤ rank fd s ∧ Ev.dispatch false fd ∈ evs ∧
      ∀ e ∈ evs, e.isSys = true :=
  no_lost_event_aux fd (watched_can_move fd) (rank fd s) s hr hw (Nat.le_refl _)

/-- a user call that leaves `fd` registered keeps the situation and raises the rank by at most 2 (the wake-up it owes,
and one more callback in the fresh round) -/
theorem rank_mut (fd : Fd) (s : St) (ev : Ev) (s' : St) (hr : Reach s) (hw : Watch fd s) (hmut : ev.isMut = true)
    (hkeep : ev ≠ .removeReader fd true ∧ ev ≠ .removeReader fd false) (h : step s ev = some s') :
    Watch fd s' ∧ rank fd s' ≤ rank fd s + 2 := by
  obtain ⟨hne, hreg, hrdy, hlpc, hop⟩ := hw
  have htok : tokens s = 1 := by
    have := token_unique s hr
    rcases hlpc with hl | ⟨a, b, hl⟩ <;> simpa [hl] using this
  have hjoin : ¬ (s.lpc = .joined) := by
    rcases hlpc with hl | ⟨a, b, hl⟩ <;> simp [hl]
  cases ev with
  | addReader x =>
    simp only [step] at h
    split at h
    · rename_i hc
      simp only [Bool.and_eq_true, lMayMutate_iff] at hc
      simp only [Option.some.injEq] at h; subst h
      refine ⟨⟨hne, mem_insertKey _ _ _ hreg, hrdy, hlpc, hop⟩, ?_⟩
      have := rank_le_of fd s { s with readers := insertKey s.readers x, pendingWake := true } rfl rfl rfl rfl
        (length_insertKey _ _) hc.1.1
      omega
    · simp at h
  | addWriter x =>
    simp only [step] at h
    split at h
    · rename_i hc
      simp only [lMayMutate_iff] at hc
      simp only [Option.some.injEq] at h; subst h
      refine ⟨⟨hne, hreg, hrdy, hlpc, hop⟩, ?_⟩
      have := rank_le_of fd s { s with writers := insertKey s.writers x, pendingWake := true } rfl rfl rfl rfl
        (Nat.le_succ _) hc.1
      omega
    · simp at h
  | removeReader x found =>
    simp only [step] at h
    split at h
    · rename_i hc
      simp only [Bool.and_eq_true, beq_iff_eq] at hc
      exact absurd hc.1.1.1 hjoin
    · split at h
      · rename_i hc
        simp only [Bool.and_eq_true, lMayMutate_iff, bne_iff_ne, ne_eq, beq_iff_eq] at hc
        obtain ⟨⟨⟨hp, -⟩, -⟩, -⟩ := hc
        simp only [Option.some.injEq] at h; subst h
        have hxf : fd ≠ x := by
          intro e; subst e
          cases found
          · exact hkeep.2 rfl
          · exact hkeep.1 rfl
        refine ⟨⟨hne, mem_filter_ne _ _ _ hreg hxf, hrdy, hlpc, hop⟩, ?_⟩
        have hlen : (s.readers.filter (· != x)).length ≤ s.readers.length + 1 :=
          Nat.le_trans (List.length_filter_le _ _) (Nat.le_succ _)
        have := rank_le_of fd s { s with readers := s.readers.filter (· != x), pendingWake := found } rfl rfl rfl rfl
          hlen hp
        omega
      · simp at h
  | removeWriter x found =>
    simp only [step] at h
    split at h
    · rename_i hc
      simp only [Bool.and_eq_true, lMayMutate_iff, beq_iff_eq] at hc
      simp only [Option.some.injEq] at h; subst h
      refine ⟨⟨hne, hreg, hrdy, hlpc, hop⟩, ?_⟩
      have := rank_le_of fd s { s with writers := s.writers.filter (· != x), pendingWake := found } rfl rfl rfl rfl
        (Nat.le_succ _) hc.1.1
      omega
    · simp at h
  | _ => simp [Ev.isMut] at hmut

/-- **no lost event (every schedule)**: along *any* execution from a reachable watched state made of progress steps
of the two threads, environment steps that leave `fd` readable and user calls that leave it registered — as long as
`fd`'s callback has not run, the rank has dropped by the number of progress steps taken, up to 2 per user call … -/
theorem rank_run (fd : Fd) : ∀ (evs : List Ev) (s s' : St), Reach s → Watch fd s → run s evs = some s' →
    (∀ e ∈ evs, Allowed fd e) → Ev.dispatch false fd ∉ evs →
    Watch fd s' ∧ rank fd s' + evs.countP Ev.isSys ≤ rank fd s + 2 * evs.countP Ev.isMut := by
  intro evs
  induction evs with
  | nil =>
    intro s s' _ hw hrun _ _
    simp only [run, Option.some.injEq] at hrun
    subst hrun
    exact ⟨hw, by simp⟩
  | cons e es ih =>
    intro s s' hr hw hrun hall hno
    simp only [run] at hrun
    cases hst : step s e with
    | none => simp [hst] at hrun
    | some s1 =>
      rw [hst] at hrun
      have hne : e ≠ .dispatch false fd := fun h => hno (by rw [h]; exact List.mem_cons_self)
      have hno' : Ev.dispatch false fd ∉ es := fun h => hno (List.mem_cons_of_mem _ h)
      have hall' : ∀ x ∈ es, Allowed fd x := fun x hx => hall x (List.mem_cons_of_mem _ hx)
      have hr1 : Reach s1 := reach_step hr hst
      simp only [List.countP_cons]
      rcases hall e List.mem_cons_self with hsys | ⟨henv, hkeep⟩ | ⟨hmut, hkeep⟩
      · rcases rank_step fd s e s1 hw hsys hst with he | ⟨hw1, hlt⟩
        · exact absurd he hne
        · obtain ⟨hw2, hle⟩ := ih s1 s' hr1 hw1 hrun hall' hno'
          refine ⟨hw2, ?_⟩
          simp only [hsys, sys_not_mut e hsys, ↓reduceIte, Bool.false_eq_true]
          omega
      · obtain ⟨hw1, heq⟩ := rank_env fd s e s1 hw henv hkeep hst
        obtain ⟨hw2, hle⟩ := ih s1 s' hr1 hw1 hrun hall' hno'
        refine ⟨hw2, ?_⟩
        simp only [env_not_sys e henv, env_not_mut e henv, ↓reduceIte, Bool.false_eq_true]
        omega
      · obtain ⟨hw1, hle1⟩ := rank_mut fd s e s1 hr hw hmut hkeep hst
        obtain ⟨hw2, hle⟩ := ih s1 s' hr1 hw1 hrun hall' hno'
        refine ⟨hw2, ?_⟩
        simp only [hmut, mut_not_sys e hmut, ↓reduceIte, Bool.false_eq_true]
        omega

/-- … hence every such execution containing more than `rank fd s + 2·(user calls)` progress steps has run `fd`'s
callback: whatever the scheduler does, as long as the threads keep taking steps (and by `watched_can_move` one always
can), the event is delivered within that many progress steps. -/
theorem every_schedule_dispatches (fd : Fd) (s s' : St) (evs : List Ev) (hr : Reach s) (hw : Watch fd s)
    (hrun : run s evs = some s') (hall : ∀ e ∈ evs, Allowed fd e)
    (hmany : rank fd s + 2 * evs.countP Ev.isMut < evs.countP Ev.isSys) : Ev.dispatch false fd ∈ evs := by
  apply Classical.byContradiction
  intro hno
  have := (rank_run fd evs s s' hr hw hrun hall hno).2
  omega

/-- **no lost event, under fairness**: take any infinite execution from a reachable state in which `fd` is a registered
readable user fd, made of progress steps of the two threads, arbitrary environment steps that leave `fd` readable and
at most `M` user calls (none of which unregisters `fd`).  Assume the scheduler is fair in the weakest sense: whenever
a progress step of some thread is enabled, some progress step is eventually taken.  Then `fd`'s callback runs — no
later than the `rank fd s + 2·M + 1`-th progress step. -/
theorem no_lost_event_fair (st : Nat → St) (ev : Nat → Ev) (hok : ∀ i, step (st i) (ev i) = some (st (i + 1)))
    (hr : Reach (st 0)) (fd : Fd) (hw : Watch fd (st 0)) (hall : ∀ i, Allowed fd (ev i))
    (M : Nat) (hM : ∀ n, (pref ev n).countP Ev.isMut ≤ M)
    (hfair : ∀ i, (∃ e s', e.isSys = true ∧ step (st i) e = some s') → ∃ j, i ≤ j ∧ (ev j).isSys = true) :
    ∃ j, ev j = .dispatch false fd ∧ (pref ev j).countP Ev.isSys ≤ rank fd (st 0) + 2 * M := by
  have hallp : ∀ n, ∀ e ∈ pref ev n, Allowed fd e := by
    intro n e he
    obtain ⟨j, -, hj⟩ := mem_pref he
    rw [← hj]; exact hall j
  have hreach : ∀ n, Reach (st n) := by
    intro n
    induction n with
    | zero => exact hr
    | succ n ih => exact reach_step ih (hok n)
  -- some dispatch happens
  have hex : ∃ j, ev j = .dispatch false fd := by
    apply Classical.byContradiction
    intro hno
    have hnop : ∀ n, Ev.dispatch false fd ∉ pref ev n := by
      intro n hm
      obtain ⟨j, -, hj⟩ := mem_pref hm
      exact hno ⟨j, hj⟩
    have hwn : ∀ n, Watch fd (st n) :=
      fun n => (rank_run fd (pref ev n) (st 0) (st n) hr hw (run_pref st ev hok n) (hallp n) (hnop n)).1
    have hfair' : ∀ i, ∃ j, i ≤ j ∧ (ev j).isSys = true :=
      fun i => hfair i (watched_can_move fd (st i) (hreach i) (hwn i))
    obtain ⟨n, hn⟩ := count_pref_unbounded ev hfair' (rank fd (st 0) + 2 * M + 1)
    have := hM n
    exact hnop n (every_schedule_dispatches fd (st 0) (st n) (pref ev n) hr hw (run_pref st ev hok n) (hallp n)
      (by omega))
  -- the first one comes within the bound
  obtain ⟨j, hj, hfirst⟩ := exists_first _ hex
  refine ⟨j, hj, ?_⟩
  have hnop : Ev.dispatch false fd ∉ pref ev j := by
    intro hm
    obtain ⟨i, hi, hie⟩ := mem_pref hm
    exact hfirst i hi hie
  have := (rank_run fd (pref ev j) (st 0) (st j) hr hw (run_pref st ev hok j) (hallp j) hnop).2
  have := hM j
  omega

/-- the statement first aimed at: the same with the *constant* bound 16, whatever the number of registered fds -/
def no_lost_event_goal : Prop :=
  ∀ (s : St), Reach s → ∀ fd, fd ≠ waker → fd ∈ s.readers → s.readyR.contains fd = true →
    s.lpc = .running → s.closingFlag = false →
    ∃ evs s', run s evs = some s' ∧ evs.length ≤ 16 ∧ Ev.dispatch false fd ∈ evs ∧
      (∀ e ∈ evs, e.isS = true ∨ (match e with | .handleBegin _ | .dispatch _ _ | .consume _ | .post _ | .wake => true | _ => false) = true)

/-- it holds exactly as stated wherever the rank is at most 16 (decidable side condition) … -/
theorem no_lost_event_partial (s : St) (hr : Reach s) (fd : Fd) (hne : fd ≠ waker) (hreg : fd ∈ s.readers)
    (hrdy : s.readyR.contains fd = true) (hl : s.lpc = .running) (hc : s.closingFlag = false)
    (hsmall : rank fd s ≤ 16) :
    ∃ evs s', run s evs = some s' ∧ evs.length ≤ 16 ∧ Ev.dispatch false fd ∈ evs ∧
      (∀ e ∈ evs, e.isS = true ∨ (match e with | .handleBegin _ | .dispatch _ _ | .consume _ | .post _ | .wake => true | _ => false) = true) := by
  obtain ⟨evs, s', hrun, hlen, hmem, hall⟩ := no_lost_event s hr fd ⟨hne, hreg, hrdy, Or.inl hl, hc⟩
  exact ⟨evs, s', hrun, by omega, hmem, fun e he => (isSys_iff e).1 (hall e he)⟩

/-- … and is false in general: one `_handle_select` round runs its callbacks in order, so with 16 readable fds
registered the last one needs at least 17 steps. -/
theorem no_lost_event_refuted : ¬ no_lost_event_goal := by
  intro hg
  obtain ⟨evs, s', hrun, hlen, hmem, hall⟩ :=
    hg Refute.s0 Refute.reach_s0 Refute.target (by decide) (by decide) (by decide) rfl rfl
  have := Refute.s0_needs_17 evs s' hrun (fun e he => (isSys_iff e).2 (hall e he)) hmem
  omega

example : Reach init := ⟨[], rfl⟩

/-- non-vacuity: a reachable state in which the selector thread is inside `select` on stale sets -/
example : ∃ s, Reach s ∧ s.spc = .selecting ⟨[0], []⟩ ∧ (⟨[0], []⟩ : Sets) ≠ current s ∧ s.bytes > 0 :=
  ⟨_, ⟨[.start ⟨[0], []⟩, .take ⟨[0], []⟩, .addReader 3, .wake], rfl⟩, rfl, by decide, by decide⟩

/-- non-vacuity: a reachable state in which `close()` waits in `join` while the selector thread is in `select` -/
example : ∃ s, Reach s ∧ s.lpc = .joining ∧ s.spc = .selecting ⟨[0], []⟩ :=
  ⟨_, ⟨[.start ⟨[0], []⟩, .take ⟨[0], []⟩, .selected ⟨[0], []⟩, .report ⟨[0], []⟩, .handleBegin ⟨[0], []⟩,
        .consume 1, .post ⟨[0], []⟩, .take ⟨[0], []⟩, .setClosing, .wake], rfl⟩, rfl, rfl⟩

/-! ### non-vacuity of the liveness theorems -/

/-- a small watched state: fd 3 registered and readable while the posted select arguments are still the stale `[0]` -/
def exSmall : List Ev := [.start ⟨[0], []⟩, .addReader 3, .wake, .ready false 3]

/-- `Watch` is satisfiable in a reachable state (hypotheses of `watched_can_move`, `no_lost_event`, `rank_step`,
`no_lost_event_partial`); there the rank is 12 ≤ 16: stale round (take, selected, report, handleBegin, consume, post)
+ fresh round (take, selected, report, handleBegin, consume? no: bytes are gone, dispatch) -/
example : ∃ s, run init exSmall = some s ∧ Watch 3 s ∧ s.lpc = .running ∧ rank 3 s = 12 :=
  ⟨_, rfl, ⟨by decide, by decide, by decide, Or.inl rfl, rfl⟩, rfl, by decide⟩

/-- … and in the 16-fd state of the refutation the rank is 21 (the real minimum there is 20) -/
example : Reach Refute.s0 ∧ Watch 16 Refute.s0 ∧ rank 16 Refute.s0 = 21 :=
  ⟨Refute.reach_s0, ⟨by decide, by decide, by decide, Or.inl rfl, rfl⟩, by decide⟩

/-- an execution with environment noise and a user call that satisfies the hypotheses of `rank_run` /
`every_schedule_dispatches`: one user call, 15 progress steps > rank 12 + 2, and indeed fd 3 is dispatched -/
def exRun : List Ev :=
  [.addWriter 7, .wake, .take ⟨[0], []⟩, .ready true 4, .selected ⟨[0], []⟩, .report ⟨[0], []⟩, .handleBegin ⟨[0], []⟩,
   .consume 3, .unready true 4, .post ⟨[0, 3], [7]⟩, .take ⟨[0, 3], [7]⟩, .selected ⟨[3], []⟩, .report ⟨[3], []⟩,
   .ready false 5, .handleBegin ⟨[3], []⟩, .dispatch false 3, .post ⟨[0, 3], [7]⟩, .take ⟨[0, 3], [7]⟩,
   .selected ⟨[3], []⟩]

example : ∃ s s', run init exSmall = some s ∧ run s exRun = some s' ∧ (∀ e ∈ exRun, Allowed 3 e) ∧
    rank 3 s + 2 * exRun.countP Ev.isMut < exRun.countP Ev.isSys ∧ Ev.dispatch false 3 ∈ exRun :=
  ⟨_, _, rfl, rfl, by decide, by decide, by decide⟩

/-- a fair infinite execution (hypotheses of `no_lost_event_fair`): fd 3 stays readable, the six-step round
take → selected → report → handleBegin → dispatch → post repeats for ever -/
def cyc0 : St :=
  { readers := [0, 3], writers := [], args := some ⟨[0, 3], []⟩, closingFlag := false, bytes := 0, queue := [],
    spc := .idle, lpc := .running, pendingWake := false, readyR := [3], readyW := [], failed := false }

def cycSt (i : Nat) : St :=
  match i % 6 with
  | 0 => cyc0
  | 1 => { cyc0 with args := none, spc := .selecting ⟨[0, 3], []⟩ }
  | 2 => { cyc0 with args := none, spc := .selected ⟨[3], []⟩ }
  | 3 => { cyc0 with args := none, queue := [⟨[3], []⟩] }
  | 4 => { cyc0 with args := none, lpc := .handling [3] [] }
  | _ => { cyc0 with args := none, lpc := .handling [] [] }

def cycEv (i : Nat) : Ev :=
  match i % 6 with
  | 0 => .take ⟨[0, 3], []⟩
  | 1 => .selected ⟨[3], []⟩
  | 2 => .report ⟨[3], []⟩
  | 3 => .handleBegin ⟨[3], []⟩
  | 4 => .dispatch false 3
  | _ => .post ⟨[0, 3], []⟩

example : (∀ i, step (cycSt i) (cycEv i) = some (cycSt (i + 1))) ∧ Reach (cycSt 0) ∧ Watch 3 (cycSt 0) ∧
    (∀ i, Allowed 3 (cycEv i)) ∧ (∀ n, (pref cycEv n).countP Ev.isMut ≤ 0) ∧
    (∀ i, (∃ e s', e.isSys = true ∧ step (cycSt i) e = some s') → ∃ j, i ≤ j ∧ (cycEv j).isSys = true) := by
  have hsys : ∀ i, (cycEv i).isSys = true := by
    intro i
    have h : i % 6 = 0 ∨ i % 6 = 1 ∨ i % 6 = 2 ∨ i % 6 = 3 ∨ i % 6 = 4 ∨ i % 6 = 5 := by omega
    rcases h with h | h | h | h | h | h <;> simp [cycEv, h, Ev.isSys]
  have hnomut : ∀ n, (pref cycEv n).countP Ev.isMut ≤ 0 := by
    intro n
    apply Nat.le_of_eq
    apply List.countP_eq_zero.2
    intro e he
    obtain ⟨j, -, hj⟩ := mem_pref he
    rw [← hj, sys_not_mut _ (hsys j)]
    simp
  refine ⟨?_, ?_, ⟨by decide, by decide, by decide, Or.inl rfl, rfl⟩, fun i => Or.inl (hsys i), hnomut,
    fun i _ => ⟨i, Nat.le_refl _, hsys i⟩⟩
  · intro i
    have h : i % 6 = 0 ∨ i % 6 = 1 ∨ i % 6 = 2 ∨ i % 6 = 3 ∨ i % 6 = 4 ∨ i % 6 = 5 := by omega
    rcases h with h | h | h | h | h | h
    · have h' : (i + 1) % 6 = 1 := by omega
      simp only [cycSt, cycEv, h, h']; decide
    · have h' : (i + 1) % 6 = 2 := by omega
      simp only [cycSt, cycEv, h, h']; decide
    · have h' : (i + 1) % 6 = 3 := by omega
      simp only [cycSt, cycEv, h, h']; decide
    · have h' : (i + 1) % 6 = 4 := by omega
      simp only [cycSt, cycEv, h, h']; decide
    · have h' : (i + 1) % 6 = 5 := by omega
      simp only [cycSt, cycEv, h, h']; decide
    · have h' : (i + 1) % 6 = 0 := by omega
      simp only [cycSt, cycEv, h, h']; decide
  · exact ⟨exSmall ++ [.take ⟨[0], []⟩, .selected ⟨[0], []⟩, .report ⟨[0], []⟩, .handleBegin ⟨[0], []⟩, .consume 2,
      .post ⟨[0, 3], []⟩], by decide⟩

end TornadoModel.C40
