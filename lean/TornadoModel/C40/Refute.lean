/-
C40 — the counterexample to the *constant* bound of `no_lost_event_goal` (16 steps whatever the number of fds):
a reachable state with 16 readable user fds registered, the last of which cannot be dispatched in fewer than 17
progress steps, because `_handle_select` runs the callbacks of one round in order.

`pot` is a potential that every progress step lowers by at most one and that must be 0 when the callback of
`target` runs.
-/
import TornadoModel.C40.Live
namespace TornadoModel.C40.Refute
open TornadoModel.C40

def RR : List Fd := [1, 2, 3, 4, 5, 6, 7, 8, 9, 10, 11, 12, 13, 14, 15, 16]
def R : List Fd := 0 :: RR
def target : Fd := 16

/-- all 16 user fds registered and readable, the first (stale) round is over, fresh arguments are posted -/
def s0 : St :=
  { readers := R, writers := [], args := some ⟨R, []⟩, closingFlag := false, bytes := 0, queue := [],
    spc := .idle, lpc := .running, pendingWake := false, readyR := RR, readyW := [], failed := false }

def evs0 : List Ev :=
  [.start ⟨[0], []⟩] ++ RR.flatMap (fun k => [.addReader k, .wake]) ++ RR.map (fun k => .ready false k) ++
  [.take ⟨[0], []⟩, .selected ⟨[0], []⟩, .report ⟨[0], []⟩, .handleBegin ⟨[0], []⟩, .consume 17, .post ⟨R, []⟩]

theorem reach_s0 : Reach s0 := ⟨evs0, by decide⟩

def tails : List Fd → List (List Fd)
  | [] => [[]]
  | x :: xs => (x :: xs) :: tails xs

def pot (s : St) : Nat :=
  match s.lpc with
  | .handling tR _ => tR.idxOf target
  | _ => 16

structure J (s : St) : Prop where
  readers : s.readers = R
  readyR : s.readyR = RR
  args : ∀ a, s.args = some a → a.r = R
  selecting : ∀ a, s.spc = .selecting a → a.r = R
  selected : ∀ r, s.spc = .selected r → (r.r = R ∨ r.r = RR)
  queue : ∀ q ∈ s.queue, (q.r = R ∨ q.r = RR)
  handling : ∀ tR tW, s.lpc = .handling tR tW → tR ∈ tails R

theorem J_s0 : J s0 where
  readers := rfl
  readyR := rfl
  args := by intro a h; simp only [s0, Option.some.injEq] at h; subst h; rfl
  selecting := by intro a h; simp [s0] at h
  selected := by intro a h; simp [s0] at h
  queue := by intro q h; simp [s0] at h
  handling := by intro a b h; simp [s0] at h

theorem tails_tail : ∀ t ∈ tails R, t.tail ∈ tails R := by decide
theorem tails_skip : ∀ t ∈ tails R, skipUnreg R t = t := by decide
theorem tails_idx : ∀ t ∈ tails R, t.idxOf target ≤ 17 := by decide
theorem nil_tails : ([] : List Fd) ∈ tails R := by decide
theorem R_tails : R ∈ tails R := by decide
theorem RR_tails : RR ∈ tails R := by decide
theorem RR_ready : ∀ x ∈ RR, (x ≠ 0 ∧ RR.contains x = true) := by decide

theorem sel_R (s : St) (a : Sets) (ha : a.r = R) (hr : s.readyR = RR) :
    (selectResult s a).r = R ∨ (selectResult s a).r = RR := by
  have hRR : RR.filter (fun fd => if fd = waker then decide (s.bytes > 0) else RR.contains fd) = RR := by
    apply List.filter_eq_self.2
    intro x hx
    obtain ⟨h0, hc⟩ := RR_ready x hx
    simp [waker, h0, hx]
  simp only [selectResult, ha, hr, R, List.filter_cons, hRR]
  by_cases hb : s.bytes > 0
  · left; simp [waker, hb]
  · right; simp [waker, hb]

theorem good_tails {l : List Fd} (h : l = R ∨ l = RR) : l ∈ tails R := by
  rcases h with h | h <;> subst h
  · exact R_tails
  · exact RR_tails

theorem good_idx {l : List Fd} (h : l = R ∨ l = RR) : 15 ≤ l.idxOf target := by
  rcases h with h | h <;> subst h <;> decide

/-- every progress step keeps `J`, lowers the potential by at most one, and `target`'s callback needs potential 0 -/
theorem J_step (s : St) (ev : Ev) (s' : St) (hj : J s) (hsys : ev.isSys = true) (h : step s ev = some s') :
    J s' ∧ pot s ≤ pot s' + 1 ∧ (ev = .dispatch false target → pot s = 0) := by
  obtain ⟨jr, jy, ja, jsg, jsd, jq, jh⟩ := hj
  cases ev with
  | take a =>
    simp only [step] at h
    split at h
    · rename_i hc
      simp only [Bool.and_eq_true, beq_iff_eq, bne_iff_ne, ne_eq, Bool.not_eq_true'] at hc
      obtain ⟨⟨⟨h1, h2⟩, h3⟩, h4⟩ := hc
      simp only [Option.some.injEq] at h; subst h
      refine ⟨⟨jr, jy, ?_, ?_, ?_, jq, jh⟩, by simp [pot], by simp⟩
      · intro b hb; simp at hb
      · intro b hb
        simp only [SPc.selecting.injEq] at hb
        subst hb; exact ja a h4
      · intro b hb; simp at hb
    · simp at h
  | sexit =>
    simp only [step] at h
    split at h
    · simp only [Option.some.injEq] at h; subst h
      refine ⟨⟨jr, jy, ja, ?_, ?_, jq, jh⟩, by simp [pot], by simp⟩
      · intro b hb; simp at hb
      · intro b hb; simp at hb
    · simp at h
  | selected res =>
    simp only [step] at h
    split at h
    · rename_i a hsp
      split at h
      · rename_i hc
        simp only [Bool.and_eq_true, beq_iff_eq] at hc
        simp only [Option.some.injEq] at h; subst h
        refine ⟨⟨jr, jy, ja, ?_, ?_, jq, jh⟩, by simp [pot], by simp⟩
        · intro b hb; simp at hb
        · intro b hb
          simp only [SPc.selected.injEq] at hb
          subst hb
          rw [hc.1]
          exact sel_R s a (jsg a hsp) jy
      · simp at h
    · simp at h
  | report res =>
    simp only [step] at h
    split at h
    · rename_i r hsp
      split at h
      · rename_i hc
        simp only [beq_iff_eq] at hc
        simp only [Option.some.injEq] at h; subst h
        refine ⟨⟨jr, jy, ja, ?_, ?_, ?_, jh⟩, by simp [pot], by simp⟩
        · intro b hb; simp at hb
        · intro b hb; simp at hb
        · intro q hq
          rcases List.mem_append.1 hq with hq | hq
          · exact jq q hq
          · simp only [List.mem_singleton] at hq
            subst hq; subst hc
            exact jsd r hsp
      · simp at h
    · simp at h
  | handleBegin res =>
    simp only [step] at h
    split at h
    · rename_i q rest hq
      split at h
      · rename_i hc
        simp only [Bool.and_eq_true, lFree, beq_iff_eq, Bool.not_eq_true'] at hc
        obtain ⟨⟨hl, hp⟩, hqr⟩ := hc
        simp only [Option.some.injEq] at h; subst h
        have hgood : res.r = R ∨ res.r = RR := by
          subst hqr; exact jq q (by rw [hq]; exact List.mem_cons_self)
        refine ⟨⟨jr, jy, ja, jsg, jsd, ?_, ?_⟩, ?_, by simp⟩
        · intro b hb; exact jq b (by rw [hq]; exact List.mem_cons_of_mem _ hb)
        · intro a b hab
          simp only [LPc.handling.injEq] at hab
          rw [← hab.1]; exact good_tails hgood
        · have := good_idx hgood
          simp only [pot, hl]
          omega
      · simp at h
    · simp at h
  | dispatch isW x =>
    simp only [step] at h
    split at h
    · simp at h
    · split at h
      · rename_i todoR todoW hl
        have hmem := jh todoR todoW hl
        have hskip : skipUnreg s.readers todoR = todoR := by rw [jr]; exact tails_skip todoR hmem
        split at h
        · split at h
          · rename_i y rest hsr hsw
            split at h
            · simp only [Option.some.injEq] at h; subst h
              rw [hskip] at hsr
              refine ⟨⟨jr, jy, ja, jsg, jsd, jq, ?_⟩, ?_, ?_⟩
              · intro a b hab
                simp only [LPc.handling.injEq] at hab
                rw [← hab.1]; exact nil_tails
              · simp [pot, hl, hsr]
              · intro he; simp_all
            · simp at h
          · simp at h
        · split at h
          · rename_i y rest hsr
            split at h
            · rename_i hc
              simp only [Bool.and_eq_true, beq_iff_eq, bne_iff_ne, ne_eq] at hc
              simp only [Option.some.injEq] at h; subst h
              rw [hskip] at hsr
              have hrest : rest ∈ tails R := by
                have := tails_tail todoR hmem
                rw [hsr] at this; exact this
              refine ⟨⟨jr, jy, ja, jsg, jsd, jq, ?_⟩, ?_, ?_⟩
              · intro a b hab
                simp only [LPc.handling.injEq] at hab
                rw [← hab.1]; exact hrest
              · simp only [pot, hl, hsr, List.idxOf_cons]
                cases (y == target) <;> simp
              · intro he
                simp only [Ev.dispatch.injEq] at he
                simp only [pot, hl, hsr, hc.1, he.2, List.idxOf_cons_self]
            · simp at h
          · simp at h
      · simp at h
  | consume n =>
    simp only [step] at h
    split at h
    · simp at h
    · split at h
      · rename_i todoR todoW hl
        have hmem := jh todoR todoW hl
        have hskip : skipUnreg s.readers todoR = todoR := by rw [jr]; exact tails_skip todoR hmem
        split at h
        · rename_i y rest hsr
          split at h
          · simp only [Option.some.injEq] at h; subst h
            rw [hskip] at hsr
            have hrest : rest ∈ tails R := by
              have := tails_tail todoR hmem
              rw [hsr] at this; exact this
            refine ⟨⟨jr, jy, ja, jsg, jsd, jq, ?_⟩, ?_, by simp⟩
            · intro a b hab
              simp only [LPc.handling.injEq] at hab
              rw [← hab.1]; exact hrest
            · simp only [pot, hl, hsr, List.idxOf_cons]
              cases (y == target) <;> simp
          · simp at h
        · simp at h
      · simp at h
  | post a =>
    simp only [step] at h
    split at h
    · simp at h
    · split at h
      · rename_i todoR todoW hl
        split at h
        · rename_i hc
          simp only [Bool.and_eq_true, List.isEmpty_iff, beq_iff_eq] at hc
          simp only [Option.some.injEq] at h; subst h
          refine ⟨⟨jr, jy, ?_, jsg, jsd, jq, ?_⟩, ?_, by simp⟩
          · intro b hb
            simp only [Option.some.injEq] at hb
            rw [← hb, hc.2]; exact jr
          · intro a b hab; simp at hab
          · have := tails_idx todoR (jh todoR todoW hl)
            simp only [pot, hl]
            omega
        · simp at h
      · simp at h
  | wake =>
    simp only [step] at h
    split at h
    · simp only [Option.some.injEq] at h; subst h
      exact ⟨⟨jr, jy, ja, jsg, jsd, jq, jh⟩, by simp [pot], by simp⟩
    · split at h
      · rename_i hc
        simp only [beq_iff_eq] at hc
        simp only [Option.some.injEq] at h; subst h
        refine ⟨⟨jr, jy, ja, jsg, jsd, jq, ?_⟩, by simp [pot, hc], by simp⟩
        intro a b hab; simp at hab
      · simp at h
  | _ => simp [Ev.isSys] at hsys

/-- from a `J` state, `target`'s callback is preceded by at least `pot` progress steps -/
theorem lower_bound : ∀ (evs : List Ev) (s s' : St), J s → run s evs = some s' →
    (∀ e ∈ evs, e.isSys = true) → Ev.dispatch false target ∈ evs → pot s < evs.length := by
  intro evs
  induction evs with
  | nil => intro s s' _ _ _ hm; simp at hm
  | cons e es ih =>
    intro s s' hj hrun hall hm
    simp only [run] at hrun
    cases hst : step s e with
    | none => simp [hst] at hrun
    | some s1 =>
      rw [hst] at hrun
      obtain ⟨hj1, hpot, hzero⟩ := J_step s e s1 hj (hall e List.mem_cons_self) hst
      by_cases he : e = .dispatch false target
      · rw [hzero he]; simp
      · have hm' : Ev.dispatch false target ∈ es := by
          rcases List.mem_cons.1 hm with h | h
          · exact absurd h.symm he
          · exact h
        have := ih s1 s' hj1 hrun (fun x hx => hall x (List.mem_cons_of_mem _ hx)) hm'
        simp only [List.length_cons]
        omega

/-- from `s0`, no schedule of at most 16 progress steps runs the callback of fd 16 -/
theorem s0_needs_17 (evs : List Ev) (s' : St) (hrun : run s0 evs = some s') (hall : ∀ e ∈ evs, e.isSys = true)
    (hm : Ev.dispatch false target ∈ evs) : 16 < evs.length :=
  lower_bound evs s0 s' J_s0 hrun hall hm

end TornadoModel.C40.Refute
